(* C05Proofs.v — lemmas for C05 (documents are faithful persistent dicts; buffering transparent). *)
From SV Require Import Base Json Canon Doc CorrC05.

(* ------------------------------------------------------------------ association lists keyed by N *)
Section NA.
  Context {A : Type}.
  Lemma nlookup_nset_same : forall k (v : A) l, nlookup k (nset k v l) = Some v.
  Proof.
    induction l as [|[k' v'] l IH]; simpl.
    - rewrite N.eqb_refl. reflexivity.
    - destruct (N.eqb k k') eqn:E; simpl; rewrite E; auto.
  Qed.
  Lemma nlookup_nset_other : forall k k' (v : A) l, k <> k' -> nlookup k' (nset k v l) = nlookup k' l.
  Proof.
    induction l as [|[k2 v2] l IH]; simpl; intro Hne.
    - assert (E : N.eqb k' k = false) by (apply N.eqb_neq; auto). rewrite E. reflexivity.
    - destruct (N.eqb k k2) eqn:E; simpl.
      + apply N.eqb_eq in E. subst k2. assert (E2 : N.eqb k' k = false) by (apply N.eqb_neq; auto). rewrite E2. reflexivity.
      + destruct (N.eqb k' k2); auto.
  Qed.
  Lemma nlookup_nremove_same : forall k (l : list (N * A)), nlookup k (nremove k l) = None.
  Proof.
    induction l as [|[k' v'] l IH]; simpl; auto.
    destruct (N.eqb k k') eqn:E; simpl; auto. rewrite E. auto.
  Qed.
  Lemma nlookup_nremove_other : forall k k' (l : list (N * A)), k <> k' -> nlookup k' (nremove k l) = nlookup k' l.
  Proof.
    induction l as [|[k2 v2] l IH]; simpl; intro Hne; auto.
    destruct (N.eqb k k2) eqn:E; simpl.
    - apply N.eqb_eq in E. subst k2. assert (E2 : N.eqb k' k = false) by (apply N.eqb_neq; auto). rewrite E2. auto.
    - destruct (N.eqb k' k2); auto.
  Qed.
End NA.

Ltac nsimp :=
  repeat first
    [ rewrite nlookup_nset_same
    | rewrite nlookup_nremove_same
    | rewrite nlookup_nset_other by (auto; congruence)
    | rewrite nlookup_nremove_other by (auto; congruence) ].

Ltac nsimp_in H :=
  repeat first
    [ rewrite nlookup_nset_same in H
    | rewrite nlookup_nremove_same in H
    | rewrite nlookup_nset_other in H by (auto; congruence)
    | rewrite nlookup_nremove_other in H by (auto; congruence) ].

(* ------------------------------------------------------------------ merge *)
Lemma json_eqb_refl : forall a, json_eqb a a = true.
Proof. intro a. apply json_eqb_eq. reflexivity. Qed.

Lemma merge_same : forall m, merge m m = m.
Proof. intro m. unfold merge. rewrite json_eqb_refl. reflexivity. Qed.

Definition is_obj (v : json) : Prop := exists kvs, v = JObj kvs.

Lemma merge_obj_obj : forall a b, is_obj a -> is_obj b -> is_obj (merge a b).
Proof.
  intros a b [o ->] [n ->]. unfold merge. destruct (json_eqb (JObj o) (JObj n)); [eexists; reflexivity|].
  simpl. destruct (_ && _); eexists; reflexivity.
Qed.

Lemma filter_all : forall A (f : A -> bool) l, (forall x, In x l -> f x = true) -> filter f l = l.
Proof.
  induction l as [|x l IH]; simpl; intro H; auto. rewrite (H x) by auto. f_equal. apply IH. auto.
Qed.

(* a collection that holds nothing takes over whatever the file holds *)
Lemma merge_empty : forall n, merge empty_obj (JObj n) = JObj n.
Proof.
  intro n. unfold merge, empty_obj. destruct (json_eqb (JObj []) (JObj n)) eqn:E.
  - apply json_eqb_eq in E. exact E.
  - simpl. destruct n as [|kv n]; [reflexivity|]. simpl. f_equal.
    apply (filter_all _ (fun kv0 : str * json => negb (@amem json (fst kv0) [])) (kv :: n)). intros x _. reflexivity.
Qed.

(* ------------------------------------------------------------------ the simulation invariant *)
(* in sync with the file: loading would change nothing; a collection whose file does not exist is empty *)
Definition insync (m : json) (fo : option json) : Prop :=
  match fo with
  | None => m = empty_obj
  | Some v => merge m v = v /\ is_obj v
  end.

Definition fileB (B : cstate) f := nlookup f (files B).

Definition hinv (B U : cstate) (f : N) (m : json) : Prop :=
  is_obj m /\
  match nlookup f (buf B) with
  | None =>
      (nlookup f (files B) = nlookup f (files U) /\ insync m (nlookup f (files U)))
      \/ (nlookup f (files B) = None /\ nlookup f (files U) = Some m /\ m = empty_obj)
  | Some e =>
      b_contents e = m /\
      ((nlookup f (files B) = None /\ (b_hash e = JNull \/ b_hash e = empty_obj))
       \/ nlookup f (files B) = Some (b_hash e)) /\
      ((b_hash e = m /\ (nlookup f (files U) = Some m
                         \/ (nlookup f (files U) = None /\ nlookup f (files B) = None)))
       \/ nlookup f (files U) = Some m)
  end.

Record Inv0 (B U : cstate) : Prop := {
  i_depthU : depth U = 0%nat;
  i_mems : forall h, nlookup h (mems B) = nlookup h (mems U);
  i_inj : forall h h' f m m', nlookup h (mems B) = Some (f, m) -> nlookup h' (mems B) = Some (f, m') -> h = h';
  i_h : forall h f m, nlookup h (mems B) = Some (f, m) -> hinv B U f m;
  i_free : forall f, (forall h m, nlookup h (mems B) <> Some (f, m)) -> nlookup f (files B) = nlookup f (files U);
  i_reg : forall f e, nlookup f (buf B) = Some e -> exists h m, In h (reg B) /\ nlookup h (mems B) = Some (f, m);
  (* every directory exists, no OSError was raised, and a buffered file has not changed on disk since it was buffered *)
  i_nwB : nowrite (dk B) = [];
  i_nwU : nowrite (dk U) = [];
  i_oB : oerr_of B = false;
  i_oU : oerr_of U = false;
  i_meta : forall f e, nlookup f (buf B) = Some e -> b_meta e = nlookup f (vers (dk B))
}.

Definition Inv (B U : cstate) : Prop :=
  Inv0 B U /\ (depth B = 0%nat -> forall f, nlookup f (buf B) = None).

(* hinv only looks at the file f in files/buf *)
Lemma hinv_frame : forall B U B' U' f m,
  nlookup f (buf B') = nlookup f (buf B) -> nlookup f (files B') = nlookup f (files B) ->
  nlookup f (files U') = nlookup f (files U) -> hinv B U f m -> hinv B' U' f m.
Proof. intros B U B' U' f m H1 H2 H3 H. unfold hinv in *. rewrite H1, H2, H3. exact H. Qed.

Ltac csplit := repeat match goal with |- _ /\ _ => split end.

Section Sim.
  Variable frepr : fl -> str.
  (* project paths are canonical: a key is the file it denotes *)
  Notation idk := (fun k : N => k).
  Notation flush_one := (flush_one merge idk).
  Notation flush_all := (flush_all merge idk).
  Notation check_capacity := (check_capacity frepr merge idk).
  Notation set_capacity := (set_capacity frepr merge idk).
  Notation load := (load frepr merge idk).
  Notation save := (save frepr merge idk).
  Notation cop := (cop frepr merge idk).
  Notation cstep := (cstep frepr merge idk).
  Notation crun := (crun frepr merge idk).

  Lemma nset_lookup_id : forall (mm : list (N * (N * json))) h v x,
    nlookup h mm = Some v -> nlookup x (nset h v mm) = nlookup x mm.
  Proof.
    intros mm h v x H. destruct (N.eq_dec h x) as [->|Hne]; nsimp; auto.
  Qed.

  Lemma flush_one_noop : forall B h,
    (nlookup h (mems B) = None \/ exists f m, nlookup h (mems B) = Some (f, m) /\ nlookup f (buf B) = None) ->
    flush_one B h = B.
  Proof.
    intros B h [H|(f & m & H1 & H2)]; unfold Doc.flush_one; [rewrite H|rewrite H1, H2]; reflexivity.
  Qed.

  Lemma ometa_eqb_refl : forall a, ometa_eqb a a = true.
  Proof. intros [x|]; simpl; [apply N.eqb_refl|reflexivity]. Qed.

  Lemma flush_one_spec : forall B h f m e,
    nlookup h (mems B) = Some (f, m) -> nlookup f (buf B) = Some e -> b_contents e = m ->
    b_meta e = nlookup f (vers (dk B)) -> nowrite (dk B) = [] ->
    let B' := flush_one B h in
    (forall x, nlookup x (mems B') = nlookup x (mems B)) /\
    buf B' = nremove f (buf B) /\
    files B' = (if json_eqb m (b_hash e) then files B else nset f m (files B)) /\
    reg B' = reg B /\ depth B' = depth B /\ cap B' = cap B /\ caps B' = caps B /\
    nowrite (dk B') = [] /\ ferr_of B' = ferr_of B /\ oerr_of B' = oerr_of B /\
    (forall f0, f0 <> f -> nlookup f0 (vers (dk B')) = nlookup f0 (vers (dk B))).
  Proof.
    intros B h f m e Hm He Hc Hme Hnw. cbv zeta. unfold Doc.flush_one; cbv beta. rewrite Hm, He, Hc, merge_same.
    destruct (json_eqb m (b_hash e)); [simpl; repeat split; auto|].
    rewrite Hme, ometa_eqb_refl, Hnw. simpl. repeat split; auto.
    - intro x. apply nset_lookup_id. exact Hm.
    - intros f0 Hne. apply nlookup_nset_other. auto.
  Qed.

  Lemma is_obj_not_null : forall m, is_obj m -> m <> JNull.
  Proof. intros m [o ->]. discriminate. Qed.

  Lemma flush_one_inv : forall B U h, Inv0 B U -> Inv0 (flush_one B h) U.
  Proof.
    intros B U h I.
    destruct (nlookup h (mems B)) as [[f m]|] eqn:Hm; [|rewrite flush_one_noop; auto].
    destruct (nlookup f (buf B)) as [e|] eqn:He; [|rewrite flush_one_noop; eauto].
    pose proof (i_h B U I h f m Hm) as Hh. unfold hinv in Hh. rewrite He in Hh.
    destruct Hh as (Hobj & Hc & H0 & Hcd).
    destruct (flush_one_spec B h f m e Hm He Hc (i_meta B U I f e He) (i_nwB B U I)) as (Sm & Sb & Sf & Sr & Sd & _ & _ & Snw & _ & So & Sv).
    set (B' := flush_one B h) in *.
    constructor.
    - apply (i_depthU B U I).
    - intro x. rewrite Sm. apply (i_mems B U I).
    - intros x x' f0 m0 m0'. rewrite !Sm. apply (i_inj B U I).
    - intros x f0 m0 Hx. rewrite Sm in Hx.
      destruct (N.eq_dec f0 f) as [->|Hne].
      + assert (x = h) by (eapply (i_inj B U I); eauto). subst x. rewrite Hm in Hx. inversion Hx; subst m0.
        unfold hinv. split; [exact Hobj|]. rewrite Sb, Sf. nsimp.
        destruct (json_eqb m (b_hash e)) eqn:E.
        * apply json_eqb_eq in E.
          destruct H0 as [[Hn Hj]|Hs].
          -- (* no file in B and nothing was written *)
             assert (Hme : m = empty_obj).
             { destruct Hj as [Hj|Hj]; [exfalso; apply (is_obj_not_null m Hobj); congruence|congruence]. }
             destruct Hcd as [[_ [Hu|[Hu _]]]|Hu].
             ++ right. auto.
             ++ left. split; [congruence|]. rewrite Hu. exact Hme.
             ++ right. auto.
          -- rewrite <- E in Hs.
             destruct Hcd as [[_ [Hu|[Hu Hb]]]|Hu].
             ++ left. split; [congruence|]. rewrite Hu. split; [apply merge_same|exact Hobj].
             ++ congruence.
             ++ left. split; [congruence|]. rewrite Hu. split; [apply merge_same|exact Hobj].
        * (* the buffered data is written *)
          nsimp. destruct Hcd as [[Hhm _]|Hu].
          -- exfalso. rewrite Hhm, json_eqb_refl in E. discriminate.
          -- left. split; [congruence|]. rewrite Hu. split; [apply merge_same|exact Hobj].
      + eapply hinv_frame; [| | |apply (i_h B U I x f0 m0 Hx)].
        * rewrite Sb. nsimp. reflexivity.
        * rewrite Sf. destruct (json_eqb m (b_hash e)); nsimp; reflexivity.
        * reflexivity.
    - intros f0 Hf0. rewrite Sf.
      assert (Hne : f0 <> f) by (intro Heq; apply (Hf0 h m); rewrite Sm, Heq; exact Hm).
      destruct (json_eqb m (b_hash e)); nsimp; apply (i_free B U I); intros x mx; rewrite <- Sm; apply Hf0.
    - intros f0 e0 H. rewrite Sb in H. rewrite Sr.
      destruct (N.eq_dec f f0) as [->|Hne]; [rewrite nlookup_nremove_same in H; discriminate|].
      rewrite nlookup_nremove_other in H by exact Hne.
      destruct (i_reg B U I f0 e0 H) as (x & mx & Hin & Hx). exists x, mx. rewrite Sm. auto.
    - exact Snw.
    - apply (i_nwU B U I).
    - rewrite So. apply (i_oB B U I).
    - apply (i_oU B U I).
    - intros f0 e0 H. rewrite Sb in H.
      destruct (N.eq_dec f f0) as [->|Hne]; [rewrite nlookup_nremove_same in H; discriminate|].
      rewrite nlookup_nremove_other in H by exact Hne. rewrite Sv by auto. apply (i_meta B U I f0 e0 H).
  Qed.

  Lemma flush_one_ferr : forall B U h, Inv0 B U -> ferr_of (flush_one B h) = ferr_of B.
  Proof.
    intros B U h I.
    destruct (nlookup h (mems B)) as [[f m]|] eqn:Hm; [|rewrite flush_one_noop; auto].
    destruct (nlookup f (buf B)) as [e|] eqn:He; [|rewrite flush_one_noop; eauto].
    pose proof (i_h B U I h f m Hm) as Hh. unfold hinv in Hh. rewrite He in Hh.
    destruct Hh as (_ & Hc & _).
    destruct (flush_one_spec B h f m e Hm He Hc (i_meta B U I f e He) (i_nwB B U I)) as (_ & _ & _ & _ & _ & _ & _ & _ & Sf & _).
    exact Sf.
  Qed.


  (* flush_one never creates an entry, and removes the one of its own file *)
  Lemma flush_one_buf : forall B h f0 e0,
    nlookup f0 (buf (flush_one B h)) = Some e0 -> nlookup f0 (buf B) = Some e0.
  Proof.
    intros B h f0 e0 H. unfold Doc.flush_one in H; cbv beta in H.
    destruct (nlookup h (mems B)) as [[f m]|]; [|exact H].
    destruct (nlookup f (buf B)) as [e|] eqn:He; [|exact H].
    assert (G : forall st1, buf st1 = buf B -> nlookup f0 (buf (with_buf st1 (nremove f (buf st1)))) = Some e0 -> nlookup f0 (buf B) = Some e0).
    { intros st1 E H1. simpl in H1. rewrite E in H1.
      destruct (N.eq_dec f f0) as [->|Hne]; [rewrite nlookup_nremove_same in H1; discriminate|].
      rewrite nlookup_nremove_other in H1 by exact Hne. exact H1. }
    destruct (json_eqb m (b_hash e)); [eapply G; [|exact H]; reflexivity|].
    destruct (negb (ometa_eqb (b_meta e) (nlookup f (vers (dk B))))); [eapply G; [|exact H]; reflexivity|].
    destruct (nmem f (nowrite (dk B))); (eapply G; [|exact H]; reflexivity).
  Qed.

  Lemma flush_one_own : forall B h f m,
    nlookup h (mems B) = Some (f, m) -> nlookup f (buf (flush_one B h)) = None.
  Proof.
    intros B h f m Hm. unfold Doc.flush_one; cbv beta. rewrite Hm.
    destruct (nlookup f (buf B)) as [e|] eqn:He; [|exact He].
    simpl. apply nlookup_nremove_same.
  Qed.

  Lemma flush_fold_inv : forall l B U, Inv0 B U -> Inv0 (fold_left flush_one l B) U.
  Proof. induction l as [|h l IH]; intros B U I; simpl; [exact I|]. apply IH. apply flush_one_inv. exact I. Qed.

  Lemma flush_fold_buf : forall l B f0 e0,
    nlookup f0 (buf (fold_left flush_one l B)) = Some e0 -> nlookup f0 (buf B) = Some e0.
  Proof.
    induction l as [|h l IH]; intros B f0 e0 H; simpl in H; [exact H|].
    apply IH in H. eapply flush_one_buf. exact H.
  Qed.

  Lemma flush_fold_mems : forall l B U x, Inv0 B U -> nlookup x (mems (fold_left flush_one l B)) = nlookup x (mems B).
  Proof.
    induction l as [|h l IH]; intros B U x I; simpl; [reflexivity|].
    rewrite (IH _ U x (flush_one_inv B U h I)).
    rewrite (i_mems _ _ (flush_one_inv B U h I)). symmetry. apply (i_mems B U I).
  Qed.

  Lemma flush_fold_clears : forall l B U h f m,
    Inv0 B U -> In h l -> nlookup h (mems B) = Some (f, m) -> nlookup f (buf (fold_left flush_one l B)) = None.
  Proof.
    induction l as [|x l IH]; intros B U h f m I Hin Hm; [contradiction|]. simpl.
    destruct Hin as [->|Hin].
    - destruct (nlookup f (buf (fold_left flush_one l (flush_one B h)))) as [e|] eqn:E; [|reflexivity].
      apply flush_fold_buf in E. rewrite (flush_one_own B h f m Hm) in E. discriminate.
    - apply (IH _ U h f m (flush_one_inv B U x I) Hin).
      rewrite (i_mems _ _ (flush_one_inv B U x I)). rewrite <- (i_mems B U I). exact Hm.
  Qed.

  Lemma with_reg_inv : forall B U r,
    Inv0 B U -> (forall f, nlookup f (buf B) = None) -> Inv0 (with_reg B r) U.
  Proof.
    intros B U r I Hn. constructor; simpl; try apply I.
    intros f e H. rewrite Hn in H. discriminate.
  Qed.

  Lemma with_ferr_inv : forall B U b, Inv0 B U -> Inv0 (with_ferr B b) U.
  Proof. intros B U b I. constructor; simpl; apply I. Qed.
  Lemma with_ferr_inv_U : forall B U b, Inv0 B U -> Inv0 B (with_ferr U b).
  Proof. intros B U b I. constructor; simpl; apply I. Qed.
  Lemma with_oerr_false_inv : forall B U, Inv0 B U -> Inv0 (with_oerr B false) (with_oerr U false).
  Proof. intros B U I. constructor; simpl; try apply I; reflexivity. Qed.

  Lemma flush_fold_ferr : forall l B U, Inv0 B U -> ferr_of (fold_left flush_one l B) = ferr_of B.
  Proof.
    induction l as [|h l IH]; intros B U I; simpl; [reflexivity|].
    rewrite (IH _ U (flush_one_inv B U h I)). apply (flush_one_ferr B U h I).
  Qed.

  Lemma flush_all_inv : forall B0 U, Inv0 B0 U ->
    Inv0 (flush_all B0) U /\ (forall f, nlookup f (buf (flush_all B0)) = None) /\ ferr_of (flush_all B0) = false.
  Proof.
    intros B0 U I0. unfold Doc.flush_all.
    pose proof (with_ferr_inv B0 U false I0) as I. set (B := with_ferr B0 false) in *.
    change (reg B0) with (reg B).
    assert (Hn : forall f, nlookup f (buf (fold_left flush_one (rev (reg B)) B)) = None).
    { intro f. destruct (nlookup f (buf (fold_left flush_one (rev (reg B)) B))) as [e|] eqn:E; [|reflexivity].
      pose proof (flush_fold_buf _ _ _ _ E) as E0.
      destruct (i_reg B U I f e E0) as (h & m & Hin & Hm).
      rewrite (flush_fold_clears (rev (reg B)) B U h f m I) in E; [discriminate| |exact Hm].
      apply in_rev. rewrite rev_involutive. exact Hin. }
    split; [apply with_reg_inv; [apply flush_fold_inv; exact I|exact Hn]|]. split; [exact Hn|].
    change (ferr_of (with_reg (fold_left flush_one (rev (reg B)) B) [])) with (ferr_of (fold_left flush_one (rev (reg B)) B)).
    rewrite (flush_fold_ferr _ B U I). reflexivity.
  Qed.

  (* ---- bookkeeping steps ---- *)
  Lemma flush_one_depth : forall B h, depth (flush_one B h) = depth B.
  Proof.
    intros B h. unfold Doc.flush_one; cbv beta. destruct (nlookup h (mems B)) as [[f m]|]; [|reflexivity].
    destruct (nlookup f (buf B)) as [e|]; [|reflexivity]. destruct (json_eqb m (b_hash e)); [reflexivity|].
    destruct (negb (ometa_eqb (b_meta e) (nlookup f (vers (dk B))))); [reflexivity|].
    destruct (nmem f (nowrite (dk B))); reflexivity.
  Qed.

  Lemma flush_fold_depth : forall l B, depth (fold_left flush_one l B) = depth B.
  Proof. induction l as [|h l IH]; intro B; simpl; [reflexivity|]. rewrite IH. apply flush_one_depth. Qed.

  Lemma flush_all_depth : forall B, depth (flush_all B) = depth B.
  Proof. intro B. unfold Doc.flush_all. simpl. rewrite flush_fold_depth. reflexivity. Qed.

  Lemma flush_all_mems : forall B U x, Inv0 B U -> nlookup x (mems (flush_all B)) = nlookup x (mems B).
  Proof.
    intros B U x I. unfold Doc.flush_all. simpl.
    rewrite (flush_fold_mems _ (with_ferr B false) U x (with_ferr_inv B U false I)). reflexivity.
  Qed.

  Lemma register_inv : forall B U h, Inv0 B U -> Inv0 (register B h) U.
  Proof.
    intros B U h I. unfold register. destruct (nmem h (reg B)); [exact I|].
    constructor; simpl; try apply I.
    intros f e H. destruct (i_reg B U I f e H) as (x & m & Hin & Hx). exists x, m. split; [apply in_or_app; auto|exact Hx].
  Qed.

  Lemma check_capacity_inv : forall B U, Inv0 B U ->
    Inv0 (check_capacity B) U /\ depth (check_capacity B) = depth B /\
    (forall x, nlookup x (mems (check_capacity B)) = nlookup x (mems B)) /\
    ferr_of (check_capacity B) = false.
  Proof.
    intros B U I. unfold Doc.check_capacity. destruct (cap B <? bsize frepr B)%N.
    - destruct (flush_all_inv B U I) as (I' & Hn & Hf).
      split; [exact I'|]. split; [apply flush_all_depth|]. split; [intro x; apply (flush_all_mems B U x I)|exact Hf].
    - split; [apply with_ferr_inv; exact I|]. split; [reflexivity|]. split; [reflexivity|reflexivity].
  Qed.

  Lemma with_cap_inv : forall B U c, Inv0 B U -> Inv0 (with_cap B c) U.
  Proof. intros B U c I. constructor; simpl; apply I. Qed.
  Lemma with_caps_inv : forall B U c, Inv0 B U -> Inv0 (with_caps B c) U.
  Proof. intros B U c I. constructor; simpl; apply I. Qed.
  Lemma with_depth_inv : forall B U c, Inv0 B U -> Inv0 (with_depth B c) U.
  Proof. intros B U c I. constructor; simpl; apply I. Qed.

  Lemma set_capacity_inv : forall B U c, Inv0 B U ->
    Inv0 (set_capacity B c) U /\ depth (set_capacity B c) = depth B /\
    ((forall f, nlookup f (buf B) = None) -> forall f, nlookup f (buf (set_capacity B c)) = None) /\
    ferr_of (set_capacity B c) = false.
  Proof.
    intros B U c I. unfold Doc.set_capacity. destruct (c <? bsize frepr (with_cap B c))%N.
    - destruct (flush_all_inv (with_cap B c) U (with_cap_inv B U c I)) as (I' & Hn & Hf).
      split; [exact I'|]. split; [rewrite flush_all_depth; reflexivity|]. split; [auto|exact Hf].
    - split; [apply with_ferr_inv, with_cap_inv; exact I|]. split; [reflexivity|]. split; [auto|reflexivity].
  Qed.

  (* writing back the value a collection already holds changes no lookup *)
  Lemma set_mem_id_inv : forall B U h f m,
    Inv0 B U -> nlookup h (mems B) = Some (f, m) -> Inv0 (set_mem B h f m) (set_mem U h f m).
  Proof.
    intros B U h f m I Hm.
    assert (HmU : nlookup h (mems U) = Some (f, m)) by (rewrite <- (i_mems B U I); exact Hm).
    assert (EB : forall x, nlookup x (mems (set_mem B h f m)) = nlookup x (mems B)) by (intro x; apply nset_lookup_id; exact Hm).
    assert (EU : forall x, nlookup x (mems (set_mem U h f m)) = nlookup x (mems U)) by (intro x; apply nset_lookup_id; exact HmU).
    constructor.
    - apply I.
    - intro x. rewrite EB, EU. apply I.
    - intros x x' f0 m0 m0'. rewrite !EB. apply (i_inj B U I).
    - intros x f0 m0 Hx. rewrite EB in Hx. apply (i_h B U I x f0 m0 Hx).
    - intros f0 Hf0. apply (i_free B U I). intros x mx. rewrite <- EB. apply Hf0.
    - intros f0 e0 H. destruct (i_reg B U I f0 e0 H) as (x & mx & Hin & Hx). exists x, mx. rewrite EB. auto.
    - apply I.
    - apply I.
    - apply I.
    - apply I.
    - apply (i_meta B U I).
  Qed.

  (* only collection h (file f) changed *)
  Lemma Inv0_update : forall B U B' U' h f m0 m',
    Inv0 B U -> nlookup h (mems B) = Some (f, m0) ->
    depth U' = 0%nat ->
    (forall x, nlookup x (mems B') = if N.eqb x h then Some (f, m') else nlookup x (mems B)) ->
    (forall x, nlookup x (mems U') = if N.eqb x h then Some (f, m') else nlookup x (mems U)) ->
    (forall f0, f0 <> f -> nlookup f0 (buf B') = nlookup f0 (buf B) /\ nlookup f0 (files B') = nlookup f0 (files B)
                          /\ nlookup f0 (files U') = nlookup f0 (files U)) ->
    hinv B' U' f m' ->
    (forall x, In x (reg B) -> In x (reg B')) ->
    (forall e, nlookup f (buf B') = Some e -> In h (reg B')) ->
    nowrite (dk B') = [] -> nowrite (dk U') = [] -> oerr_of B' = false -> oerr_of U' = false ->
    (forall f0, f0 <> f -> nlookup f0 (vers (dk B')) = nlookup f0 (vers (dk B))) ->
    (forall e, nlookup f (buf B') = Some e -> b_meta e = nlookup f (vers (dk B'))) ->
    Inv0 B' U'.
  Proof.
    intros B U B' U' h f m0 m' I Hm HdU EB EU Hfr Hh Hreg Hregf HnB HnU HoB HoU Hv Hmeta.
    assert (Hfile : forall x f0 m1, nlookup x (mems B') = Some (f0, m1) ->
              (x = h /\ f0 = f /\ m1 = m') \/ (x <> h /\ nlookup x (mems B) = Some (f0, m1) /\ f0 <> f)).
    { intros x f0 m1 Hx. rewrite EB in Hx. destruct (N.eqb x h) eqn:E.
      - apply N.eqb_eq in E. inversion Hx. auto.
      - apply N.eqb_neq in E. right. split; [exact E|]. split; [exact Hx|].
        intro; subst f0. apply E. eapply (i_inj B U I); eauto. }
    constructor.
    - exact HdU.
    - intro x. rewrite EB, EU. destruct (N.eqb x h); [reflexivity|apply I].
    - intros x x' f0 m1 m1' Hx Hx'.
      destruct (Hfile _ _ _ Hx) as [(-> & -> & _)|(Hn & Hb & Hf)]; destruct (Hfile _ _ _ Hx') as [(-> & Hf' & _)|(Hn' & Hb' & Hf')]; auto; try congruence.
      eapply (i_inj B U I); eauto.
    - intros x f0 m1 Hx. destruct (Hfile _ _ _ Hx) as [(-> & -> & ->)|(Hn & Hb & Hf)]; [exact Hh|].
      destruct (Hfr f0 Hf) as (F1 & F2 & F3).
      eapply hinv_frame; [exact F1|exact F2|exact F3|apply (i_h B U I x f0 m1 Hb)].
    - intros f0 Hf0.
      assert (Hne : f0 <> f).
      { intro; subst f0. apply (Hf0 h m'). rewrite EB, N.eqb_refl. reflexivity. }
      destruct (Hfr f0 Hne) as (_ & F2 & F3). rewrite F2, F3. apply (i_free B U I).
      intros x mx Hx. apply (Hf0 x mx). rewrite EB. destruct (N.eqb x h) eqn:E; [|exact Hx].
      apply N.eqb_eq in E. subst x. rewrite Hm in Hx. inversion Hx. congruence.
    - intros f0 e0 H. destruct (N.eq_dec f0 f) as [->|Hne].
      + exists h, m'. split; [apply (Hregf e0 H)|]. rewrite EB, N.eqb_refl. reflexivity.
      + destruct (Hfr f0 Hne) as (F1 & _ & _). rewrite F1 in H.
        destruct (i_reg B U I f0 e0 H) as (x & mx & Hin & Hx). exists x, mx. split; [apply Hreg; exact Hin|].
        rewrite EB. destruct (N.eqb x h) eqn:E; [|exact Hx].
        apply N.eqb_eq in E. subst x. rewrite Hm in Hx. inversion Hx. congruence.
    - exact HnB.
    - exact HnU.
    - exact HoB.
    - exact HoU.
    - intros f0 e0 H. destruct (N.eq_dec f0 f) as [->|Hne]; [apply Hmeta; exact H|].
      destruct (Hfr f0 Hne) as (F1 & _ & _). rewrite F1 in H. rewrite Hv by exact Hne. apply (i_meta B U I f0 e0 H).
  Qed.

  Lemma set_mem_lookup : forall st h f m x,
    nlookup x (mems (set_mem st h f m)) = if N.eqb x h then Some (f, m) else nlookup x (mems st).
  Proof.
    intros st h f m x. unfold set_mem. simpl. destruct (N.eqb x h) eqn:E.
    - apply N.eqb_eq in E. subst. apply nlookup_nset_same.
    - apply N.eqb_neq in E. apply nlookup_nset_other. auto.
  Qed.

  Lemma in_register : forall st h, In h (reg (register st h)).
  Proof.
    intros st h. unfold register. destruct (nmem h (reg st)) eqn:E.
    - unfold nmem in E. apply existsb_exists in E. destruct E as (x & Hx & E). apply N.eqb_eq in E. subst. exact Hx.
    - simpl. apply in_or_app. right. left. reflexivity.
  Qed.

  Lemma register_mono : forall st h x, In x (reg st) -> In x (reg (register st h)).
  Proof. intros st h x H. unfold register. destruct (nmem h (reg st)); [exact H|]. simpl. apply in_or_app. auto. Qed.

  (* what an unbuffered load does, on both sides *)
  Lemma hinv_noentry_load : forall B U f m,
    hinv B U f m -> nlookup f (buf B) = None ->
    let m' := merge_opt merge m (nlookup f (files B)) in
    merge_opt merge m (nlookup f (files U)) = m' /\ is_obj m' /\
    (forall v, nlookup f (files U) = Some v -> v = m') /\
    ((nlookup f (files B) = nlookup f (files U) /\ insync m' (nlookup f (files U)))
     \/ (nlookup f (files B) = None /\ nlookup f (files U) = Some m' /\ m' = empty_obj)).
  Proof.
    intros B U f m [Hobj Hh] Hb. rewrite Hb in Hh. cbv zeta.
    destruct Hh as [[Hf Hs]|(Hfb & Hfu & He)].
    - rewrite Hf. split; [reflexivity|]. destruct (nlookup f (files U)) as [v|] eqn:Ev; simpl in *.
      + destruct Hs as [Hmv Hov]. rewrite Hmv. split; [exact Hov|]. split; [intros v0 E0; inversion E0; reflexivity|].
        left. split; [reflexivity|]. split; [apply merge_same|exact Hov].
      + split; [exact Hobj|]. split; [discriminate|]. left. auto.
    - rewrite Hfb, Hfu. simpl. rewrite merge_same. split; [reflexivity|]. split; [exact Hobj|].
      split; [intros v0 E0; inversion E0; reflexivity|]. right. auto.
  Qed.

  Lemma load_sim : forall B U h f m,
    Inv B U -> ferr_of B = false -> ferr_of U = false -> nlookup h (mems B) = Some (f, m) ->
    let '(B', mB) := load B h f m in
    let '(U', mU) := load U h f m in
    mB = mU /\ Inv B' U' /\ nlookup h (mems B') = Some (f, mB) /\ depth B' = depth B /\ is_obj mB /\
    ferr_of B' = false /\ ferr_of U' = false.
  Proof.
    intros B U h f m [I Hd0] HfB HfU Hm.
    pose proof (i_h B U I h f m Hm) as Hh.
    unfold Doc.load; cbv beta. rewrite (i_depthU B U I).
    destruct (depth B) as [|d] eqn:Ed.
    - (* outside any block *)
      specialize (Hd0 eq_refl).
      destruct (hinv_noentry_load B U f m Hh (Hd0 f)) as (Em & Hobj & _ & Hst).
      split; [symmetry; exact Em|]. rewrite Em.
      split; [|split; [rewrite set_mem_lookup, N.eqb_refl; reflexivity|split; [simpl; exact Ed|split; [exact Hobj|split; [exact HfB|exact HfU]]]]].
      split.
      + apply (Inv0_update B U _ _ h f m (merge_opt merge m (nlookup f (files B))) I Hm).
        * apply (i_depthU B U I).
        * intro x. apply set_mem_lookup.
        * intro x. apply set_mem_lookup.
        * intros f0 _. simpl. auto.
        * unfold hinv. simpl. rewrite (Hd0 f). split; [exact Hobj|exact Hst].
        * auto.
        * intros e He. simpl in He. rewrite (Hd0 f) in He. discriminate.
        * apply (i_nwB B U I).
        * apply (i_nwU B U I).
        * apply (i_oB B U I).
        * apply (i_oU B U I).
        * auto.
        * intros e He. simpl in He. rewrite (Hd0 f) in He. discriminate.
      + intros _ f0. simpl. apply Hd0.
    - (* inside a block: through the buffer *)
      unfold Doc.load_buffered; cbv beta.
      destruct (nlookup f (buf B)) as [e|] eqn:He.
      + (* the file is in the buffer *)
        unfold hinv in Hh. rewrite He in Hh. destruct Hh as (Hobj & Hc & H0 & Hcd).
        pose proof (register_inv B U h I) as I2.
        assert (He2 : nlookup f (buf (register B h)) = Some e).
        { unfold register. destruct (nmem h (reg B)); exact He. }
        rewrite He2.
        destruct (check_capacity_inv _ U I2) as (I3 & D3 & M3 & F3). rewrite F3.
        assert (Hm3 : nlookup h (mems (check_capacity (register B h))) = Some (f, m)).
        { rewrite M3. unfold register. destruct (nmem h (reg B)); exact Hm. }
        rewrite Hm3, Hc, merge_same.
        assert (EmU : merge_opt merge m (nlookup f (files U)) = m).
        { destruct Hcd as [[_ [Hu|[Hu _]]]|Hu]; rewrite Hu; simpl; try apply merge_same; reflexivity. }
        rewrite EmU. split; [reflexivity|].
        split; [|split; [rewrite set_mem_lookup, N.eqb_refl; reflexivity|split; [|split; [exact Hobj|split; [exact F3|exact HfU]]]]].
        * split; [apply set_mem_id_inv; assumption|]. simpl. rewrite D3. unfold register. destruct (nmem h (reg B)); simpl; rewrite Ed; discriminate.
        * simpl. rewrite D3. unfold register. destruct (nmem h (reg B)); simpl; exact Ed.
      + (* first access in this block: the entry is created from the file *)
        destruct (hinv_noentry_load B U f m Hh He) as (Em & Hobj & Hv & Hst).
        set (m1 := merge_opt merge m (nlookup f (files B))) in *.
        set (en := {| b_contents := m1; b_hash := m1; b_meta := nlookup f (vers (dk B)) |}).
        set (B1 := with_buf (set_mem B h f m1) (nset f en (buf B))).
        set (U1 := set_mem U h f m1).
        assert (Eb2 : nlookup f (buf (register B1 h)) = Some en).
        { unfold register. destruct (nmem h (reg B1)); simpl; apply nlookup_nset_same. }
        assert (Edk : dk (register B1 h) = dk B).
        { unfold register. destruct (nmem h (reg B1)); reflexivity. }
        assert (I2 : Inv0 (register B1 h) U1).
        { apply (Inv0_update B U _ _ h f m m1 I Hm).
          - apply (i_depthU B U I).
          - intro x. unfold register. destruct (nmem h (reg B1)); apply set_mem_lookup.
          - intro x. apply set_mem_lookup.
          - intros f0 Hne. unfold register. destruct (nmem h (reg B1)); simpl; nsimp; auto.
          - unfold hinv. split; [exact Hobj|]. rewrite Eb2. simpl.
            assert (Ef : nlookup f (files (register B1 h)) = nlookup f (files B)).
            { unfold register. destruct (nmem h (reg B1)); reflexivity. }
            rewrite Ef. split; [reflexivity|].
            destruct Hst as [[Hf Hs]|(Hfb & Hfu & Hem)].
            + destruct (nlookup f (files U)) as [v|] eqn:Ev.
              * pose proof (Hv v eq_refl) as Evm. subst v.
                split; [right; exact Hf|]. left. split; [reflexivity|left; reflexivity].
              * simpl in Hs. split; [left; split; [exact Hf|right; exact Hs]|]. left. split; [reflexivity|right; auto].
            + split; [left; split; [exact Hfb|right; exact Hem]|]. left. split; [reflexivity|left; exact Hfu].
          - intros x Hx. apply register_mono. exact Hx.
          - intros e0 _. apply in_register.
          - rewrite Edk. apply (i_nwB B U I).
          - apply (i_nwU B U I).
          - unfold oerr_of. rewrite Edk. apply (i_oB B U I).
          - apply (i_oU B U I).
          - intros f0 _. rewrite Edk. reflexivity.
          - intros e0 He0. rewrite Eb2 in He0. inversion He0. rewrite Edk. reflexivity. }
        fold en. fold B1. rewrite Eb2. simpl b_contents.
        destruct (check_capacity_inv _ U1 I2) as (I3 & D3 & M3 & F3). rewrite F3.
        assert (Hm3 : nlookup h (mems (check_capacity (register B1 h))) = Some (f, m1)).
        { rewrite M3. unfold register. destruct (nmem h (reg B1)); unfold B1; simpl; apply nlookup_nset_same. }
        rewrite Hm3, merge_same. rewrite Em.
        split; [reflexivity|].
        split; [|split; [rewrite set_mem_lookup, N.eqb_refl; reflexivity|split; [|split; [exact Hobj|split; [exact F3|exact HfU]]]]].
        * split.
          -- (* U1 already holds m1 for h: one more identical write *)
             pose proof (set_mem_id_inv _ U1 h f m1 I3 Hm3) as I4.
             assert (EU : forall x, nlookup x (mems (set_mem U1 h f m1)) = nlookup x (mems (set_mem U h f m1))).
             { intro x. unfold U1. rewrite !set_mem_lookup. destruct (N.eqb x h); reflexivity. }
             constructor; try apply I4.
             intro x. rewrite (i_mems _ _ I4 x). apply EU.
          -- simpl. rewrite D3. unfold register. destruct (nmem h (reg B1)); simpl; rewrite Ed; discriminate.
        * simpl. rewrite D3. unfold register. destruct (nmem h (reg B1)); simpl; exact Ed.
  Qed.

  Lemma save_sim : forall B U h f m0 m',
    Inv B U -> ferr_of B = false -> ferr_of U = false -> nlookup h (mems B) = Some (f, m0) -> is_obj m' ->
    Inv (save B h f m') (save U h f m') /\ nlookup h (mems (save B h f m')) = Some (f, m') /\
    depth (save B h f m') = depth B /\
    ferr_of (save B h f m') = false /\ oerr_of (save B h f m') = false /\
    ferr_of (save U h f m') = false /\ oerr_of (save U h f m') = false.
  Proof.
    intros B U h f m0 m' [I Hd0] HfB HfU Hm Hobj.
    pose proof (i_h B U I h f m0 Hm) as Hh.
    unfold Doc.save; cbv beta. rewrite (i_depthU B U I). rewrite (i_nwU B U I). simpl (nmem f []).
    destruct (depth B) as [|d] eqn:Ed.
    - specialize (Hd0 eq_refl). rewrite (i_nwB B U I). simpl (nmem f []).
      split; [|split; [simpl; apply nlookup_nset_same|split; [simpl; exact Ed|split; [exact HfB|split; [apply (i_oB B U I)|split; [exact HfU|apply (i_oU B U I)]]]]]].
      split.
      + apply (Inv0_update B U _ _ h f m0 m' I Hm).
        * simpl. apply (i_depthU B U I).
        * intro x. simpl. apply (set_mem_lookup B h f m' x).
        * intro x. simpl. apply (set_mem_lookup U h f m' x).
        * intros f0 Hne. simpl. nsimp. auto.
        * unfold hinv. simpl. rewrite (Hd0 f). nsimp. split; [exact Hobj|]. left. split; [reflexivity|].
          split; [apply merge_same|exact Hobj].
        * auto.
        * intros e He. simpl in He. rewrite (Hd0 f) in He. discriminate.
        * simpl. apply (i_nwB B U I).
        * simpl. apply (i_nwU B U I).
        * apply (i_oB B U I).
        * apply (i_oU B U I).
        * intros f0 Hne. simpl. apply nlookup_nset_other. auto.
        * intros e He. simpl in He. rewrite (Hd0 f) in He. discriminate.
      + intros _ f0. simpl. apply Hd0.
    - unfold Doc.save_buffered; cbv beta.
      set (B0 := register (set_mem B h f m') h).
      set (U' := write_file (set_mem U h f m') f m').
      assert (Eb0 : buf B0 = buf B) by (unfold B0, register; destruct (nmem h (reg (set_mem B h f m'))); reflexivity).
      assert (Ef0 : files B0 = files B) by (unfold B0, register; destruct (nmem h (reg (set_mem B h f m'))); reflexivity).
      assert (Ek0 : dk B0 = dk B) by (unfold B0, register; destruct (nmem h (reg (set_mem B h f m'))); reflexivity).
      assert (Em0 : forall x, nlookup x (mems B0) = if N.eqb x h then Some (f, m') else nlookup x (mems B)).
      { intro x. unfold B0, register. destruct (nmem h (reg (set_mem B h f m'))); apply set_mem_lookup. }
      assert (Ed0 : depth B0 = S d) by (unfold B0, register; destruct (nmem h (reg (set_mem B h f m'))); simpl; exact Ed).
      assert (Hr0 : In h (reg B0)) by apply in_register.
      assert (Hrm : forall x, In x (reg B) -> In x (reg B0)) by (intros x Hx; unfold B0; apply register_mono; exact Hx).
      rewrite Eb0, Ef0, Ek0.
      match goal with |- context [check_capacity ?s] => set (B1 := s) end.
      assert (Ek1 : dk B1 = dk B) by (unfold B1; destruct (nlookup f (buf B)); simpl; exact Ek0).
      assert (I1 : Inv0 B1 U').
      { apply (Inv0_update B U _ _ h f m0 m' I Hm).
        - simpl. apply (i_depthU B U I).
        - intro x. unfold B1. destruct (nlookup f (buf B)); simpl; apply Em0.
        - intro x. simpl. apply (set_mem_lookup U h f m' x).
        - intros f0 Hne. unfold B1. destruct (nlookup f (buf B)); simpl; rewrite ?Eb0, ?Ef0; nsimp; auto.
        - unfold hinv in *. split; [exact Hobj|].
          destruct Hh as [Hobj0 Hh].
          unfold B1. destruct (nlookup f (buf B)) as [e|] eqn:He; simpl; rewrite ?Eb0, ?Ef0; nsimp; simpl.
          + destruct Hh as (_ & H0 & _). split; [reflexivity|]. split; [exact H0|]. right. reflexivity.
          + split; [reflexivity|]. split; [|right; reflexivity].
            destruct (nlookup f (files B)) as [v|]; [right; reflexivity|left; auto].
        - intros x Hx. unfold B1. destruct (nlookup f (buf B)); simpl; apply Hrm; exact Hx.
        - intros e _. unfold B1. destruct (nlookup f (buf B)); simpl; exact Hr0.
        - rewrite Ek1. apply (i_nwB B U I).
        - simpl. apply (i_nwU B U I).
        - unfold oerr_of. rewrite Ek1. apply (i_oB B U I).
        - apply (i_oU B U I).
        - intros f0 _. rewrite Ek1. reflexivity.
        - intros e0 He0. rewrite Ek1. unfold B1 in He0.
          destruct (nlookup f (buf B)) as [e|] eqn:He; simpl in He0; rewrite ?Eb0 in He0; rewrite nlookup_nset_same in He0;
            inversion He0; simpl; [apply (i_meta B U I f e He)|reflexivity]. }
      destruct (check_capacity_inv B1 U' I1) as (I2 & D2 & M2 & F2).
      assert (D1 : depth B1 = S d) by (unfold B1; destruct (nlookup f (buf B)); simpl; exact Ed0).
      split; [split; [exact I2|rewrite D2, D1; discriminate]|].
      split; [|split; [rewrite D2, D1; reflexivity|split; [exact F2|split; [apply (i_oB _ _ I2)|split; [exact HfU|apply (i_oU B U I)]]]]].
      rewrite M2. unfold B1. destruct (nlookup f (buf B)); simpl; rewrite Em0, N.eqb_refl; reflexivity.
  Qed.

  (* ---- one document operation ---- *)
  Lemma walk_sim : forall p B U h f m pre,
    Inv B U -> ferr_of B = false -> ferr_of U = false -> nlookup h (mems B) = Some (f, m) ->
    let '(B', mB, eB) := walk frepr merge (fun k : N => k) B h f m pre p in
    let '(U', mU, eU) := walk frepr merge (fun k : N => k) U h f m pre p in
    mB = mU /\ eB = eU /\ Inv B' U' /\ nlookup h (mems B') = Some (f, mB) /\ depth B' = depth B /\ is_obj mB /\
    ferr_of B' = false /\ ferr_of U' = false.
  Proof.
    induction p as [|e p IH]; intros B U h f m pre I HfB HfU Hm; simpl.
    - csplit; auto. destruct I as [I _]. destruct (i_h B U I h f m Hm) as [Ho _]. exact Ho.
    - pose proof (load_sim B U h f m I HfB HfU Hm) as Hl.
      destruct (load B h f m) as [B1 m1]. destruct (load U h f m) as [U1 m1'].
      destruct Hl as (-> & I1 & Hm1 & D1 & Ho1 & F1 & F1'). rewrite F1, F1'.
      destruct (get_at (pre ++ [e]) m1').
      + specialize (IH B1 U1 h f m1' (pre ++ [e]) I1 F1 F1' Hm1).
        destruct (walk frepr merge (fun k : N => k) B1 h f m1' (pre ++ [e]) p) as [[B2 m2] e2].
        destruct (walk frepr merge (fun k : N => k) U1 h f m1' (pre ++ [e]) p) as [[U2 m2'] e2'].
        destruct IH as (A & B0 & C & D & E & F & G & H). csplit; auto. congruence.
      + csplit; auto.
  Qed.

  Lemma apply_obj : forall o t t' r, is_obj t -> sync_apply merge o t = Ok (t', r) -> is_obj t'.
  Proof.
    intros o t t' r [d ->] H. unfold sync_apply, apply_with in H.
    destruct o; try discriminate; try (inversion H; subst; eexists; reflexivity).
    - destruct (amem k d); inversion H; eexists; reflexivity.
    - inversion H; subst. apply merge_obj_obj; eexists; reflexivity.
    - destruct (alookup k d); inversion H; subst; eexists; reflexivity.
    - destruct (alookup k d); inversion H; subst; eexists; reflexivity.
    - inversion H; subst. apply merge_obj_obj; eexists; reflexivity.
  Qed.

  Lemma set_at_obj : forall p nv m, is_obj m -> (p = [] -> is_obj nv) -> is_obj (set_at p nv m).
  Proof.
    intros p nv m [d ->] H. destruct p as [|[k|i] p]; simpl; [apply H; reflexivity| |eexists; reflexivity].
    destruct (alookup k d); eexists; reflexivity.
  Qed.

  Lemma flags_inv : forall B U, Inv B U ->
    Inv (with_oerr (with_ferr B false) false) (with_oerr (with_ferr U false) false).
  Proof.
    intros B U [I Hd]. split; [|exact Hd].
    apply with_oerr_false_inv. apply with_ferr_inv. apply with_ferr_inv_U. exact I.
  Qed.

  Lemma cop_sim : forall B U h p o,
    Inv B U ->
    let '(B', rB) := cop B h p o in
    let '(U', rU) := cop U h p o in
    rB = rU /\ Inv B' U' /\ depth B' = depth B.
  Proof.
    intros B00 U00 h p o I00. unfold Doc.cop. cbv zeta.
    pose proof (flags_inv B00 U00 I00) as I.
    set (B := with_oerr (with_ferr B00 false) false) in *. set (U := with_oerr (with_ferr U00 false) false) in *.
    assert (HfB : ferr_of B = false) by reflexivity. assert (HfU : ferr_of U = false) by reflexivity.
    change (depth B00) with (depth B).
    assert (Em : nlookup h (mems B) = nlookup h (mems U)) by (destruct I as [I _]; apply (i_mems B U I)).
    rewrite <- Em. destruct (nlookup h (mems B)) as [[f m0]|] eqn:Hm; [|auto].
    pose proof (walk_sim p B U h f m0 [] I HfB HfU Hm) as Hw.
    destruct (walk frepr merge (fun k : N => k) B h f m0 [] p) as [[B0 mB] eB].
    destruct (walk frepr merge (fun k : N => k) U h f m0 [] p) as [[U0 mU] eU].
    destruct Hw as (-> & -> & I0 & Hm0 & D0 & Ho0 & F0 & F0').
    destruct eU as [e|]; [auto|].
    assert (Hl : let '(B1, m1) := (if op_loads o then load B0 h f mU else (B0, mU)) in
                 let '(U1, m1') := (if op_loads o then load U0 h f mU else (U0, mU)) in
                 m1 = m1' /\ Inv B1 U1 /\ nlookup h (mems B1) = Some (f, m1) /\ depth B1 = depth B /\ is_obj m1 /\
                 ferr_of B1 = false /\ ferr_of U1 = false).
    { destruct (op_loads o).
      - pose proof (load_sim B0 U0 h f mU I0 F0 F0' Hm0) as Hl.
        destruct (load B0 h f mU) as [B1 m1]. destruct (load U0 h f mU) as [U1 m1'].
        destruct Hl as (A & B2 & C & D & E & F & G). csplit; auto. congruence.
      - csplit; auto. }
    destruct (if op_loads o then load B0 h f mU else (B0, mU)) as [B1 m1].
    destruct (if op_loads o then load U0 h f mU else (U0, mU)) as [U1 m1'].
    destruct Hl as (<- & I1 & Hm1 & D1 & Ho1 & F1 & F1'). rewrite F1, F1'.
    set (attached := is_read o || survives p mU m1).
    destruct (if attached then get_at p m1 else get_at p mU) as [t|e] eqn:Eg; [|auto].
    destruct (is_read o) eqn:Er; [auto|].
    destruct (sync_apply merge o t) as [[t' r]|e] eqn:Ea.
    - assert (Hobj' : is_obj (if attached then set_at p t' m1 else m1)).
      { destruct attached; [|exact Ho1]. apply set_at_obj; [exact Ho1|]. intros ->. simpl in Eg. inversion Eg; subst t.
        eapply apply_obj; eauto. }
      destruct (save_sim B1 U1 h f m1 _ I1 F1 F1' Hm1 Hobj') as (I2 & _ & D2 & A1 & A2 & A3 & A4).
      unfold raised. rewrite A1, A2, A3, A4.
      split; [reflexivity|]. split; [exact I2|congruence].
    - destruct o; try (split; [reflexivity|split; [exact I1|exact D1]]);
        (destruct (save_sim B1 U1 h f m1 m1 I1 F1 F1' Hm1 Ho1) as (I2 & _ & D2 & A1 & A2 & A3 & A4);
         unfold raised; rewrite A1, A2, A3, A4;
         split; [reflexivity|]; split; [exact I2|congruence]).
  Qed.

  (* ---- one program item ---- *)
  Definition is_new (it : citem) : bool := match it with CNew _ _ => true | _ => false end.

  Lemma cstep_sim : forall B U it,
    Inv B U -> is_new it = false ->
    let '(B', rB) := cstep B it in
    if unbuffered_item it
    then let '(U', rU) := cstep U it in rB = rU /\ Inv B' U'
    else Inv B' U.
  Proof.
    intros B U it I Hn. destruct it as [h f|h p o|c| |c]; simpl in *; try discriminate.
    - pose proof (cop_sim B U h p o I) as H.
      destruct (cop B h p o) as [B' rB]. destruct (cop U h p o) as [U' rU]. tauto.
    - (* enter *)
      destruct I as [I Hd0]. destruct c as [n|]; simpl.
      + destruct (set_capacity_inv (with_caps (with_depth B (S (depth B))) (Some (cap B) :: caps B)) U n
                    (with_caps_inv _ U _ (with_depth_inv B U _ I))) as (I' & D' & _ & _).
        split; [exact I'|]. rewrite D'. simpl. discriminate.
      + split; [apply with_caps_inv, with_depth_inv; exact I|]. simpl. discriminate.
    - (* exit *)
      destruct I as [I Hd0]. destruct (depth B) as [|d] eqn:Ed; simpl; [split; [exact I|rewrite Ed; exact Hd0]|].
      set (B1 := with_depth B d).
      assert (I1 : Inv0 B1 U) by (apply with_depth_inv; exact I).
      set (B2 := match d with O => flush_all B1 | S _ => with_ferr B1 false end).
      assert (I2 : Inv0 B2 U /\ depth B2 = d /\ (d = 0%nat -> forall f, nlookup f (buf B2) = None) /\ ferr_of B2 = false).
      { unfold B2. destruct d.
        - destruct (flush_all_inv B1 U I1) as (I2 & Hn2 & F2). split; [exact I2|]. split; [rewrite flush_all_depth; reflexivity|auto].
        - split; [apply with_ferr_inv; exact I1|]. split; [reflexivity|]. split; [discriminate|reflexivity]. }
      destruct I2 as (I2 & D2 & N2 & F2). rewrite F2.
      destruct (caps B2) as [|[c|] r] eqn:Ec.
      + split; [exact I2|]. rewrite D2. exact N2.
      + destruct (set_capacity_inv (with_caps B2 r) U c (with_caps_inv B2 U r I2)) as (I3 & D3 & N3 & _).
        split; [exact I3|]. rewrite D3. simpl. rewrite D2. intro E. apply N3. simpl. apply N2. exact E.
      + split; [apply with_caps_inv; exact I2|]. simpl. rewrite D2. exact N2.
    - (* set_buffer_capacity *)
      destruct I as [I Hd0]. destruct (set_capacity_inv B U c I) as (I' & D' & N' & _).
      split; [exact I'|]. rewrite D'. intro E. apply N'. apply Hd0. exact E.
  Qed.

  Fixpoint keep (prog : list citem) (rets : list (result json)) : list (result json) :=
    match prog, rets with
    | it :: p, r :: rs => if unbuffered_item it then r :: keep p rs else keep p rs
    | _, _ => []
    end.

  Lemma crun_sim : forall prog B U,
    Inv B U -> forallb (fun it => negb (is_new it)) prog = true ->
    let '(B', rb) := crun B prog in
    let '(U', ru) := crun U (strip prog) in
    keep prog rb = ru /\ Inv B' U'.
  Proof.
    induction prog as [|it prog IH]; intros B U I Hn; simpl.
    - auto.
    - simpl in Hn. apply andb_true_iff in Hn. destruct Hn as [Hn1 Hn2]. apply negb_true_iff in Hn1.
      pose proof (cstep_sim B U it I Hn1) as Hs.
      destruct (cstep B it) as [B1 r1].
      destruct (unbuffered_item it) eqn:Eu; simpl.
      + destruct (cstep U it) as [U1 r1']. destruct Hs as [-> I1].
        specialize (IH B1 U1 I1 Hn2).
        destruct (crun B1 prog) as [B2 rs]. destruct (crun U1 (strip prog)) as [U2 rs'].
        destruct IH as [<- I2]. auto.
      + specialize (IH B1 U Hs Hn2).
        destruct (crun B1 prog) as [B2 rs]. destruct (crun U (strip prog)) as [U2 rs']. exact IH.
  Qed.

  (* ---- initial states ---- *)
  Definition good_init (st : cstate) : Prop :=
    depth st = 0%nat /\ buf st = [] /\ nowrite (dk st) = [] /\ oerr_of st = false /\
    (forall h h' f m m', nlookup h (mems st) = Some (f, m) -> nlookup h' (mems st) = Some (f, m') -> h = h') /\
    (forall h f m, nlookup h (mems st) = Some (f, m) -> is_obj m /\ insync m (nlookup f (files st))).

  Lemma good_init_inv : forall st, good_init st -> Inv st st.
  Proof.
    intros st (Hd & Hb & Hnw & Hoe & Hi & Hs). split; [|intros _ f; rewrite Hb; reflexivity].
    constructor; auto.
    - intros h f m Hm. destruct (Hs h f m Hm) as [Ho Hy]. unfold hinv. rewrite Hb. simpl. split; [exact Ho|left; auto].
    - intros f e H. rewrite Hb in H. discriminate.
    - intros f e H. rewrite Hb in H. discriminate.
  Qed.

  Theorem buffer_transparent_single : forall prog st0,
    good_init st0 -> forallb (fun it => negb (is_new it)) prog = true ->
    let '(B, rb) := crun st0 prog in
    let '(U, ru) := crun st0 (strip prog) in
    keep prog rb = ru /\
    (forall h, nlookup h (mems B) = nlookup h (mems U)) /\
    (depth B = 0%nat ->
       (forall h f m, nlookup h (mems B) = Some (f, m) -> fcontent B f = fcontent U f) /\
       (forall f, (forall h m, nlookup h (mems B) <> Some (f, m)) -> nlookup f (files B) = nlookup f (files U))).
  Proof.
    intros prog st0 Hg Hn.
    pose proof (crun_sim prog st0 st0 (good_init_inv st0 Hg) Hn) as H.
    destruct (crun st0 prog) as [B rb]. destruct (crun st0 (strip prog)) as [U ru].
    destruct H as [Hk [I Hd0]]. split; [exact Hk|]. split; [apply (i_mems B U I)|].
    intro Hd. specialize (Hd0 Hd). split.
    - intros h f m Hm. destruct (i_h B U I h f m Hm) as [Ho Hh]. rewrite (Hd0 f) in Hh.
      unfold fcontent. destruct Hh as [[Hf _]|(Hfb & Hfu & He)].
      + rewrite Hf. reflexivity.
      + rewrite Hfb, Hfu. symmetry. exact He.
    - apply (i_free B U I).
  Qed.
End Sim.

(* ================= refutations (witnesses; replayed on the implementation by harness/c05.py GOLDEN) ================= *)
Local Open Scope N_scope.
Definition fr0 : fl -> str := fun _ => [48].
Definition kx : str := [120].
Definition kc : str := [99].
Definition core0 := init_core 33554432.

(* two collections on one file inside one block: the write of collection 1 is dropped on exit *)
Definition prog_lost : list citem :=
  [CNew 1 1; CNew 2 1; CEnter None; COp 1 [] OGet; COp 2 [] OGet; COp 1 [] (OSet kx (JInt 1)); CExit].

Lemma buffer_transparent_refuted_w :
  let B := fst (crun fr0 merge (fun k : N => k) core0 prog_lost) in
  let U := fst (crun fr0 merge (fun k : N => k) core0 (strip prog_lost)) in
  depth B = 0%nat /\ fcontent B 1 = JObj [] /\ fcontent U 1 = JObj [(kx, JInt 1)].
Proof. vm_compute. repeat split. Qed.

(* ... and with a small capacity the writing collection does not even read its own write back *)
Definition prog_own : list citem :=
  [CNew 1 1; CNew 2 1; COp 1 [] OClear; CEnter (Some 3); COp 1 [] OGet; COp 2 [] OGet;
   COp 1 [] (OSet kx (JInt 1)); COp 1 [] OGet].

Lemma read_own_writes_refuted_w :
  nth 6 (snd (crun fr0 merge (fun k : N => k) core0 prog_own)) (Err EOther) = Ok JNull /\
  nth 7 (snd (crun fr0 merge (fun k : N => k) core0 prog_own)) (Err EOther) = Ok (JObj []).
Proof. vm_compute. split; reflexivity. Qed.

(* update() cannot replace a nested dict by None: not even Python-equal to the plain dict *)
Definition prog_none : list citem :=
  [CNew 1 1; COp 1 [] (OSet kc (JObj [(kx, JInt 1)])); COp 1 [] (OUpdate [(kc, JNull)]); COp 1 [] OGet].
Definition plain_none : json :=
  fst (plain_step [] (OUpdate [(kc, JNull)]) (fst (plain_step [] (OSet kc (JObj [(kx, JInt 1)])) (JObj [])))).

Lemma doc_faithful_refuted_w :
  exists v, nth 3 (snd (crun fr0 merge (fun k : N => k) core0 prog_none)) (Err EOther) = Ok v /\
            fcontent (fst (crun fr0 merge (fun k : N => k) core0 prog_none)) 1 = v /\
            plain_none = JObj [(kc, JNull)] /\ py_eq v plain_none = false.
Proof. eexists. vm_compute. repeat split. Qed.

(* update() keeps an existing value that compares == : the stored type differs from the plain dict's *)
Definition prog_typed : list citem :=
  [CNew 1 1; COp 1 [] (OSet kx (JInt 1)); COp 1 [] (OUpdate [(kx, JBool true)]); COp 1 [] OGet].

Lemma doc_faithful_typed_refuted_w :
  nth 3 (snd (crun fr0 merge (fun k : N => k) core0 prog_typed)) (Err EOther) = Ok (JObj [(kx, JInt 1)]) /\
  fst (plain_step [] (OUpdate [(kx, JBool true)]) (JObj [(kx, JInt 1)])) = JObj [(kx, JBool true)] /\
  py_eq (JObj [(kx, JInt 1)]) (JObj [(kx, JBool true)]) = true.
Proof. vm_compute. repeat split. Qed.

(* ================= the signac part: the document handle follows the job ================= *)
Lemma nmem_add_dir : forall ds f, f <> 0 -> f <> 10 -> nmem f (add_dir ds f) = true.
Proof.
  intros ds f H0 H10. unfold add_dir. assert (E0 : N.eqb f 0 = false) by (apply N.eqb_neq; exact H0).
  assert (E1 : N.eqb f 10 = false) by (apply N.eqb_neq; exact H10). rewrite E0, E1. simpl.
  destruct (nmem f ds) eqn:E; [exact E|]. unfold nmem. rewrite existsb_app. simpl. rewrite N.eqb_refl. apply orb_true_r.
Qed.

Section Follow.
  Variable frepr : fl -> str.
  Notation jstep := (jstep frepr merge (fun k : N => k)).

  (* after a successful re-key the next document access of that Job object goes through a NEW collection
     bound to the file of the NEW id, in a directory that exists *)
  Lemma follow_rekey : forall js j f f' d,
    nlookup j (jobs js) = Some (f, d) -> f <> f' -> nmem f (dirs js) = true -> nmem f' (dirs js) = false -> f' <> 0 -> f' <> 10 ->
    let js1 := fst (jstep js (JRekey j f')) in
    snd (jstep js (JRekey j f')) = Ok JNull /\
    nlookup j (jobs js1) = Some (f', None) /\
    nlookup f' (files (core js1)) = nlookup f (files (core js)) /\
    nlookup f (files (core js1)) = None /\
    exists js2 h, resolve_doc frepr merge (fun k : N => k) js1 j = Some (js2, h) /\
                  nlookup h (mems (core js2)) = Some (f', empty_obj) /\ nmem f' (dirs js2) = true.
  Proof.
    intros js j f f' d Hj Hne Hd Hd' H0 H10. cbv zeta. unfold Doc.jstep. rewrite Hj. cbv beta zeta.
    rewrite N.sub_diag, N.add_0_r.
    assert (E : N.eqb f f' = false) by (apply N.eqb_neq; exact Hne). rewrite E, Hd, Hd'. simpl.
    split; [reflexivity|]. split; [apply nlookup_nset_same|].
    split.
    { unfold move_key. destruct (nlookup f (files (core js))) as [v|] eqn:Ev; simpl.
      - apply nlookup_nset_same.
      - apply nlookup_nremove_same. }
    split.
    { unfold move_key. destruct (nlookup f (files (core js))) as [v|] eqn:Ev; simpl.
      - rewrite nlookup_nset_other by auto. apply nlookup_nremove_same.
      - rewrite nlookup_nremove_other by auto. apply nlookup_nremove_same. }
    unfold resolve_doc. simpl. rewrite nlookup_nset_same. eexists. eexists. split; [reflexivity|]. simpl.
    split; [apply nlookup_nset_same|].
    apply nmem_add_dir; assumption.
  Qed.

  (* after a move to the other project the next document access goes through a NEW collection bound to the file
     in the destination project, which holds what the source file held *)
  Lemma follow_move : forall js j f d,
    nlookup j (jobs js) = Some (f, d) -> nmem f (dirs js) = true -> nmem (f + 10) (dirs js) = false -> f <> 0 ->
    let js1 := fst (jstep js (JMove j)) in
    snd (jstep js (JMove j)) = Ok JNull /\
    nlookup j (jobs js1) = Some (f + 10, None) /\
    nlookup (f + 10) (files (core js1)) = nlookup f (files (core js)) /\
    nlookup f (files (core js1)) = None /\
    exists js2 h, resolve_doc frepr merge (fun k : N => k) js1 j = Some (js2, h) /\
                  nlookup h (mems (core js2)) = Some (f + 10, empty_obj) /\ nmem (f + 10) (dirs js2) = true.
  Proof.
    intros js j f d Hj Hd Hd' Hf0. cbv zeta. unfold Doc.jstep. rewrite Hj. cbv beta zeta. rewrite Hd, Hd'. simpl.
    assert (Hne : f <> f + 10) by lia.
    split; [reflexivity|]. split; [apply nlookup_nset_same|].
    split.
    { unfold move_key. destruct (nlookup f (files (core js))) as [v|] eqn:Ev; simpl.
      - apply nlookup_nset_same.
      - apply nlookup_nremove_same. }
    split.
    { unfold move_key. destruct (nlookup f (files (core js))) as [v|] eqn:Ev; simpl.
      - rewrite nlookup_nset_other by lia. apply nlookup_nremove_same.
      - rewrite nlookup_nremove_other by lia. apply nlookup_nremove_same. }
    unfold resolve_doc. simpl. rewrite nlookup_nset_same. eexists. eexists. split; [reflexivity|]. simpl.
    split; [apply nlookup_nset_same|]. apply nmem_add_dir; lia.
  Qed.

  (* after remove() the next document access re-creates the job and starts from an empty document *)
  Lemma follow_remove : forall js j f d,
    nlookup j (jobs js) = Some (f, d) -> nmem f (dirs js) = true -> depth (core js) = 0%nat ->
    let js1 := fst (jstep js (JRemove j)) in
    nlookup j (jobs js1) = Some (f, None) /\ nlookup f (files (core js1)) = None /\ nmem f (dirs js1) = false /\
    exists js2 h, resolve_doc frepr merge (fun k : N => k) js1 j = Some (js2, h) /\
                  nlookup h (mems (core js2)) = Some (f, empty_obj) /\ h = nexth js.
  Proof.
    intros js j f d Hj Hd H0. cbv zeta. unfold Doc.jstep. rewrite Hj, Hd. simpl. rewrite H0. simpl.
    split; [apply nlookup_nset_same|]. split; [apply nlookup_nremove_same|].
    split.
    { unfold del_dir, nmem. apply not_true_is_false. intro H. apply existsb_exists in H.
      destruct H as (x & Hx & Ex). apply filter_In in Hx. destruct Hx as [_ Hx]. apply N.eqb_eq in Ex. subst x.
      rewrite N.eqb_refl in Hx. discriminate. }
    unfold resolve_doc. simpl. rewrite nlookup_nset_same. eexists. eexists. split; [reflexivity|]. simpl.
    split; [apply nlookup_nset_same|reflexivity].
  Qed.

  (* every document operation of a Job object goes to the file of the id the object currently has *)
  Lemma follow_op : forall js j f p o,
    nlookup j (jobs js) = Some (f, None) ->
    exists js1 h, resolve_doc frepr merge (fun k : N => k) js j = Some (js1, h) /\ nlookup h (mems (core js1)) = Some (f, empty_obj) /\
                  jstep js (JOp j p o) = (with_core js1 (fst (cstep frepr merge (fun k : N => k) (core js1) (COp h p o))),
                                          snd (cstep frepr merge (fun k : N => k) (core js1) (COp h p o))).
  Proof.
    intros js j f p o Hj. unfold Doc.jstep, resolve_doc. rewrite Hj. eexists. eexists. split; [reflexivity|].
    split; [simpl; apply nlookup_nset_same|].
    match goal with |- (let '(c, r) := ?x in _) = _ => destruct x as [c r] end. reflexivity.
  Qed.

  (* a shallow copy c of the re-keyed Job object follows the change: in the programs it becomes, right after the
     re-key through j, an object for the new id (harness item "follow" = JOpen c f' prov, no action on the
     implementation).  Then c and j name the SAME document file f' (each through a collection of its own, created on
     the next access), nothing else changed: what is written through one is what the other loads *)
  Lemma follow_copy : forall js j c f f' d prov,
    c <> j -> prov <> prov_symlink ->
    nlookup j (jobs js) = Some (f, d) -> f <> f' -> nmem f (dirs js) = true -> nmem f' (dirs js) = false ->
    let js1 := fst (jstep js (JRekey j f')) in
    let js2 := fst (jstep js1 (JOpen c f' prov)) in
    snd (jstep js1 (JOpen c f' prov)) = Ok JNull /\
    nlookup c (jobs js2) = Some (f', None) /\ nlookup j (jobs js2) = Some (f', None) /\
    core js2 = core js1 /\ dirs js2 = dirs js1.
  Proof.
    intros js j c f f' d prov Hcj Hp Hj Hne Hd Hd'. cbv zeta. unfold Doc.jstep. rewrite Hj. cbv beta zeta.
    rewrite N.sub_diag, N.add_0_r.
    assert (E : N.eqb f f' = false) by (apply N.eqb_neq; exact Hne). rewrite E, Hd, Hd'. simpl.
    unfold key_of. assert (Ep : N.eqb prov prov_symlink = false) by (apply N.eqb_neq; exact Hp). rewrite Ep.
    split; [reflexivity|]. split; [apply nlookup_nset_same|].
    split; [rewrite nlookup_nset_other by auto; apply nlookup_nset_same|].
    split; reflexivity.
  Qed.
End Follow.

(* ================= licence for the correspondence ================= *)
Definition res_exact (a b : result json) : bool :=
  match a, b with
  | Ok x, Ok y => json_eqb x y
  | Err e, Err e' => exn_eqb e e'
  | _, _ => false
  end.
Definition files_exact (a b : list (N * json)) : bool :=
  list_eqb (fun x y => N.eqb (fst x) (fst y) && json_eqb (snd x) (snd y)) a b.
Definition obs_exact (a b : obs5) : bool :=
  res_exact (o_ret a) (o_ret b) && files_exact (o_files a) (o_files b) && list_eqb N.eqb (o_dirs a) (o_dirs b)
  && Bool.eqb (o_buffered a) (o_buffered b) && N.eqb (o_stray a) (o_stray b).
Definition agree_exact (c : case_C05) : bool := all2 obs_exact (run_C05 c) (c5_obs c).

Definition with_model_obs (c : case_C05) : case_C05 :=
  {| c5_ftab := c5_ftab c; c5_cap0 := c5_cap0 c; c5_prog := c5_prog c; c5_obs := run_C05 c |}.

Lemma res_exact_eq : forall a b, res_exact a b = true -> a = b.
Proof.
  intros [x|e] [y|e']; simpl; intro H; try discriminate.
  - f_equal. apply json_eqb_eq. exact H.
  - f_equal. apply exn_eqb_eq. exact H.
Qed.

Lemma obs_exact_eq : forall a b, obs_exact a b = true -> a = b.
Proof.
  intros [r1 f1 d1 b1 s1] [r2 f2 d2 b2 s2] H. unfold obs_exact in H. simpl in H.
  repeat (apply andb_true_iff in H; destruct H as [H ?]).
  apply res_exact_eq in H. apply N.eqb_eq in H0. apply Bool.eqb_prop in H1.
  apply (list_eqb_eq N N.eqb N.eqb_eq) in H2.
  assert (f1 = f2).
  { apply (list_eqb_eq _ (fun x y => N.eqb (fst x) (fst y) && json_eqb (snd x) (snd y))); [|exact H3].
    intros [k v] [k' v']. simpl. rewrite andb_true_iff, N.eqb_eq, json_eqb_eq. split; [intros [-> ->]; reflexivity|intro E; inversion E; auto]. }
  subst. reflexivity.
Qed.

Lemma all2_exact_eq : forall a b, all2 obs_exact a b = true -> a = b.
Proof.
  induction a as [|x a IH]; destruct b as [|y b]; simpl; intro H; try discriminate; [reflexivity|].
  apply andb_true_iff in H. destruct H as [H1 H2]. f_equal; [apply obs_exact_eq; exact H1|apply IH; exact H2].
Qed.

(* when the implementation's observations ARE the model's, the oracle's verdict on the implementation is its
   verdict on the model run *)
Theorem model_holds_C05 : forall c,
  agree_exact c = true -> holds_C05 c = holds_C05 (with_model_obs c) /\ mismatch_C05 c = mismatch_C05 (with_model_obs c).
Proof.
  intros c H. unfold agree_exact in H. apply all2_exact_eq in H.
  unfold holds_C05, mismatch_C05, with_model_obs, run_C05 in *. simpl. rewrite <- H. split; reflexivity.
Qed.

(* ================= unbuffered, one up-to-date collection per file: the document is the pure function ============ *)
Lemma get_at_app : forall a b d,
  get_at (a ++ b) d = match get_at a d with Ok v => get_at b v | Err e => Err e end.
Proof.
  induction a as [|e a IH]; intros b d; simpl; [reflexivity|].
  destruct e as [k|i]; destruct d; try reflexivity.
  - destruct (alookup k kvs); [apply IH|reflexivity].
  - destruct (nth_error l (N.to_nat i)); [apply IH|reflexivity].
Qed.

Lemma survives_refl : forall p d t, get_at p d = Ok t -> survives p d d = true.
Proof.
  induction p as [|e p IH]; intros d t H; simpl; [reflexivity|].
  destruct e as [k|i]; destruct d; simpl in *; try discriminate.
  - destruct (alookup k kvs) as [x|] eqn:E; [|discriminate]. rewrite N.eqb_refl. simpl. eapply IH; eauto.
  - destruct (nth_error l (N.to_nat i)) as [x|] eqn:E; [|discriminate]. rewrite N.eqb_refl. simpl. eapply IH; eauto.
Qed.

Section Unbuf.
  Variable frepr : fl -> str.
  Notation load := (load frepr merge (fun k : N => k)).
  Notation save := (save frepr merge (fun k : N => k)).
  Notation cop := (cop frepr merge (fun k : N => k)).

  (* outside blocks, collection h holds exactly what its file holds (an absent file = the empty document),
     and the file's directory exists *)
  Definition uptodate (st : cstate) (h f : N) (d : json) : Prop :=
    depth st = 0%nat /\ nlookup h (mems st) = Some (f, d) /\ fcontent st f = d /\ nmem f (nowrite (dk st)) = false.

  (* st' differs from st at most in the memory of h *)
  Definition same_but_mem (st st' : cstate) (h : N) : Prop :=
    files st' = files st /\ depth st' = depth st /\ dk st' = dk st /\ forall x, x <> h -> nlookup x (mems st') = nlookup x (mems st).

  Lemma uload : forall st h f d, uptodate st h f d ->
    load st h f d = (set_mem st h f d, d).
  Proof.
    intros st h f d (Hd & Hm & Hf & _). unfold Doc.load; cbv beta. rewrite Hd. unfold fcontent in Hf.
    destruct (nlookup f (files st)) as [v|]; simpl; [subst v; rewrite merge_same|]; reflexivity.
  Qed.

  Lemma uptodate_set_mem : forall st h f d, uptodate st h f d ->
    uptodate (set_mem st h f d) h f d /\ same_but_mem st (set_mem st h f d) h.
  Proof.
    intros st h f d (Hd & Hm & Hf & Hn). split.
    - split; [exact Hd|]. split; [simpl; apply nlookup_nset_same|split; [exact Hf|exact Hn]].
    - split; [reflexivity|]. split; [reflexivity|]. split; [reflexivity|]. intros x Hx. simpl. apply nlookup_nset_other. auto.
  Qed.

  Lemma same_but_mem_trans : forall a b c h, same_but_mem a b h -> same_but_mem b c h -> same_but_mem a c h.
  Proof.
    intros a b c h (F1 & D1 & K1 & M1) (F2 & D2 & K2 & M2). split; [congruence|]. split; [congruence|]. split; [congruence|].
    intros x Hx. rewrite M2, M1; auto.
  Qed.

  Lemma uwalk : forall p st h f d pre v0,
    uptodate st h f d -> ferr_of st = false -> get_at pre d = Ok v0 ->
    let '(st', m', e) := walk frepr merge (fun k : N => k) st h f d pre p in
    m' = d /\ uptodate st' h f d /\ same_but_mem st st' h /\
    e = match get_at (pre ++ p) d with Ok _ => None | Err x => Some x end.
  Proof.
    induction p as [|el p IH]; intros st h f d pre v0 Hu Hq Hp; simpl.
    - rewrite app_nil_r, Hp. split; [reflexivity|]. split; [exact Hu|]. split; [|reflexivity].
      split; [reflexivity|]. split; [reflexivity|]. split; [reflexivity|]. auto.
    - rewrite (uload st h f d Hu). destruct (uptodate_set_mem st h f d Hu) as [Hu1 Hs1].
      assert (Hq1 : ferr_of (set_mem st h f d) = false) by exact Hq. rewrite Hq1.
      replace (pre ++ el :: p) with ((pre ++ [el]) ++ p) by (rewrite <- app_assoc; reflexivity).
      destruct (get_at (pre ++ [el]) d) as [v1|x] eqn:Eg.
      + specialize (IH (set_mem st h f d) h f d (pre ++ [el]) v1 Hu1 Hq1 Eg).
        destruct (walk frepr merge (fun k : N => k) (set_mem st h f d) h f d (pre ++ [el]) p) as [[st' m'] e].
        destruct IH as (A & B & C & D). split; [exact A|]. split; [exact B|]. split; [|exact D].
        eapply same_but_mem_trans; eauto.
      + rewrite get_at_app, Eg. split; [reflexivity|]. split; [exact Hu1|]. split; [exact Hs1|reflexivity].
  Qed.

  Lemma usave : forall st h f d d', uptodate st h f d ->
    uptodate (save st h f d') h f d' /\
    (forall f0, f0 <> f -> nlookup f0 (files (save st h f d')) = nlookup f0 (files st)) /\
    (forall x, x <> h -> nlookup x (mems (save st h f d')) = nlookup x (mems st)) /\
    ferr_of (save st h f d') = ferr_of st /\ oerr_of (save st h f d') = oerr_of st.
  Proof.
    intros st h f d d' (Hd & Hm & Hf & Hn). unfold Doc.save; cbv beta. rewrite Hd, Hn. simpl. split; [|split; [|split; [|split; reflexivity]]].
    - split; [exact Hd|]. split; [simpl; apply nlookup_nset_same|]. split; [|exact Hn].
      unfold fcontent. simpl. rewrite nlookup_nset_same. reflexivity.
    - intros f0 Hne. apply nlookup_nset_other. auto.
    - intros x Hx. apply nlookup_nset_other. auto.
  Qed.

  Theorem ucop_spec : forall st00 h f d p o,
    uptodate st00 h f d ->
    let '(st', r) := cop st00 h p o in
    let '(d', r') := doc_apply merge p o d in
    r = r' /\ uptodate st' h f (if is_read o then d else d') /\
    (forall f0, f0 <> f -> nlookup f0 (files st') = nlookup f0 (files st00)) /\
    (forall x, x <> h -> nlookup x (mems st') = nlookup x (mems st00)).
  Proof.
    intros st00 h f d p o Hu00. unfold Doc.cop. cbv zeta.
    set (st := with_oerr (with_ferr st00 false) false).
    assert (Hu : uptodate st h f d) by exact Hu00.
    assert (Hq : ferr_of st = false) by reflexivity. assert (Hq' : oerr_of st = false) by reflexivity.
    change (files st00) with (files st). change (mems st00) with (mems st).
    destruct Hu as (Hd & Hm & Hf & Hn). rewrite Hm.
    assert (Hu : uptodate st h f d) by (split; [exact Hd|split; [exact Hm|split; [exact Hf|exact Hn]]]).
    pose proof (uwalk p st h f d [] d Hu Hq eq_refl) as Hw. simpl app in Hw.
    destruct (walk frepr merge (fun k : N => k) st h f d [] p) as [[st0 m0] e0].
    destruct Hw as (-> & Hu0 & (F0 & D0 & K0 & M0) & ->).
    unfold doc_apply.
    destruct (get_at p d) as [t|x] eqn:Eg.
    2:{ split; [reflexivity|]. split; [destruct (is_read o); exact Hu0|]. split; [intros; rewrite F0; reflexivity|exact M0]. }
    assert (Hl : exists st1, (if op_loads o then load st0 h f d else (st0, d)) = (st1, d) /\ uptodate st1 h f d /\
                  files st1 = files st /\ dk st1 = dk st /\ (forall x, x <> h -> nlookup x (mems st1) = nlookup x (mems st))).
    { destruct (op_loads o).
      - rewrite (uload st0 h f d Hu0). destruct (uptodate_set_mem st0 h f d Hu0) as [Hu1 (F1 & _ & K1 & M1)].
        eexists. split; [reflexivity|]. split; [exact Hu1|]. split; [congruence|]. split; [congruence|]. intros x Hx. rewrite M1, M0; auto.
      - exists st0. auto. }
    destruct Hl as (st1 & -> & Hu1 & F1 & K1 & M1).
    assert (Hq1 : ferr_of st1 = false) by (unfold ferr_of; rewrite K1; exact Hq).
    assert (Hq1' : oerr_of st1 = false) by (unfold oerr_of; rewrite K1; exact Hq').
    rewrite Hq1. rewrite (survives_refl p d t Eg), orb_true_r. cbv iota. rewrite Eg.
    destruct (is_read o) eqn:Er.
    - destruct o; try discriminate. simpl. split; [reflexivity|]. split; [exact Hu1|]. split; [intros; rewrite F1; reflexivity|exact M1].
    - unfold sync_apply. destruct (apply_with merge o t) as [[t' r]|x] eqn:Ea.
      + destruct (usave st1 h f d (set_at p t' d) Hu1) as (A & B & C & D & E).
        unfold raised. rewrite D, E, Hq1, Hq1'.
        split; [reflexivity|]. split; [exact A|]. split; [intros f0 H0; rewrite B, F1; auto|intros x Hx; rewrite C, M1; auto].
      + destruct (usave st1 h f d d Hu1) as (A & B & C & D & E).
        destruct o; try (split; [reflexivity|]; split; [exact Hu1|]; split; [intros; rewrite F1; reflexivity|exact M1]);
          (unfold raised; rewrite D, E, Hq1, Hq1';
           split; [reflexivity|]; split; [exact A|]; split; [intros f0 H0; rewrite B, F1; auto|intros x0 Hx; rewrite C, M1; auto]).
  Qed.

  (* operations other than update()/reset() are exactly the plain dict/list operations *)
  Definition merge_free (o : dop) : bool := match o with OUpdate _ | OReset _ => false | _ => true end.
  Lemma doc_apply_plain : forall p o d, merge_free o = true -> doc_apply merge p o d = plain_step p o d.
  Proof.
    intros p o d H. unfold plain_step, doc_apply. destruct (get_at p d) as [t|]; [|reflexivity].
    assert (E : apply_with merge o t = apply_with (fun _ new => new) o t) by (destruct o; try discriminate; reflexivity).
    rewrite E. reflexivity.
  Qed.
End Unbuf.

(* ================= remove() inside a buffered block ================= *)
(* the document file existed, was buffered in this block, and the job is removed and used again in the block:
   the exit raises BufferedError and what was buffered for the re-created job is dropped (known finding 3) *)
Definition prog_remove_in_block : list jitem :=
  [JOpen 0 1 0; JOp 0 [] (OSet kc (JInt 1)); JEnter None; JOp 0 [] (OSet kx (JInt 2)); JRemove 0;
   JOp 0 [] OGet; JOp 0 [] (OSet kx (JInt 3)); JExit].

Lemma remove_in_block_refuted_w :
  let obs := jrun fr0 merge (init_js 33554432) prog_remove_in_block in
  map o_ret (skipn 5 obs) = [Ok (JObj []); Ok JNull; Err ERuntimeError] /\
  o_files (last obs (model_obs (init_js 0) (Ok JNull))) = [].
Proof. vm_compute. split; reflexivity. Qed.

(* ... whereas a job whose document was not on disk before the block starts afresh and ends with exactly the
   files of the unbuffered run (the seeded demo) *)
Definition prog_remove_fresh : list jitem :=
  [JOpen 0 1 0; JInit 0; JEnter None; JOp 0 [] (OSet kc (JInt 1)); JRemove 0; JInit 0; JOp 0 [] OGet;
   JOp 0 [] (OSetDefault kx (JBool true)); JExit].

Lemma remove_in_block_fresh_w :
  let obs := jrun fr0 merge (init_js 33554432) prog_remove_fresh in
  map o_ret (skipn 6 obs) = [Ok (JObj []); Ok (JBool true); Ok JNull] /\
  o_files (last obs (model_obs (init_js 0) (Ok JNull))) = [(1, JObj [(kx, JBool true)])].
Proof. vm_compute. split; reflexivity. Qed.

(* ================= handle provenance and working directory ================= *)
(* The model identifies a document by project + job: how a Job/Project object was obtained and where the process's
   working directory points do not enter the model's state or results — with ONE exception that the unchanged code
   has as well: a project path through a symlinked prefix is not canonicalised by abspath, so such an object spells
   its file names differently ([key_of]); all other provenances form one equivalence class. *)
Lemma provenance_irrelevant : forall frepr canon js j f p p',
  p <> prov_symlink -> p' <> prov_symlink ->
  jstep frepr merge canon js (JOpen j f p) = jstep frepr merge canon js (JOpen j f p').
Proof.
  intros frepr canon js j f p p' H H'. simpl. unfold key_of.
  apply N.eqb_neq in H, H'. rewrite H, H'. reflexivity.
Qed.

Lemma cwd_irrelevant : forall frepr canon js d, jstep frepr merge canon js (JCwd d) = (js, Ok JNull).
Proof. reflexivity. Qed.

Definition erase1 (p : N) : N := if N.eqb p prov_symlink then prov_symlink else 0%N.
Fixpoint erase_prov (prog : list jitem) : list jitem :=
  match prog with
  | [] => []
  | JOpen j f p :: r => JOpen j f (erase1 p) :: erase_prov r
  | it :: r => it :: erase_prov r
  end.

Lemma jrun_provenance : forall frepr prog js, jrun frepr merge js (erase_prov prog) = jrun frepr merge js prog.
Proof.
  intros frepr prog. induction prog as [|it prog IH]; intro js; [reflexivity|].
  assert (H : forall it', jstep frepr merge canon100 js it' = jstep frepr merge canon100 js it ->
              jrun frepr merge js (it' :: erase_prov prog) = jrun frepr merge js (it :: prog)).
  { intros it' E. simpl. rewrite E. destruct (jstep frepr merge canon100 js it) as [js1 x]. rewrite IH. reflexivity. }
  destruct it; simpl erase_prov; apply H; try reflexivity.
  simpl. unfold key_of, erase1. destruct (N.eqb prov prov_symlink) eqn:E; [rewrite N.eqb_refl|]; reflexivity.
Qed.

(* two spellings of one job document written in one block: two buffer entries, BufferedError on exit, the write of
   the object flushed second is lost (known finding 4) *)
Definition prog_symlink : list jitem :=
  [JOpen 0 1 1; JOpen 1 1 prov_symlink; JInit 0; JEnter None; JOp 0 [] (OSet kx (JInt 1)); JOp 1 [] (OSet kc (JInt 2)); JExit].

Lemma symlink_two_keys_refuted_w :
  let obs := jrun fr0 merge (init_js 33554432) prog_symlink in
  map o_ret (skipn 6 obs) = [Err ERuntimeError] /\
  o_files (last obs (model_obs (init_js 0) (Ok JNull))) = [(1, JObj [(kc, JInt 2)])].
Proof. vm_compute. split; reflexivity. Qed.
