(* CorrC09.v — observational form of C09 (state point corruption is detected, never accepted, and
   repairable).  A case is a damaged project (file tree with the bytes of every file, decoded cache
   file if any), the decoding tables (what Python's two decoders did with every state point file
   text that occurs), the directory listing order, and what the real signac did: check(), opening by
   id in fresh sessions, repair(), the tree afterwards, check() again and opening by id through the
   session that ran repair(). *)
From SV Require Import Base Json MD5 Canon FS Ws Cache Repair CorrC01 CorrC08.

Record case_C09 := {
  c9_ftab : list (fl * str);
  c9_dec : list (list N * (option json * dec));   (* bytes -> (decode()+loads(str), loads(bytes)) *)
  c9_fs : fs;                                     (* the damaged project *)
  c9_listing : list str;                          (* os.listdir(workspace), id-like names, in order *)
  c9_truth : list (str * str);                    (* ground truth of the harness: (id of an original job, name of the
                                                     directory that holds it now) — differs after a rename *)
  c9_check : ck;                                  (* Project(root).check() *)
  c9_open : list (str * result json);             (* Project(root).open_job(id=i).statepoint(), fresh each *)
  c9_repair : ck;                                 (* q = Project(root); q.repair() *)
  c9_after : fs;                                  (* the tree after repair *)
  c9_check_after : ck;                            (* Project(root).check() *)
  c9_open_after : list (str * result json);       (* q.open_job(id=i).statepoint(), in this order *)
  c9_reopen : list (str * list (result json));    (* j = Project(root).open_job(id=i) (fresh session each), then job.statepoint
                                                     accessed several times through that SAME handle *)
  c9_upd : option (option cache * result (option N))
                                                  (* Some (k0, r): AFTER the damage and before everything above a fresh session
                                                     called update_cache(): k0 = decoded cache file before that call (c9_fs holds
                                                     the file as it is afterwards), r = what the call returned / raised *)
}.

Fixpoint dec_lookup (t : list (list N * (option json * dec))) (b : list N) : option (option json * dec) :=
  match t with
  | [] => None
  | (b', r) :: t' => if bytes_eqb b b' then Some r else dec_lookup t' b
  end.

Section INST9.
  Variable c : case_C09.
  Definition fr9 : fl -> str := ftab_lookup (c9_ftab c).
  (* a text that is not in the table decodes to nothing: a model-written file the implementation did
     not write shows up as a mismatch *)
  Definition ls9 (b : list N) : option json := match dec_lookup (c9_dec c) b with Some (r, _) => r | None => None end.
  Definition lb9 (b : list N) : dec := match dec_lookup (c9_dec c) b with Some (_, r) => r | None => DJsonErr end.
  Definition cid9 (v : json) : str := calc_id fr9 v.

  (* ------------------------------------------------------------ the model, run on the input *)
  Definition m_check : ck := check_in fr9 ls9 (c9_fs c) (c9_listing c).
  Definition m_open (i : str) : result json := snd (open_sp_by_id fr9 lb9 (c9_fs c) fresh i).
  Definition m_repair : fs * sess * rr := repair_in fr9 ls9 lb9 (c9_fs c) fresh (c9_listing c).
  Definition m_after : fs := fst (fst m_repair).
  Definition m_check_after : ck := check fr9 ls9 m_after.

  Fixpoint m_open_after (f : fs) (s : sess) (ids : list str) : list (result json) :=
    match ids with
    | [] => []
    | i :: r => let '(s1, x) := open_sp_by_id fr9 lb9 f s i in x :: m_open_after f s1 r
    end.

  Definition m_reopen (n : nat) (i : str) : list (result json) := snd (open_sp_rep fr9 lb9 n (c9_fs c) fresh i).

  (* the project as it was before the post-damage update_cache(): c9_fs with the earlier cache file *)
  Definition fs_before_upd (k0 : option cache) : fs :=
    let g := without_cache (c9_fs c) in
    match k0 with
    | None => g
    | Some k => match write_file g CACHEP (cache_content k) with FOk g1 => g1 | FErr _ => g end
    end.
  Definition m_upd (k0 : option cache) : fs * sess * result (option N) :=
    update_cache fr9 ls9 (fs_before_upd k0) fresh.

  (* ------------------------------------------------------------ comparison *)
  Definition ck_same (a b : ck) : bool :=
    match a, b with
    | CkOk, CkOk => true
    | CkCorrupt x, CkCorrupt y => seteq_s x y && Nat.eqb (length x) (length y)
    | CkExn e, CkExn e' => exn_eqb e e'
    | _, _ => false
    end.

  Definition rj_same (a b : result json) : bool :=
    match a, b with
    | Ok x, Ok y => json_eqb (norm x) (norm y)
    | Err e, Err e' => exn_eqb e e'
    | _, _ => false
    end.

  Definition upd_same (a b : result (option N)) : bool :=
    match a, b with
    | Ok None, Ok None => true
    | Ok (Some n), Ok (Some m) => N.eqb n m
    | Err e, Err e' => exn_eqb e e'
    | _, _ => false
    end.

  Definition in_ws (p : path) : bool := under [WS] p.

  Definition node_same (a b : option node) : bool :=
    match a, b with
    | None, None => true
    | Some Dir, Some Dir => true
    | Some (File x), Some (File y) => bytes_eqb (c_bytes x) (c_bytes y)
    | _, _ => false
    end.

  Definition tree_le9 (a b : fs) : bool :=
    forallb (fun e => negb (in_ws (fst e)) || node_same (get a (fst e)) (get b (fst e))) a.
  Definition tree_same9 (a b : fs) : bool := tree_le9 a b && tree_le9 b a.

  Fixpoint list_same {A B} (p : A -> B -> bool) (a : list A) (b : list B) : bool :=
    match a, b with
    | [], [] => true
    | x :: a', y :: b' => p x y && list_same p a' b'
    | _, _ => false
    end.

  Definition mismatch9 : bool :=
    negb (ck_same m_check (c9_check c)
          && forallb (fun p => rj_same (m_open (fst p)) (snd p)) (c9_open c)
          && ck_same (rr_seen (snd m_repair)) (c9_repair c)
          && tree_same9 m_after (c9_after c)
          && ck_same m_check_after (c9_check_after c)
          && list_same rj_same (m_open_after m_after (snd (fst m_repair)) (map fst (c9_open_after c)))
                       (map snd (c9_open_after c))
          && forallb (fun p => list_same rj_same (m_reopen (length (snd p)) (fst p)) (snd p)) (c9_reopen c)
          && match c9_upd c with
             | None => true
             | Some (k0, r) =>
                 let '(f1, _, mr) := m_upd k0 in
                 upd_same mr r && file_same (cache_file f1) (cache_file (c9_fs c))
             end).

  (* ------------------------------------------------------------ the oracle (implementation side) *)
  (* independent classification of a job directory: file present, decodable, canonical hash = name *)
  Definition decoded (f : fs) (i : str) : option json :=
    match get f (spf i) with Some (File x) => ls9 (c_bytes x) | _ => None end.
  Definition intact (f : fs) (i : str) : bool :=
    match decoded f i with Some v => str_eqb (cid9 v) i | None => false end.

  Definition expected_check (f : fs) (ids : list str) : ck :=
    match filter (fun i => negb (intact f i)) ids with [] => CkOk | l => CkCorrupt l end.

  Definition cachefile9 : cache := match cache_file (c9_fs c) with Some k => k | None => [] end.

  (* where repair may legitimately move the content of job directory i: only a MAPPING names another id *)
  Definition target (i : str) : option str :=
    match decoded (c9_fs c) i with Some (JObj kvs) => Some (cid9 (JObj kvs)) | _ => None end.

  Definition cached_sound (i : str) : bool :=
    match alookup i cachefile9 with Some sp => str_eqb (cid9 sp) i && is_objb sp | None => false end.

  (* a directory holding an intact file (a mapping) of ANOTHER id: it can be moved *)
  Definition movable (d : str) : bool :=
    match target d with Some t => negb (str_eqb t d) | None => false end.

  (* The property's promise, from the ground truth (j = id of an original job, d = its directory now):
       in place, damaged, state point known from the cache           -> j validates after repair();
       renamed, its intact file (hashing to j) still in directory d  -> j validates after repair(), whether or
         not the name j is free — unless j is occupied by a directory that cannot itself be moved away
         (then two jobs would claim one id and nothing may be deleted). *)
  Definition promised (jd : str * str) : bool :=
    let '(j, d) := jd in
    if str_eqb j d then negb (intact (c9_fs c) j) && cached_sound j
    else match target d with
         | Some t => str_eqb t j && (negb (exists_ (c9_fs c) (jdir j)) || movable j)
         | None => false
         end.

  (* known findings (open), as classes of the INPUT:
     2: the cache holds an entry for the NAME of the directory the job sits in (a removed job's id): repair()
        trusts it, finds the name "correct" and overwrites the intact file;
     1: the job's true id is occupied by another misnamed directory with an intact file (chained renames / a
        cycle): repair() walks the listing once, so the job is restored only if the occupant was moved first *)
  Definition excuse (jd : str * str) : N :=
    let '(j, d) := jd in
    if str_eqb j d then 0%N
    else if cached_sound d then 2%N
    else if exists_ (c9_fs c) (jdir j) && movable j then 1%N
    else 0%N.

  Definition non_sp_files (f : fs) : list (path * list N) :=
    flat_map (fun e => match e with
                       | (p, File x) =>
                           match p with
                           | w :: i :: n :: rest =>
                               if str_eqb w WS && negb (str_eqb (last p []) SPF) &&
                                  match get f p with Some (File y) => bytes_eqb (c_bytes x) (c_bytes y) | _ => false end
                               then [(p, c_bytes x)] else []
                           | _ => []
                           end
                       | _ => []
                       end) f.

  Definition moved_ok (pre post : fs) (e : path * list N) : bool :=
    match fst e with
    | w :: i :: rel =>
        let there (j : str) := match get post (w :: j :: rel) with
                               | Some (File y) => bytes_eqb (c_bytes y) (snd e) | _ => false end in
        there i || match target i with Some t => there t | None => false end
    | _ => false
    end.

  Definition frame_ok : bool :=
    forallb (moved_ok (c9_fs c) (c9_after c)) (non_sp_files (c9_fs c))
    && Nat.eqb (length (non_sp_files (c9_fs c))) (length (non_sp_files (c9_after c))).

  Definition sp_ok (p : str * result json) : bool :=
    match snd p with Ok sp => str_eqb (cid9 sp) (fst p) | Err _ => true end.

  (* data follows the job: the documents and data files of a promised job that sits in a misnamed directory d are
     found, byte-identical, under its TRUE id j after repair() (restoring the id by overwriting the state point file of
     whatever directory carries the name j exchanges the jobs' documents) *)
  (* another listed directory whose intact file names the same id j: two claimants of one id — which of them is "the"
     job j cannot be told from the project, the clause below does not apply *)
  Definition rival (j d : str) : bool :=
    existsb (fun d' => negb (str_eqb d' d) && match target d' with Some t => str_eqb t j | None => false end) (c9_listing c).

  Definition follows (jd : str * str) : bool :=
    let '(j, d) := jd in
    str_eqb j d || rival j d ||
    forallb (fun e => match fst e with
                      | w :: i :: rel =>
                          negb (str_eqb i d) ||
                          match get (c9_after c) (w :: j :: rel) with
                          | Some (File y) => bytes_eqb (c_bytes y) (snd e) | _ => false end
                      | _ => true
                      end) (non_sp_files (c9_fs c)).

  (* never accepted through the persistent cache either: every entry of the cache file hashes to its key *)
  Definition cache_sound9 : bool := forallb (fun p => str_eqb (cid9 (snd p)) (fst p)) cachefile9.

  (* the clauses of the oracle: (holds, tag of the open known finding that excuses a failure, 0 = none) *)
  Definition atoms : list (bool * N) :=
    [(ck_same (c9_check c) (expected_check (c9_fs c) (c9_listing c)), 0%N)]
    ++ map (fun p => (sp_ok p, 0%N)) (c9_open c)
    ++ flat_map (fun p => map (fun r => (sp_ok (fst p, r), 0%N)) (snd p)) (c9_reopen c)
    ++ [(cache_sound9, 0%N)]
    ++ flat_map (fun jd => if promised jd then [(intact (c9_after c) (fst jd), excuse jd); (follows jd, excuse jd)] else [])
                (c9_truth c)
    ++ [(frame_ok, 0%N)]
    ++ [(ck_same (c9_check_after c) (expected_check (c9_after c) (job_dirs (c9_after c) WSP)), 0%N)]
    ++ map (fun p => (sp_ok p, 0%N)) (c9_open_after c).

  Definition holds9 : bool := forallb fst atoms.

  Definition known_tag9 : N :=
    let failing := filter (fun a => negb (fst a)) atoms in
    match failing with
    | [] => 0%N
    | _ => if forallb (fun a => negb (N.eqb (snd a) 0)) failing
           then fold_left (fun m a => if N.eqb m 0 then snd a else N.min m (snd a)) failing 0%N
           else 0%N
    end.
End INST9.

Definition mismatch_C09 (c : case_C09) : bool := mismatch9 c.
Definition violation_C09 (c : case_C09) : bool := negb (holds9 c).

Fixpoint known_aux9 (cs : list case_C09) (i : N) : list N :=
  match cs with
  | [] => []
  | c :: r =>
      let t := known_tag9 c in
      if N.eqb t 0 then known_aux9 r (N.succ i) else (i * 100 + t)%N :: known_aux9 r (N.succ i)
  end.

Definition mismatches_C09 (cs : list case_C09) : list N := indices_where mismatch_C09 cs.
Definition known_C09 (cs : list case_C09) : list N := known_aux9 cs 0%N.
Definition violations_C09 (cs : list case_C09) : list N := indices_where violation_C09 cs.
