(* SyncDryProofs.v — a dry run reports exactly the exception the real run would (file walk), once copy()
   and copytree() no longer misbehave under dry_run (F3, F4). *)
From SV Require Import Base Json Canon Sync SyncObs SyncProofs SyncIdemProofs.

Section ErrEq.
  Variable A : Type.
  Variable key : A -> str.
  Variables f g : A -> dir -> wstate.
  Hypothesis Hf : frame_step key f.
  Hypothesis Hg : frame_step key g.
  (* equal entries at the step's own key => equal exception *)
  Hypothesis Hfg : forall x d d', alookup (key x) d = alookup (key x) d' -> snd (f x d) = snd (g x d').

  Lemma run_steps_err_eq : forall l d d', NoDup (map key l) ->
    (forall x, In x l -> alookup (key x) d = alookup (key x) d') ->
    snd (run_steps f l d) = snd (run_steps g l d').
  Proof.
    induction l as [|y l IH]; intros d d' Hnd Hd; [reflexivity|].
    inversion Hnd as [|? ? Hny Hnd']; subst. simpl.
    pose proof (Hfg y d d' (Hd y (or_introl eq_refl))) as Hy.
    destruct (f y d) as [d1 e1] eqn:E1. destruct (g y d') as [d1' e1'] eqn:E2. simpl in Hy. subst e1'.
    destruct e1 as [x|]; [reflexivity|].
    apply IH; [assumption|]. intros n Hin.
    assert (Hne : key n <> key y) by (intro Heq; apply Hny; rewrite <- Heq; apply in_map; assumption).
    replace d1 with (fst (f y d)) by (rewrite E1; reflexivity).
    replace d1' with (fst (g y d')) by (rewrite E2; reflexivity).
    rewrite Hf, Hg by assumption. apply Hd. right. assumption.
  Qed.
End ErrEq.

Section DryErr.
  Variable frepr : fl -> str.
  Variable cf : cfg.
  Hypothesis H3 : fix_F3 cf = true.
  Hypothesis H4 : fix_F4 cf = true.
  Notation excluded := (excluded cf).
  Notation sync_ws := (sync_ws frepr cf).

  Lemma excluded_set_dry : forall o b n, excluded (set_dry o b) n = excluded o n.
  Proof. reflexivity. Qed.

  (* C15: the dry walk ends with the exception class of the real walk (None = returns) *)
  Theorem ws_dry_same_exception : forall fuel o deep sdir ddir subdir,
    NoDup (map fst sdir) -> (forall k x, alookup k sdir = Some x -> wf_node x = true) ->
    snd (sync_ws fuel (set_dry o true) deep sdir ddir subdir) = snd (sync_ws fuel (set_dry o false) deep sdir ddir subdir).
  Proof.
    induction fuel as [|fuel IH]; intros o deep sdir ddir subdir Hnd Hsub; [reflexivity|].
    rewrite !sync_ws_S.
    set (od := set_dry o true). set (orl := set_dry o false).
    set (L1 := of_cls frepr cf deep sdir ddir LeftOnly).
    set (L2 := of_cls frepr cf deep sdir ddir Diff).
    set (L3 := of_cls frepr cf deep sdir ddir SubDir).
    (* pass 1: neither raises *)
    assert (D1 : forall n d, step1 cf od sdir n d = (d, None)).
    { intros n d. unfold step1. destruct (excluded od n); [reflexivity|].
      destruct (alookup n sdir) as [[c m|es]|]; try reflexivity.
      - unfold copy_file. simpl. rewrite H3. reflexivity.
      - destruct (o_recursive od); [|reflexivity]. unfold copy_tree, copy_tree_gen. simpl. rewrite H4. reflexivity. }
    assert (R1 : forall n d, snd (step1 cf orl sdir n d) = None)
      by (intros; apply step1_real_ok; reflexivity).
    rewrite (run_steps_fix _ (step1 cf od sdir) L1 ddir) by (intros; apply D1).
    destruct (run_steps (step1 cf orl sdir) L1 ddir) as [r1 e1] eqn:E1.
    assert (He1 : e1 = None).
    { replace e1 with (snd (run_steps (step1 cf orl sdir) L1 ddir)) by (rewrite E1; reflexivity).
      apply run_steps_all_none. assumption. }
    subst e1.
    assert (F1 : forall n, ~ In n L1 -> alookup n r1 = alookup n ddir).
    { intros n Hn. replace r1 with (fst (run_steps (step1 cf orl sdir) L1 ddir)) by (rewrite E1; reflexivity).
      apply (run_steps_frame _ (fun x => x)); [apply step1_frame|rewrite map_id; assumption]. }
    (* pass 2: the exception does not depend on the state *)
    assert (D2 : forall n d, fst (step2 cf od sdir subdir n d) = d).
    { intros n d. unfold step2. destruct (excluded od n); [reflexivity|].
      destruct (o_strategy od) as [s|]; [|reflexivity].
      destruct (alookup n sdir) as [[c m|es]|]; try reflexivity.
      destruct (alookup n d) as [[c2 m2|es]|]; try reflexivity.
      destruct (verdict s (join subdir n) m m2); [|reflexivity].
      unfold copy_file. simpl. rewrite H3. reflexivity. }
    assert (S2 : forall n d d', snd (step2 cf od sdir subdir n d) = snd (step2 cf orl sdir subdir n d')).
    { intros n d d'. unfold step2. change (excluded od n) with (excluded o n). change (excluded orl n) with (excluded o n).
      change (o_strategy od) with (o_strategy o). change (o_strategy orl) with (o_strategy o).
      destruct (excluded o n); [reflexivity|].
      destruct (o_strategy o) as [s|]; [|reflexivity].
      destruct (alookup n sdir) as [[c m|es]|]; try reflexivity.
      destruct (alookup n d) as [[c2 m2|es]|]; destruct (alookup n d') as [[c2' m2'|es']|]; try reflexivity;
        repeat match goal with |- context [verdict ?a ?b ?c ?e] => destruct (verdict a b c e) end;
        unfold copy_file; simpl; rewrite ?H3; reflexivity. }
    assert (E2eq : snd (run_steps (step2 cf od sdir subdir) L2 ddir) = snd (run_steps (step2 cf orl sdir subdir) L2 r1)).
    { generalize ddir r1. induction L2 as [|y l IHl]; intros a b; [reflexivity|]. simpl.
      pose proof (S2 y a b) as Hy.
      destruct (step2 cf od sdir subdir y a) as [a1 ea]. destruct (step2 cf orl sdir subdir y b) as [b1 eb].
      simpl in Hy. subst eb. destruct ea; [reflexivity|apply IHl]. }
    destruct (run_steps (step2 cf od sdir subdir) L2 ddir) as [q2 eq2] eqn:Eq2.
    destruct (run_steps (step2 cf orl sdir subdir) L2 r1) as [r2 e2] eqn:Er2.
    simpl in E2eq. subst e2.
    assert (Q2 : q2 = ddir).
    { replace q2 with (fst (run_steps (step2 cf od sdir subdir) L2 ddir)) by (rewrite Eq2; reflexivity).
      apply run_steps_id. intros; apply D2. }
    subst q2.
    destruct eq2 as [x|]; [reflexivity|].
    assert (F2 : forall n, ~ In n L2 -> alookup n r2 = alookup n r1).
    { intros n Hn. replace r2 with (fst (run_steps (step2 cf orl sdir subdir) L2 r1)) by (rewrite Er2; reflexivity).
      apply (run_steps_frame _ (fun x => x)); [apply step2_frame|rewrite map_id; assumption]. }
    (* pass 3: same sub-directories, same exceptions by induction *)
    assert (Ef : funny_err frepr cf od deep sdir ddir = funny_err frepr cf orl deep sdir ddir) by reflexivity.
    rewrite Ef. destruct (funny_err frepr cf orl deep sdir ddir); [reflexivity|].
    apply (run_steps_err_eq str (fun n => n) (step3 (sync_ws fuel (set_top od false) deep) od sdir subdir)
                            (step3 (sync_ws fuel (set_top orl false) deep) orl sdir subdir)).
    - apply step3_frame.
    - apply step3_frame.
    - intros n d d' Hdd. unfold step3. change (o_recursive od) with (o_recursive o). change (o_recursive orl) with (o_recursive o).
      destruct (o_recursive o); [|reflexivity].
      destruct (alookup n sdir) as [[c m|ses]|] eqn:Es; try reflexivity.
      rewrite <- Hdd. destruct (alookup n d) as [[c2 m2|des]|]; try reflexivity.
      assert (Hw : wf_node (Dir ses) = true) by (eapply Hsub; eauto).
      destruct (wf_dir_inv _ Hw) as [Hnd' Hsub'].
      specialize (IH (set_top o false) deep ses des (join subdir n) Hnd' Hsub').
      match goal with |- snd (let '(_, _) := ?A in _) = snd (let '(_, _) := ?B in _) =>
        assert (J : snd A = snd B) by exact IH; destruct A; destruct B; exact J
      end.
    - rewrite map_id. apply of_cls_NoDup. assumption.
    - intros n Hin. apply of_cls_In in Hin. destruct Hin as [_ Hc].
      rewrite F2, F1; [reflexivity| |]; intro Hin'; apply of_cls_In in Hin'; destruct Hin' as [_ Hc']; congruence.
  Qed.
End DryErr.

From SV Require Import CorrC13 CorrC14 SyncDocProofs SyncTopProofs.

(* ------------------------------------------------------------------ documents: same skipped keys, same exception *)
Section DryDoc.
  Variable cf : cfg.
  Variable ks : option (str -> option bool).
  Hypothesis H16 : fix_F16 cf = true.

  Definition same_err (r1 r2 : json * list str * option exn) : Prop :=
    snd (fst r1) = snd (fst r2) /\ snd r1 = snd r2.

  Lemma bk_loop_dry_err : forall root rec items,
    NoDup (map fst items) ->
    (forall k x, In (k, x) items -> forall y r sk, same_err (rec x y r true sk) (rec x y r false sk)) ->
    forall d1 d2 sk,
    (forall k, In k (map fst items) -> alookup k d1 = alookup k d2) ->
    snd (fst (bk_loop cf ks root true rec items d1 sk)) = snd (fst (bk_loop cf ks root false rec items d2 sk))
    /\ snd (bk_loop cf ks root true rec items d1 sk) = snd (bk_loop cf ks root false rec items d2 sk).
  Proof.
    intros root rec. induction items as [|[k x] rest IH]; intros Hnd Hrec d1 d2 sk Hd; [simpl; auto|].
    inversion Hnd as [|? ? Hk Hnd']; subst. simpl.
    assert (Hrec' : forall k0 x0, In (k0, x0) rest -> forall y r sk0, same_err (rec x0 y r true sk0) (rec x0 y r false sk0))
      by (intros k0 x0 Hin0; apply (Hrec k0 x0); right; assumption).
    assert (Next : forall a b sk0, (forall k', k' <> k -> alookup k' a = alookup k' d1) ->
                                   (forall k', k' <> k -> alookup k' b = alookup k' d2) ->
              snd (fst (bk_loop cf ks root true rec rest a sk0)) = snd (fst (bk_loop cf ks root false rec rest b sk0))
              /\ snd (bk_loop cf ks root true rec rest a sk0) = snd (bk_loop cf ks root false rec rest b sk0)).
    { intros a b sk0 Ha Hb. apply IH; try assumption. intros k0 Hin.
      assert (k0 <> k) by (intro; subst; contradiction).
      rewrite Ha, Hb by assumption. apply Hd. right. assumption. }
    rewrite <- (Hd k (or_introl eq_refl)).
    destruct (alookup k d1) as [y|] eqn:Ey.
    - destruct (py_eq y x); [apply Next; reflexivity|].
      destruct x as [| | | | | |xs];
        try (destruct (ks_raises ks (root ++ k)); [simpl; auto|]; destruct (selected ks (root ++ k));
             [apply Next; intros; first [reflexivity|apply pset_frame; assumption|apply alookup_aset_other; congruence]
             |apply Next; reflexivity]).
      unfold nested_dry. rewrite H16.
      destruct (Hrec k (JObj xs) (or_introl eq_refl) y (child_root cf root k) sk) as [R1 R2].
      destruct (rec (JObj xs) y (child_root cf root k) true sk) as [[y1 sk1] e1].
      destruct (rec (JObj xs) y (child_root cf root k) false sk) as [[y2 sk2] e2].
      simpl in R1, R2. subst sk2 e2.
      destruct e1; [simpl; auto|].
      apply Next; intros; apply alookup_aset_other; congruence.
    - apply Next; intros; first [reflexivity|apply pset_frame; assumption|apply alookup_aset_other; congruence].
  Qed.

  Lemma bykey_dry_err : forall sv, wf sv = true -> forall dv root sk,
    same_err (bykey cf ks sv dv root true sk) (bykey cf ks sv dv root false sk).
  Proof.
    induction sv using json_ind'; intros Hwf dv root sk; try (split; reflexivity).
    destruct (wf_obj_inv _ Hwf) as [Hnd Hwfs].
    rewrite !bykey_obj. destruct (py_eq (JObj kvs) dv); [split; reflexivity|].
    destruct dv as [| | | | | |dkvs]; try (destruct kvs; split; reflexivity).
    assert (Hrec : forall k x, In (k, x) kvs -> forall y r sk0,
               same_err (bykey cf ks x y r true sk0) (bykey cf ks x y r false sk0)).
    { intros k x Hin y r sk0. rewrite Forall_forall in H, Hwfs. apply (H (k, x) Hin). apply (Hwfs (k, x) Hin). }
    destruct (bk_loop_dry_err root (bykey cf ks) kvs Hnd Hrec dkvs dkvs sk (fun _ _ => eq_refl)) as [L1 L2].
    destruct (bk_loop cf ks root true (bykey cf ks) kvs dkvs sk) as [[a1 s1] e1].
    destruct (bk_loop cf ks root false (bykey cf ks) kvs dkvs sk) as [[a2 s2] e2].
    simpl in L1, L2. subst. split; reflexivity.
  Qed.
End DryDoc.

Section DrySync.
  Variable frepr : fl -> str.
  Variable cf : cfg.
  Hypothesis H3 : fix_F3 cf = true.
  Hypothesis H4 : fix_F4 cf = true.
  Hypothesis H16 : fix_F16 cf = true.

  Lemma apply_docsync_dry_err : forall ds sdoc ddoc, wf (JObj sdoc) = true ->
    snd (apply_docsync cf ds sdoc ddoc true) = snd (apply_docsync cf ds sdoc ddoc false).
  Proof.
    intros ds sdoc ddoc Hwf. destruct ds as [ks| | |]; try reflexivity.
    unfold apply_docsync, bykey_top.
    destruct (bykey_dry_err cf ks H16 (JObj sdoc) Hwf (JObj ddoc) [] []) as [B1 B2].
    destruct (bykey cf ks (JObj sdoc) (JObj ddoc) [] true []) as [[a1 s1] e1].
    destruct (bykey cf ks (JObj sdoc) (JObj ddoc) [] false []) as [[a2 s2] e2].
    simpl in B1, B2. subst. destruct e2; [reflexivity|]. destruct s2; destruct ks; reflexivity.
  Qed.

  (* the exception of the document path depends on the directory only through the document file and the
     backup entry *)
  Lemma sync_doc_dry_err : forall o fn sdir d1 d2,
    wf (JObj (read_doc fn sdir)) = true ->
    alookup fn d1 = alookup fn d2 -> alookup (backup_name fn) d1 = alookup (backup_name fn) d2 ->
    snd (sync_doc cf (set_dry o true) fn sdir d1) = snd (sync_doc cf (set_dry o false) fn sdir d2).
  Proof.
    intros o fn sdir d1 d2 Hwf Hf Hb. unfold sync_doc, doc_finish. cbn [o_docsync o_dry_run set_dry].
    assert (Hr : read_doc fn d1 = read_doc fn d2) by (unfold read_doc; rewrite Hf; reflexivity).
    rewrite <- Hr, <- Hf, <- Hb.
    destruct (o_docsync o) as [ks| | |] eqn:Eds; try reflexivity;
      (destruct (py_eq (JObj (read_doc fn sdir)) (JObj (read_doc fn d1))); [reflexivity|]);
      match goal with |- context [apply_docsync cf ?ds ?a ?b true] =>
        pose proof (apply_docsync_dry_err ds a b Hwf) as He;
        destruct (apply_docsync cf ds a b true) as [x1 e1];
        destruct (apply_docsync cf ds a b false) as [x2 e2]
      end; simpl in He; subst e2;
      (destruct (read_doc fn d1) as [|kv rest]; [destruct e1; reflexivity|]);
      (destruct (alookup fn d1) as [[c mt|es]|]; try (destruct e1; reflexivity));
      (destruct (alookup (backup_name fn) d1) as [[c2 m2|es2]|]; try reflexivity);
      destruct e1; reflexivity.
  Qed.

  (* C15: for an existing destination job the dry run ends with the exception class of the real run *)
  Theorem sync_jobs_dry_same_exception : forall o deep fp sdir ddir dsp,
    wf_node (Dir sdir) = true -> wf (JObj (read_doc FN_DOC sdir)) = true ->
    alookup (backup_name FN_DOC) sdir = None ->
    (forall es, alookup FN_DOC sdir <> Some (Dir es)) ->
    snd (sync_jobs_m frepr cf (set_dry o true) deep fp (Some sdir) (Some ddir) dsp)
    = snd (sync_jobs_m frepr cf (set_dry o false) deep fp (Some sdir) (Some ddir) dsp).
  Proof.
    intros o deep fp sdir ddir dsp Hwf Hdoc Hbk Hnd. rewrite !sync_jobs_existing.
    destruct (wf_dir_inv _ Hwf) as [Hn Hsub].
    assert (W : snd (sync_ws frepr cf (S (depth (Dir sdir))) (set_top (set_dry o true) true) deep sdir ddir [])
                = snd (sync_ws frepr cf (S (depth (Dir sdir))) (set_top (set_dry o false) true) deep sdir ddir []))
      by exact (ws_dry_same_exception frepr cf H3 H4 (S (depth (Dir sdir))) (set_top o true) deep sdir ddir [] Hn Hsub).
    pose proof (sync_ws_dry_id frepr cf (S (depth (Dir sdir))) (set_top (set_dry o true) true) deep sdir ddir [] eq_refl (or_introl H4)) as Wid.
    pose proof (sync_ws_untouched frepr cf (S (depth (Dir sdir))) (set_top (set_dry o false) true) deep sdir ddir [] (backup_name FN_DOC)
                                  (or_introl Hbk)) as Ub.
    destruct (sync_ws frepr cf (S (depth (Dir sdir))) (set_top (set_dry o true) true) deep sdir ddir []) as [a1 e1].
    destruct (sync_ws frepr cf (S (depth (Dir sdir))) (set_top (set_dry o false) true) deep sdir ddir []) as [a2 e2] eqn:E2.
    simpl in W, Wid, Ub. subst e2 a1.
    destruct e1; [reflexivity|].
    destruct (o_docsync o) as [ks| | |] eqn:Eds.
    1,2: (assert (Ud : alookup FN_DOC a2 = alookup FN_DOC ddir);
          [ replace a2 with (fst (sync_ws frepr cf (S (depth (Dir sdir))) (set_top (set_dry o false) true) deep sdir ddir [])) by (rewrite E2; reflexivity);
            apply sync_ws_untouched_src; right; split; [apply excluded_doc; simpl; congruence|assumption]
          | pose proof (sync_doc_dry_err o FN_DOC sdir ddir a2 Hdoc (eq_sym Ud) (eq_sym Ub)) as D;
            destruct (sync_doc cf (set_dry o true) FN_DOC sdir ddir) as [x1 y1];
            destruct (sync_doc cf (set_dry o false) FN_DOC sdir a2) as [x2 y2]; exact D ]).
    - rewrite (sync_doc_nosync cf (set_dry o true) FN_DOC sdir ddir (or_introl Eds)).
      rewrite (sync_doc_nosync cf (set_dry o false) FN_DOC sdir a2 (or_introl Eds)). reflexivity.
    - rewrite (sync_doc_nosync cf (set_dry o true) FN_DOC sdir ddir (or_intror Eds)).
      rewrite (sync_doc_nosync cf (set_dry o false) FN_DOC sdir a2 (or_intror Eds)). reflexivity.
  Qed.

  (* what the theorem needs to know about a source job *)
  Definition job_ok (n : node) : Prop :=
    match n with
    | Dir sd => wf_node (Dir sd) = true /\ wf (JObj (read_doc FN_DOC sd)) = true
                /\ alookup (backup_name FN_DOC) sd = None /\ (forall es, alookup FN_DOC sd <> Some (Dir es))
    | File _ _ => True
    end.

  Lemma clone_or_sync_dry_err : forall o kn ws ws', job_ok (snd kn) ->
    alookup (fst kn) ws = alookup (fst kn) ws' ->
    snd (clone_or_sync frepr cf (set_dry o true) kn ws) = snd (clone_or_sync frepr cf (set_dry o false) kn ws').
  Proof.
    intros o [id n] ws ws' Hok Hl. cbn [fst snd] in *. unfold clone_or_sync.
    destruct n as [c m|sdir]; [reflexivity|]. rewrite <- Hl.
    destruct (alookup id ws) as [[c m|ddir]|]; [reflexivity| |].
    - destruct Hok as (W1 & W2 & W3 & W4).
      pose proof (sync_jobs_dry_same_exception o (proj_deep cf o) true sdir ddir JNull W1 W2 W3 W4) as J.
      assert (P1 : proj_deep cf (set_dry o true) = proj_deep cf o) by reflexivity.
      assert (P2 : proj_deep cf (set_dry o false) = proj_deep cf o) by reflexivity.
      rewrite P1, P2.
      match goal with |- snd (let '(_, _) := ?A in _) = snd (let '(_, _) := ?B in _) =>
        assert (J' : snd A = snd B) by exact J; destruct A as [x1 y1]; destruct B as [x2 y2]; exact J'
      end.
    - unfold copy_tree, copy_tree_gen. cbn [o_dry_run set_dry]. rewrite H4. reflexivity.
  Qed.

  (* C15: a project-level dry run ends with the exception class of the real run *)
  Theorem sync_projects_dry_same_exception : forall o src dst,
    NoDup (map fst (p_ws src)) -> (forall kn, In kn (p_ws src) -> job_ok (snd kn)) ->
    wf (JObj (read_doc FN_PDOC (p_top src))) = true ->
    snd (sync_projects_m frepr cf false (set_dry o true) src dst)
    = snd (sync_projects_m frepr cf false (set_dry o false) src dst).
  Proof.
    intros o src dst Hnd Hok Hp. unfold sync_projects_m.
    change (schema_conflict (set_dry o true) src dst) with (schema_conflict o src dst).
    change (schema_conflict (set_dry o false) src dst) with (schema_conflict o src dst).
    destruct (schema_conflict o src dst); [reflexivity|].
    pose proof (sync_doc_dry_err o FN_PDOC (p_top src) (p_top dst) (p_top dst) Hp eq_refl eq_refl) as D.
    destruct (sync_doc cf (set_dry o true) FN_PDOC (p_top src) (p_top dst)) as [t1 e1].
    destruct (sync_doc cf (set_dry o false) FN_PDOC (p_top src) (p_top dst)) as [t2 e2].
    simpl in D. subst e2. destruct e1; [reflexivity|].
    change (fun kn : str * node => job_selected (set_dry o true) (fst kn)) with (fun kn : str * node => job_selected o (fst kn)).
    change (fun kn : str * node => job_selected (set_dry o false) (fst kn)) with (fun kn : str * node => job_selected o (fst kn)).
    set (jobs := filter (fun kn : str * node => job_selected o (fst kn)) (p_ws src)).
    assert (E : snd (run_steps (clone_or_sync frepr cf (set_dry o true)) jobs (p_ws dst))
                = snd (run_steps (clone_or_sync frepr cf (set_dry o false)) jobs (p_ws dst))).
    { assert (Hin : forall kn, In kn jobs -> In kn (p_ws src)) by (intros kn H; apply filter_In in H; tauto).
      assert (Hndj : NoDup (map fst jobs)).
      { clear Hin. unfold jobs. induction (p_ws src) as [|[k x] l IHl]; [constructor|].
        simpl in Hnd. inversion Hnd; subst. simpl. destruct (job_selected o k); [|apply IHl; [assumption|intros; apply Hok; right; assumption]].
        simpl. constructor; [|apply IHl; [assumption|intros; apply Hok; right; assumption]].
        intro H. apply H1. apply in_map_iff in H. destruct H as ([k' x'] & Hk & H). simpl in Hk. subst k'.
        apply filter_In in H. destruct H as [H _]. apply (in_map fst) in H. exact H. }
      clearbody jobs.
      assert (G : forall l a b, (forall kn, In kn l -> In kn (p_ws src)) -> NoDup (map fst l) ->
                    (forall x, In x l -> alookup (fst x) a = alookup (fst x) b) ->
                    snd (run_steps (clone_or_sync frepr cf (set_dry o true)) l a)
                    = snd (run_steps (clone_or_sync frepr cf (set_dry o false)) l b)).
      { induction l as [|y l IHl]; intros a0 b0 Hsub Hn Hd; [reflexivity|].
        inversion Hn as [|? ? Hny Hn']; subst. simpl.
        pose proof (clone_or_sync_dry_err o y a0 b0 (Hok y (Hsub y (or_introl eq_refl))) (Hd y (or_introl eq_refl))) as Hy.
        destruct (clone_or_sync frepr cf (set_dry o true) y a0) as [a1 ea] eqn:Ea.
        destruct (clone_or_sync frepr cf (set_dry o false) y b0) as [b1 eb] eqn:Eb.
        simpl in Hy. subst eb. destruct ea; [reflexivity|].
        apply IHl; [intros; apply Hsub; right; assumption|assumption|].
        intros x Hx.
        assert (Hne : fst x <> fst y) by (intro Heq; apply Hny; rewrite <- Heq; apply in_map; assumption).
        replace a1 with (fst (clone_or_sync frepr cf (set_dry o true) y a0)) by (rewrite Ea; reflexivity).
        replace b1 with (fst (clone_or_sync frepr cf (set_dry o false) y b0)) by (rewrite Eb; reflexivity).
        rewrite !clone_or_sync_frame by assumption. apply Hd. right. assumption. }
      apply G; try assumption. intros; reflexivity. }
    destruct (run_steps (clone_or_sync frepr cf (set_dry o true)) jobs (p_ws dst)) as [w1 x1].
    destruct (run_steps (clone_or_sync frepr cf (set_dry o false)) jobs (p_ws dst)) as [w2 x2]. exact E.
  Qed.
End DrySync.
