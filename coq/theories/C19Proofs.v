(* C19Proofs.v — lemmas behind props/C19.v *)
From SV Require Import Base Json Discover CorrC19 PathAlg.
From Coq Require Import Arith.

(* keep simpl from unfolding the fuel of the path walk *)
Local Opaque FUEL.

(* ------------------------------------------------------------------ dirname shortens *)
Definition is_prefix_of {A} (a l : list A) : Prop := exists r, l = a ++ r.

Lemma prefix_nil : forall A (l : list A), is_prefix_of [] l.
Proof. intros. exists l. reflexivity. Qed.

Lemma prefix_cons : forall A (x : A) a l, is_prefix_of a l -> is_prefix_of (x :: a) (x :: l).
Proof. intros A x a l [r ->]. exists r. reflexivity. Qed.

Lemma prefix_trans : forall A (a b c : list A), is_prefix_of a b -> is_prefix_of b c -> is_prefix_of a c.
Proof. intros A a b c [r ->] [r' ->]. exists (r ++ r'). rewrite app_assoc. reflexivity. Qed.

Lemma prefix_length : forall A (a l : list A), is_prefix_of a l -> (length a <= length l)%nat.
Proof. intros A a l [r ->]. rewrite app_length. lia. Qed.

Lemma prefix_same_length : forall A (a l : list A), is_prefix_of a l -> length a = length l -> a = l.
Proof.
  intros A a l [r ->] E. rewrite app_length in E.
  assert (length r = 0)%nat by lia. destruct r; [rewrite app_nil_r; reflexivity | discriminate].
Qed.

Lemma upto_last_sl_prefix : forall s, is_prefix_of (upto_last_sl s) s.
Proof.
  induction s as [|c s IH]; simpl; [apply prefix_nil|].
  destruct (is_sl c).
  - apply prefix_cons. exact IH.
  - destruct (upto_last_sl s) eqn:E; [apply prefix_nil | apply prefix_cons; exact IH].
Qed.

Lemma drop_sl_suffix : forall s, exists r, s = r ++ drop_sl s.
Proof.
  induction s as [|c s [r IH]]; simpl; [exists []; reflexivity|].
  destruct (is_sl c); [exists (c :: r); simpl; congruence | exists []; reflexivity].
Qed.

Lemma rstrip_sl_prefix : forall s, is_prefix_of (rstrip_sl s) s.
Proof.
  intro s. unfold rstrip_sl. destruct (drop_sl_suffix (rev s)) as [r H].
  assert (E : s = rev (drop_sl (rev s)) ++ rev r).
  { rewrite <- rev_app_distr. rewrite <- H. rewrite rev_involutive. reflexivity. }
  exists (rev r). exact E.
Qed.

Lemma dirname_prefix : forall p, is_prefix_of (dirname p) p.
Proof.
  intro p. unfold dirname. destruct (forallb is_sl (upto_last_sl p)).
  - apply upto_last_sl_prefix.
  - eapply prefix_trans; [apply rstrip_sl_prefix | apply upto_last_sl_prefix].
Qed.

Lemma dirname_shorter : forall p, dirname p = p \/ (length (dirname p) < length p)%nat.
Proof.
  intro p. pose proof (dirname_prefix p) as H. pose proof (prefix_length _ _ _ H) as L.
  destruct (Nat.eq_dec (length (dirname p)) (length p)) as [E|E].
  - left. apply prefix_same_length; assumption.
  - right. lia.
Qed.

(* ------------------------------------------------------------------ the upward search *)
Section Search.
  Variable root : node.
  Variable cwd : str.

  Definition cfg_at (sp : str) : bool := os_isfile root cwd (cfgfn cwd sp).

  (* [nearest_cfg sp r]: r is reached from sp by iterating dirname, r holds a configuration file and
     no directory passed on the way does. *)
  Inductive nearest_cfg : str -> str -> Prop :=
  | NC_here : forall sp, cfg_at sp = true -> nearest_cfg sp sp
  | NC_up : forall sp r, cfg_at sp = false -> dirname sp <> sp -> nearest_cfg (dirname sp) r -> nearest_cfg sp r.

  Inductive no_cfg_above : str -> Prop :=
  | NA_top : forall sp, cfg_at sp = false -> dirname sp = sp -> no_cfg_above sp
  | NA_up : forall sp, cfg_at sp = false -> dirname sp <> sp -> no_cfg_above (dirname sp) -> no_cfg_above sp.

  Lemma loc_up_sound : forall fuel sp r, loc_up fuel root cwd sp = Some r -> nearest_cfg sp r.
  Proof.
    induction fuel as [|f IH]; simpl; intros sp r H; [discriminate|].
    fold (cfg_at sp) in H. destruct (cfg_at sp) eqn:E.
    - inversion H; subst. apply NC_here. exact E.
    - destruct (str_eqb (dirname sp) sp) eqn:D; [discriminate|].
      apply str_eqb_neq in D. apply NC_up; auto.
  Qed.

  Lemma loc_up_none : forall fuel sp, (length sp < fuel)%nat -> loc_up fuel root cwd sp = None -> no_cfg_above sp.
  Proof.
    induction fuel as [|f IH]; simpl; intros sp L H; [lia|].
    fold (cfg_at sp) in H. destruct (cfg_at sp) eqn:E; [discriminate|].
    destruct (str_eqb (dirname sp) sp) eqn:D.
    - apply str_eqb_eq in D. apply NA_top; auto.
    - apply str_eqb_neq in D. apply NA_up; auto. apply IH; auto.
      destruct (dirname_shorter sp); [contradiction|lia].
  Qed.

  Lemma loc_up_complete : forall fuel sp r, (length sp < fuel)%nat -> nearest_cfg sp r -> loc_up fuel root cwd sp = Some r.
  Proof.
    induction fuel as [|f IH]; intros sp r L H; [lia|]. simpl. fold (cfg_at sp).
    inversion H; subst.
    - rewrite H0. reflexivity.
    - rewrite H0. apply str_eqb_neq in H1. rewrite H1. apply IH; auto.
      apply str_eqb_neq in H1. destruct (dirname_shorter sp); [contradiction|lia].
  Qed.

  Lemma nearest_cfg_holds : forall sp r, nearest_cfg sp r -> cfg_at r = true.
  Proof. induction 1; auto. Qed.

  Lemma nearest_cfg_unique : forall sp r r', nearest_cfg sp r -> nearest_cfg sp r' -> r = r'.
  Proof.
    induction 1; intro H'; inversion H'; subst; auto; congruence.
  Qed.

  Lemma nearest_not_none : forall sp r, nearest_cfg sp r -> no_cfg_above sp -> False.
  Proof.
    induction 1; intro N; inversion N; subst; try congruence; auto.
  Qed.

  (* ---------------------------------------------------------------- get_project *)
  Lemma locate_Some : forall path r, locate_config_dir root cwd path = Ok (Some r) ->
    nearest_cfg (abspath cwd path) r.
  Proof.
    unfold locate_config_dir. intros path r H.
    destruct (loc_up _ root cwd (abspath cwd path)) eqn:E.
    - inversion H; subst. eapply loc_up_sound. exact E.
    - destruct (older_up _ root cwd (abspath cwd path)); discriminate.
  Qed.

  Lemma locate_of_nearest : forall path r, nearest_cfg (abspath cwd path) r ->
    locate_config_dir root cwd path = Ok (Some r).
  Proof.
    unfold locate_config_dir. intros path r H.
    rewrite (loc_up_complete _ _ r); auto.
  Qed.

  Lemma project_open_Ok : forall p r root', project_open root cwd p = (Ok r, root') ->
    r = abspath cwd p /\ cfg_at p = true /\
    exists c, read_cfg root cwd (cfgfn cwd p) = RdCfg c /\ declared_version c = SCHEMA.
  Proof.
    unfold project_open. intros p r root' H. fold (cfg_at p) in H.
    destruct (cfg_at p) eqn:E.
    - destruct (read_cfg root cwd (cfgfn cwd p)) as [| |c] eqn:R; try discriminate.
      destruct (Z.eqb (declared_version c) SCHEMA) eqn:V; [|discriminate].
      apply Z.eqb_eq in V.
      assert (r = abspath cwd p).
      { destruct (os_isdir root cwd (path_join (abspath cwd p) s_workspace)).
        - inversion H; auto.
        - destruct (mkdirs root [] (split_sl (path_join (abspath cwd p) s_workspace))) as [[u|e] r2]; inversion H; auto. }
      repeat split; auto. exists c. auto.
    - destruct (raise_if_older root cwd p); discriminate.
  Qed.

  (* search = True: the returned project directory is the nearest ancestor-or-self (by dirname) of
     abspath(path) that holds .signac/config; the path must exist. *)
  Lemma get_project_nearest : forall path r root',
    get_project root cwd path true = (Ok r, root') ->
    os_exists root cwd path = true /\
    exists d, nearest_cfg (abspath cwd path) d /\ r = abspath cwd d.
  Proof.
    unfold get_project. intros path r root' H.
    destruct (os_exists root cwd path) eqn:X; simpl in H; [|discriminate].
    split; auto.
    destruct (locate_config_dir root cwd path) as [[d|]|e] eqn:L; try discriminate.
    apply locate_Some in L. apply project_open_Ok in H. destruct H as [-> _]. exists d. auto.
  Qed.

  (* search = False: only a configuration in the directory itself is accepted *)
  Lemma get_project_nosearch : forall path r root',
    get_project root cwd path false = (Ok r, root') ->
    os_exists root cwd path = true /\ cfg_at path = true /\
    exists d, nearest_cfg (abspath cwd path) d /\ r = abspath cwd d.
  Proof.
    unfold get_project. intros path r root' H.
    destruct (os_exists root cwd path) eqn:X; simpl in H; [|discriminate].
    fold (cfg_at path) in H. destruct (cfg_at path) eqn:C; simpl in H;
      [|destruct (raise_if_older root cwd path); discriminate].
    repeat split; auto.
    destruct (locate_config_dir root cwd path) as [[d|]|e] eqn:L; try discriminate.
    apply locate_Some in L. apply project_open_Ok in H. destruct H as [-> _]. exists d. auto.
  Qed.

  (* no configuration in the directory itself: never opened, nothing touched; the error is
     LookupError unless the directory holds a legacy project (then what raise_if_older raises) *)
  Lemma get_project_nosearch_refuses : forall path,
    cfg_at path = false -> raise_if_older root cwd path = None ->
    get_project root cwd path false = (Err ELookupError, root).
  Proof.
    unfold get_project. intros path C O. fold (cfg_at path). rewrite C, O. simpl.
    destruct (os_exists root cwd path); reflexivity.
  Qed.

  Lemma get_project_nosearch_never_opens : forall path,
    cfg_at path = false -> exists e, get_project root cwd path false = (Err e, root).
  Proof.
    unfold get_project. intros path C. fold (cfg_at path). rewrite C. simpl.
    destruct (os_exists root cwd path); simpl; [|eauto].
    destruct (raise_if_older root cwd path); eauto.
  Qed.

  (* completeness: an up-to-date project above an existing path IS found and opened *)
  Lemma get_project_finds : forall path d c,
    os_exists root cwd path = true -> nearest_cfg (abspath cwd path) d ->
    read_cfg root cwd (cfgfn cwd d) = RdCfg c -> declared_version c = SCHEMA ->
    os_isdir root cwd (path_join (abspath cwd d) s_workspace) = true ->
    get_project root cwd path true = (Ok (abspath cwd d), root).
  Proof.
    unfold get_project. intros path d c X N R V W. rewrite X. simpl.
    rewrite (locate_of_nearest _ _ N). unfold project_open.
    pose proof (nearest_cfg_holds _ _ N) as C. unfold cfg_at in C. rewrite C, R.
    apply Z.eqb_eq in V. rewrite V, W. reflexivity.
  Qed.

  (* LookupError otherwise, and nothing is touched *)
  Lemma get_project_missing_path : forall path s,
    os_exists root cwd path = false -> get_project root cwd path s = (Err ELookupError, root).
  Proof. unfold get_project. intros path s X. rewrite X. reflexivity. Qed.

  Lemma older_up_none : forall fuel sp, older_up fuel root cwd sp = None ->
    (length sp < fuel)%nat -> raise_if_older root cwd sp = None.
  Proof.
    destruct fuel; simpl; intros sp H L; [lia|].
    destruct (raise_if_older root cwd sp); [discriminate|reflexivity].
  Qed.

  Lemma get_project_no_project : forall path s,
    no_cfg_above (abspath cwd path) ->
    older_up (S (length (abspath cwd path))) root cwd (abspath cwd path) = None ->
    raise_if_older root cwd path = None ->
    get_project root cwd path s = (Err ELookupError, root).
  Proof.
    unfold get_project. intros path s N O O2.
    destruct (os_exists root cwd path); simpl; [|reflexivity].
    destruct (negb s && negb (os_isfile root cwd (cfgfn cwd path))); [rewrite O2; reflexivity|].
    unfold locate_config_dir.
    destruct (loc_up (S (length (abspath cwd path))) root cwd (abspath cwd path)) eqn:E.
    - apply loc_up_sound in E. exfalso. eapply nearest_not_none; eauto.
    - rewrite O. reflexivity.
  Qed.

End Search.

(* ------------------------------------------------------------------ tree lemmas *)
Lemma get_app : forall p q n, get n (p ++ q) = match get n p with Some m => get m q | None => None end.
Proof.
  induction p as [|c p IH]; intros q n; simpl; [reflexivity|].
  destruct n as [d|es|t]; try reflexivity.
  destruct (alookup c es); [apply IH | reflexivity].
Qed.

Lemma get_upd_same : forall p c x n es, get n p = Some (Dir es) ->
  get (upd (p ++ [c]) (Some x) n) (p ++ [c]) = Some x.
Proof.
  induction p as [|a p IH]; intros c x n es H; simpl in *.
  - inversion H; subst. simpl. rewrite alookup_aset_same. reflexivity.
  - destruct n as [d|es0|t]; try discriminate.
    destruct (alookup a es0) as [n'|] eqn:L; [|discriminate].
    destruct (p ++ [c]) eqn:E; [destruct p; discriminate|]. rewrite <- E.
    simpl. rewrite alookup_aset_same. eapply IH. exact H.
Qed.

(* once mkdirs stands in an empty directory every remaining component is created *)
Lemma mkdirs_fresh : forall comps rt rc, get rt (rev rc) = Some (Dir []) ->
  exists r', mkdirs rt rc comps = (Ok tt, r').
Proof.
  induction comps as [|c comps IH]; intros rt rc G; simpl; [eauto|].
  destruct (str_eqb c []); [eauto|]. rewrite G. simpl.
  apply IH. simpl. eapply get_upd_same. exact G.
Qed.

Lemma mkdirs_err_unchanged : forall comps rt rc e r', mkdirs rt rc comps = (Err e, r') -> r' = rt.
Proof.
  induction comps as [|c comps IH]; intros rt rc e r' M; simpl in M; [discriminate|].
  destruct (str_eqb c []); [eauto|].
  destruct (get rt (rev rc)) as [[d|es|t]|] eqn:G; try (inversion M; reflexivity).
  destruct (alookup c es) as [[d|es2|t]|] eqn:L.
  - inversion M; reflexivity.
  - eauto.
  - destruct (walk FUEL rt rc [c]) as [ph|]; [|inversion M; reflexivity].
    destruct (get rt ph) as [[d|es3|t3]|]; try (inversion M; reflexivity). eauto.
  - exfalso.
    destruct (mkdirs_fresh comps (upd (rev rc ++ [c]) (Some (Dir [])) rt) (c :: rc)) as [r2 E].
    + simpl. eapply get_upd_same. exact G.
    + rewrite E in M. discriminate.
Qed.

Section Search2.
  Variable root : node.
  Variable cwd : str.

  (* every failure of Project(), get_project() leaves the tree exactly as it was *)
  Lemma project_open_err_unchanged : forall p e root', project_open root cwd p = (Err e, root') -> root' = root.
  Proof.
    unfold project_open. intros p e root' H.
    destruct (os_isfile root cwd (cfgfn cwd p)).
    - destruct (read_cfg root cwd (cfgfn cwd p)); try (inversion H; reflexivity).
      destruct (Z.eqb (declared_version c) SCHEMA); [|inversion H; reflexivity].
      destruct (os_isdir root cwd (path_join (abspath cwd p) s_workspace)); [discriminate|].
      destruct (mkdirs root [] (split_sl (path_join (abspath cwd p) s_workspace))) as [[u|e2] r2] eqn:M; [discriminate|].
      inversion H; subst. eapply mkdirs_err_unchanged. exact M.
    - destruct (raise_if_older root cwd p); inversion H; reflexivity.
  Qed.

  Lemma get_project_err_unchanged : forall path s e root',
    get_project root cwd path s = (Err e, root') -> root' = root.
  Proof.
    unfold get_project. intros path s e root' H.
    destruct (negb (os_exists root cwd path)); [inversion H; reflexivity|].
    destruct (negb s && negb (os_isfile root cwd (cfgfn cwd path)));
      [destruct (raise_if_older root cwd path); inversion H; reflexivity|].
    destruct (locate_config_dir root cwd path) as [[d|]|x]; try (inversion H; reflexivity).
    eapply project_open_err_unchanged. exact H.
  Qed.

  (* the only thing Project() ever does to the tree: create the missing workspace directory *)
  Lemma project_open_effect : forall p r root', project_open root cwd p = (r, root') ->
    root' = root \/
    (os_isdir root cwd (path_join (abspath cwd p) s_workspace) = false /\
     root' = snd (mkdirs root [] (split_sl (path_join (abspath cwd p) s_workspace)))).
  Proof.
    unfold project_open. intros p r root' H.
    destruct (os_isfile root cwd (cfgfn cwd p)).
    - destruct (read_cfg root cwd (cfgfn cwd p)); try (inversion H; auto).
      destruct (Z.eqb (declared_version c) SCHEMA); [|inversion H; auto].
      destruct (os_isdir root cwd (path_join (abspath cwd p) s_workspace)); [inversion H; auto|].
      right. split; auto.
      destruct (mkdirs root [] (split_sl (path_join (abspath cwd p) s_workspace))) as [[u|e2] r2]; inversion H; reflexivity.
    - destruct (raise_if_older root cwd p); inversion H; auto.
  Qed.

  (* init_project on an existing project IS get_project(search=False): no step of the
     initialisation branch (mkdir .signac, write config) is executed *)
  Lemma init_project_existing : forall path d,
    os_exists root cwd path = true -> cfg_at root cwd path = true ->
    nearest_cfg root cwd (abspath cwd path) d ->
    init_project root cwd path = project_open root cwd d.
  Proof.
    intros path d X C N. unfold init_project.
    assert (G : get_project root cwd path false = project_open root cwd d).
    { unfold get_project. rewrite X. unfold cfg_at in C. rewrite C. simpl.
      rewrite (locate_of_nearest root cwd _ _ N). reflexivity. }
    rewrite G.
    destruct (project_open root cwd d) as [[r|e] root'] eqn:P; [reflexivity|].
    destruct e; try reflexivity.
    (* LookupError is impossible: d holds a configuration file *)
    exfalso. unfold project_open in P. pose proof (nearest_cfg_holds root cwd _ _ N) as Cd.
    unfold cfg_at in Cd. rewrite Cd in P.
    destruct (read_cfg root cwd (cfgfn cwd d)); try discriminate.
    destruct (Z.eqb (declared_version c) SCHEMA); [|discriminate].
    destruct (os_isdir root cwd (path_join (abspath cwd d) s_workspace)); [discriminate|].
    destruct (mkdirs root [] (split_sl (path_join (abspath cwd d) s_workspace))) as [[u|e2] r2] eqn:M; [discriminate|].
    inversion P; subst.
    clear - M. revert M. generalize (split_sl (path_join (abspath cwd d) s_workspace)) (@nil str).
    generalize root at 1 as rt.
    intros rt l. revert rt. induction l as [|c l IH]; intros rt rc M; simpl in M; [discriminate|].
    destruct (str_eqb c []); [eauto|].
    destruct (get rt (rev rc)) as [[x|es|t]|]; try discriminate.
    destruct (alookup c es) as [[x|es2|t]|]; try discriminate; eauto.
    destruct (walk FUEL rt rc [c]) as [ph|]; [|discriminate].
    destruct (get rt ph) as [[x|es3|t3]|]; try discriminate. eauto.
  Qed.

  Lemma init_project_idempotent : forall path d c,
    os_exists root cwd path = true -> cfg_at root cwd path = true ->
    nearest_cfg root cwd (abspath cwd path) d ->
    read_cfg root cwd (cfgfn cwd d) = RdCfg c -> declared_version c = SCHEMA ->
    os_isdir root cwd (path_join (abspath cwd d) s_workspace) = true ->
    init_project root cwd path = (Ok (abspath cwd d), root).
  Proof.
    intros path d c X C N R V W. rewrite (init_project_existing path d X C N).
    unfold project_open. pose proof (nearest_cfg_holds root cwd _ _ N) as Cd. unfold cfg_at in Cd.
    rewrite Cd, R. apply Z.eqb_eq in V. rewrite V, W. reflexivity.
  Qed.
End Search2.

Lemma forallb_rev : forall A (f : A -> bool) l, forallb f (rev l) = forallb f l.
Proof.
  induction l as [|x l IH]; simpl; [reflexivity|].
  rewrite forallb_app, IH. simpl. rewrite andb_true_r. apply andb_comm.
Qed.

(* ------------------------------------------------------------------ get_job: the innermost id component *)
Lemma id_fullmatch_is_id : forall c, id_fullmatch c = is_id c.
Proof. reflexivity. Qed.

(* scanning from the end: the first id component met is the innermost one, whatever precedes it
   (other ids included) and whatever non-id names follow it (names that merely CONTAIN 32 hex
   characters included) *)
Lemma innermost_idcomp_spec : forall rpost i rb,
  is_id i = true -> forallb (fun c => negb (is_id c)) rpost = true ->
  innermost_idcomp (rpost ++ i :: rb) = Some (i, i :: rb).
Proof.
  induction rpost as [|c rpost IH]; intros i rb Hi H; simpl.
  - rewrite id_fullmatch_is_id, Hi. reflexivity.
  - simpl in H. apply andb_true_iff in H. destruct H as [Hc H]. apply negb_true_iff in Hc.
    rewrite id_fullmatch_is_id, Hc. apply IH; assumption.
Qed.

Lemma innermost_idcomp_none : forall rc, forallb (fun c => negb (is_id c)) rc = true ->
  innermost_idcomp rc = None.
Proof.
  induction rc as [|c rc IH]; simpl; intro H; [reflexivity|].
  apply andb_true_iff in H. destruct H as [Hc H]. apply negb_true_iff in Hc.
  rewrite id_fullmatch_is_id, Hc. auto.
Qed.

Lemma split_abs_of_any : forall comps, forallb cleanb comps = true ->
  split_sl (abs_of comps) = match comps with [] => [[]; []] | _ => [] :: comps end.
Proof.
  intros comps H. destruct comps as [|c cs]; [reflexivity|]. apply split_abs_of; [discriminate|exact H].
Qed.

Lemma is_id_nil : is_id [] = false.
Proof. reflexivity. Qed.

(* get_job on a path whose normalised form is /pre/i/post, i the innermost id component *)
Lemma get_job_innermost : forall root cwd path pre i post,
  abspath cwd path = abs_of (pre ++ i :: post) -> forallb cleanb (pre ++ i :: post) = true ->
  is_id i = true -> forallb (fun c => negb (is_id c)) post = true ->
  os_exists root cwd (abspath cwd path) = true ->
  get_job root cwd path =
    match get_project root cwd (path_join (abs_of (pre ++ [i])) s_pardir) true with
    | (Ok pr, root') => (Ok (pr, i), root')
    | (Err x, root') => (Err x, root')
    end.
Proof.
  intros root cwd path pre i post A Hc Hi Hp X. unfold get_job. rewrite X. simpl negb. cbv iota.
  rewrite A, (split_abs_of (pre ++ i :: post)) by (auto; destruct pre; discriminate).
  assert (E : @rev str (([] : str) :: pre ++ i :: post) = rev post ++ i :: (rev pre ++ [([] : str)])).
  { simpl rev. rewrite rev_app_distr. simpl. rewrite <- !app_assoc. reflexivity. }
  pose proof (innermost_idcomp_spec (rev post) i (rev pre ++ [([] : str)]) Hi) as SP.
  rewrite forallb_rev in SP. specialize (SP Hp).
  unfold str in *. rewrite E, SP.
  assert (J : join_sl (rev (i :: rev pre ++ [([] : str)])) = abs_of (pre ++ [i])).
  { simpl rev. rewrite rev_app_distr. simpl. rewrite rev_involutive.
    unfold abs_of. destruct (pre ++ [i]) eqn:Z; [destruct pre; discriminate|reflexivity]. }
  unfold str in *. rewrite J. reflexivity.
Qed.

Lemma get_job_no_id : forall root cwd path comps,
  abspath cwd path = abs_of comps -> forallb cleanb comps = true ->
  forallb (fun c => negb (is_id c)) comps = true ->
  get_job root cwd path = (Err ELookupError, root).
Proof.
  intros root cwd path comps A Hc H. unfold get_job.
  destruct (negb (os_exists root cwd (abspath cwd path))); [reflexivity|].
  rewrite A, (split_abs_of_any _ Hc).
  rewrite innermost_idcomp_none; [reflexivity|].
  destruct comps as [|c cs]; [reflexivity|].
  rewrite forallb_rev. simpl. simpl in H. exact H.
Qed.

Lemma get_job_missing : forall root cwd path,
  os_exists root cwd (abspath cwd path) = false -> get_job root cwd path = (Err ELookupError, root).
Proof. intros root cwd path X. unfold get_job. rewrite X. reflexivity. Qed.

(* ------------------------------------------------------------------ component level = string level
   The oracle of CorrC19 speaks about path components and physical lookups; the model about
   strings.  On a normalised absolute path they are the same thing. *)
Section Comps.
  Variable root : node.
  Variable cwd : str.

  Lemma os_resolve_abs_of : forall cs, cs <> [] -> forallb cleanb cs = true ->
    os_resolve root cwd (abs_of cs) = phys root cs.
  Proof.
    intros cs N H. unfold os_resolve, phys, os_full. simpl starts_sl. cbv iota.
    rewrite split_abs_of by assumption. reflexivity.
  Qed.

  Lemma cfg_at_has_cfg : forall cs, forallb cleanb cs = true -> cfg_at root cwd (abs_of cs) = has_cfg root cs.
  Proof.
    intros cs H. unfold cfg_at, has_cfg, os_isfile, os_stat.
    rewrite cfgfn_abs_of by assumption.
    rewrite os_resolve_abs_of; [destruct (phys root (cs ++ [s_dotsignac; s_config])); reflexivity| destruct cs; discriminate |].
    rewrite forallb_app, H. reflexivity.
  Qed.

  Lemma isfile_has_cfg : forall cs, forallb cleanb cs = true ->
    os_isfile root cwd (abs_of (cs ++ [s_dotsignac; s_config])) = has_cfg root cs.
  Proof.
    intros cs H. unfold has_cfg, os_isfile, os_stat.
    rewrite os_resolve_abs_of; [destruct (phys root (cs ++ [s_dotsignac; s_config])); reflexivity| destruct cs; discriminate |].
    rewrite forallb_app, H. reflexivity.
  Qed.

  Lemma nearest_clean : forall rcomps r, forallb cleanb rcomps = true -> nearest root rcomps = Some r ->
    forallb cleanb r = true.
  Proof.
    induction rcomps as [|c rc IH]; intros r H E; simpl in E.
    - destruct (has_cfg root []); inversion E; reflexivity.
    - destruct (has_cfg root (rev rc ++ [c])).
      + inversion E; subst. change (rev rc ++ [c]) with (rev (c :: rc)). rewrite forallb_rev. exact H.
      + simpl in H. apply andb_true_iff in H. apply IH; tauto.
  Qed.

  Lemma dirname_abs_of_rev : forall c rc, forallb cleanb (c :: rc) = true ->
    dirname (abs_of (rev (c :: rc))) = abs_of (rev rc) /\ abs_of (rev (c :: rc)) <> abs_of (rev rc).
  Proof.
    intros c rc H. simpl in H. apply andb_true_iff in H. destruct H as [Hc Hrc]. simpl rev. split.
    - destruct (rev rc) eqn:E.
      + simpl. apply dirname_abs_of_single. exact Hc.
      + rewrite <- E. apply dirname_abs_of_snoc; auto.
        * rewrite E. discriminate.
        * rewrite forallb_rev. exact Hrc.
    - apply abs_of_snoc_neq. exact Hc.
  Qed.

  Lemma nearest_sound : forall rcomps r, forallb cleanb rcomps = true -> nearest root rcomps = Some r ->
    nearest_cfg root cwd (abs_of (rev rcomps)) (abs_of r).
  Proof.
    induction rcomps as [|c rc IH]; intros r H E.
    - simpl in E. destruct (has_cfg root []) eqn:C; inversion E; subst.
      apply NC_here. rewrite cfg_at_has_cfg by reflexivity. exact C.
    - assert (Hrev : forallb cleanb (rev (c :: rc)) = true) by (rewrite forallb_rev; exact H).
      simpl in E. destruct (has_cfg root (rev rc ++ [c])) eqn:C.
      + inversion E; subst. apply NC_here. change (rev rc ++ [c]) with (rev (c :: rc)).
        rewrite cfg_at_has_cfg by exact Hrev. exact C.
      + destruct (dirname_abs_of_rev c rc H) as [D Ne].
        apply NC_up.
        * rewrite cfg_at_has_cfg by exact Hrev. exact C.
        * rewrite D. auto.
        * rewrite D. apply IH; auto. simpl in H. apply andb_true_iff in H. tauto.
  Qed.

  Lemma nearest_none_sound : forall rcomps, forallb cleanb rcomps = true -> nearest root rcomps = None ->
    no_cfg_above root cwd (abs_of (rev rcomps)).
  Proof.
    induction rcomps as [|c rc IH]; intros H E.
    - simpl in E. destruct (has_cfg root []) eqn:C; [discriminate|].
      apply NA_top; [rewrite cfg_at_has_cfg by reflexivity; exact C | reflexivity].
    - assert (Hrev : forallb cleanb (rev (c :: rc)) = true) by (rewrite forallb_rev; exact H).
      simpl in E. destruct (has_cfg root (rev rc ++ [c])) eqn:C; [discriminate|].
      destruct (dirname_abs_of_rev c rc H) as [D Ne].
      apply NA_up.
      + rewrite cfg_at_has_cfg by exact Hrev. exact C.
      + rewrite D. auto.
      + rewrite D. apply IH; auto. simpl in H. apply andb_true_iff in H. tauto.
  Qed.

  Lemma older_up_not_lookup : forall n sp, older_up n root cwd sp = Some ELookupError -> False.
  Proof.
    induction n as [|n IH]; intros sp O; simpl in O; [discriminate|].
    unfold raise_if_older in O at 1.
    destruct (get_version root cwd sp SCHEMA) as [v|].
    - destruct (Z.eqb v SCHEMA); discriminate.
    - destruct (str_eqb (dirname sp) sp); [discriminate|]. eauto.
  Qed.

  (* get_project on a query whose normalised form is /comps: soundness w.r.t. the component-level spec *)
  Section Query.
    Variable path : str.
    Variable comps : list str.
    Hypothesis Hclean : forallb cleanb comps = true.
    Hypothesis Habs : abspath cwd path = abs_of comps.
    Hypothesis Hcfg : cfgfn cwd path = abs_of (comps ++ [s_dotsignac; s_config]).
    Hypothesis Hreg : os_resolve root cwd path = phys root comps.

    Lemma exists_phys : os_exists root cwd path = true -> phys root comps <> None.
    Proof.
      unfold os_exists, os_stat. rewrite Hreg. destruct (phys root comps); [discriminate|]. discriminate.
    Qed.

    Lemma not_exists_phys : os_exists root cwd path = false ->
      match phys root comps with Some ph => get root ph = None | None => True end.
    Proof.
      unfold os_exists, os_stat. rewrite Hreg. destruct (phys root comps) as [ph|]; auto.
      destruct (get root ph); [discriminate|reflexivity].
    Qed.

    Lemma spec_search_ok : forall s x root', get_project root cwd path s = (Ok x, root') ->
      os_exists root cwd path = true /\
      exists r, nearest root (rev comps) = Some r /\ x = abs_of r /\
                (s = false -> has_cfg root comps = true /\ r = comps).
    Proof.
      intros s x root' G.
      assert (X : os_exists root cwd path = true /\ (s = false -> cfg_at root cwd path = true) /\
                  exists d, nearest_cfg root cwd (abspath cwd path) d /\ x = abspath cwd d).
      { destruct s.
        - destruct (get_project_nearest root cwd path x root' G) as [A B]. repeat split; auto. discriminate.
        - destruct (get_project_nosearch root cwd path x root' G) as [A [B C]]. repeat split; auto. }
      destruct X as [X [Cs [d [Nd Ex]]]]. split; auto. rewrite Habs in Nd.
      assert (Hr : forallb cleanb (rev comps) = true) by (rewrite forallb_rev; exact Hclean).
      destruct (nearest root (rev comps)) as [r|] eqn:E.
      - pose proof (nearest_sound _ _ Hr E) as Sn. rewrite rev_involutive in Sn.
        pose proof (nearest_cfg_unique root cwd _ _ _ Nd Sn) as Ed. subst d.
        exists r. repeat split; auto.
        + rewrite Ex. apply abspath_abs_of. eapply nearest_clean; eauto.
        + specialize (Cs H). unfold cfg_at in Cs. rewrite Hcfg, isfile_has_cfg in Cs by exact Hclean. exact Cs.
        + (* the directory itself holds the configuration: it is the nearest *)
          specialize (Cs H). unfold cfg_at in Cs. rewrite Hcfg, isfile_has_cfg in Cs by exact Hclean.
          destruct (rev comps) as [|c rc] eqn:R.
          * simpl in E. assert (Z : comps = []) by (destruct comps as [|a l]; [reflexivity| simpl in R; destruct (rev l); discriminate]).
            rewrite Z in Cs. rewrite Cs in E. inversion E. rewrite Z. reflexivity.
          * simpl in E. assert (Ec : rev rc ++ [c] = comps).
            { apply (f_equal (@rev str)) in R. rewrite rev_involutive in R. simpl in R. auto. }
            rewrite Ec, Cs in E. inversion E. reflexivity.
      - exfalso. pose proof (nearest_none_sound _ Hr E) as Sn. rewrite rev_involutive in Sn.
        eapply nearest_not_none; eauto.
    Qed.

    Lemma spec_search_lookup_error : forall s root', get_project root cwd path s = (Err ELookupError, root') ->
      os_exists root cwd path = false \/ nearest root (rev comps) = None \/
      (s = false /\ has_cfg root comps = false).
    Proof.
      intros s root' G. unfold get_project in G.
      destruct (os_exists root cwd path) eqn:X; simpl in G; [|left; reflexivity]. right.
      destruct (negb s && negb (os_isfile root cwd (cfgfn cwd path))) eqn:Sx.
      - right. apply andb_true_iff in Sx. destruct Sx as [S1 S2]. apply negb_true_iff in S1, S2.
        rewrite Hcfg, isfile_has_cfg in S2 by exact Hclean. auto.
      - destruct (locate_config_dir root cwd path) as [[d|]|e] eqn:L.
        + (* project_open on a directory holding a configuration never gives LookupError *)
          exfalso. apply locate_Some in L. pose proof (nearest_cfg_holds root cwd _ _ L) as Cd.
          unfold project_open in G. unfold cfg_at in Cd. rewrite Cd in G.
          destruct (read_cfg root cwd (cfgfn cwd d)); try discriminate.
          destruct (Z.eqb (declared_version c) SCHEMA); [|discriminate].
          destruct (os_isdir root cwd (path_join (abspath cwd d) s_workspace)); [discriminate|].
          destruct (mkdirs root [] (split_sl (path_join (abspath cwd d) s_workspace))) as [[u|e2] r3] eqn:M; [discriminate|].
          inversion G; subst. clear - M. revert M.
          generalize (split_sl (path_join (abspath cwd d) s_workspace)) (@nil str). generalize root at 1 as rt.
          intros rt l. revert rt. induction l as [|c l IH]; intros rt rc M; simpl in M; [discriminate|].
          destruct (str_eqb c []); [eauto|].
          destruct (get rt (rev rc)) as [[x|es|t]|]; try discriminate.
          destruct (alookup c es) as [[x|es2|t]|]; try discriminate; eauto.
          destruct (walk FUEL rt rc [c]) as [ph|]; [|discriminate].
          destruct (get rt ph) as [[x|es3|t3]|]; try discriminate. eauto.
        + left. unfold locate_config_dir in L. rewrite Habs in L.
          destruct (loc_up (S (length (abs_of comps))) root cwd (abs_of comps)) eqn:U; [discriminate|].
          apply loc_up_none in U; [|lia].
          destruct (nearest root (rev comps)) as [r|] eqn:E; [|reflexivity]. exfalso.
          assert (Hr : forallb cleanb (rev comps) = true) by (rewrite forallb_rev; exact Hclean).
          pose proof (nearest_sound _ _ Hr E) as S2. rewrite rev_involutive in S2.
          eapply nearest_not_none; eauto.
        + (* the error came from the older-schema scan, which never yields LookupError *)
          assert (He : e = ELookupError) by (inversion G; reflexivity). rewrite He in L. clear G He.
          exfalso. unfold locate_config_dir in L.
          destruct (loc_up (S (length (abspath cwd path))) root cwd (abspath cwd path)); [discriminate|].
          destruct (older_up (S (length (abspath cwd path))) root cwd (abspath cwd path)) as [e2|] eqn:O; [|discriminate].
          assert (He : e2 = ELookupError) by (inversion L; reflexivity). rewrite He in O.
          eapply older_up_not_lookup. exact O.
    Qed.
  End Query.
End Comps.

(* ------------------------------------------------------------------ model_holds *)
Lemma qres_eqb_eq : forall a b, qres_eqb a b = true -> a = b.
Proof.
  destruct a, b; simpl; intro H; try discriminate.
  - apply str_eqb_eq in H. congruence.
  - apply andb_true_iff in H. destruct H as [H1 H2]. apply str_eqb_eq in H1, H2. congruence.
  - apply exn_eqb_eq in H. congruence.
Qed.

Lemma qres_eqb_refl : forall a, qres_eqb a a = true.
Proof.
  destruct a; simpl; rewrite ?str_eqb_refl; auto. apply exn_eqb_eq. reflexivity.
Qed.

Lemma optpath_eqb_eq : forall a b, optpath_eqb a b = true -> a = b.
Proof.
  destruct a, b; simpl; intro H; try discriminate; auto.
  f_equal. apply (list_eqb_eq _ str_eqb str_eqb_eq). exact H.
Qed.

Lemma nearest_none_has_cfg : forall root rc, nearest root rc = None -> has_cfg root (rev rc) = false.
Proof.
  intros root rc H. destruct rc as [|c rc]; simpl in *.
  - destruct (has_cfg root []); [discriminate|reflexivity].
  - destruct (has_cfg root (rev rc ++ [c])); [discriminate|reflexivity].
Qed.

Lemma nearest_has_cfg_here : forall root rc, has_cfg root (rev rc) = true -> nearest root rc = Some (rev rc).
Proof.
  intros root rc H. destruct rc as [|c rc]; simpl in *; rewrite H; reflexivity.
Qed.

Definition outcome_in_vocabulary (k : qkind) (r : qres) : Prop :=
  match k, r with
  | QProject _, RRoot _ => True
  | QProject _, RErr ELookupError => True
  | QInit, RRoot _ => True
  | _, _ => False
  end.

(* If the implementation agrees with the model on a get_project / init_project query that satisfies
   the oracle's precondition, and the observed outcome is a project or LookupError (any other
   exception is judged by the oracle itself, it can only make holds_q false), then the oracle holds:
   the project returned IS the nearest enclosing one in the sense of path components and physical
   lookups, LookupError is raised only when there is none, search=False accepts only the directory
   itself, and init_project on an existing project returns that project. *)
Lemma model_holds_C19 : forall base tree q,
  pre_q base tree q = true -> agree_q base tree q = true ->
  outcome_in_vocabulary (q_kind q) (q_res q) ->
  (q_kind q = QInit -> q_changed q = false) ->
  holds_core base tree q = true.
Proof.
  intros base tree q Hpre Hag Hvoc Hinit. unfold holds_core. rewrite Hpre.
  set (root := mkroot base tree) in *.
  (* unpack the precondition *)
  unfold pre_q in Hpre. fold root in Hpre.
  repeat (apply andb_true_iff in Hpre; destruct Hpre as [Hpre ?]).
  match goal with H : regular root q = true |- _ => rename H into Hr end.
  unfold regular in Hr. repeat (apply andb_true_iff in Hr; destruct Hr as [Hr ?]).
  match goal with H : optpath_eqb _ _ = true |- _ => apply optpath_eqb_eq in H; rename H into Hreg end.
  match goal with H : forallb cleanb _ = true |- _ => rename H into Hclean end.
  match goal with H : str_eqb (abspath _ _) _ = true |- _ => apply str_eqb_eq in H; rename H into Habs end.
  match goal with H : str_eqb (cfgfn _ _) _ = true |- _ => apply str_eqb_eq in H; rename H into Hcfg end.
  set (comps := q_comps q) in *. set (cwd := q_cwd q) in *. set (path := q_path q) in *.
  (* the existence test of the oracle is the model's os_exists *)
  assert (Hex : os_exists root cwd path =
                match phys root comps with
                | Some ph => match get root ph with Some _ => true | None => false end
                | None => false
                end).
  { unfold os_exists, os_stat. rewrite Hreg. destruct (phys root comps) as [ph|]; [|reflexivity].
    destruct (get root ph); reflexivity. }
  unfold agree_q in Hag. fold root in Hag. unfold run_q in Hag. fold cwd path in Hag.
  unfold expected, holder_ok. fold comps. fold root.
  destruct (q_kind q) as [s| |] eqn:K.
  - (* get_project *)
    destruct (get_project root cwd path s) as [[x|e] root'] eqn:G.
    + repeat (apply andb_true_iff in Hag; destruct Hag as [Hag ?]).
      apply qres_eqb_eq in Hag. rewrite <- Hag.
      destruct (spec_search_ok root cwd path comps Hclean Habs Hcfg Hreg s x root' G) as [X [r [En [Ex Es]]]].
      rewrite <- Hex, X. destruct s.
      * rewrite En, Ex. cbv iota beta. rewrite qres_eqb_refl. reflexivity.
      * destruct (Es eq_refl) as [Hc Er]. rewrite Hc. cbv iota beta. simpl andb. cbv iota. subst r. rewrite Ex, ?qres_eqb_refl, ?str_eqb_refl. reflexivity.
    + repeat (apply andb_true_iff in Hag; destruct Hag as [Hag ?]).
      apply qres_eqb_eq in Hag. rewrite <- Hag in *. simpl in Hvoc.
      destruct e; try contradiction.
      destruct (spec_search_lookup_error root cwd path comps Hclean Habs Hcfg s root' G) as [X|[Nn|[Es Hc]]].
      * rewrite <- Hex, X. destruct s; reflexivity.
      * rewrite <- Hex. destruct s.
        -- rewrite Nn. destruct (os_exists root cwd path); reflexivity.
        -- apply nearest_none_has_cfg in Nn. rewrite rev_involutive in Nn. rewrite Nn.
           rewrite andb_false_r. reflexivity.
      * subst s. rewrite Hc. rewrite andb_false_r. reflexivity.
  - (* get_job: not covered by this lemma *)
    simpl in Hvoc. destruct (q_res q); contradiction.
  - (* init_project on an existing project *)
    rewrite <- Hex.
    destruct (os_exists root cwd path && has_cfg root comps) eqn:EH; [|reflexivity].
    apply andb_true_iff in EH. destruct EH as [X Hc].
    unfold init_project in Hag.
    destruct (get_project root cwd path false) as [[x|e] root'] eqn:G.
    + repeat (apply andb_true_iff in Hag; destruct Hag as [Hag ?]).
      apply qres_eqb_eq in Hag. rewrite <- Hag.
      destruct (spec_search_ok root cwd path comps Hclean Habs Hcfg Hreg false x root' G) as [_ [r [En [Ex Es]]]].
      destruct (Es eq_refl) as [_ Er]. subst r. rewrite Ex, qres_eqb_refl. simpl.
      unfold init_unchanged. rewrite (Hinit eq_refl). reflexivity.
    + assert (NL : e <> ELookupError).
      { intro Z. subst e.
        destruct (spec_search_lookup_error root cwd path comps Hclean Habs Hcfg false root' G) as [X2|[Nn|[_ Hc2]]].
        - congruence.
        - apply nearest_none_has_cfg in Nn. rewrite rev_involutive in Nn. congruence.
        - congruence. }
      assert (Hag2 : qres_eqb (RErr e) (q_res q) = true).
      { destruct e; try (repeat (apply andb_true_iff in Hag; destruct Hag as [Hag ?]); exact Hag).
        congruence. }
      apply qres_eqb_eq in Hag2. rewrite <- Hag2 in Hvoc. simpl in Hvoc. contradiction.
Qed.

(* ------------------------------------------------------------------ model_holds for get_job *)
Lemma innermost_some : forall rc i rb, innermost_id rc = Some (i, rb) ->
  exists rpost, rc = rpost ++ i :: rb /\ is_id i = true /\ forallb (fun c => negb (is_id c)) rpost = true.
Proof.
  induction rc as [|c rc IH]; simpl; intros i rb H; [discriminate|].
  destruct (is_id c) eqn:E.
  - inversion H; subst. exists []. auto.
  - destruct (IH i rb H) as [rp [A [B C]]]. exists (c :: rp). subst rc. simpl. rewrite E, C. auto.
Qed.

Lemma innermost_none : forall rc, innermost_id rc = None -> forallb (fun c => negb (is_id c)) rc = true.
Proof.
  induction rc as [|c rc IH]; simpl; intro H; [reflexivity|].
  destruct (is_id c); [discriminate|]. simpl. auto.
Qed.

Lemma optpath_eqb_refl : forall a, optpath_eqb a a = true.
Proof. destruct a; simpl; auto. apply (list_eqb_eq _ str_eqb str_eqb_eq). reflexivity. Qed.

Lemma project_open_not_lookup : forall root cwd p root', cfg_at root cwd p = true ->
  project_open root cwd p = (Err ELookupError, root') -> False.
Proof.
  intros root cwd p root' C G. unfold project_open in G. unfold cfg_at in C. rewrite C in G.
  destruct (read_cfg root cwd (cfgfn cwd p)); try discriminate.
  destruct (Z.eqb (declared_version c) SCHEMA); [|discriminate].
  destruct (os_isdir root cwd (path_join (abspath cwd p) s_workspace)); [discriminate|].
  destruct (mkdirs root [] (split_sl (path_join (abspath cwd p) s_workspace))) as [[u|e2] r3] eqn:M; [discriminate|].
  inversion G; subst. clear - M. revert M.
  generalize (split_sl (path_join (abspath cwd p) s_workspace)) (@nil str). generalize root at 1 as rt.
  intros rt l. revert rt. induction l as [|c l IH]; intros rt rc M; simpl in M; [discriminate|].
  destruct (str_eqb c []); [eauto|].
  destruct (get rt (rev rc)) as [[x|es|t]|]; try discriminate.
  destruct (alookup c es) as [[x|es2|t]|]; try discriminate; eauto.
  destruct (walk FUEL rt rc [c]) as [ph|]; [|discriminate].
  destruct (get rt ph) as [[x|es3|t3]|]; try discriminate. eauto.
Qed.

Lemma os_exists_abs_of : forall root cwd comps, forallb cleanb comps = true ->
  os_exists root cwd (abs_of comps) = exists_at root comps.
Proof.
  intros root cwd comps H. unfold os_exists, os_stat, exists_at.
  destruct comps as [|c cs].
  - unfold os_resolve, phys. simpl. rewrite walk_root_slash, walk_root_empty. destruct (get root []); reflexivity.
  - rewrite os_resolve_abs_of by (auto; discriminate).
    destruct (phys root (c :: cs)) as [ph|]; [|reflexivity]. destruct (get root ph); reflexivity.
Qed.

Definition job_vocabulary (r : qres) : Prop :=
  match r with RJob _ _ => True | RErr ELookupError => True | _ => False end.

(* get_job: if the implementation agrees with the model on a query satisfying the precondition and
   answers with a job or LookupError, then the oracle holds: the job is the innermost id-like
   component of the path, its project is the nearest enclosing project of the job directory's
   parent, that parent IS <project>/workspace physically, and LookupError is raised only when the
   path does not exist or contains no id-like component / no project. *)
Lemma model_holds_job : forall base tree q,
  q_kind q = QJob -> pre_q base tree q = true -> agree_q base tree q = true ->
  job_vocabulary (q_res q) -> holds_core base tree q = true.
Proof.
  intros base tree q K Hpre Hag Hvoc. unfold holds_core. rewrite Hpre.
  set (root := mkroot base tree) in *.
  unfold pre_q in Hpre. fold root in Hpre. rewrite K in Hpre.
  apply andb_true_iff in Hpre. destruct Hpre as [Hpre JL].
  repeat (apply andb_true_iff in Hpre; destruct Hpre as [Hpre ?]).
  match goal with H : regular root q = true |- _ => rename H into Hr end.
  unfold regular in Hr. repeat (apply andb_true_iff in Hr; destruct Hr as [Hr ?]).
  match goal with H : forallb cleanb _ = true |- _ => rename H into Hclean end.
  match goal with H : str_eqb (abspath _ _) _ = true |- _ => apply str_eqb_eq in H; rename H into Habs end.
  set (comps := q_comps q) in *. set (cwd := q_cwd q) in *. set (path := q_path q) in *.
  unfold job_layout in JL. rename JL into JL2.
  pose proof (os_exists_abs_of root cwd comps Hclean) as EX.
  unfold agree_q in Hag. fold root in Hag. unfold run_q in Hag. rewrite K in Hag. fold cwd path in Hag.
  assert (Q : q_res q = match get_job root cwd path with (Ok (r, i), _) => RJob r i | (Err e, _) => RErr e end).
  { destruct (get_job root cwd path) as [[[r i]|e] root']; repeat (apply andb_true_iff in Hag; destruct Hag as [Hag ?]);
      apply qres_eqb_eq in Hag; auto. }
  clear Hag.
  unfold expected, holder_ok. rewrite K. fold comps. fold root. fold (exists_at root comps).
  destruct (exists_at root comps) eqn:EA.
  2:{ (* the path does not exist *)
      assert (G : get_job root cwd path = (Err ELookupError, root)).
      { apply get_job_missing. rewrite Habs, EX. reflexivity. }
      rewrite G in Q. rewrite Q. reflexivity. }
  simpl negb in JL2. simpl orb in JL2.
  destruct (innermost_id (rev comps)) as [[i rb]|] eqn:IN.
  2:{ (* no id-like component *)
      pose proof (innermost_none _ IN) as NI. rewrite forallb_rev in NI.
      assert (G : get_job root cwd path = (Err ELookupError, root)).
      { apply (get_job_no_id root cwd path comps Habs Hclean NI). }
      rewrite G in Q. rewrite Q. reflexivity. }
  destruct rb as [|w rproj]; [discriminate JL2|].
  apply andb_true_iff in JL2. destruct JL2 as [JL2 PX].
  apply andb_true_iff in JL2. destruct JL2 as [JL2 PHX].
  apply andb_true_iff in JL2. destruct JL2 as [JL2 NC].
  apply andb_true_iff in JL2. destruct JL2 as [JL2 HC].
  apply negb_true_iff in NC.
  apply str_eqb_eq in JL2. subst w.
  change (rev rproj ++ [s_workspace]) with (rev (s_workspace :: rproj)) in *.
  destruct (phys root (rev (s_workspace :: rproj))) as [ph0|] eqn:PH; [|discriminate PHX].
  destruct (innermost_some _ _ _ IN) as [rpost [RC [Hi NP]]].
  assert (EC : comps = rev (s_workspace :: rproj) ++ i :: rev rpost).
  { apply (f_equal (@rev str)) in RC. rewrite rev_involutive in RC. rewrite RC.
    rewrite rev_app_distr. simpl. rewrite <- app_assoc. reflexivity. }
  set (pre := rev (s_workspace :: rproj)) in *.
  assert (Cpre : forallb cleanb pre = true /\ cleanb i = true).
  { rewrite EC in Hclean. rewrite forallb_app in Hclean. apply andb_true_iff in Hclean. destruct Hclean as [A B].
    simpl in B. apply andb_true_iff in B. tauto. }
  destruct Cpre as [Cpre Ci].
  assert (NR : forallb (fun c => negb (is_id c)) (rev rpost) = true) by (rewrite forallb_rev; exact NP).
  assert (XA : os_exists root cwd (abspath cwd path) = true) by (rewrite Habs; exact EX).
  assert (Habs2 : abspath cwd path = abs_of (pre ++ i :: rev rpost)) by (rewrite Habs, EC; reflexivity).
  assert (Hc2 : forallb cleanb (pre ++ i :: rev rpost) = true) by (rewrite <- EC; exact Hclean).
  rewrite (get_job_innermost root cwd path pre i (rev rpost) Habs2 Hc2 Hi NR XA) in Q.
  (* the project search from /pre/i/.. *)
  assert (NE : nearest root (s_workspace :: rproj) = Some (rev rproj)).
  { change (nearest root (s_workspace :: rproj)) with
      (if has_cfg root (rev (s_workspace :: rproj)) then Some (rev (s_workspace :: rproj)) else nearest root rproj).
    fold pre. rewrite NC. apply nearest_has_cfg_here. exact HC. }
  assert (Crp : forallb cleanb (s_workspace :: rproj) = true) by (rewrite <- forallb_rev; exact Cpre).
  pose proof (nearest_sound root cwd _ _ Crp NE) as NS. fold pre in NS.
  assert (GP : get_project root cwd (path_join (abs_of (pre ++ [i])) s_pardir) true
               = project_open root cwd (abs_of (rev rproj))).
  { unfold get_project. rewrite PX. simpl negb. simpl andb. cbv iota.
    rewrite (locate_of_nearest root cwd _ (abs_of (rev rproj))); [reflexivity|].
    unfold s_pardir. rewrite (abspath_pardir cwd pre i Cpre Ci). exact NS. }
  rewrite GP in Q.
  assert (Crr : forallb cleanb (rev rproj) = true).
  { rewrite forallb_rev. simpl in Crp. first [exact Crp | apply andb_true_iff in Crp; tauto]. }
  destruct (project_open root cwd (abs_of (rev rproj))) as [[x|e] root'] eqn:PO.
  - apply project_open_Ok in PO. destruct PO as [Ex _]. rewrite (abspath_abs_of cwd _ Crr) in Ex. subst x.
    rewrite Q, NE. rewrite qres_eqb_refl. rewrite andb_true_l, andb_true_r. cbv iota beta.
    rewrite (norm_split_abs_of _ Crr).
    change (rev rproj ++ [s_workspace]) with (rev (s_workspace :: rproj)). fold pre. rewrite PH.
    apply optpath_eqb_refl.
  - rewrite Q in Hvoc. simpl in Hvoc. destruct e; try contradiction.
    exfalso. eapply project_open_not_lookup; [|exact PO].
    rewrite cfg_at_has_cfg by exact Crr. exact HC.
Qed.

Lemma model_holds_get_project : forall base tree q s,
  q_kind q = QProject s -> pre_q base tree q = true -> agree_q base tree q = true ->
  outcome_in_vocabulary (q_kind q) (q_res q) -> holds_core base tree q = true.
Proof. intros base tree q s K P A V. apply model_holds_C19; auto. rewrite K. discriminate. Qed.

Lemma model_holds_init : forall base tree q,
  q_kind q = QInit -> pre_q base tree q = true -> agree_q base tree q = true ->
  outcome_in_vocabulary (q_kind q) (q_res q) -> q_changed q = false ->
  holds_core base tree q = true.
Proof. intros base tree q K P A V C. apply model_holds_C19; auto. Qed.

(* the "nothing is reset" clause of the oracle on a call that changed nothing *)
Lemma change_ok_unchanged : forall base tree q, q_changed q = false -> change_ok base tree q = true.
Proof.
  intros base tree q H. unfold change_ok, unchanged_or_ws. rewrite H.
  destruct (q_kind q); destruct (q_res q); reflexivity.
Qed.

Lemma model_holds_full : forall base tree q,
  holds_core base tree q = true -> q_changed q = false -> holds_q base tree q = true.
Proof.
  intros base tree q H C. unfold holds_q. rewrite H, (change_ok_unchanged base tree q C).
  destruct (pre_q base tree q); [destruct (expected (mkroot base tree) q)|]; reflexivity.
Qed.
