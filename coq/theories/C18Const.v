(* C18Const.v — exclude_const and mapping-valued keys (repair of known finding C18 tag 2):
   a key under which every selected job holds a mapping is dropped as constant only when no dotted key
   extends it, and then every one of those mappings is empty, i.e. the jobs agree. *)
From SV Require Import Base Json PyVal Query QueryProofs C06Proofs C06DocProofs Schema C18Proofs.

(* the value fits into the fuel of flatten (nesting depth below fuel) *)
Fixpoint fits (fuel : nat) (x : json) : bool :=
  match fuel with
  | O => false
  | Datatypes.S f => match x with
                     | JObj kvs => forallb (fun kv => fits f (snd kv)) kvs
                     | _ => true
                     end
  end.

Lemma flatten_nonempty : forall fuel K x, fits fuel x = true -> flatten fuel (Some K) x <> [].
Proof.
  induction fuel as [|f IH]; intros K x Hf; [discriminate|].
  destruct x as [| | | | | |kvs]; try (cbn [flatten]; discriminate).
  destruct kvs as [|[k v] kvs]; [cbn [flatten]; discriminate|].
  cbn [fits forallb snd] in Hf. apply andb_true_iff in Hf. destruct Hf as [Hv _].
  cbn [flatten flat_map fst snd]. intro H. apply app_eq_nil in H. destruct H as [H _].
  revert H. apply IH. exact Hv.
Qed.

Lemma str_prefix_app : forall p r, str_prefix p (p ++ r) = true.
Proof. intros. apply str_prefix_spec. eauto. Qed.

Lemma flatten_keys_prefix : forall fuel K kv kvs e,
  In e (flatten fuel (Some K) (JObj (kv :: kvs))) -> str_prefix (K ++ [dot]) (fst e) = true.
Proof.
  intros fuel K kv kvs e H. rewrite flatten_root in H by eauto.
  apply in_map_iff in H. destruct H as [e' [<- _]]. unfold add_pfx. cbn [fst].
  change (K ++ dot :: fst e') with (K ++ [dot] ++ fst e'). rewrite app_assoc. apply str_prefix_app.
Qed.

(* the key under which flatten reaches the value at a path *)
Definition kext (key : option str) (n : str) : str :=
  match key with None => n | Some k => k ++ dot :: n end.

Fixpoint kpath (key : option str) (nodes : list str) : option str :=
  match nodes with
  | [] => key
  | n :: r => kpath (Some (kext key n)) r
  end.

Lemma kpath_some : forall r k, kpath (Some k) r = Some (join_with dot (k :: r)).
Proof.
  induction r as [|n r IH]; intro k; [reflexivity|].
  cbn [kpath kext]. rewrite IH. f_equal.
  destruct r as [|m r]; cbn [join_with]; rewrite <- ?app_assoc; reflexivity.
Qed.

Lemma kpath_none : forall n r, kpath None (n :: r) = Some (join_with dot (n :: r)).
Proof. intros. cbn [kpath kext]. apply kpath_some. Qed.

Lemma flatten_lookup_incl : forall nodes fuel key d v,
  lookup_path d nodes = Some v ->
  forall e, In e (flatten fuel (kpath key nodes) v) -> In e (flatten (length nodes + fuel) key d).
Proof.
  induction nodes as [|n r IH]; intros fuel key d v Hl e He.
  - cbn in Hl. inversion Hl; subst. exact He.
  - cbn [lookup_path] in Hl. destruct d as [| | | | | |kvs]; try discriminate.
    destruct (alookup n kvs) as [x|] eqn:Ea; [|discriminate].
    apply alookup_In in Ea. cbn [length Nat.add].
    destruct kvs as [|kv0 kvs0]; [inversion Ea|].
    cbn [flatten]. apply in_flat_map. exists (n, x). split; [exact Ea|].
    cbn [fst snd]. apply (IH fuel (Some (kext key n)) x v Hl e).
    destruct key; exact He.
Qed.

Lemma fits_lookup : forall nodes F d v,
  fits F d = true -> lookup_path d nodes = Some v ->
  exists f, F = length nodes + f /\ fits f v = true.
Proof.
  induction nodes as [|n r IH]; intros F d v Hf Hl.
  - cbn in Hl. inversion Hl; subst. exists F. auto.
  - destruct F as [|F']; [discriminate|].
    cbn [lookup_path] in Hl. destruct d as [| | | | | |kvs]; try discriminate.
    destruct (alookup n kvs) as [x|] eqn:Ea; [|discriminate].
    apply alookup_In in Ea. cbn [fits] in Hf. rewrite forallb_forall in Hf.
    specialize (Hf _ Ea). cbn [snd] in Hf.
    destruct (IH F' x v Hf Hl) as [f [-> Hv]]. exists f. auto.
Qed.

(* Soundness of dropping a mapping-valued key: when no dotted key of the selected jobs extends the key,
   every mapping a job holds under it is empty. *)
Theorem const_mapping_sound : forall jobs (nodes : list str),
  nodes <> [] ->
  (forall i sp, In (i, sp) jobs -> fits SFUEL (sp_doc sp) = true) ->
  existsb (str_prefix (join_with dot (s_sp :: nodes) ++ [dot])) (dotted_keys (sp_corpus jobs)) = false ->
  forall i sp m, In (i, sp) jobs -> lookup_path sp nodes = Some (JObj m) -> m = [].
Proof.
  intros jobs nodes Hne Hfit Hno i sp m Hin Hl.
  destruct m as [|kv kvs]; [reflexivity|exfalso].
  assert (Hl' : lookup_path (sp_doc sp) (s_sp :: nodes) = Some (JObj (kv :: kvs))).
  { unfold sp_doc. cbn [lookup_path alookup]. rewrite str_eqb_refl. exact Hl. }
  destruct (fits_lookup _ _ _ _ (Hfit _ _ Hin) Hl') as [f [HF Hv]].
  pose proof (flatten_nonempty f (join_with dot (s_sp :: nodes)) _ Hv) as Hnn.
  destruct (flatten f (Some (join_with dot (s_sp :: nodes))) (JObj (kv :: kvs))) as [|e es] eqn:Ef;
    [congruence|].
  assert (He : In e (flatten f (kpath None (s_sp :: nodes)) (JObj (kv :: kvs)))).
  { rewrite kpath_none. unfold str in *. rewrite Ef. left. reflexivity. }
  apply (flatten_lookup_incl _ f None _ _ Hl') in He. rewrite <- HF in He.
  assert (Hk : In (fst e) (dotted_keys (sp_corpus jobs))).
  { unfold dotted_keys. apply dedupe_str_In. apply in_flat_map.
    exists (i, sp_doc sp). split.
    - unfold sp_corpus. apply in_map_iff. exists (i, sp). auto.
    - cbn [snd]. apply in_map. exact He. }
  assert (Hp : str_prefix (join_with dot (s_sp :: nodes) ++ [dot]) (fst e) = true).
  { apply (flatten_keys_prefix f _ kv kvs). rewrite Ef. left. reflexivity. }
  assert (Ht : existsb (str_prefix (join_with dot (s_sp :: nodes) ++ [dot])) (dotted_keys (sp_corpus jobs)) = true).
  { apply existsb_exists. eauto. }
  congruence.
Qed.

(* ---------- completeness: empty mappings everywhere => no dotted key extends the key ---------- *)
Definition dotfree (n : str) : bool := negb (contains_char dot n).

Lemma In_alookup_distinct : forall (kvs : list (str * json)) k v,
  keys_distinct (map fst kvs) = true -> In (k, v) kvs -> alookup k kvs = Some v.
Proof.
  induction kvs as [|[k0 v0] kvs IH]; intros k v Hd Hin; [inversion Hin|].
  cbn [map fst keys_distinct] in Hd. apply andb_true_iff in Hd. destruct Hd as [Hn Hd].
  cbn [alookup]. destruct Hin as [Hin|Hin].
  - inversion Hin; subst. rewrite str_eqb_refl. reflexivity.
  - destruct (str_eqb k k0) eqn:E.
    + apply str_eqb_eq in E. subst k0. exfalso.
      apply negb_true_iff in Hn. apply (in_map fst) in Hin. cbn [fst] in Hin.
      assert (str_mem k (map fst kvs) = true) by (apply str_mem_In; exact Hin). congruence.
    + apply IH; auto.
Qed.

Lemma join_cons2 : forall (K n : str) (p : list str),
  join_with dot ((K ++ dot :: n) :: p) = join_with dot (K :: n :: p).
Proof.
  intros K n p. destruct p as [|m p]; cbn [join_with]; rewrite <- ?app_assoc; reflexivity.
Qed.

Lemma flatten_sound : forall fuel (K : str) d e,
  wf d = true -> In e (flatten fuel (Some K) d) ->
  exists path : list str, lookup_path d path = Some (snd e) /\ fst e = join_with dot (K :: path).
Proof.
  induction fuel as [|f IH]; intros K d e Hw He; [inversion He|].
  assert (Hleaf : In e [(K, d)] -> exists path : list str,
             lookup_path d path = Some (snd e) /\ fst e = join_with dot (K :: path)).
  { intros [<-|[]]. exists []. auto. }
  destruct d as [| | | | | |kvs]; try (cbn [flatten] in He; auto).
  destruct kvs as [|kv0 kvs0]; [cbn [flatten] in He; auto|].
  set (kvs := kv0 :: kvs0) in *.
  cbn [flatten] in He. fold kvs in He. apply in_flat_map in He. destruct He as [[n x] [Hin He]].
  cbn [fst snd] in He. cbn [wf] in Hw. apply andb_true_iff in Hw. destruct Hw as [Hd Hall].
  rewrite forallb_forall in Hall. pose proof (Hall _ Hin) as Hwx. cbn [snd] in Hwx.
  destruct (IH _ _ _ Hwx He) as [path [Hl Hk]].
  exists (n :: path). split.
  - cbn [lookup_path]. rewrite (In_alookup_distinct kvs n x Hd Hin). exact Hl.
  - rewrite Hk. apply join_cons2.
Qed.

Lemma split_join_app : forall (a : list str) r, a <> [] ->
  Forall (fun n => contains_char dot n = false) a ->
  split_on dot (join_with dot a ++ dot :: r) = a ++ split_on dot r.
Proof.
  induction a as [|x a IH]; intros r Hne Hall; [contradiction|].
  inversion Hall as [|? ? Hx Ha]; subst.
  destruct a as [|y a].
  - cbn [join_with app]. apply (split_app_sep dot). exact Hx.
  - change (join_with dot (x :: y :: a)) with (x ++ dot :: join_with dot (y :: a)).
    rewrite <- app_assoc. cbn [app].
    rewrite (split_app_sep dot) by exact Hx. rewrite IH; [reflexivity|discriminate|exact Ha].
Qed.

Lemma join_prefix_paths : forall (a b : list str), a <> [] -> b <> [] ->
  Forall (fun n => contains_char dot n = false) a ->
  Forall (fun n => contains_char dot n = false) b ->
  str_prefix (join_with dot a ++ [dot]) (join_with dot b) = true ->
  exists q, q <> [] /\ b = a ++ q.
Proof.
  intros a b Ha Hb Hda Hdb Hp. apply str_prefix_spec in Hp. destruct Hp as [r Hr].
  rewrite <- app_assoc in Hr. cbn [app] in Hr.
  pose proof (split_join_sep dot b Hb Hdb) as Hs. rewrite Hr in Hs.
  rewrite split_join_app in Hs by assumption.
  exists (split_on dot r). split; [|auto].
  destruct (split_on_hd_sep dot r) as [t Ht]. rewrite Ht. discriminate.
Qed.

Lemma lookup_path_app : forall (a q : list str) d v,
  lookup_path d (a ++ q) = Some v -> exists w, lookup_path d a = Some w /\ lookup_path w q = Some v.
Proof.
  induction a as [|n a IH]; intros q d v H.
  - exists d. auto.
  - cbn [app lookup_path] in *. destruct d as [| | | | | |kvs]; try discriminate.
    destruct (alookup n kvs) as [x|]; [|discriminate]. apply IH. exact H.
Qed.

(* signac rejects keys containing dots (InvalidKeyError): every key on a path into the state point is dot-free *)
Definition NoDotKeys (sp : json) : Prop :=
  forall (path : list str) v, lookup_path sp path = Some v ->
    Forall (fun n => contains_char dot n = false) path.

Lemma s_sp_dotfree : contains_char dot s_sp = false.
Proof. reflexivity. Qed.

Theorem const_mapping_complete : forall jobs (nodes : list str),
  nodes <> [] -> Forall (fun n => contains_char dot n = false) nodes ->
  (forall i sp, In (i, sp) jobs ->
     wf sp = true /\ NoDotKeys sp /\ lookup_path sp nodes = Some (JObj [])) ->
  existsb (str_prefix (join_with dot (s_sp :: nodes) ++ [dot])) (dotted_keys (sp_corpus jobs)) = false.
Proof.
  intros jobs nodes Hne Hdf Hall.
  destruct (existsb _ _) eqn:E; [exfalso|reflexivity].
  apply existsb_exists in E. destruct E as [key [Hk Hp]].
  unfold dotted_keys in Hk. apply (proj1 (dedupe_str_In _ _)) in Hk. apply in_flat_map in Hk.
  destruct Hk as [[i d] [Hin Hk]]. unfold sp_corpus in Hin. apply in_map_iff in Hin.
  destruct Hin as [[i' sp] [Heq Hin]]. cbn [fst snd] in Heq. inversion Heq; subst i' d. clear Heq.
  cbn [snd] in Hk. apply in_map_iff in Hk. destruct Hk as [e [<- He]].
  destruct (Hall _ _ Hin) as [Hw [Hnd Hl]].
  rewrite flatten_sp_doc in He.
  destruct (flatten_sound _ _ _ _ Hw He) as [path [Hlp Hfe]].
  rewrite Hfe in Hp.
  destruct (join_prefix_paths (s_sp :: nodes) (s_sp :: path)) as [q [Hq Hb]];
    [discriminate|discriminate| | |exact Hp|].
  - constructor; [exact s_sp_dotfree|exact Hdf].
  - constructor; [exact s_sp_dotfree|exact (Hnd _ _ Hlp)].
  - cbn [app] in Hb. inversion Hb as [Hpath]. rewrite Hpath in Hlp.
    apply lookup_path_app in Hlp. destruct Hlp as [w [Hw1 Hw2]].
    rewrite Hl in Hw1. inversion Hw1; subst w.
    destruct q as [|n q]; [contradiction|]. cbn in Hw2. discriminate.
Qed.

(* ---------- the model's constancy test, in terms of the state points ---------- *)
Lemma join_sp_nodes : forall nodes : list str, nodes <> [] ->
  join_with dot (s_sp :: nodes) = s_sp ++ dot :: join_with dot nodes.
Proof. intros [|n r] H; [contradiction|reflexivity]. Qed.

Lemma sp_value_join : forall sp (nodes : list str), nodes <> [] ->
  Forall (fun n => contains_char dot n = false) nodes ->
  sp_value sp (join_with dot nodes) = lookup_path sp nodes.
Proof. intros sp nodes Hne Hdf. unfold sp_value. rewrite split_join by assumption. reflexivity. Qed.

Lemma kvals_In_sp : forall jobs k i sp x,
  In (i, sp) jobs -> sp_value sp k = Some x ->
  In (i, as_key x) (kvals (sp_corpus jobs) (s_sp ++ dot :: k)).
Proof.
  intros jobs k i sp x Hin Hv. unfold kvals. apply in_flat_map.
  exists (i, sp_doc sp). split.
  - unfold sp_corpus. apply in_map_iff. exists (i, sp). auto.
  - cbn [fst snd]. pose proof (own_value_sp sp k) as Ho. unfold own_value in Ho.
    rewrite Ho, Hv. left. reflexivity.
Qed.

(* exclude_const drops a key only if the selected jobs agree on it: every job holds a value under the key,
   all stored values coincide, and where they are mappings every one of them is empty.
   (SlotInj: no two values of different type share an index slot, cf. known finding C18 tag 1.) *)
Theorem schema_const_sound : forall jobs (nodes : list str),
  nodes <> [] -> Forall (fun n => contains_char dot n = false) nodes ->
  let k := join_with dot (s_sp :: nodes) in
  SlotInj (map snd (kvals (sp_corpus jobs) k)) ->
  (forall v, In v (map snd (kvals (sp_corpus jobs) k)) -> slot_eq v v = true) ->
  (forall i sp, In (i, sp) jobs -> fits SFUEL (sp_doc sp) = true) ->
  schema_const (sp_corpus jobs) k = true ->
  jobs <> [] /\
  exists v0, forall i sp, In (i, sp) jobs ->
    exists x, lookup_path sp nodes = Some x /\ as_key x = v0 /\ (is_obj x = true -> x = JObj []).
Proof.
  intros jobs nodes Hne Hdf k Hs Hr Hfit Hc.
  unfold schema_const in Hc.
  destruct (build_index (sp_corpus jobs) k) as [|[v ids] [|e2 idx]] eqn:Ei; try discriminate.
  apply andb_true_iff in Hc. destruct Hc as [Hlen Hext].
  assert (Hci : is_const_index (build_index (sp_corpus jobs) k) (length (sp_corpus jobs)) = true).
  { rewrite Ei. exact Hlen. }
  apply (proj1 (exclude_const_exact_partial _ _ Hs Hr)) in Hci.
  destruct Hci as [Hnn [Hfull [v0 Hsame]]].
  destruct (build_index_inv _ _ Hs) as [_ [_ I3]]. rewrite Ei in I3.
  assert (Hv : v = v0).
  { specialize (I3 v ids (or_introl eq_refl)). apply in_map_iff in I3.
    destruct I3 as [p [<- Hp]]. apply Hsame. exact Hp. }
  split.
  - intro Hj. subst jobs. apply Hnn. reflexivity.
  - exists v0. intros i sp Hin.
    assert (Hinc : In (i, sp_doc sp) (sp_corpus jobs)).
    { unfold sp_corpus. apply in_map_iff. exists (i, sp). auto. }
    pose proof (kvals_full_all_have _ _ Hfull _ _ Hinc) as Hown.
    unfold k in Hown. rewrite join_sp_nodes in Hown by exact Hne.
    rewrite own_value_sp, sp_value_join in Hown by assumption.
    destruct (lookup_path sp nodes) as [x|] eqn:El; [|congruence].
    exists x. split; [reflexivity|].
    assert (Hk : In (i, as_key x) (kvals (sp_corpus jobs) k)).
    { unfold k. rewrite join_sp_nodes by exact Hne. apply kvals_In_sp with (sp := sp); auto.
      rewrite sp_value_join by assumption. exact El. }
    pose proof (Hsame _ Hk) as Hx. cbn [snd] in Hx. split; [exact Hx|].
    intro Hobj. destruct x as [| | | | | |m]; try discriminate.
    cbn [as_key] in Hx. subst v0 v. cbn [is_placeholder is_obj andb negb] in Hext.
    apply negb_true_iff in Hext. unfold key_extended in Hext.
    f_equal. apply (const_mapping_sound jobs nodes Hne Hfit Hext i sp m Hin El).
Qed.

(* non-vacuity: the former witness of known finding C18 tag 2, and a corpus whose mappings are all empty *)
Definition key_b18 : str := [98%N].
Definition key_x18 : str := [120%N].
Example const_mapping_examples :
  let w := [job18 1 (JObj [(key_x18, JStr key_x18)]); job18 2 (JObj [])] in
  let e := [([1%N], JObj [(key_a18, JObj []); (key_b18, JInt 1)]);
            ([2%N], JObj [(key_a18, JObj []); (key_b18, JInt 2)])] in
  schema_const (sp_corpus w) (join_with dot [s_sp; key_a18]) = false /\
  schema_exact true w (detect_schema true w) = true /\
  schema_const (sp_corpus e) (join_with dot [s_sp; key_a18]) = true /\
  schema_exact true e (detect_schema true e) = true.
Proof. vm_compute. repeat split; reflexivity. Qed.
