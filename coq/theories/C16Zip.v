(* C16Zip.v — the zip import never overwrites an existing job (after repair 56f80f6: is_below). *)
From Coq Require Import String Ascii.
From SV Require Import Base Json MD5 Canon Export CorrC16 C16Paths C16Frame.
Local Open Scope N_scope.
Local Opaque S.

(* ------------------------------------------------------------------ components that matter *)
Definition keepc (c : str) : bool := negb (is_empty c || str_eqb c dot).
Definition K (cs : list str) : list str := filter keepc cs.
Definition no_dotdot (cs : list str) : bool := negb (existsb (str_eqb dotdot) cs).

Lemma resolve_K : forall cs acc, resolve_comps acc cs = resolve_comps acc (K cs).
Proof.
  induction cs as [|c cs IH]; intro acc; simpl; auto. unfold keepc.
  destruct (is_empty c || str_eqb c dot) eqn:E; simpl; [apply IH|].
  rewrite E. destruct (str_eqb c dotdot); [destruct acc; auto|auto].
Qed.

Lemma resolve_no_dotdot : forall cs acc, no_dotdot cs = true -> resolve_comps acc cs = Some (rev acc ++ K cs).
Proof.
  induction cs as [|c cs IH]; intros acc H; simpl.
  - rewrite app_nil_r. reflexivity.
  - unfold no_dotdot in H. simpl in H. apply negb_true_iff in H. apply orb_false_iff in H. destruct H as [Hc H].
    assert (Hc' : str_eqb c dotdot = false).
    { destruct (str_eqb c dotdot) eqn:E; auto. apply str_eqb_eq in E. subst c. rewrite str_eqb_refl in Hc. discriminate. }
    unfold keepc. destruct (is_empty c || str_eqb c dot) eqn:E; simpl.
    + apply IH. unfold no_dotdot. rewrite H. reflexivity.
    + rewrite Hc'. rewrite IH by (unfold no_dotdot; rewrite H; reflexivity). simpl. rewrite <- app_assoc. reflexivity.
Qed.

Lemma K_app : forall a b, K (a ++ b) = K a ++ K b.
Proof. intros. unfold K. apply filter_app. Qed.

Lemma no_dotdot_app : forall a b, no_dotdot (a ++ b) = no_dotdot a && no_dotdot b.
Proof. intros. unfold no_dotdot. rewrite existsb_app, negb_orb. reflexivity. Qed.

(* ------------------------------------------------------------------ posixpath.join, up to K *)
Lemma ends_slash_snoc : forall a, ends_slash a = true -> exists a', a = a' ++ slash.
Proof.
  intros a H. unfold ends_slash in H. destruct (rev a) as [|c r] eqn:E; [discriminate|].
  simpl in H. unfold is_slash in H. apply N.eqb_eq in H. subst c.
  exists (rev r). rewrite <- (rev_involutive a), E. reflexivity.
Qed.

Lemma K_split_pjoin2 : forall a b, starts_slash b = false ->
  K (split 47 (pjoin2 a b)) = K (split 47 a) ++ K (split 47 b).
Proof.
  intros a b Hb. unfold pjoin2. rewrite Hb.
  destruct (is_empty a) eqn:Ea.
  - destruct a; [|discriminate]. reflexivity.
  - simpl. destruct (ends_slash a) eqn:Es.
    + destruct (ends_slash_snoc a Es) as [a' ->]. unfold slash. rewrite <- app_assoc. simpl.
      rewrite !split_app_sep, !K_app. simpl. rewrite app_nil_r. reflexivity.
    + unfold slash. simpl. rewrite split_app_sep, K_app. reflexivity.
Qed.

Lemma pjoin2_head : forall a b, a <> [] -> starts_slash b = false -> exists r, pjoin2 a b = a ++ r.
Proof.
  intros a b Ha Hb. unfold pjoin2. rewrite Hb. destruct (is_empty a || ends_slash a); eauto.
Qed.

Lemma fold_pjoin2_head : forall r t, t <> [] -> Forall (fun c => starts_slash c = false) r ->
  exists x, fold_left pjoin2 r t = t ++ x.
Proof.
  induction r as [|c r IH]; intros t Ht Hr; simpl; [exists []; rewrite app_nil_r; reflexivity|].
  inversion Hr; subst. destruct (pjoin2_head t c Ht H1) as [x Ex]. rewrite Ex.
  destruct (IH (t ++ x)) as [y Ey]; auto; [destruct t; [congruence|discriminate]|].
  rewrite Ey. exists (x ++ y). rewrite app_assoc. reflexivity.
Qed.

Lemma K_split_pjoin : forall r t, Forall (fun c => starts_slash c = false) r ->
  K (split 47 (pjoin t r)) = K (split 47 t) ++ flat_map (fun c => K (split 47 c)) r.
Proof.
  unfold pjoin. induction r as [|c r IH]; intros t Hr; simpl; [rewrite app_nil_r; reflexivity|].
  inversion Hr; subst. rewrite IH by assumption. rewrite K_split_pjoin2 by assumption.
  rewrite <- app_assoc. reflexivity.
Qed.

(* a component as it comes out of split + K on a name without '..' *)
Definition comp_ok (c : str) : Prop :=
  keepc c = true /\ str_eqb c dotdot = false /\ forallb (fun x => negb (x =? 47)) c = true.

Lemma comp_ok_split : forall c, comp_ok c -> K (split 47 c) = [c].
Proof.
  intros c [Hk [_ Hs]]. rewrite (split_single 47 c Hs). simpl. rewrite Hk. reflexivity.
Qed.

Lemma comp_ok_noslash : forall c, comp_ok c -> starts_slash c = false.
Proof.
  intros c [Hk [_ Hs]]. destruct c as [|x c]; [reflexivity|]. simpl in *.
  apply andb_true_iff in Hs. destruct Hs as [Hx _]. unfold is_slash. apply negb_true_iff in Hx. exact Hx.
Qed.

Lemma comp_ok_nonempty : forall c, comp_ok c -> c <> [].
Proof. intros c [Hk _] E. subst c. discriminate. Qed.

Lemma K_split_comps : forall Y, Forall comp_ok Y -> flat_map (fun c => K (split 47 c)) Y = Y.
Proof.
  induction Y as [|c Y IH]; simpl; intro H; auto. inversion H; subst.
  rewrite (comp_ok_split c H2), IH by assumption. reflexivity.
Qed.

Lemma comps_of_split : forall s, no_dotdot (split 47 s) = true -> Forall comp_ok (K (split 47 s)).
Proof.
  intros s Hnd. apply Forall_forall. intros c Hc. unfold K in Hc. apply filter_In in Hc. destruct Hc as [Hin Hk].
  split; [exact Hk|]. split.
  - unfold no_dotdot in Hnd. apply negb_true_iff in Hnd.
    destruct (str_eqb c dotdot) eqn:E; auto. apply str_eqb_eq in E. subst c.
    assert (existsb (str_eqb dotdot) (split 47 s) = true) by (apply existsb_exists; exists dotdot; split; [exact Hin|apply str_eqb_refl]).
    congruence.
  - pose proof (split_no_sep_in 47 s) as H. rewrite Forall_forall in H. apply H. exact Hin.
Qed.

(* the text relpath returns for relative components Y *)
Definition rel_text (Y : list str) : str := match Y with [] => dot | t :: r => pjoin t r end.

Lemma rel_text_K : forall Y, Forall comp_ok Y -> K (split 47 (rel_text Y)) = Y /\ starts_slash (rel_text Y) = false.
Proof.
  intros Y H. destruct Y as [|t r]; [split; reflexivity|]. inversion H; subst. simpl.
  assert (Hr : Forall (fun c => starts_slash c = false) r).
  { eapply Forall_impl; [|exact H3]. apply comp_ok_noslash. }
  split.
  - rewrite K_split_pjoin by exact Hr. rewrite (comp_ok_split t H2), (K_split_comps r H3). reflexivity.
  - destruct (fold_pjoin2_head r t (comp_ok_nonempty t H2) Hr) as [x Ex]. unfold pjoin. rewrite Ex.
    pose proof (comp_ok_noslash t H2) as Ht. destruct t; [exfalso; eapply comp_ok_nonempty; eauto|exact Ht].
Qed.

(* ------------------------------------------------------------------ relpath of a member below its root *)
Lemma common_len_app : forall a y, common_len (a ++ y) a = List.length a.
Proof.
  induction a as [|x a IH]; intro y; cbn [common_len app List.length].
  - destruct y; reflexivity.
  - rewrite str_eqb_refl, IH. reflexivity.
Qed.

Lemma skipn_app_len : forall A (a y : list A), skipn (List.length a) (a ++ y) = y.
Proof. induction a; simpl; auto. Qed.

Lemma below_decomp : forall name root, zip_under name root = true -> str_eqb name root = false ->
  exists X, K (split 47 name) = K (split 47 root) ++ K X
            /\ (no_dotdot (split 47 name) = true -> no_dotdot (split 47 root) = true /\ no_dotdot X = true)
            /\ (starts_slash name = false -> starts_slash root = false).
Proof.
  intros name root H Hne. unfold zip_under in H. rewrite Hne, orb_false_r in H.
  apply orb_true_iff in H. destruct H as [H|H].
  - destruct root; [|discriminate]. exists (split 47 name). repeat split; auto.
  - unfold startswith in H. apply str_prefix_spec in H. destruct H as [r Hr]. unfold slash in Hr.
    rewrite <- app_assoc in Hr. simpl in Hr. exists (split 47 r). subst name.
    rewrite split_app_sep, K_app. repeat split; auto.
    + rewrite no_dotdot_app in H. apply andb_true_iff in H. tauto.
    + rewrite no_dotdot_app in H. apply andb_true_iff in H. tauto.
    + intro Hs. destruct root; [reflexivity|exact Hs].
Qed.

Lemma CWD_rev : rev (rev CWD) = CWD. Proof. apply rev_involutive. Qed.

Lemma relpath_below : forall name root,
  zip_under name root = true -> str_eqb name root = false ->
  no_dotdot (split 47 name) = true -> starts_slash name = false ->
  exists Y, relpath name root = ROk (rel_text Y) /\ Forall comp_ok Y.
Proof.
  intros name root Hu Hne Hnd Hs.
  destruct (below_decomp name root Hu Hne) as [X [HK [Hnd' Hs']]].
  destruct (Hnd' Hnd) as [Hndr HndX]. specialize (Hs' Hs).
  exists (K X). unfold relpath, resolve. rewrite Hs, Hs'.
  rewrite (resolve_no_dotdot _ _ Hnd), (resolve_no_dotdot _ _ Hndr), CWD_rev, HK.
  rewrite app_assoc, common_len_app, Nat.sub_diag, skipn_app_len. simpl repeat. cbn [app].
  split; [reflexivity|].
  pose proof (comps_of_split name Hnd) as Hall. rewrite HK in Hall.
  apply Forall_app in Hall. tauto.
Qed.

(* ------------------------------------------------------------------ where one member is written *)
Lemma job_id_comp_ok : forall id, is_job_id id = true -> comp_ok id.
Proof.
  intros id H. unfold is_job_id in H. apply andb_true_iff in H. destruct H as [Hl Hh]. apply Nat.eqb_eq in Hl.
  assert (Hc : forall x, In x id -> x <> 47 /\ x <> 46).
  { intros x Hx. rewrite forallb_forall in Hh. specialize (Hh x Hx). unfold lower_hex in Hh.
    split; intro E; subst x; discriminate. }
  split; [|split].
  - destruct id as [|x id]; [discriminate|]. unfold keepc. cbn [is_empty orb].
    destruct (Hc x (or_introl eq_refl)) as [_ H46].
    assert (E : str_eqb (x :: id) dot = false) by (apply str_eqb_neq; intro E; unfold dot in E; inversion E; congruence).
    rewrite E. reflexivity.
  - destruct (str_eqb id dotdot) eqn:E; auto. apply str_eqb_eq in E. subst id. discriminate.
  - apply forallb_forall. intros x Hx. destruct (Hc x Hx) as [H47 _]. apply negb_true_iff. apply N.eqb_neq. exact H47.
Qed.

Lemma ws_comp_ok : comp_ok (S "workspace").
Proof. split; [|split]; vm_compute; reflexivity. Qed.

Lemma write_location : forall id Y, is_job_id id = true -> Forall comp_ok Y ->
  resolve [] (pjoin2 (joinw slash (job_dir id)) (rel_text Y)) = Some (job_dir id ++ Y).
Proof.
  intros id Y Hid HY. destruct (rel_text_K Y HY) as [HKY HsY].
  pose proof (job_id_comp_ok id Hid) as Hidok.
  assert (Hjp : joinw slash (job_dir id) = S "workspace" ++ 47 :: id) by reflexivity.
  assert (Hne : joinw slash (job_dir id) <> []).
  { rewrite Hjp. pose proof (comp_ok_nonempty _ ws_comp_ok). destruct (S "workspace"); [congruence|discriminate]. }
  unfold resolve.
  assert (Hss : starts_slash (pjoin2 (joinw slash (job_dir id)) (rel_text Y)) = false).
  { destruct (pjoin2_head _ _ Hne HsY) as [x ->]. rewrite Hjp.
    pose proof (comp_ok_noslash _ ws_comp_ok) as Hw. pose proof (comp_ok_nonempty _ ws_comp_ok) as Hwn.
    destruct (S "workspace"); [congruence|exact Hw]. }
  rewrite Hss. rewrite resolve_K, K_split_pjoin2 by exact HsY.
  rewrite Hjp, split_app_sep, K_app, (comp_ok_split _ ws_comp_ok), (comp_ok_split _ Hidok), HKY.
  simpl rev.
  assert (Hnd : no_dotdot (([S "workspace"] ++ [id]) ++ Y) = true).
  { unfold no_dotdot. apply negb_true_iff. destruct (existsb (str_eqb dotdot) (([S "workspace"] ++ [id]) ++ Y)) eqn:E; auto.
    apply existsb_exists in E. destruct E as [c [Hin Hc]]. apply str_eqb_eq in Hc. subst c.
    assert (comp_ok dotdot).
    { apply in_app_or in Hin. destruct Hin as [Hin|Hin].
      - destruct Hin as [<-|[<-|[]]]; [apply ws_comp_ok|exact Hidok].
      - rewrite Forall_forall in HY. apply HY. exact Hin. }
    destruct H as [_ [H _]]. rewrite str_eqb_refl in H. discriminate. }
  rewrite (resolve_no_dotdot _ [] Hnd). simpl rev. cbn [app].
  f_equal. unfold K. cbn [filter].
  destruct ws_comp_ok as [Hw _]. destruct Hidok as [Hi _]. rewrite Hw, Hi. rewrite job_dir_eq. cbn [app].
  f_equal. f_equal. clear -HY. induction Y as [|c Y IH]; simpl; auto. inversion HY; subst.
  destruct H1 as [Hk _]. rewrite Hk. f_equal. apply IH. exact H2.
Qed.

(* os.makedirs only ever adds directories *)
Lemma makedirs_lex_only_adds : forall base s f g, fs_makedirs_lex base s f = ROk g -> only_adds f g.
Proof.
  intros base s f g. unfold fs_makedirs_lex. generalize (lex_prefixes [] (split 47 s)). intro l. revert f.
  induction l as [|cs l IH]; simpl; intros f H.
  - inversion H. apply only_adds_refl.
  - destruct (resolve_comps (rev base) cs) as [p|].
    + destruct (fs_mkdir_p p f) as [g1| |] eqn:Em.
      * eapply only_adds_trans; [apply (fs_mkdir_p_spec _ _ _ Em)|apply IH; exact H].
      * rewrite fold_res_exn in H by reflexivity. discriminate.
      * rewrite fold_res_ood in H by reflexivity. discriminate.
    + rewrite fold_res_ood in H by reflexivity. discriminate.
Qed.

(* one member: whatever existed outside the new job's directory is still there, unchanged *)
Definition keeps_outside (id : str) (d d' : fs) : Prop :=
  forall p n, is_prefix (job_dir id) p = false -> fs_get p d = Some n -> fs_get p d' = Some n.

Lemma zip_copy_one_keeps : forall ms root id d name d',
  is_job_id id = true ->
  zip_under name root = true -> str_eqb name root = false ->
  no_dotdot (split 47 name) = true ->
  zip_copy_one ms root id d name = ROk d' -> keeps_outside id d d'.
Proof.
  intros ms root id d name d' Hid Hu Hne Hnd H. unfold zip_copy_one in H.
  destruct (starts_slash name) eqn:Hs.
  - (* relpath of an absolute member name is outside the model: nothing happens *)
    unfold relpath, resolve in H. rewrite Hs in H. discriminate.
  - destruct (relpath_below name root Hu Hne Hnd Hs) as [Y [Hrel HY]]. rewrite Hrel in H. cbn [rbind] in H.
    destruct (ends_slash name).
    { (* a directory member only creates directories *)
      intros p n _ Hg. apply (makedirs_lex_only_adds _ _ _ _ H). exact Hg. }
    destruct (fs_makedirs_lex [] (dirname (pjoin2 (joinw slash (job_dir id)) (rel_text Y))) d) as [d1| |] eqn:Em;
      cbn [rbind] in H; try discriminate.
    rewrite (write_location id Y Hid HY) in H.
    destruct (zip_read ms name) as [c|]; [|discriminate].
    unfold fs_write in H.
    destruct (fs_get (job_dir id ++ Y) d1) as [[c0|]|]; try discriminate;
      (destruct (fs_isdir (removelast (job_dir id ++ Y)) d1); [|discriminate]); injection H as <-;
      intros p n Hp Hg;
      (rewrite (fs_get_set_other (job_dir id ++ Y) p) by (apply (not_prefix_neq_app (job_dir id) p Y); exact Hp));
      apply (makedirs_lex_only_adds _ _ _ _ Em); exact Hg.
Qed.

(* ------------------------------------------------------------------ the whole zip import *)
Lemma analyse_fresh : forall o sf skipped adds names dst0 maps,
  analyse o sf skipped adds names dst0 = ROk maps ->
  forall m, In m maps -> fs_exists (job_dir (snd m)) dst0 = false.
Proof.
  intros o sf skipped adds names dst0 maps H. unfold analyse in H.
  match type of H with (do r <- ?F; _) = _ => destruct F as [[maps0 skip0]| |] eqn:EF end; simpl in H; try discriminate.
  assert (Hinv : forall m, In m maps0 -> fs_exists (job_dir (snd m)) dst0 = false).
  { clear H. revert EF.
    match goal with |- fold_left ?step names ?init = _ -> _ => set (st := step) end.
    assert (Hgen : forall l acc ms sk, fold_left st l acc = ROk (ms, sk) ->
              (forall ms0 sk0, acc = ROk (ms0, sk0) -> forall m, In m ms0 -> fs_exists (job_dir (snd m)) dst0 = false) ->
              forall m, In m ms -> fs_exists (job_dir (snd m)) dst0 = false).
    { induction l as [|name l IH]; simpl; intros acc ms sk Hf Hacc.
      - eapply Hacc; eauto.
      - eapply IH; [exact Hf|]. intros ms1 sk1 Hst. unfold st in Hst.
        destruct acc as [[ms0 sk0]| |]; simpl in Hst; try discriminate.
        specialize (Hacc ms0 sk0 eq_refl).
        destruct (skipped name sk0).
        + inversion Hst; subst. exact Hacc.
        + destruct (sf name) as [[v|]| |]; simpl in Hst; try discriminate.
          * match type of Hst with (if ?c then _ else _) = _ => destruct c eqn:Ec end; [discriminate|].
            inversion Hst; subst. intros m Hm. apply in_app_or in Hm. destruct Hm as [Hm|[<-|[]]].
            -- apply filter_In in Hm. apply Hacc. tauto.
            -- simpl. unfold fs_exists. rewrite job_dir_eq. exact Ec.
          * inversion Hst; subst. exact Hacc. }
    intros EF. eapply Hgen; [exact EF|]. intros ms0 sk0 E. inversion E; subst. intros m []. }
  destruct (has_dup (List.map snd maps0)); [discriminate|]. inversion H; subst. exact Hinv.
Qed.

Lemma zip_executor_keeps : forall ms root id names d d',
  is_job_id id = true ->
  Forall (fun n => zip_under n root = true /\ str_eqb n root = false /\ no_dotdot (split 47 n) = true) names ->
  fold_left (fun acc name => do g <- acc; zip_copy_one ms root id g name) names (ROk d) = ROk d' ->
  keeps_outside id d d'.
Proof.
  intros ms root id names. induction names as [|n names IH]; simpl; intros d d' Hid Hall H.
  - inversion H. intros p x _ Hg. exact Hg.
  - inversion Hall as [|? ? [Hu [Hne Hnd]] Hall']; subst.
    destruct (zip_copy_one ms root id d n) as [d1| |] eqn:E1.
    + pose proof (zip_copy_one_keeps _ _ _ _ _ _ Hid Hu Hne Hnd E1) as K1.
      pose proof (IH d1 d' Hid Hall' H) as K2. intros p x Hp Hg. apply K2; auto.
    + rewrite fold_res_exn in H by reflexivity. discriminate.
    + rewrite fold_res_ood in H by reflexivity. discriminate.
Qed.

(* an existing job keeps every file and directory it had, with the same content, whatever the zip
   archive contains (member names without '..' components: what ZipInfo.from_file produces for
   the paths export accepts), for every schema and every project state *)
Theorem import_zip_never_overwrites : forall o sch ms d0,
  forallb (fun n => no_dotdot (split 47 n)) (List.map fst ms) = true ->
  forall id0 p n, fs_exists (job_dir id0) d0 = true -> is_prefix (job_dir id0) p = true ->
  fs_get p d0 = Some n -> fs_get p (io_dst (import_zip o sch ms d0)) = Some n.
Proof.
  intros o sch ms d0 Hnames. unfold import_zip.
  match goal with |- context [analyse ?a ?b ?c ?d ?e ?f] => destruct (analyse a b c d e f) as [maps| |] eqn:Ea end;
    simpl; auto.
  unfold fold_partial.
  apply (fold_partial2_inv _ _ (fun d => forall id0 p n, fs_exists (job_dir id0) d0 = true ->
            is_prefix (job_dir id0) p = true -> fs_get p d0 = Some n -> fs_get p d = Some n)); auto.
  intros d [[root sp] id] d' e Hin HP Hstep id0 p n Hex Hp Hg.
  match type of Hstep with (do a' <- ?F; _) = _ => destruct F as [d1| |] eqn:EF end; cbn [rbind] in Hstep; try discriminate.
  injection Hstep as <- _.
  pose proof (analyse_ids _ _ _ _ _ _ _ Ea _ Hin) as Hid. simpl in Hid.
  pose proof (analyse_fresh _ _ _ _ _ _ _ Ea _ Hin) as Hfr. cbn [snd] in Hfr.
  assert (Hjid : is_job_id id = true) by (rewrite Hid; apply job_id_shape).
  assert (Hne : id0 <> id) by (intro E; subst id0; congruence).
  apply (zip_executor_keeps ms root id _ d d1 Hjid) in EF.
  - apply EF; [|apply HP with id0; auto].
    destruct (is_prefix (job_dir id) p) eqn:E; auto. exfalso. apply Hne. eapply under_two_job_dirs; eauto.
  - apply Forall_forall. intros x Hx. apply filter_In in Hx. destruct Hx as [Hx Hc].
    apply andb_true_iff in Hc. destruct Hc as [Hc1 Hc2]. apply negb_true_iff in Hc1.
    rewrite forallb_forall in Hnames. auto.
Qed.

(* is_below, in components *)
Lemma zip_under_components : forall r r',
  zip_under r r' = true -> r' = [] \/ is_prefix (split 47 r') (split 47 r) = true.
Proof.
  intros r r' H. unfold zip_under in H. apply orb_true_iff in H. destruct H as [H|H].
  - apply orb_true_iff in H. destruct H as [H|H].
    + left. destruct r'; [reflexivity|discriminate].
    + right. apply str_eqb_eq in H. subst. apply is_prefix_refl.
  - right. unfold startswith in H. apply str_prefix_spec in H. destruct H as [x Hx]. unfold slash in Hx.
    rewrite <- app_assoc in Hx. simpl in Hx. subst r. rewrite split_app_sep. apply is_prefix_app.
Qed.

(* ------------------------------------------------------------------ directory members (a52f9e0):
   a member whose name ends with '/' becomes a directory at the right place in the job *)
Lemma prefixes_from_last : forall p pre, p <> [] -> exists l, prefixes_from pre p = l ++ [pre ++ p].
Proof.
  induction p as [|x p IH]; intros pre H; [congruence|]. simpl.
  destruct p as [|y p].
  - exists []. reflexivity.
  - destruct (IH (pre ++ [x])) as [l El]; [discriminate|]. rewrite El. exists ((pre ++ [x]) :: l).
    rewrite <- app_assoc. reflexivity.
Qed.

Lemma lex_prefixes_last : forall cs pre, cs <> [] -> exists l, lex_prefixes pre cs = l ++ [pre ++ cs].
Proof.
  induction cs as [|x cs IH]; intros pre H; [congruence|]. simpl.
  destruct cs as [|y cs].
  - exists []. reflexivity.
  - destruct (IH (pre ++ [x])) as [l El]; [discriminate|]. rewrite El. exists ((pre ++ [x]) :: l).
    rewrite <- app_assoc. reflexivity.
Qed.

Lemma mkdir_p_isdir : forall p f g, fs_mkdir_p p f = ROk g -> p <> [] -> fs_get p g = Some None.
Proof.
  intros p f g H Hp. rewrite fs_mkdir_p_unfold in H. unfold prefixes in H.
  destruct (prefixes_from_last p [] Hp) as [l El]. simpl in El. rewrite El in H.
  rewrite fold_left_app in H. cbn [fold_left] in H.
  unfold mkdir_step at 1 in H.
  match type of H with (do g0 <- ?F; _) = _ => remember F as r eqn:Er; clear Er; destruct r as [g1| |] end;
    cbn [rbind] in H; try discriminate.
  destruct (fs_get p g1) as [[c|]|] eqn:E; inversion H; subst.
  - exact E.
  - apply fs_get_set_same.
Qed.

Lemma makedirs_lex_isdir : forall base s f g p,
  fs_makedirs_lex base s f = ROk g -> resolve_comps (rev base) (split 47 s) = Some p -> p <> [] ->
  fs_get p g = Some None.
Proof.
  intros base s f g p H Hr Hp. unfold fs_makedirs_lex in H.
  destruct (lex_prefixes_last (split 47 s) [] (split_nonempty 47 s)) as [l El]. simpl in El. rewrite El in H.
  rewrite fold_left_app in H. cbn [fold_left] in H.
  match type of H with (do g0 <- ?F; _) = _ => remember F as r eqn:Er; clear Er; destruct r as [g1| |] end;
    cbn [rbind] in H; try discriminate.
  rewrite Hr in H. eapply mkdir_p_isdir; eauto.
Qed.

Theorem zip_dir_member_created : forall ms root id d name d',
  is_job_id id = true ->
  zip_under name root = true -> str_eqb name root = false ->
  no_dotdot (split 47 name) = true -> starts_slash name = false ->
  ends_slash name = true ->
  zip_copy_one ms root id d name = ROk d' ->
  exists Y, relpath name root = ROk (rel_text Y) /\ Forall comp_ok Y
            /\ fs_get (job_dir id ++ Y) d' = Some None
            /\ only_adds d d'.
Proof.
  intros ms root id d name d' Hid Hu Hne Hnd Hs He H. unfold zip_copy_one in H.
  destruct (relpath_below name root Hu Hne Hnd Hs) as [Y [Hrel HY]]. rewrite Hrel in H. cbn [rbind] in H.
  rewrite He in H. exists Y. repeat split; auto.
  - pose proof (write_location id Y Hid HY) as Hw. unfold resolve in Hw.
    destruct (starts_slash (pjoin2 (joinw slash (job_dir id)) (rel_text Y))); [discriminate|].
    eapply makedirs_lex_isdir; eauto. rewrite job_dir_eq. discriminate.
  - eapply makedirs_lex_only_adds; eauto.
Qed.
