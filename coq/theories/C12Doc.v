(* C12Doc.v — a document writer and a reader of the SAME document in two processes.
   With the temp-file + os.replace protocol (Crash.doc_store; write_concern / thread support) the reader,
   scheduled at ANY position between the writer's file-system calls, completes without error and sees the old
   or the new content — never a torn one.  With the in-place protocol (json_save false: truncating open, write,
   close on the file itself) a reader scheduled between the open and the write fails: concrete witness. *)
From SV Require Import Base Json MD5 Canon FS Proc Crash WsNames CorrC11 C11Proofs.
Import ListNotations.

Definition adv {A} (p : prog A) : prog A := match p with Do _ k => k (FOk RUnit) | _ => p end.

Section DOCRW.
  Variable frepr : fl -> str.
  Variable tag : str.
  Variable dir : path.
  Variable name : str.
  Variable f0 : fs.
  Variables v0 v : json.
  Variable c0 : content.
  Let file : path := dir ++ [name].
  Let tmp : path := tmpname tag file.
  Let cv : content := jcontent frepr v.
  Hypothesis H0 : get f0 file = Some (File c0).
  Hypothesis J0 : c_json c0 = Some v0.
  Hypothesis Hdir : get f0 dir = Some Dir.
  Hypothesis Htmp : get f0 tmp <> Some Dir.

  Definition doc_writer : prog json :=
    doc_store frepr tag file v (fun r => match r with inl _ => Ret v | inr e => Raise e end).
  Definition doc_reader : prog json :=
    doc_load file (fun r => match r with inl d => Ret d | inr e => Raise e end).

  Lemma tmp_eq : tmp = dir ++ [TMPPFX ++ tag ++ name].
  Proof. unfold tmp, tmpname, file. rewrite parent_snoc, last_last. reflexivity. Qed.

  Lemma tmp_ne : tmp <> file.
  Proof.
    rewrite tmp_eq. unfold file. intro E. apply app_inv_head in E. injection E as E1.
    apply (f_equal (@length N)) in E1. unfold TMPPFX in E1. simpl in E1. rewrite ?app_length in E1. lia.
  Qed.

  Lemma par_tmp : parent tmp = dir.
  Proof. rewrite tmp_eq. apply parent_snoc. Qed.

  Lemma par_file : parent file = dir.
  Proof. unfold file. apply parent_snoc. Qed.

  (* the four states of the writer's protocol *)
  Lemma states : exists F1 F2 F4,
    exec_res f0 (COpenW tmp) = (F1, FOk RUnit) /\
    exec_res F1 (CWrite tmp cv) = (F2, FOk RUnit) /\
    exec_res F2 (CRename tmp file) = (F4, FOk RUnit) /\
    get F1 file = Some (File c0) /\ get F2 file = Some (File c0) /\
    get F4 file = Some (File cv) /\ get F4 tmp = None.
  Proof.
    pose proof tmp_ne as Hne.
    assert (Hft : path_eqb file tmp = false) by (apply path_eqb_neq; intro E; apply Hne; symmetry; exact E).
    destruct (openw_ok f0 tmp Htmp) as [F1 [E1 G1]]; [rewrite par_tmp; exact Hdir|].
    assert (T1 : get F1 tmp = Some (File empty_content)) by (rewrite G1, path_eqb_refl; reflexivity).
    assert (D1 : get F1 dir = Some Dir).
    { rewrite G1. assert (Ed : path_eqb dir tmp = false).
      { apply path_eqb_neq. rewrite tmp_eq. intro E. assert (L : length dir = length (dir ++ [TMPPFX ++ tag ++ name])) by (rewrite <- E; reflexivity).
        rewrite app_length in L. simpl in L. lia. }
      rewrite Ed. exact Hdir. }
    destruct (write_open_ok F1 tmp empty_content cv T1) as [F2 [E2 G2]]; [rewrite par_tmp; exact D1|].
    assert (E2' : exec_res F1 (CWrite tmp cv) = (F2, FOk RUnit)) by (unfold exec_res; cbn [exec]; rewrite E2; reflexivity).
    assert (T2 : get F2 tmp = Some (File cv)) by (rewrite G2, path_eqb_refl; reflexivity).
    assert (A1 : get F1 file = Some (File c0)) by (rewrite G1, Hft; exact H0).
    assert (A2 : get F2 file = Some (File c0)) by (rewrite G2, Hft; exact A1).
    assert (D2 : get F2 (parent file) = Some Dir).
    { rewrite par_file, G2. assert (Ed : path_eqb dir tmp = false).
      { apply path_eqb_neq. rewrite tmp_eq. intro E. assert (L : length dir = length (dir ++ [TMPPFX ++ tag ++ name])) by (rewrite <- E; reflexivity).
        rewrite app_length in L. simpl in L. lia. }
      rewrite Ed. exact D1. }
    assert (N2 : get F2 file <> Some Dir) by (rewrite A2; discriminate).
    destruct (rename_file_ok F2 tmp file cv T2 D2 Hne N2) as [F4 [E4 G4]].
    exists F1, F2, F4. repeat split; auto.
    - rewrite G4, path_eqb_refl. reflexivity.
    - rewrite G4. assert (Etf : path_eqb tmp file = false) by (apply path_eqb_neq; exact Hne).
      rewrite Etf, path_eqb_refl. reflexivity.
  Qed.

  Lemma istep_other : forall (f : fs) (w r : prog json) a, 2 <= a -> istep (f, [w; r]) a = (f, [w; r]).
  Proof. intros f w r a Ha. destruct a as [|[|a]]; try lia. unfold istep. destruct a; reflexivity. Qed.

  (* Under EVERY schedule (any length, any actor indices): both processes complete without error, the reader
     sees the old or the new document, the new document is installed and no temp file is left. *)
  Theorem doc_reader_never_torn_lemma : forall sched,
    exists f1 d, interleave sched f0 [doc_writer; doc_reader] = (f1, [inl v; inl d]) /\
                 (d = v0 \/ d = v) /\ get f1 file = Some (File cv) /\ get f1 tmp = None.
  Proof.
    destruct states as [F1 [F2 [F4 [E1 [E2 [E4 [A1 [A2 [A4 T4]]]]]]]]].
    set (Fj := fun j : nat => match j with 0 => f0 | 1 => F1 | 2 => F2 | 3 => F2 | _ => F4 end).
    set (Wj := fun j : nat => Nat.iter j adv doc_writer).
    assert (Jv : c_json cv = Some v) by reflexivity.
    assert (W4 : Wj 4 = Ret v) by reflexivity.
    assert (Wj0 : Wj 0 = doc_writer) by reflexivity.
    (* the writer's step *)
    assert (St0 : forall j r, j < 4 -> istep (Fj j, [Wj j; r]) 0 = (Fj (S j), [Wj (S j); r])).
    { intros j r Hj. destruct j as [|[|[|[|j]]]]; try lia; unfold istep; cbn [nth_error Fj].
      - unfold Wj, doc_writer, doc_store, json_save; fold file tmp cv; cbv beta iota delta [Nat.iter nat_rect adv]. rewrite E1. reflexivity.
      - unfold Wj, doc_writer, doc_store, json_save; fold file tmp cv; cbv beta iota delta [Nat.iter nat_rect adv]. rewrite E2. reflexivity.
      - unfold Wj, doc_writer, doc_store, json_save; fold file tmp cv; cbv beta iota delta [Nat.iter nat_rect adv]. reflexivity.
      - unfold Wj, doc_writer, doc_store, json_save; fold file tmp cv; cbv beta iota delta [Nat.iter nat_rect adv]. rewrite E4. reflexivity. }
    assert (St0d : forall r, istep (Fj 4, [Wj 4; r]) 0 = (Fj 4, [Wj 4; r])) by (intro r; rewrite W4; reflexivity).
    (* the reader's step *)
    assert (Rd : forall j, j <= 4 -> exists d, (d = v0 \/ d = v) /\ (j = 4 -> d = v) /\
                   forall w, istep (Fj j, [w; doc_reader]) 1 = (Fj j, [w; Ret d])).
    { intros j Hj.
      assert (G : get (Fj j) file = Some (File (if Nat.ltb j 4 then c0 else cv))).
      { destruct j as [|[|[|[|[|j]]]]]; try lia; cbn [Fj Nat.ltb Nat.leb]; auto. }
      exists (if Nat.ltb j 4 then v0 else v). split; [destruct (Nat.ltb j 4); auto|]. split.
      - intros ->. reflexivity.
      - intro w. unfold istep. cbn [nth_error]. unfold doc_reader, doc_load.
        unfold exec_res. cbn [exec]. rewrite G. destruct (Nat.ltb j 4); [rewrite J0|rewrite Jv]; reflexivity. }
    (* invariant of the interleaved run *)
    assert (Inv : forall sched j rs, j <= 4 ->
              (rs = doc_reader \/ ((rs = Ret v0 \/ rs = Ret v) /\ True)) ->
              exists j' rs', j' <= 4 /\ j <= j' /\ irun sched (Fj j, [Wj j; rs]) = (Fj j', [Wj j'; rs']) /\
                             (rs' = doc_reader \/ rs' = Ret v0 \/ rs' = Ret v) /\
                             (rs' = Ret v0 \/ rs' = Ret v -> True)).
    { induction sched as [|a sched IH]; intros j rs Hj Hrs.
      - exists j, rs. repeat split; auto. destruct Hrs as [->|[[->| ->] _]]; auto.
      - change (irun (a :: sched) (Fj j, [Wj j; rs])) with (irun sched (istep (Fj j, [Wj j; rs]) a)).
        destruct a as [|[|a]].
        + destruct (Nat.eq_dec j 4) as [->|Hn].
          * rewrite St0d. apply IH; auto.
          * rewrite St0 by lia. destruct (IH (S j) rs ltac:(lia) Hrs) as [j' [rs' [H1 [H2 H3]]]].
            exists j', rs'. split; [exact H1|]. split; [lia|exact H3].
        + destruct Hrs as [->|[Hd _]].
          * destruct (Rd j Hj) as [d [Hd [_ Hst]]]. rewrite Hst.
            apply IH; auto. right. split; auto. destruct Hd as [->| ->]; auto.
          * assert (Es : istep (Fj j, [Wj j; rs]) 1 = (Fj j, [Wj j; rs])) by (destruct Hd as [->| ->]; reflexivity).
            rewrite Es. apply IH; auto.
        + rewrite istep_other by lia. apply IH; auto. }
    (* the writer runs to completion from every stage *)
    assert (Fin : forall j, j <= 4 -> run (Wj j) (Fj j) = (F4, inl v)).
    { intros j Hj. destruct j as [|[|[|[|[|j]]]]]; try lia; cbn [Fj];
        unfold Wj, doc_writer, doc_store, json_save; fold file tmp cv; cbv beta iota delta [Nat.iter nat_rect adv]; cbn [run].
      - rewrite E1. cbn [run]. rewrite E2. cbn [run]. unfold exec_res at 1. cbn [exec]. cbn [run]. rewrite E4. reflexivity.
      - rewrite E2. cbn [run]. unfold exec_res at 1. cbn [exec]. cbn [run]. rewrite E4. reflexivity.
      - unfold exec_res at 1. cbn [exec]. cbn [run]. rewrite E4. reflexivity.
      - rewrite E4. reflexivity.
      - reflexivity. }
    intro sched. unfold interleave.
    destruct (Inv sched 0 doc_reader ltac:(lia) (or_introl eq_refl)) as [j [rs [Hj [_ [E [Hrs _]]]]]].
    change (Fj 0) with f0 in E. change (Wj 0) with doc_writer in E. rewrite E.
    cbn [finish]. rewrite (Fin j Hj).
    destruct Hrs as [->|[->| ->]].
    - exists F4, v. unfold doc_reader, doc_load. cbn [run]. unfold exec_res. cbn [exec]. rewrite A4, Jv. cbn [run].
      repeat split; auto.
    - exists F4, v0. cbn [run]. repeat split; auto.
    - exists F4, v. cbn [run]. repeat split; auto.
  Qed.
End DOCRW.

(* ------------------------------------------------------------------ the in-place write tears *)
(* a writer that writes the document in place (neither write_concern nor thread support): truncating open,
   write, close on the file itself *)
Definition doc_writer_direct (frepr : fl -> str) (tag : str) (file : path) (v : json) : prog json :=
  json_save frepr tag false file v (fun r => match r with FOk _ => Ret v | FErr e => Raise (POs e) end).

Definition dw_repr : fl -> str := fun _ => [].
Definition dw_file : path := [[112%N]; DOCF].
Definition dw_v0 : json := JObj [([107%N], JInt 0)].
Definition dw_v : json := JObj [([107%N], JInt 1)].
Definition dw_f0 : fs := [([[112%N]], Dir); (dw_file, File (jcontent dw_repr dw_v0))].
(* the writer opens (truncates), then the reader reads *)
Definition dw_sched : list nat := [0; 1]%nat.

Lemma doc_direct_write_torn_witness :
  snd (interleave dw_sched dw_f0 [doc_writer_direct dw_repr [97%N] dw_file dw_v; doc_reader [[112%N]] DOCF])
    = [inl dw_v; inr (PExn EValueError)]
  /\ snd (interleave dw_sched dw_f0 [doc_writer dw_repr [97%N] [[112%N]] DOCF dw_v; doc_reader [[112%N]] DOCF])
    = [inl dw_v; inl dw_v0].
Proof. vm_compute. split; reflexivity. Qed.
