(* CorrC13.v — oracle of C13 (a successful sync makes the destination a superset and touches nothing
   else), evaluated on what the implementation did. *)
From SV Require Import Base Json Canon Sync SyncObs.

Section O13.
  Variable frepr : fl -> str.

  (* files the walk is supposed to reach: the top level always, deeper levels when recursive or when the
     whole job is cloned *)
  Definition in_reach (i : sinput) (newly : bool) (e : path * option content) : bool :=
    newly || o_recursive (i_opts i) || (Nat.eqb (length (fst e)) 1 && negb (is_none (snd e))).

  (* every selected source job exists in the destination with the same state point; every reachable,
     non-excluded source file / directory absent from the destination is now present byte-identically *)
  Definition superset_pair (i : sinput) (ws' : dir) (pr : str * dir * option dir) : bool :=
    let '(did, sd, odd) := pr in
    match job_dir did ws' with
    | None => false
    | Some dd' =>
        (negb (is_project_entry i) || node_eqb frepr (alookup FN_SP sd) (alookup FN_SP dd'))
        && (let newly := is_project_entry i && is_none odd in
            let dd := match odd with Some d => d | None => [] end in
            forallb (fun e =>
                       if in_reach i newly e && negb (path_excluded i (fst e)) && absent_in (is_none (snd e)) (fst e) dd
                       then same_at frepr dd' e else true) (flat sd))
    end.

  Definition superset (i : sinput) (o : sobs) : bool :=
    forallb (superset_pair i (p_ws (ob_dst o))) (pairs i).

  (* the source job a destination job is synchronised with *)
  Definition paired_src (i : sinput) (id : str) : option dir :=
    match i_entry i with
    | E_project => job_dir id (p_ws (i_src i))
    | E_job sid did _ => if str_eqb id did then job_dir sid (p_ws (i_src i)) else None
    end.

  Definition odir (o : option dir) : dir := match o with Some d => d | None => [] end.

  (* files and directories of dd without a counterpart in sd are unchanged in dd' *)
  Definition dst_only_files (sd dd dd' : dir) : bool :=
    forallb (fun e => if is_none (lookup_path (fst e) (Dir sd)) then same_at frepr dd' e else true) (flat dd).

  Definition jget (k : str) (v : json) : option json :=
    match v with JObj d => alookup k d | _ => None end.

  (* document keys (at every depth) that exist only in the destination are unchanged *)
  Fixpoint keys_kept (sv dv dv' : json) {struct dv} : bool :=
    match dv with
    | JObj d =>
        match sv with
        | JObj s =>
            (fix go (l : kvs) : bool :=
               match l with
               | [] => true
               | (k, x) :: l' =>
                   match alookup k s with
                   | None => match jget k dv' with Some x' => json_eqb x x' | None => false end
                   | Some sx => keys_kept sx x (match jget k dv' with Some x' => x' | None => JNull end)
                   end && go l'
               end) d
        | _ => true
        end
    | _ => true
    end.

  Definition top_keys_kept (s d d' : kvs) : bool :=
    forallb (fun kx => match alookup (fst kx) s with
                       | None => match alookup (fst kx) d' with Some x' => json_eqb (snd kx) x' | None => false end
                       | Some _ => true
                       end) d.

  Definition doc_keys_kept (i : sinput) (fn : str) (sd dd dd' : dir) : bool :=
    let '(s, d, d') := docs_of fn sd dd dd' in
    match o_docsync (i_opts i) with
    | DS_bykey _ => keys_kept (JObj s) (JObj d) (JObj d')
    | DS_update => top_keys_kept s d d'
    | DS_nosync => node_eqb frepr (alookup fn dd) (alookup fn dd')
    | DS_copy => true
    end.

  Definition dst_only_job (i : sinput) (ws' : dir) (kn : str * node) : bool :=
    match snd kn with
    | Dir dd =>
        match job_dir (fst kn) ws' with
        | Some dd' =>
            let sd := odir (paired_src i (fst kn)) in
            dst_only_files sd dd dd' && doc_keys_kept i FN_DOC sd dd dd'
        | None => false
        end
    | File c _ => same_at frepr ws' ([fst kn], Some c)
    end.

  Definition dst_only (i : sinput) (o : sobs) : bool :=
    forallb (dst_only_job i (p_ws (ob_dst o))) (p_ws (i_dst i))
    && (let st := if is_project_entry i then p_top (i_src i) else [] in
        dst_only_files st (p_top (i_dst i)) (p_top (ob_dst o))
        && (negb (is_project_entry i) || doc_keys_kept i FN_PDOC st (p_top (i_dst i)) (p_top (ob_dst o)))).

  (* nothing appears in the destination that is neither there before nor taken from the paired source *)
  Definition from_known (sd dd dd' : dir) : bool :=
    forallb (fun e => negb (is_none (lookup_path (fst e) (Dir dd))) || negb (is_none (lookup_path (fst e) (Dir sd))))
            (flat dd').

  Definition sel_src (i : sinput) (id : str) : dir :=
    match i_entry i with
    | E_project => if job_selected (i_opts i) id then odir (paired_src i id) else []
    | _ => odir (paired_src i id)
    end.

  Definition nothing_else (i : sinput) (o : sobs) : bool :=
    forallb (fun kn => match snd kn with
                       | Dir dd' =>
                           let known := match job_dir (fst kn) (p_ws (i_dst i)) with
                                        | Some dd => true
                                        | None => existsb (fun pr => str_eqb (fst (fst pr)) (fst kn)) (pairs i)
                                        end in
                           known && from_known (sel_src i (fst kn)) (odir (job_dir (fst kn) (p_ws (i_dst i)))) dd'
                       | File _ _ => has_file (fst kn) (p_ws (i_dst i))
                       end) (p_ws (ob_dst o))
    && from_known (if is_project_entry i then p_top (i_src i) else []) (p_top (i_dst i)) (p_top (ob_dst o))
    (* without recursive, the sub-directories of an existing destination job are not touched *)
    && (o_recursive (i_opts i)
        || forallb (fun pr => match snd pr, job_dir (fst (fst pr)) (p_ws (ob_dst o)) with
                              | Some dd, Some dd' =>
                                  forallb (fun kn => match snd kn with
                                                     | Dir _ => node_eqb frepr (alookup (fst kn) dd) (Some (snd kn))
                                                     | File _ _ => true
                                                     end) dd'
                              | _, _ => true
                              end) (pairs i)).

  (* the schema gate: SchemaSyncConflict exactly when check_schema is set and both detected schemas are
     non-empty and different; then nothing is changed *)
  Definition schema_ok (i : sinput) (o : sobs) : bool :=
    match i_entry i with
    | E_project =>
        let gate := schema_conflict (i_opts i) (i_src i) (i_dst i) in
        Bool.eqb gate (exn_opt_eqb (ob_exn o) (Some ESchemaSyncConflict))
        && (negb gate || proj_eqb frepr (i_dst i) (ob_dst o))
    | _ => true
    end.

  (* "touches nothing else": a file that exists on both sides with different content is, after a call that
     returned, the source file if the strategy — evaluated here from the recorded mtimes: update = source strictly
     newer — says overwrite, and otherwise exactly what it was (reachable, non-excluded files of the synchronised
     jobs; "different" in the sense of the comparison the call was asked to use) *)
  Definition differing_as_strategy (i : sinput) (o : sobs) : bool :=
    forallb (fun pr => match snd pr, job_dir (fst (fst pr)) (p_ws (ob_dst o)) with
                       | Some dd, Some dd' =>
                           forallb (conflict_ok frepr i o dd') (conflicts frepr (o_deep (i_opts i)) i (snd (fst pr)) dd)
                       | Some _, None => false
                       | None, _ => true
                       end) (pairs i).

  Definition idempotent (c : scase) : bool :=
    match c_again c with
    | Some o2 =>
        (* the repeated call may only be stopped by the schema gate (a selection cloned into an empty
           project changes the destination schema); either way it must not change anything *)
        (is_none (ob_exn o2) || exn_opt_eqb (ob_exn o2) (Some ESchemaSyncConflict)) && ob_rest_ok o2
        && proj_eqb frepr (ob_dst (c_obs c)) (ob_dst o2) && proj_eqb frepr (ob_src (c_obs c)) (ob_src o2)
    | None => false
    end.

  (* "touches nothing else", the identity of the destination's jobs: the state point file of every job that exists
     in the destination is byte-identical after the call — whatever the entry point (Job.sync / sync_jobs also pair
     jobs with DIFFERENT state points), document strategy (DocSync.COPY included), file strategy and outcome
     (licensed by C13_statepoint_untouched / C13_other_jobs_untouched) *)
  Definition statepoints_kept (i : sinput) (o : sobs) : bool :=
    forallb (fun kn => match snd kn with
                       | Dir dd =>
                           match alookup FN_SP dd with
                           | Some n =>
                               match job_dir (fst kn) (p_ws (ob_dst o)) with
                               | Some dd' => node_eqb frepr (Some n) (alookup FN_SP dd')
                               | None => false
                               end
                           | None => true
                           end
                       | File _ _ => true
                       end) (p_ws (i_dst i)).

  Definition holds_C13 (c : scase) : bool :=
    let i := c_in c in
    let o := c_obs c in
    ob_rest_ok o
    && proj_eqb frepr (i_src i) (ob_src o)                        (* the source is byte-identical *)
    && statepoints_kept i o
    && schema_ok i o
    && (if wants_again i o                                        (* a real run that returned *)
        then superset i o && dst_only i o && nothing_else i o && differing_as_strategy i o && idempotent c
        else true).
End O13.

(* no open known finding for C13 (the DEFAULT_IGNORES and un-anchored-pattern defects are repaired) *)

Definition case_C13 := case_sync.
Definition mismatch_C13 (c : case_C13) : bool := mismatch_case c.
(* the permission bits are observed next to the trees (SyncObs.perm_row): "touches nothing else" includes them *)
Definition violation_C13 (c : case_C13) : bool := negb (holds_C13 (cs_frepr c) (cs_case c) && perm_frame_ok c).
Definition mismatches_C13 (cs : list case_C13) : list N := indices_where mismatch_C13 cs.
Definition violations_C13 (cs : list case_C13) : list N := indices_where violation_C13 cs.
