(* CorrC08.v — observational form of C08 (the state point cache is transparent; update_cache makes
   it exact).  A case is a history of operations on one project together with what the real signac
   did: the result of every operation and, at the observed steps, the observations of a FRESH
   Project object taken twice (persistent cache file in place / moved away) and the decoded cache
   file. *)
From SV Require Import Base Json MD5 Canon FS Ws Cache CorrC01.

Inductive hop :=
| HInit (sp : json)                 (* project.open_job(sp).init() *)
| HRemove (sp : json)               (* project.open_job(sp).remove() *)
| HRekey (old new : json)           (* j = project.open_job(old); j.statepoint = new *)
| HUpdate                           (* project.update_cache(); the session is replaced if it raises *)
| HRestart                          (* project = Project(root) *)
| HDelCache                         (* os.remove(cache file), missing file ignored *)
| HQuery                            (* the observations, taken through the CURRENT session *)
| HMisname (a b : json)             (* os.rename(workspace/id(a), workspace/id(b)) when possible: corruption *)
| HRekeyId (old new : json)         (* j = project.open_job(id=id(old)); j.statepoint = new   (handle reached BY ID) *)
| HPlant (us : list json)           (* harness writes workspace/id(u)/signac_statepoint.json = dumps(u) for every u
                                       whose directory does not exist (a workspace filled by another process) *)
| HFile                             (* decoded cache file + os.listdir of the workspace, without any session *)
| HUpdId (old upd : json)           (* j = project.open_job(id=id(old)) — or the handle iteration yields for that id —;
                                       j.update_statepoint(upd, overwrite=True) *)
| HXInit (sp : json)                (* ANOTHER session, while the current one lives on: Project(root).open_job(sp).init() *)
| HXRemove (sp : json).             (* ANOTHER session: Project(root).open_job(sp).remove() *)

(* the observations made through one session: the listed-id observations of Cache.obs, then open_job(id=p)
   followed by statepoint() for every ABBREVIATED id p of the case *)
Definition pre_obs := list (str * result (str * result json)).
(* ... then open_job(id=i).cached_statepoint for every listed i (the same is asserted of iteration handles), then
   open_job(id=u).statepoint() for every universe id u that is NOT listed (stale cache entries) *)
Record xobs := mkX { x_obs : obs; x_pre : pre_obs; x_cached : list (str * result json);
                     x_uopen : list (str * result json) }.

Inductive ret := RUnit | RNone | RNum (n : N) | RExn (e : exn) | RObs (o : xobs)
               | RFile (k : option cache) (ids : list str).

Record sobs := mkSobs {
  so_with : xobs;                   (* fresh session, cache file as it is *)
  so_without : xobs;                (* fresh session, cache file moved away *)
  so_file : option cache            (* decoded content of the cache file *)
}.

Record hstep := mkStep { st_op : hop; st_ret : ret; st_obs : option sobs }.

Record case_C08 := {
  c8_ftab : list (fl * str);        (* repr() of the floats of the universe *)
  c8_tab : list (list N * json);    (* decoding table: dumps of every state point that occurs -> the value *)
  c8_uids : list str;               (* ids of the universe state points (opened even when not listed) *)
  c8_key : str; c8_val : json;      (* the filter {key: val} used by every find_jobs *)
  c8_pres : list str;               (* the abbreviated ids opened in every observation *)
  c8_steps : list hstep
}.

(* ---------------------------------------------------------------- instantiating the model *)
Definition bytes_eqb (a b : list N) : bool := list_eqb N.eqb a b.

Fixpoint tab_lookup (t : list (list N * json)) (b : list N) : option json :=
  match t with
  | [] => None
  | (b', v) :: r => if bytes_eqb b b' then Some v else tab_lookup r b
  end.

Section INST.
  Variable c : case_C08.
  Definition fr8 : fl -> str := ftab_lookup (c8_ftab c).
  Definition ls8 (b : list N) : option json := tab_lookup (c8_tab c) b.
  Definition lb8 (b : list N) : dec := match tab_lookup (c8_tab c) b with Some v => DVal v | None => DJsonErr end.

  (* per-job meaning of the filter {key: val} (values under the key are ints in the universe) *)
  Definition ev8 (sp : json) : bool :=
    match sp with
    | JObj kvs => match alookup (c8_key c) kvs with Some x => json_eqb x (c8_val c) | None => false end
    | _ => false
    end.

  Definition cid8 (v : json) : str := calc_id fr8 v.

  Definition fs0 : fs := [([DOTSIGNAC], Dir); ([WS], Dir)].

  Definition xobserve (f : fs) (s : sess) : sess * xobs :=
    let '(s1, ob) := observe fr8 ls8 lb8 f s ev8 in
    let '(s2, pre) := open_pres fr8 lb8 f s1 (c8_pres c) in
    let '(s3, cached) := cached_all fr8 ls8 f s2 (listing f) in
    let '(s4, uopen) := open_all fr8 lb8 f s3 (filter (fun u => negb (str_mem u (listing f))) (c8_uids c)) in
    (s4, mkX ob pre cached uopen).

  (* a directory with its state point file, as another process would have created it *)
  Definition plant (f : fs) (u : json) : fs :=
    let i := calc_id fr8 u in
    if exists_ f (jdir i) then f else (spf i, File (sp_content fr8 u)) :: (jdir i, Dir) :: f.

  Definition ret_unit (r : result unit) : ret := match r with Ok _ => RUnit | Err e => RExn e end.

  Definition mstep (st : fs * sess) (o : hop) : (fs * sess) * ret :=
    let '(f, s) := st in
    match o with
    | HInit sp => let '(f1, s1, r) := op_init fr8 lb8 f s sp in ((f1, s1), ret_unit r)
    | HRemove sp => let '(f1, s1, r) := op_remove fr8 f s sp in ((f1, s1), ret_unit r)
    | HRekey a b => let '(f1, s1, r) := op_rekey fr8 lb8 f s a b in ((f1, s1), ret_unit r)
    | HUpdate =>
        match update_cache fr8 ls8 f s with
        | (f1, s1, Ok None) => ((f1, s1), RNone)
        | (f1, s1, Ok (Some n)) => ((f1, s1), RNum n)
        | (f1, _, Err e) => ((f1, fresh), RExn e)
        end
    | HRestart => ((f, fresh), RUnit)
    | HDelCache => ((match unlink f CACHEP with FOk f1 => f1 | FErr _ => f end, s), RUnit)
    | HQuery => let '(s1, ob) := xobserve f s in ((f, s1), RObs ob)
    | HRekeyId a b => let '(f1, s1, r) := op_rekey_id fr8 lb8 f s (cid8 a) b in ((f1, s1), ret_unit r)
    | HPlant us => ((fold_left plant us f, s), RUnit)
    | HFile => ((f, s), RFile (cache_file f) (listing f))
    | HUpdId a u => let '(f1, s1, r) := op_upd_id fr8 lb8 f s (cid8 a) u in ((f1, s1), ret_unit r)
    | HXInit sp => let '(f1, _, r) := op_init fr8 lb8 f fresh sp in ((f1, s), ret_unit r)
    | HXRemove sp => let '(f1, _, r) := op_remove fr8 f fresh sp in ((f1, s), ret_unit r)
    | HMisname a b =>
        ((if isdir f (jdir (cid8 a)) && negb (exists_ f (jdir (cid8 b))) then
            match rename f (jdir (cid8 a)) (jdir (cid8 b)) with FOk f1 => f1 | FErr _ => f end
          else f, s), RUnit)
    end.

  Definition mobs (f : fs) : sobs :=
    mkSobs (snd (xobserve f fresh)) (snd (xobserve (without_cache f) fresh)) (cache_file f).

  (* ------------------------------------------------------------ comparing observations *)
  Definition json_same8 (a b : json) : bool := json_eqb (norm a) (norm b).

  Definition res_ids_same (a b : result (list str)) : bool :=
    match a, b with
    | Ok x, Ok y => seteq_s x y && Nat.eqb (length x) (length y)
    | Err e, Err e' => exn_eqb e e'
    | _, _ => false
    end.

  Definition res_json_same (a b : result json) : bool :=
    match a, b with
    | Ok x, Ok y => json_same8 x y
    | Err e, Err e' => exn_eqb e e'
    | _, _ => false
    end.

  Definition opens_same (a b : list (str * result json)) : bool :=
    Nat.eqb (length a) (length b) &&
    forallb (fun p => match alookup (fst p) b with Some r => res_json_same (snd p) r | None => false end) a.

  Definition obs_same (a b : obs) : bool :=
    res_ids_same (o_find a) (o_find b) && N.eqb (o_len a) (o_len b)
    && seteq_s (o_ids a) (o_ids b) && Nat.eqb (length (o_ids a)) (length (o_ids b))
    && opens_same (o_open a) (o_open b).

  Definition res_pre_same (a b : result (str * result json)) : bool :=
    match a, b with
    | Ok (m, x), Ok (m', y) => str_eqb m m' && res_json_same x y
    | Err e, Err e' => exn_eqb e e'
    | _, _ => false
    end.

  Definition pres_same (a b : pre_obs) : bool :=
    Nat.eqb (length a) (length b) &&
    forallb (fun p => match alookup (fst p) b with Some r => res_pre_same (snd p) r | None => false end) a.

  Definition xobs_same (a b : xobs) : bool :=
    obs_same (x_obs a) (x_obs b) && pres_same (x_pre a) (x_pre b) && opens_same (x_cached a) (x_cached b).
  (* model against implementation: the unlisted-id observations as well *)
  Definition xobs_match (a b : xobs) : bool := xobs_same a b && opens_same (x_uopen a) (x_uopen b).

  Definition cache_le (a b : cache) : bool :=
    forallb (fun p => match alookup (fst p) b with Some v => json_same8 (snd p) v | None => false end) a.
  Definition cache_same (a b : cache) : bool :=
    Nat.eqb (length a) (length b) && cache_le a b && cache_le b a.

  Definition file_same (a b : option cache) : bool :=
    match a, b with
    | None, None => true
    | Some x, Some y => cache_same x y
    | _, _ => false
    end.

  Definition ret_same (a b : ret) : bool :=
    match a, b with
    | RUnit, RUnit | RNone, RNone => true
    | RNum n, RNum m => N.eqb n m
    | RExn e, RExn e' => exn_eqb e e'
    | RObs x, RObs y => xobs_match x y
    | RFile k ids, RFile k' ids' => file_same k k' && seteq_s ids ids' && Nat.eqb (length ids) (length ids')
    | _, _ => false
    end.

  Definition sobs_same (a b : sobs) : bool :=
    xobs_match (so_with a) (so_with b) && xobs_match (so_without a) (so_without b)
    && file_same (so_file a) (so_file b).

  (* model run against the recorded steps *)
  Fixpoint run_cmp (st : fs * sess) (steps : list hstep) : bool :=
    match steps with
    | [] => true
    | x :: r =>
        let '(st1, mr) := mstep st (st_op x) in
        ret_same mr (st_ret x)
        && match st_obs x with Some o => sobs_same (mobs (fst st1)) o | None => true end
        && run_cmp st1 r
    end.

  Definition mismatch8 : bool := negb (run_cmp (fs0, fresh) (c8_steps c)).

  (* ------------------------------------------------------------ the oracle (implementation side) *)
  (* the workspace is uncorrupted as far as an uncached session can tell *)
  Definition uncorrupted (o : obs) : bool :=
    match o_find o with Ok _ => true | Err _ => false end
    && forallb (fun p => match snd p with Ok _ => true | Err _ => false end) (o_open o).

  Definition sound_b (k : cache) : bool := forallb (fun p => str_eqb (cid8 (snd p)) (fst p)) k.

  (* never wrong: whatever open-by-id shows (statepoint() or cached_statepoint, listed id or stale cache entry)
     hashes to the id *)
  Definition opens_sound (l : list (str * result json)) : bool :=
    forallb (fun p => match snd p with Ok sp => str_eqb (cid8 sp) (fst p) | Err _ => true end) l.
  Definition xobs_sound (x : xobs) : bool :=
    opens_sound (o_open (x_obs x)) && opens_sound (x_cached x) && opens_sound (x_uopen x).

  (* clause 1: every entry of the persistent cache hashes to its key, and so does every state point served *)
  Definition clause_sound (o : sobs) : bool :=
    match so_file o with Some k => sound_b k | None => true end.
  Definition clause_served (r : ret) (o : option sobs) : bool :=
    match r with RObs q => xobs_sound q | _ => true end
    && match o with Some x => xobs_sound (so_with x) && xobs_sound (so_without x) | None => true end.

  (* clause 2: transparency *)
  Definition clause_transparent (r : ret) (o : sobs) : bool :=
    negb (uncorrupted (x_obs (so_without o)))
    || (xobs_same (so_with o) (so_without o)
        && match r with RObs q => xobs_same q (so_without o) | _ => true end).

  (* clause 3: exactness after update_cache returned; [next] = result of an immediately following call *)
  Definition exact_file (o : sobs) : bool :=
    match so_file o with
    | None => false
    | Some k =>
        keys_distinct (map fst k)
        && seteq_s (map fst k) (o_ids (x_obs (so_without o)))
        && forallb (fun p => match alookup (fst p) (o_open (x_obs (so_without o))) with
                             | Some (Ok v) => json_same8 (snd p) v
                             | _ => false
                             end) k
    end.

  Definition clause_exact (x : hstep) (o : sobs) (next : option hstep) : bool :=
    match st_op x, st_ret x with
    | HUpdate, RNone | HUpdate, RNum _ =>
        negb (uncorrupted (x_obs (so_without o)))
        || (exact_file o
            && match st_ret x, so_file o with RNum n, Some k => N.eqb n (N.of_nat (length k)) | _, _ => true end
            && match next with
               | Some y => match st_op y, st_ret y with
                           | HUpdate, RNone => true
                           | HUpdate, _ => false
                           | _, _ => true
                           end
               | None => true
               end)
    | _, _ => true
    end.

  Definition step_c12 (x : hstep) : bool :=
    clause_served (st_ret x) (st_obs x) &&
    match st_obs x with
    | Some o => clause_sound o && clause_transparent (st_ret x) o
    | None => true
    end.
  Definition step_c3 (x : hstep) (next : option hstep) : bool :=
    match st_obs x with Some o => clause_exact x o next | None => true end.

  (* update_cache() returned, the next step looks at the file without any session: exact w.r.t. os.listdir *)
  Definition clause_exact_file (x : hstep) (next : option hstep) : bool :=
    match st_op x, st_ret x, next with
    | HUpdate, RNone, Some y | HUpdate, RNum _, Some y =>
        match st_op y, st_ret y with
        | HFile, RFile (Some k) ids =>
            keys_distinct (map fst k) && seteq_s (map fst k) ids && sound_b k
            && match st_ret x with RNum n => N.eqb n (N.of_nat (length k)) | _ => true end
        | HFile, _ => false
        | HUpdate, RNone => true          (* an immediate second call reports nothing to do *)
        | HUpdate, RNum _ => false
        | _, _ => true
        end
    | _, _, _ => true
    end.

  Fixpoint holds_steps (steps : list hstep) : bool :=
    match steps with
    | [] => true
    | x :: r => step_c12 x && step_c3 x (hd_error r) && clause_exact_file x (hd_error r) && holds_steps r
    end.

  Definition holds8 : bool := holds_steps (c8_steps c).

End INST.

Definition mismatch_C08 (c : case_C08) : bool := mismatch8 c.
Definition violation_C08 (c : case_C08) : bool := negb (holds8 c).
Definition mismatches_C08 (cs : list case_C08) : list N := indices_where mismatch_C08 cs.
Definition violations_C08 (cs : list case_C08) : list N := indices_where violation_C08 cs.
