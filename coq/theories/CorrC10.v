(* CorrC10.v — observational form of C10 used by the correspondence check.

   Contents are abstracted by the harness: the old target is [1] (or absent), the i-th chunk written is
   [10+i; 10+i] when it has at least two bytes (so that it can be torn: its first half is [10+i]), [10+i]
   when it has one byte and [] when it is empty.  Names: 0 = target, 1 = the temp file of the protocol
   (._<uuid>_<target> or <target>~), 2.. = anything else that shows up. *)
From SV Require Import Base Atomic.

(* SSyncCopy: the destination job document of Job.sync(..., doc_sync=DocSync.COPY) (copied as an ordinary file);
   SRollback: the restore of the document after a raising doc_sync — the two places where signac itself rewrites a
   document in place (known finding C10 tag 1) *)
Inductive site := SJobDoc | SProjectDoc | SFlush | SMigration | SCache | SRawDirect | SRawAtomic | SSyncCopy | SRollback.
Inductive outcome := OOld | ONew | OTorn | OEmpty | OMissing.

Definition outcome_eqb (a b : outcome) : bool :=
  match a, b with
  | OOld, OOld | ONew, ONew | OTorn, OTorn | OEmpty, OEmpty | OMissing, OMissing => true
  | _, _ => false
  end.

Record case_C10 := {
  k_site : site;
  k_thread : bool;                    (* JSON backend thread support active                               *)
  k_old : list (N * bytes);           (* names bound before the write with their (abstract) contents       *)
  k_chunks : list bytes;              (* the chunks the implementation wrote, abstracted                   *)
  k_fault : option nat;               (* SCache: the k-th mutating call was made to raise OSError           *)
  k_steps : list wstep;               (* the recorded mutation trace, names normalised                     *)
  k_crash : list (outcome * list N);  (* per materialised crash state: class of the target read back with
                                         the real json / gzip+json loader, and the names that were not there before *)
  k_reader : list outcome;            (* per (open position, read position): what a concurrent reader got  *)
  k_final : outcome * list N          (* after the complete run                                            *)
}.

Definition names : list N := [0; 1; 2; 3]%N.

Fixpoint fs_of (l : list (N * bytes)) (i : N) : afs :=
  match l with
  | [] => {| ino := fun _ => []; dent := fun _ => None; next := i |}
  | (n, d) :: r =>
      let fs := fs_of r (N.succ i) in
      {| ino := upd (ino fs) i d; dent := upd (dent fs) n (Some i); next := next fs |}
  end.

Definition fs0 (c : case_C10) : afs := fs_of (k_old c) 1%N.

Definition write_concern_of (s : site) : bool :=
  match s with SRawDirect => false | _ => true end.   (* signac passes write_concern=True at its three call sites *)

Definition model_prog (c : case_C10) : list wstep :=
  match k_fault c with
  | Some k => cache_write_fault 1 (k_chunks c) k
  | None =>
      match k_site c with
      | SCache => cache_write 1 0 (k_chunks c)
      | SSyncCopy | SRollback => direct_write 0 (k_chunks c)      (* shutil.copy / copy2: open(dst, 'wb'); write *)
      | s => json_write (write_concern_of s) (k_thread c) 1 0 (k_chunks c)
      end
  end.

(* ---- sequences of distinct on-disk states ---- *)
Definition bytes_eqb (a b : bytes) : bool := list_eqb N.eqb a b.
Definition obytes_eqb (a b : option bytes) : bool :=
  match a, b with Some x, Some y => bytes_eqb x y | None, None => true | _, _ => false end.
Definition proj (fs : afs) : list (option bytes) := map (read_name fs) names.
Definition proj_eqb (a b : list (option bytes)) : bool := list_eqb obytes_eqb a b.

Fixpoint states_from (st : wstate) (p : list wstep) : list (list (option bytes)) :=
  match p with
  | [] => []
  | s :: r => let st' := wexec st s in proj (w_fs st') :: states_from st' r
  end.

Fixpoint dedupe (prev : list (option bytes)) (l : list (list (option bytes))) : list (list (option bytes)) :=
  match l with
  | [] => []
  | x :: r => if proj_eqb prev x then dedupe prev r else x :: dedupe x r
  end.

Definition distinct_states (fs : afs) (p : list wstep) : list (list (option bytes)) :=
  proj fs :: dedupe (proj fs) (states_from (start fs) p).

(* ---- classes ---- *)
Definition new_content (c : case_C10) : bytes := concat (k_chunks c).

Definition classify (c : case_C10) (got : option bytes) : outcome :=
  let old := read_name (fs0 c) 0 in
  match got with
  | None => match old with None => OOld | Some _ => OMissing end
  | Some d =>
      if obytes_eqb (Some d) old then OOld
      else if bytes_eqb d (new_content c) then ONew
      else match d with [] => OEmpty | _ => OTorn end
  end.

Definition extras (c : case_C10) (fs : afs) : list N :=
  filter (fun n => match dent fs n, dent (fs0 c) n with Some _, None => negb (N.eqb n 0) | _, _ => false end) names.

Definition cuts (c : bytes) : list nat := match c with [_; _] => [1%nat] | _ => [] end.

Definition model_crash (c : case_C10) : list (outcome * list N) :=
  map (fun q => let fs := w_fs (wrun (start (fs0 c)) q) in (classify c (read_name fs 0), extras c fs))
      (prefixes_torn cuts (model_prog c)).

(* reader: open after i writer steps, read everything after j >= i writer steps *)
Definition big : nat := 1000.
Definition reader_at (c : case_C10) (i j : nat) : outcome :=
  let p := model_prog c in
  let w1 := wrun (start (fs0 c)) (firstn i p) in
  let r1 := rexec (w_fs w1) rstart (ROpen 0) in
  let w2 := wrun w1 (firstn (j - i) (skipn i p)) in
  let r2 := rexec (w_fs w2) r1 (RRead big) in
  if r_enoent r2 then classify c None else classify c (Some (r_got r2)).

Definition model_reader (c : case_C10) : list outcome :=
  let n := length (model_prog c) in
  flat_map (fun i => map (fun j => reader_at c i j) (seq i (S n - i))) (seq 0 (S n)).

Definition model_final (c : case_C10) : outcome * list N :=
  let fs := w_fs (wrun (start (fs0 c)) (model_prog c)) in (classify c (read_name fs 0), extras c fs).

(* ---- comparison as sets ---- *)
Definition nlist_eqb (a b : list N) : bool := list_eqb N.eqb a b.
Definition co_eqb (a b : outcome * list N) : bool := outcome_eqb (fst a) (fst b) && nlist_eqb (snd a) (snd b).
Definition subset {A} (eqb : A -> A -> bool) (a b : list A) : bool := forallb (fun x => existsb (eqb x) b) a.
Definition set_eqb {A} (eqb : A -> A -> bool) (a b : list A) : bool := subset eqb a b && subset eqb b a.

(* fault runs: after the failing call the `with` block still closes the gzip stream (more appends to the
   temp file) before the handler runs, so only the target's history and the final state are compared *)
Definition target_history (fs : afs) (p : list wstep) : list (list (option bytes)) :=
  let t := fun l => match l with x :: _ => [x] | [] => [] end in
  match map t (distinct_states fs p) with
  | [] => []
  | x :: r => x :: dedupe x r
  end.

Definition mismatch_C10 (c : case_C10) : bool :=
  negb (co_eqb (k_final c) (model_final c)
        && match k_fault c with
           | Some _ => list_eqb proj_eqb (target_history (fs0 c) (k_steps c)) (target_history (fs0 c) (model_prog c))
           | None =>
               list_eqb proj_eqb (distinct_states (fs0 c) (k_steps c)) (distinct_states (fs0 c) (model_prog c))
               && set_eqb co_eqb (k_crash c) (model_crash c) && set_eqb outcome_eqb (k_reader c) (model_reader c)
           end).

(* ---- the oracle: old or new, never torn / empty / missing; at most a stray temp file ---- *)
Definition good (o : outcome) : bool := match o with OOld | ONew => true | _ => false end.
Definition only_tmp (l : list N) : bool := forallb (N.eqb 1) l.
Definition raw_site (s : site) : bool := match s with SRawDirect | SRawAtomic => true | _ => false end.

Definition holds_C10 (c : case_C10) : bool :=
  raw_site (k_site c) ||
  match k_fault c with
  | Some _ => co_eqb (k_final c) (OOld, [])       (* failed cache write: target untouched, temp file removed *)
  | None =>
      forallb (fun x => good (fst x) && only_tmp (snd x)) (k_crash c)
      && forallb good (k_reader c)
      && co_eqb (k_final c) (ONew, [])
  end.

Definition violation_C10 (c : case_C10) : bool := negb (holds_C10 c).

(* precondition of C10_model_holds: the write changes the content, and the abstract contents are short enough
   for the model reader's single big read *)
Definition inplace_site (s : site) : bool := match s with SSyncCopy | SRollback => true | _ => false end.

Definition pre_C10 (c : case_C10) : bool :=
  negb (inplace_site (k_site c)) &&
  negb (obytes_eqb (read_name (fs0 c) 0) (Some (new_content c)))
  && (length (new_content c) <=? big)%nat
  && match read_name (fs0 c) 0 with Some d => (length d <=? big)%nat | None => true end.

(* known finding 1, recognised from the input alone: the case is the document copy of a sync with doc_sync=COPY, or
   the roll-back after a raising doc_sync *)
Definition classify_C10 (c : case_C10) : N := if inplace_site (k_site c) then 1%N else 0%N.
Fixpoint tags_aux10 (l : list case_C10) (i : N) : list N :=
  match l with
  | [] => []
  | x :: r => (if N.eqb (classify_C10 x) 0 then [] else [(i * 100 + classify_C10 x)%N]) ++ tags_aux10 r (N.succ i)
  end.
Definition known_C10 (cs : list case_C10) : list N := tags_aux10 cs 0%N.

Definition mismatches_C10 (cs : list case_C10) : list N := indices_where mismatch_C10 cs.
Definition violations_C10 (cs : list case_C10) : list N := indices_where violation_C10 cs.
