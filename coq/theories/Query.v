(* Query.v — model of Project._find_job_ids / _SearchIndexer.find (signac/_search_indexer.py,
   filterparse.py, _utility.py), written path by path after the code, and the per-job reference
   evaluator the property compares it with. *)
From SV Require Export Base Json PyVal.

Module QLit.
  Import Coq.Strings.String.
  Local Open Scope string_scope.
  Definition s_sp := Eval compute in S "sp".
  Definition s_doc := Eval compute in S "doc".
  Definition s_and := Eval compute in S "$and".
  Definition s_or := Eval compute in S "$or".
  Definition s_not := Eval compute in S "$not".
  Definition s_eq := Eval compute in S "$eq".
  Definition s_ne := Eval compute in S "$ne".
  Definition s_gt := Eval compute in S "$gt".
  Definition s_gte := Eval compute in S "$gte".
  Definition s_lt := Eval compute in S "$lt".
  Definition s_lte := Eval compute in S "$lte".
  Definition s_in := Eval compute in S "$in".
  Definition s_nin := Eval compute in S "$nin".
  Definition s_regex := Eval compute in S "$regex".
  Definition s_type := Eval compute in S "$type".
  Definition s_where := Eval compute in S "$where".
  Definition s_near := Eval compute in S "$near".
  Definition s_exists := Eval compute in S "$exists".
  Definition t_int := Eval compute in S "int".
  Definition t_float := Eval compute in S "float".
  Definition t_bool := Eval compute in S "bool".
  Definition t_str := Eval compute in S "str".
  Definition t_list := Eval compute in S "list".
  Definition t_null := Eval compute in S "null".
End QLit.
Export QLit.

Definition id := str.

(* ---------- id sets as duplicate-free lists ---------- *)
Definition mem (x : id) (l : list id) : bool := str_mem x l.
Definition union (a b : list id) : list id := a ++ filter (fun x => negb (mem x a)) b.
Definition inter (a b : list id) : list id := filter (fun x => mem x b) a.
Definition diff (a b : list id) : list id := filter (fun x => negb (mem x b)) a.
Definition subset (a b : list id) : bool := forallb (fun x => mem x b) a.
Definition set_eqb (a b : list id) : bool := subset a b && subset b a.

Section Model.
  (* library oracles: re.search(pattern, s) is not None; math.isclose(v, x, rel_tol, abs_tol) on dyadics *)
  Variable regex_search : str -> str -> bool.
  Variable isclose : (Z * Z) -> (Z * Z) -> (Z * Z) -> (Z * Z) -> bool.

  (* ---------- filterparse._add_prefix (fuelled on nesting depth) ---------- *)
  Definition is_logical_list (k : str) : bool := str_eqb k s_and || str_eqb k s_or.

  Definition prefix_key (k : str) : str :=
    if contains_char dot k && (str_eqb (head_before dot k) s_sp || str_eqb (head_before dot k) s_doc) then k
    else if str_eqb k s_sp || str_eqb k s_doc then k
    else s_sp ++ dot :: k.

  (* dict(pairs): later duplicates overwrite the value, first position is kept *)
  Definition dict_of_pairs (l : list (str * json)) : list (str * json) :=
    fold_left (fun acc kv => aset (fst kv) (snd kv) acc) l [].

  (* the mapping the (repaired) _add_prefix builds from the prefixed pairs: the first condition on a key keeps its
     place; a later condition on the same key ('a' next to 'sp.a') is moved into $and, so that all of them hold *)
  Fixpoint split_clashes (l acc : list (str * json)) (cl : list json) : list (str * json) * list json :=
    match l with
    | [] => (acc, cl)
    | (k, v) :: r =>
        if str_mem k (map fst acc) then split_clashes r acc (cl ++ [JObj [(k, v)]])
        else split_clashes r (acc ++ [(k, v)]) cl
    end.

  Definition collapse_and (l : list (str * json)) : list (str * json) :=
    let (acc, cl) := split_clashes l [] [] in
    match cl with
    | [] => acc
    | _ => aset s_and (JArr (match alookup s_and acc with Some (JArr items) => items | _ => [] end ++ cl)) acc
    end.

  Fixpoint add_prefix (fuel : nat) (f : json) : result json :=
    match fuel with
    | O => Err EOther
    | Datatypes.S fuel' =>
        match f with
        | JObj kvs =>
            bind
              ((fix go (kvs : list (str * json)) : result (list (str * json)) :=
                  match kvs with
                  | [] => Ok []
                  | (k, v) :: r =>
                      bind
                        (if is_logical_list k then
                           match v with
                           | JArr items =>
                               bind ((fix items_go (items : list json) : result (list json) :=
                                        match items with
                                        | [] => Ok []
                                        | it :: r' =>
                                            bind (add_prefix fuel' it) (fun it' =>
                                            bind (items_go r') (fun r'' => Ok (it' :: r'')))
                                        end) items)
                                    (fun items' => Ok (k, JArr items'))
                           | _ => Err EValueError
                           end
                         else if str_eqb k s_not then
                           bind (add_prefix fuel' v) (fun v' => Ok (k, v'))
                         else Ok (prefix_key k, v))
                        (fun kv' => bind (go r) (fun r' => Ok (kv' :: r')))
                  end) kvs)
              (fun l => Ok (JObj (collapse_and l)))
        | _ => Err EOther      (* .items() on a non-mapping: AttributeError *)
        end
    end.

  (* filterparse._root_keys *)
  Fixpoint root_keys (fuel : nat) (f : json) : list str :=
    match fuel with
    | O => []
    | Datatypes.S fuel' =>
        match f with
        | JObj kvs =>
            flat_map (fun kv =>
              let k := fst kv in
              if is_logical_list k then
                match snd kv with
                | JArr items => flat_map (root_keys fuel') items
                | _ => []
                end
              else if str_eqb k s_not then root_keys fuel' (snd kv)
              else if contains_char dot k then [head_before dot k]
              else [k]) kvs
        | _ => []
        end
    end.

  (* ---------- _utility._nested_dicts_to_dotted_keys ---------- *)
  Fixpoint flatten (fuel : nat) (key : option str) (d : json) : list (str * json) :=
    match fuel with
    | O => []
    | Datatypes.S fuel' =>
        match d with
        | JObj [] => match key with Some k => [(k, d)] | None => [] end
        | JObj kvs =>
            flat_map (fun kv =>
              let k_ := match key with None => fst kv | Some k => k ++ dot :: fst kv end in
              flatten fuel' (Some k_) (snd kv)) kvs
        | _ => match key with Some k => [(k, d)] | None => [([], d)] end
        end
    end.

  (* ---------- _SearchIndexer.build_index ---------- *)
  Fixpoint lookup_path (v : json) (nodes : list str) : option json :=
    match nodes with
    | [] => Some v
    | n :: r =>
        match v with
        | JObj kvs => match alookup n kvs with Some x => lookup_path x r | None => None end
        | _ => None                      (* TypeError on str/list/number/None: skipped *)
        end
    end.

  Definition index := list (json * list id).

  Definition as_key (v : json) : json := match v with JObj _ => JObj [] | _ => v end.  (* _DictPlaceholder *)

  Fixpoint index_add (idx : index) (v : json) (i : id) : index :=
    match idx with
    | [] => [(v, [i])]
    | (k, ids) :: r => if slot_eq k v then (k, ids ++ [i]) :: r else (k, ids) :: index_add r v i
    end.

  Definition corpus := list (id * json).      (* job id -> {"sp": ..., ["doc": ...]} in listing order *)

  Definition build_index (c : corpus) (key : str) : index :=
    fold_left (fun idx jd =>
                 match lookup_path (snd jd) (split_on dot key) with
                 | Some v => index_add idx (as_key v) (fst jd)
                 | None => idx
                 end) c [].

  Fixpoint index_get (idx : index) (probe : json) : list id :=
    match idx with
    | [] => []
    | (k, ids) :: r => if slot_eq k probe then ids else index_get r probe
    end.

  Definition all_ids (c : corpus) : list id := map fst c.
  Definition index_ids (idx : index) : list id := flat_map snd idx.

  (* ---------- operators on one stored key ---------- *)
  Definition key_eq (v arg : json) : bool := if is_obj v then false else py_eq v arg.

  Definition order_test (want : comparison -> bool) (v arg : json) : result bool :=
    if is_obj v then Err ETypeError
    else match py_order v arg with
         | Some c => Ok (want c)
         | None => Err ETypeError
         end.

  Definition isinstance (v : json) (t : str) : result bool :=
    if str_eqb t t_int then Ok (match v with JInt _ | JBool _ => true | _ => false end)
    else if str_eqb t t_float then Ok (match v with JFloat _ => true | _ => false end)
    else if str_eqb t t_bool then Ok (match v with JBool _ => true | _ => false end)
    else if str_eqb t t_str then Ok (match v with JStr _ => true | _ => false end)
    else if str_eqb t t_list then Ok (match v with JArr _ => true | _ => false end)
    else if str_eqb t t_null then Ok (match v with JNull => true | _ => false end)
    else Err EValueError.

  Definition in_test (v arg : json) : result bool :=
    match arg with
    | JArr l => Ok (existsb (key_eq v) l)
    | JStr s => match v with JStr x => Ok (is_substr x s) | _ => Err ETypeError end
    | JObj _ => Ok false
    | _ => Err ETypeError
    end.

  (* $near argument parsing, done once before the loop *)
  Definition near_args (arg : json) : result ((Z * Z) * (Z * Z) * (Z * Z)) :=
    let default_rel := (4835703278458517%Z, (-82)%Z) in   (* 1e-9 as binary64 *)
    let num (v : json) : result (Z * Z) :=
      match v with
      | JStr _ => Err EValueError
      | _ => match num_of v with Some p => Ok p | None => Err ETypeError end
      end in
    match arg with
    | JArr [x] => bind (num x) (fun a => Ok (a, default_rel, (0, 0)%Z))
    | JArr [x; r] => bind (num x) (fun a => bind (num r) (fun b => Ok (a, b, (0, 0)%Z)))
    | JArr [x; r; t] => bind (num x) (fun a => bind (num r) (fun b => bind (num t) (fun c => Ok (a, b, c))))
    | JArr _ => Err EValueError
    | _ => bind (num arg) (fun a => Ok (a, default_rel, (0, 0)%Z))
    end.

  Definition eval_op (op : str) (v arg : json) : result bool :=
    if str_eqb op s_eq then Ok (key_eq v arg)
    else if str_eqb op s_ne then Ok (negb (key_eq v arg))
    else if str_eqb op s_gt then order_test (fun c => match c with Gt => true | _ => false end) v arg
    else if str_eqb op s_gte then order_test (fun c => match c with Lt => false | _ => true end) v arg
    else if str_eqb op s_lt then order_test (fun c => match c with Lt => true | _ => false end) v arg
    else if str_eqb op s_lte then order_test (fun c => match c with Gt => false | _ => true end) v arg
    else if str_eqb op s_in then in_test v arg
    else if str_eqb op s_nin then bind (in_test v arg) (fun b => Ok (negb b))
    else if str_eqb op s_regex then
      match v with
      | JStr x => match arg with JStr p => Ok (regex_search p x) | _ => Err ETypeError end
      | _ => Ok false
      end
    else if str_eqb op s_type then
      match arg with
      | JStr t => isinstance v t
      | _ => Err EValueError
      end
    else if str_eqb op s_near then
      bind (near_args arg) (fun '(a, r, t) =>
        if orb (match dy_cmp r (0, 0)%Z with Lt => true | _ => false end)
               (match dy_cmp t (0, 0)%Z with Lt => true | _ => false end) then Err EValueError
        else if is_obj v then Err ETypeError
        else match v with
             | JStr _ | JNull | JArr _ => Err ETypeError
             | _ => match num_of v with Some p => Ok (isclose p a r t) | None => Err ETypeError end
             end)
    else Err EOther.    (* $where: eval() — outside the documented grammar *)

  Definition index_operators : list str :=
    [s_eq; s_gt; s_gte; s_lt; s_lte; s_ne; s_in; s_nin; s_regex; s_type; s_where; s_near].

  Fixpoint find_with_index_operator_loop (idx : index) (op : str) (arg : json) (acc : list id) : result (list id) :=
    match idx with
    | [] => Ok acc
    | (k, ids) :: r =>
        bind (eval_op op k arg) (fun b =>
          find_with_index_operator_loop r op arg (if b then union acc ids else acc))
    end.

  Definition find_with_index_operator (idx : index) (op : str) (arg : json) : result (list id) :=
    if str_eqb op s_near then
      bind (near_args arg) (fun _ => find_with_index_operator_loop idx op arg [])
    else find_with_index_operator_loop idx op arg [].

  (* ---------- _find_expression ---------- *)
  Definition find_expression (c : corpus) (key : str) (value : json) : result (list id) :=
    if contains_char dollar key then
      if Nat.ltb 1 (count_char dollar key) then Err EKeyError
      else
        let nodes := split_on dot key in
        let op := last nodes [] in
        if negb (str_prefix [dollar] op) then Err EKeyError
        else
          let key' := join_with dot (removelast nodes) in
          if str_mem op index_operators then find_with_index_operator (build_index c key') op value
          else if str_eqb op s_exists then
            match value with
            | JBool b =>
                let m := index_ids (build_index c key') in
                Ok (if b then m else diff (all_ids c) m)
            | _ => Err EValueError
            end
          else Err EKeyError
    else
      let idx := build_index c key in
      match value with
      | JObj _ => Err ETypeError                      (* only {} arrives here: unhashable dict *)
      | _ =>
          match int_value value with
          | Some n => Ok (union (index_get idx (JInt n)) (index_get idx (JFloat (n, 0%Z))))
          | None => Ok (index_get idx value)
          end
      end.

  (* ---------- _find_result ---------- *)
  Definition reduce (res : option (list id)) (m : list id) : option (list id) :=
    match res with None => Some m | Some r => Some (inter r m) end.

  Definition is_empty (res : option (list id)) : bool :=
    match res with Some [] => true | None => true | _ => false end.   (* `not result_ids` *)

  Definition not_null (o : option json) : option json :=
    match o with Some JNull => None | x => x end.                      (* pop(...) is not None *)

  Definition strip_logical (kvs : list (str * json)) : list (str * json) :=
    aremove s_not (aremove s_and (aremove s_or kvs)).

  Definition check_logical_arg (v : json) : result (list json) :=
    match v with
    | JArr [] => Err EValueError
    | JArr l => Ok l
    | _ => Err EValueError
    end.

  Fixpoint exprs_loop (c : corpus) (es : list (str * json)) (res : option (list id))
    : result (option (list id) * bool) :=          (* bool: early exit taken *)
    match es with
    | [] => Ok (res, false)
    | (k, v) :: r =>
        bind (find_expression c k v) (fun m =>
          let res' := reduce res m in
          if is_empty res' then Ok (res', true) else exprs_loop c r res')
    end.

  Fixpoint and_loop_idx (rec : json -> result (list id)) (items : list json) (res : option (list id))
    : result (option (list id) * bool) :=
    match items with
    | [] => Ok (res, false)
    | it :: r =>
        bind (rec it) (fun m =>
          let res' := reduce res m in
          if is_empty res' then Ok (res', true) else and_loop_idx rec r res')
    end.

  Fixpoint or_loop_idx (rec : json -> result (list id)) (items : list json) (acc : list id) : result (list id) :=
    match items with
    | [] => Ok acc
    | it :: r => bind (rec it) (fun m => or_loop_idx rec r (union acc m))
    end.

  (* the four stages of _find_result; [rec] is the recursive call on sub-filters *)
  Definition then_stage (s : result (option (list id) * bool)) (k : option (list id) -> result (list id))
    : result (list id) :=
    bind s (fun p => if snd p then Ok [] else k (fst p)).       (* `if not result_ids: return set()` *)

  Definition not_stage_idx (rec : json -> result (list id)) (c : corpus) (not_e : option json)
             (res : option (list id)) : result (option (list id) * bool) :=
    match not_e with
    | None => Ok (res, false)
    | Some ne =>
        bind (rec ne) (fun nm =>
          let res' := reduce res (diff (all_ids c) nm) in Ok (res', is_empty res'))
    end.

  Definition and_stage_idx (rec : json -> result (list id)) (and_e : option json)
             (res : option (list id)) : result (option (list id) * bool) :=
    match and_e with
    | None => Ok (res, false)
    | Some ae => bind (check_logical_arg ae) (fun items => and_loop_idx rec items res)
    end.

  (* [nothing]: no expression, no $not, no $and and no $or was given (all popped values were None):
     result_ids is still None and list(None) raises TypeError *)
  Definition or_final_idx (rec : json -> result (list id)) (or_e : option json) (nothing : bool)
             (res : option (list id)) : result (list id) :=
    bind (match or_e with
          | None => Ok res
          | Some oe =>
              bind (check_logical_arg oe) (fun items =>
                bind (or_loop_idx rec items []) (fun om => Ok (reduce res om)))
          end) (fun res =>
    if nothing then Err ETypeError
    else match res with Some r => Ok r | None => Err ETypeError end).

  Definition is_none {A} (o : option A) : bool := match o with None => true | Some _ => false end.
  Definition is_nil {A} (l : list A) : bool := match l with [] => true | _ => false end.

  Fixpoint find_result (fuel : nat) (c : corpus) (expr : json) : result (list id) :=
    match fuel with
    | O => Err EOther
    | Datatypes.S fuel' =>
        match expr with
        | JObj [] => Ok (all_ids c)
        | JObj kvs =>
            let or_e := not_null (alookup s_or kvs) in
            let and_e := not_null (alookup s_and kvs) in
            let not_e := not_null (alookup s_not kvs) in
            let es := flatten fuel None (JObj (strip_logical kvs)) in
            let nothing := is_nil es && is_none not_e && is_none and_e && is_none or_e in
            then_stage (exprs_loop c es None) (fun res =>
            then_stage (not_stage_idx (find_result fuel' c) c not_e res) (fun res =>
            then_stage (and_stage_idx (find_result fuel' c) and_e res) (fun res =>
            or_final_idx (find_result fuel' c) or_e nothing res)))
        | _ => Err EOther
        end
    end.

  (* ---------- Project._find_job_ids ---------- *)
  Record job := { j_id : id; j_sp : json; j_doc : option json }.

  Definition job_doc (include_doc : bool) (j : job) : id * json :=
    (j_id j,
     JObj ((s_sp, j_sp j) ::
           match j_doc j with
           | Some d => if include_doc then [(s_doc, d)] else []
           | None => []
           end)).

  Definition is_empty_filter (f : json) : bool :=
    match f with JObj [] | JNull => true | _ => false end.

  Definition find_job_ids (fuel : nat) (jobs : list job) (f : json) : result (list id) :=
    if is_empty_filter f then Ok (map j_id jobs)
    else
      bind (add_prefix fuel f) (fun pf =>
        let include_doc := str_mem s_doc (root_keys fuel pf) in
        find_result fuel (map (job_doc include_doc) jobs) pf).

  (* ================= reference semantics: direct per-job evaluation ================= *)
  (* the value a dotted key denotes in one job's own data *)
  Definition own_value (d : json) (key : str) : option json := lookup_path d (split_on dot key).

  Definition match_expression (d : json) (key : str) (value : json) : result bool :=
    if contains_char dollar key then
      if Nat.ltb 1 (count_char dollar key) then Err EKeyError
      else
        let nodes := split_on dot key in
        let op := last nodes [] in
        if negb (str_prefix [dollar] op) then Err EKeyError
        else
          let key' := join_with dot (removelast nodes) in
          if str_mem op index_operators then
            bind (if str_eqb op s_near then bind (near_args value) (fun _ => Ok tt) else Ok tt) (fun _ =>
            match own_value d key' with
            | Some v => eval_op op (as_key v) value
            | None => Ok false
            end)
          else if str_eqb op s_exists then
            match value with
            | JBool b => Ok (Bool.eqb b (match own_value d key' with Some _ => true | None => false end))
            | _ => Err EValueError
            end
          else Err EKeyError
    else
      match value with
      | JObj _ => Err ETypeError
      | _ =>
          match own_value d key with
          | Some v => Ok (key_eq (as_key v) value)
          | None => Ok false
          end
      end.

  (* conjunction step.  sc = true: Python-style short circuit in the code's evaluation order (the
     reference semantics).  sc = false: evaluate everything, so that an operator applied to a value it
     cannot handle is reported even when an earlier conjunct is already false (well-typedness). *)
  Definition andk (sc b : bool) (k : result bool) : result bool :=
    if b then k else if sc then Ok false else bind k (fun _ => Ok false).

  Fixpoint match_exprs (sc : bool) (d : json) (es : list (str * json)) : result bool :=
    match es with
    | [] => Ok true
    | (k, v) :: r =>
        bind (match_expression d k v) (fun b => andk sc b (match_exprs sc d r))
    end.

  Fixpoint and_loop_ref (rec : json -> result bool) (sc : bool) (items : list json) : result bool :=
    match items with
    | [] => Ok true
    | it :: r => bind (rec it) (fun b => andk sc b (and_loop_ref rec sc r))
    end.

  Fixpoint or_loop_ref (rec : json -> result bool) (items : list json) (acc : bool) : result bool :=
    match items with
    | [] => Ok acc
    | it :: r => bind (rec it) (fun b => or_loop_ref rec r (acc || b))
    end.

  Definition then_ref (sc : bool) (s : result bool) (k : result bool) : result bool :=
    bind s (fun b => andk sc b k).

  Definition not_stage_ref (rec : json -> result bool) (not_e : option json) : result bool :=
    match not_e with
    | None => Ok true
    | Some ne => bind (rec ne) (fun b => Ok (negb b))
    end.

  Definition and_stage_ref (rec : json -> result bool) (sc : bool) (and_e : option json) : result bool :=
    match and_e with
    | None => Ok true
    | Some ae => bind (check_logical_arg ae) (fun items => and_loop_ref rec sc items)
    end.

  Definition or_final_ref (rec : json -> result bool) (or_e : option json) (nothing : bool) : result bool :=
    bind (match or_e with
          | None => Ok true
          | Some oe => bind (check_logical_arg oe) (fun items => or_loop_ref rec items false)
          end) (fun b => if nothing then Err ETypeError else Ok b).

  Fixpoint matches (sc : bool) (fuel : nat) (d : json) (expr : json) : result bool :=
    match fuel with
    | O => Err EOther
    | Datatypes.S fuel' =>
        match expr with
        | JObj [] => Ok true
        | JObj kvs =>
            let or_e := not_null (alookup s_or kvs) in
            let and_e := not_null (alookup s_and kvs) in
            let not_e := not_null (alookup s_not kvs) in
            let es := flatten fuel None (JObj (strip_logical kvs)) in
            let nothing := is_nil es && is_none not_e && is_none and_e && is_none or_e in
            then_ref sc (match_exprs sc d es) (
            then_ref sc (not_stage_ref (matches sc fuel' d) not_e) (
            then_ref sc (and_stage_ref (matches sc fuel' d) sc and_e) (
            or_final_ref (matches sc fuel' d) or_e nothing)))
        | _ => Err EOther
        end
    end.

  (* reference: evaluate the (prefixed) filter on each job's own data *)
  Definition job_matches (sc : bool) (fuel : nat) (f : json) (j : job) : result bool :=
    if is_empty_filter f then Ok true
    else bind (add_prefix fuel f) (fun pf =>
           matches sc fuel (snd (job_doc true j)) pf).

End Model.
