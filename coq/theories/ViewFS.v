(* ViewFS.v — pointwise algebra of the tree model of View.v, and the system calls on plain paths. *)
From SV Require Import Base View CorrC17 C17Proofs.
From Coq Require Import Lia.

Inductive kind := KFile (h : N) | KLnk (t : str) | KDir.
Definition kind_of (n : node) : kind :=
  match n with File h => KFile h | Lnk t => KLnk t | Dir _ => KDir end.
Definition kind_at (w : node) (p : path) : option kind := option_map kind_of (get w p).

(* ------------------------------------------------------------------ association lists *)
Lemma alookup_ains_same : forall A k (v : A) l, alookup k (ains k v l) = Some v.
Proof.
  induction l as [|[k' v'] l IH]; simpl.
  - rewrite str_eqb_refl. reflexivity.
  - destruct (str_cmp k k') eqn:E; simpl.
    + rewrite str_eqb_refl. reflexivity.
    + rewrite str_eqb_refl. reflexivity.
    + assert (str_eqb k k' = false) as ->; [unfold str_eqb; rewrite E; reflexivity|]. exact IH.
Qed.

Lemma alookup_ains_other : forall A k k' (v : A) l, k <> k' -> alookup k' (ains k v l) = alookup k' l.
Proof.
  induction l as [|[k0 v0] l IH]; intro Hne; simpl.
  - assert (str_eqb k' k = false) as ->; [apply str_eqb_neq; congruence|]. reflexivity.
  - destruct (str_cmp k k0) eqn:E; simpl.
    + apply str_cmp_eq in E. subst k0.
      assert (str_eqb k' k = false) as ->; [apply str_eqb_neq; congruence|]. reflexivity.
    + assert (str_eqb k' k = false) as ->; [apply str_eqb_neq; congruence|]. reflexivity.
    + destruct (str_eqb k' k0); auto.
Qed.

(* ------------------------------------------------------------------ get / upd *)
Lemma get_app : forall p q w, get w (p ++ q) = match get w p with Some n => get n q | None => None end.
Proof.
  induction p as [|c p IH]; intros q w; simpl; [reflexivity|].
  destruct w as [h|t|es]; try reflexivity.
  destruct (alookup c es); [apply IH|reflexivity].
Qed.

Lemma upd_cons : forall es c p x, p <> [] ->
  upd (Dir es) (c :: p) x =
  match alookup c es with Some n => Dir (ains c (upd n p x) es) | None => Dir es end.
Proof. intros es c p x H. destruct p; [congruence|reflexivity]. Qed.

Lemma is_prefix_refl : forall p, is_prefix p p = true.
Proof. induction p; simpl; auto. rewrite str_eqb_refl. auto. Qed.

(* the one algebraic fact about upd: below the modified entry the new node shows, everywhere else
   the kinds are unchanged *)
Lemma kind_upd : forall d w c x q es,
  get w d = Some (Dir es) ->
  kind_at (upd w (d ++ [c]) x) q =
  if is_prefix (d ++ [c]) q
  then match x with Some n => kind_at n (skipn (length (d ++ [c])) q) | None => None end
  else kind_at w q.
Proof.
  induction d as [|c0 d IH]; intros w c x q es H.
  - simpl in H. inversion H; subst w. simpl app.
    destruct q as [|c1 q].
    + simpl. reflexivity.
    + unfold kind_at. simpl. destruct (str_eqb c c1) eqn:E.
      * apply str_eqb_eq in E. subst c1. simpl.
        destruct x as [n|].
        -- rewrite alookup_ains_same. reflexivity.
        -- rewrite alookup_aremove_same. reflexivity.
      * apply str_eqb_neq in E. simpl.
        destruct x as [n|].
        -- rewrite alookup_ains_other by exact E. reflexivity.
        -- rewrite alookup_aremove_other by exact E. reflexivity.
  - simpl in H. destruct w as [h|t|es0]; try discriminate.
    destruct (alookup c0 es0) as [n0|] eqn:L; [|discriminate].
    change ((c0 :: d) ++ [c]) with (c0 :: (d ++ [c])).
    rewrite upd_cons by (destruct d; discriminate). rewrite L.
    destruct q as [|c1 q].
    + reflexivity.
    + unfold kind_at at 1. simpl get. destruct (str_eqb c0 c1) eqn:E.
      * apply str_eqb_eq in E. subst c1. rewrite alookup_ains_same.
        simpl is_prefix. rewrite str_eqb_refl. simpl andb.
        specialize (IH n0 c x q es H). unfold kind_at in IH at 1. rewrite IH.
        simpl length. simpl skipn.
        destruct (is_prefix (d ++ [c]) q); [reflexivity|].
        unfold kind_at. simpl. rewrite L. reflexivity.
      * apply str_eqb_neq in E. rewrite alookup_ains_other by exact E.
        simpl is_prefix. assert (str_eqb c0 c1 = false) as -> by (apply str_eqb_neq; exact E).
        simpl. unfold kind_at. simpl. reflexivity.
Qed.

Lemma kind_dir_get : forall w p, kind_at w p = Some KDir -> exists es, get w p = Some (Dir es).
Proof.
  unfold kind_at. intros w p H. destruct (get w p) as [[h|t|es]|]; simpl in H; try discriminate. eauto.
Qed.

(* ------------------------------------------------------------------ plain components, unfolding equations *)
Definition plain (c : str) : Prop := skipc c = false /\ updir c = false.

Lemma walk_nil : forall lf w cur, walk lf w cur [] = Some cur.
Proof. destruct lf; reflexivity. Qed.

Lemma walk_skip : forall lf w cur c cs, skipc c = true -> walk lf w cur (c :: cs) = walk lf w cur cs.
Proof. destruct lf; intros; simpl; rewrite H; reflexivity. Qed.

Lemma walk_dir : forall lf w cur c cs es,
  plain c -> get w (cur ++ [c]) = Some (Dir es) -> walk lf w cur (c :: cs) = walk lf w (cur ++ [c]) cs.
Proof. destruct lf; intros w cur c cs es [H1 H2] G; simpl; rewrite H1, H2, G; reflexivity. Qed.

Lemma walk_none : forall lf w cur c cs,
  plain c -> get w (cur ++ [c]) = None -> walk lf w cur (c :: cs) = None.
Proof. destruct lf; intros w cur c cs [H1 H2] G; simpl; rewrite H1, H2, G; reflexivity. Qed.

Definition dirs_to (w : node) (d : path) : Prop :=
  forall d1 d2, d = d1 ++ d2 -> kind_at w d1 = Some KDir.

Lemma dirs_to_app : forall w d c, dirs_to w (d ++ [c]) -> dirs_to w d.
Proof.
  intros w d c H d1 d2 E. apply (H d1 (d2 ++ [c])). rewrite E, app_assoc. reflexivity.
Qed.

Lemma walk_plain : forall lf w q cur,
  Forall plain q -> (forall q1 q2, q = q1 ++ q2 -> kind_at w (cur ++ q1) = Some KDir) ->
  walk lf w cur q = Some (cur ++ q).
Proof.
  induction q as [|c q IH]; intros cur Hp Hd.
  - rewrite walk_nil, app_nil_r. reflexivity.
  - inversion Hp as [|? ? Hc Hq]; subst.
    destruct (kind_dir_get w (cur ++ [c])) as [es G]; [apply (Hd [c] q); reflexivity|].
    rewrite (walk_dir lf w cur c q es Hc G).
    rewrite IH; auto.
    + rewrite <- app_assoc. reflexivity.
    + intros q1 q2 E. rewrite <- app_assoc. apply (Hd (c :: q1) q2). simpl. rewrite E. reflexivity.
Qed.

(* absolute plain paths *)
Definition A (p : path) : path := ([] : str) :: p.

Lemma plain_nonempty : forall c, plain c -> c <> [].
Proof. intros c [H _] E. subst. discriminate. Qed.

Lemma absolutize_A : forall cwd p, p <> [] -> absolutize cwd (A p) = A p.
Proof. intros cwd p H. destruct p; [congruence|reflexivity]. Qed.

Lemma strip_trailing_plain : forall p, Forall plain p -> strip_trailing_empty p = p.
Proof.
  induction p as [|c p IH]; intro H; [reflexivity|].
  inversion H; subst. simpl. rewrite IH by auto.
  destruct p; [|reflexivity].
  destruct c; [exfalso; eapply plain_nonempty; eauto|reflexivity].
Qed.

Lemma strip_trailing_A : forall p, p <> [] -> Forall plain p -> strip_trailing_empty (A p) = A p.
Proof.
  intros p Hne H. unfold A. simpl. rewrite strip_trailing_plain by exact H. destruct p; [congruence|reflexivity].
Qed.

Lemma split_last_app : forall X (l : list X) x, split_last (l ++ [x]) = Some (l, x).
Proof.
  induction l as [|y l IH]; intro x; [reflexivity|].
  simpl. rewrite IH. destruct (l ++ [x]) eqn:E; [destruct l; discriminate|reflexivity].
Qed.

Lemma walk_A : forall lf w d, Forall plain d -> dirs_to w d -> walk lf w [] (A d) = Some d.
Proof.
  intros lf w d Hp Hd. unfold A. rewrite walk_skip by reflexivity.
  apply (walk_plain lf w d [] Hp). intros q1 q2 E. apply (Hd q1 q2 E).
Qed.

Lemma locate_plain : forall w cwd d c,
  Forall plain d -> plain c -> dirs_to w d -> locate w cwd (A (d ++ [c])) = Some (d, c).
Proof.
  intros w cwd d c Hd Hc Hw. unfold locate.
  rewrite absolutize_A by (destruct d; discriminate).
  rewrite strip_trailing_A; [|destruct d; discriminate|apply Forall_app; auto].
  change (A (d ++ [c])) with (A d ++ [c]). rewrite split_last_app.
  rewrite walk_A by auto. reflexivity.
Qed.

(* ------------------------------------------------------------------ the system calls on plain absolute paths *)
Lemma create_plain : forall n s cwd d c,
  Forall plain d -> plain c -> dirs_to (fst s) d ->
  create n s cwd (A (d ++ [c])) =
  match get (fst s) (d ++ [c]) with
  | Some _ => fail s EEXIST
  | None => ok (tick (upd (fst s) (d ++ [c]) (Some n)) s)
  end.
Proof.
  intros n s cwd d c Hd Hc Hw. unfold create. rewrite locate_plain by auto.
  destruct Hc as [H1 H2]. rewrite H1, H2. reflexivity.
Qed.

Lemma unlink_plain : forall s cwd d c,
  Forall plain d -> plain c -> dirs_to (fst s) d ->
  unlink s cwd (A (d ++ [c])) =
  match get (fst s) (d ++ [c]) with
  | Some (Dir _) | None => fail s EOS
  | Some _ => ok (tick (upd (fst s) (d ++ [c]) None) s)
  end.
Proof.
  intros s cwd d c Hd Hc Hw. unfold unlink. rewrite locate_plain by auto.
  destruct Hc as [H1 H2]. rewrite H1, H2. reflexivity.
Qed.

Lemma rmdir_plain : forall s cwd d c,
  Forall plain d -> plain c -> dirs_to (fst s) d ->
  rmdir s cwd (A (d ++ [c])) =
  match get (fst s) (d ++ [c]) with
  | Some (Dir []) => ok (tick (upd (fst s) (d ++ [c]) None) s)
  | _ => fail s EOS
  end.
Proof.
  intros s cwd d c Hd Hc Hw. unfold rmdir. rewrite locate_plain by auto.
  destruct Hc as [H1 H2]. rewrite H1, H2. reflexivity.
Qed.

(* ------------------------------------------------------------------ stat, isdir, exists on plain paths *)
Lemma stat_eq : forall lf w cur cs,
  stat lf w cur cs =
  match split_last cs with
  | None => get w cur
  | Some (ini, c) =>
      match walk lf w cur ini with
      | None => None
      | Some d =>
          if skipc c then get w d
          else if updir c then get w (up d)
          else match get w (d ++ [c]) with
               | Some (Lnk t) =>
                   match lf with
                   | O => None
                   | S lf' => let tc := split_sep t in stat lf' w (if is_abs tc then [] else d) tc
                   end
               | x => x
               end
      end
  end.
Proof. destruct lf; reflexivity. Qed.

Lemma walk_missing : forall lf w q1 cur c q2,
  Forall plain q1 -> plain c ->
  (forall a b, q1 = a ++ b -> kind_at w (cur ++ a) = Some KDir) ->
  get w (cur ++ q1 ++ [c]) = None ->
  walk lf w cur (q1 ++ c :: q2) = None.
Proof.
  induction q1 as [|x q1 IH]; intros cur c q2 Hp Hc Hd G.
  - simpl in *. apply walk_none; auto.
  - inversion Hp as [|? ? Hx Hq]; subst. simpl app.
    destruct (kind_dir_get w (cur ++ [x])) as [es Gx]; [apply (Hd [x] q1); reflexivity|].
    rewrite (walk_dir lf w cur x _ es Hx Gx).
    apply IH; auto.
    + intros a b E. rewrite <- app_assoc. apply (Hd (x :: a) b). simpl. rewrite E. reflexivity.
    + rewrite <- app_assoc. exact G.
Qed.

Lemma stat_plain_dir : forall lf w q,
  q <> [] -> Forall plain q -> dirs_to w q -> stat lf w [] (A q) = get w q.
Proof.
  intros lf w q Hne Hp Hd.
  destruct (@exists_last _ q Hne) as [d [c E]]. subst q.
  apply Forall_app in Hp. destruct Hp as [Hpd Hpc]. inversion Hpc as [|? ? Hc _]; subst.
  rewrite stat_eq. change (A (d ++ [c])) with (A d ++ [c]). rewrite split_last_app.
  rewrite walk_A; [|exact Hpd|eapply dirs_to_app; eauto].
  destruct Hc as [H1 H2]. rewrite H1, H2.
  destruct (kind_dir_get w (d ++ [c])) as [es G]; [apply (Hd (d ++ [c]) []); rewrite app_nil_r; reflexivity|].
  rewrite G. reflexivity.
Qed.

Lemma stat_plain_missing : forall lf w e c m,
  Forall plain (e ++ c :: m) -> dirs_to w e -> get w (e ++ [c]) = None ->
  stat lf w [] (A (e ++ c :: m)) = None.
Proof.
  intros lf w e c m Hp Hd G.
  apply Forall_app in Hp. destruct Hp as [Hpe Hpm]. inversion Hpm as [|? ? Hc Hm]; subst.
  rewrite stat_eq.
  destruct (@exists_last _ (c :: m)) as [m0 [z E]]; [discriminate|].
  rewrite E. rewrite app_assoc. change (A ((e ++ m0) ++ [z])) with (A (e ++ m0) ++ [z]).
  rewrite split_last_app.
  destruct m0 as [|c' m0].
  - simpl in E. inversion E; subst z m. rewrite app_nil_r.
    rewrite walk_A by auto. destruct Hc as [H1 H2]. rewrite H1, H2, G. reflexivity.
  - simpl in E. inversion E; subst c'.
    unfold A. rewrite walk_skip by reflexivity.
    rewrite (walk_missing lf w e [] c m0); auto.
Qed.

Lemma isdir_plain_dir : forall w cwd q,
  q <> [] -> Forall plain q -> dirs_to w q -> isdir w cwd (A q) = true.
Proof.
  intros w cwd q Hne Hp Hd. unfold isdir. rewrite absolutize_A by exact Hne.
  rewrite stat_plain_dir by auto.
  destruct (kind_dir_get w q) as [es G]; [apply (Hd q []); rewrite app_nil_r; reflexivity|].
  rewrite G. reflexivity.
Qed.

Lemma isdir_plain_missing : forall w cwd e c m,
  Forall plain (e ++ c :: m) -> dirs_to w e -> get w (e ++ [c]) = None ->
  isdir w cwd (A (e ++ c :: m)) = false.
Proof.
  intros. unfold isdir. rewrite absolutize_A by (destruct e; discriminate).
  rewrite stat_plain_missing by auto. reflexivity.
Qed.

Lemma exists_plain_dir : forall w cwd q,
  q <> [] -> Forall plain q -> dirs_to w q -> exists_ w cwd (A q) = true.
Proof.
  intros w cwd q Hne Hp Hd. unfold exists_. rewrite absolutize_A by exact Hne.
  rewrite stat_plain_dir by auto.
  destruct (kind_dir_get w q) as [es G]; [apply (Hd q []); rewrite app_nil_r; reflexivity|].
  rewrite G. reflexivity.
Qed.

Lemma exists_plain_missing : forall w cwd e c m,
  Forall plain (e ++ c :: m) -> dirs_to w e -> get w (e ++ [c]) = None ->
  exists_ w cwd (A (e ++ c :: m)) = false.
Proof.
  intros. unfold exists_. rewrite absolutize_A by (destruct e; discriminate).
  rewrite stat_plain_missing by auto. reflexivity.
Qed.

(* ------------------------------------------------------------------ chains of fresh directories *)
Fixpoint mkchain (w : node) (e m : path) : node :=
  match m with
  | [] => w
  | c :: m' => mkchain (upd w (e ++ [c]) (Some (Dir []))) (e ++ [c]) m'
  end.

Lemma mkchain_snoc : forall m w e c,
  mkchain w e (m ++ [c]) = upd (mkchain w e m) (e ++ m ++ [c]) (Some (Dir [])).
Proof.
  induction m as [|x m IH]; intros w e c; simpl.
  - reflexivity.
  - rewrite IH. rewrite <- app_assoc. reflexivity.
Qed.

Lemma get_none_app : forall w p r, get w p = None -> get w (p ++ r) = None.
Proof. intros. rewrite get_app, H. reflexivity. Qed.

Lemma skipn_app_len : forall X (a b : list X), skipn (length a) (a ++ b) = b.
Proof. induction a; simpl; auto. Qed.

Lemma is_prefix_app : forall a b, is_prefix a (a ++ b) = true.
Proof. intros. apply is_prefix_spec. eauto. Qed.

Lemma is_prefix_length : forall a b, is_prefix a b = true -> length a <= length b.
Proof. intros a b H. apply is_prefix_spec in H. destruct H as [r ->]. rewrite app_length. lia. Qed.

Lemma omap_none : forall x : option node, option_map kind_of x = None -> x = None.
Proof. destruct x; simpl; congruence. Qed.

Lemma kind_mkchain : forall m w e,
  dirs_to w e -> (m <> [] -> get w (e ++ [hd [] m]) = None) ->
  forall r, kind_at (mkchain w e m) r =
            if is_prefix r (e ++ m) && Nat.ltb (length e) (length r) then Some KDir else kind_at w r.
Proof.
  induction m as [|c m IH]; [|change str in c; change path in m]; intros w e Hd Hn r.
  - simpl. rewrite app_nil_r.
    destruct (is_prefix r e) eqn:P; simpl; [|reflexivity].
    apply is_prefix_length in P. assert (Nat.ltb (length e) (length r) = false) as -> by (apply Nat.ltb_ge; lia).
    reflexivity.
  - simpl mkchain.
    destruct (kind_dir_get w e) as [es Ge]; [apply (Hd e []); rewrite app_nil_r; reflexivity|].
    assert (Hn0 : get w (e ++ [c]) = None) by (apply Hn; discriminate).
    pose proof (fun q => kind_upd e w c (Some (Dir [])) q es Ge) as K1. cbv beta iota in K1.
    rewrite IH.
    + rewrite <- app_assoc. simpl app.
      rewrite K1. rewrite app_length. simpl length.
      change (list N) with str in *.
      destruct (is_prefix r (e ++ c :: m)) eqn:P1; simpl.
      * apply is_prefix_spec in P1. destruct P1 as [t Et].
        destruct (Nat.ltb (length e + 1) (length r)) eqn:L1.
        -- apply Nat.ltb_lt in L1. assert (Nat.ltb (length e) (length r) = true) as -> by (apply Nat.ltb_lt; lia).
           reflexivity.
        -- apply Nat.ltb_ge in L1.
           destruct (is_prefix (e ++ [c]) r) eqn:P2.
           ++ apply is_prefix_spec in P2. destruct P2 as [u Eu]. subst r.
              rewrite !app_length in L1. simpl in L1. destruct u; [|simpl in L1; lia].
              rewrite app_nil_r. rewrite skipn_all2 by (rewrite app_length; simpl; lia).
              assert (Nat.ltb (length e) (length (e ++ [c])) = true) as -> by (apply Nat.ltb_lt; rewrite app_length; simpl; lia).
              reflexivity.
           ++ assert (Nat.ltb (length e) (length r) = false) as ->; [|reflexivity].
              apply Nat.ltb_ge. destruct (Nat.le_gt_cases (length r) (length e)) as [|G]; [assumption|exfalso].
              assert (length r = length e + 1) by lia.
              (* r is a prefix of e ++ c :: m of length |e|+1, hence r = e ++ [c] *)
              assert (r = e ++ [c]).
              { assert (E2 : e ++ c :: m = (e ++ [c]) ++ m) by (rewrite <- app_assoc; reflexivity).
                rewrite E2 in Et.
                assert (firstn (length r) (r ++ t) = firstn (length r) ((e ++ [c]) ++ m)) by (rewrite Et; reflexivity).
                rewrite firstn_app, firstn_all, Nat.sub_diag in H0. simpl in H0. rewrite app_nil_r in H0.
                rewrite H0. rewrite firstn_app. rewrite H. rewrite app_length. simpl length.
                rewrite Nat.sub_diag. simpl. rewrite app_nil_r.
                rewrite firstn_all2 by (rewrite app_length; simpl; lia). reflexivity. }
              subst r. rewrite is_prefix_refl in P2. discriminate.
      * destruct (is_prefix (e ++ [c]) r) eqn:P2; [|reflexivity].
        apply is_prefix_spec in P2. destruct P2 as [u Eu]. subst r.
        replace (length e + 1) with (length (e ++ [c])) by (rewrite app_length; reflexivity).
        rewrite skipn_app_len. destruct u as [|x u].
        -- exfalso. rewrite app_nil_r in P1.
           assert (is_prefix (e ++ [c]) (e ++ c :: m) = true); [|congruence].
           apply is_prefix_spec. exists m. rewrite <- app_assoc. reflexivity.
        -- unfold kind_at at 1. simpl.
           unfold kind_at.
           rewrite (get_none_app w (e ++ [c]) (x :: u)) by exact Hn0. reflexivity.
    + intros d1 d2 E. rewrite K1.
      destruct (is_prefix (e ++ [c]) d1) eqn:P.
      * apply is_prefix_spec in P. destruct P as [u Eu]. subst d1.
        rewrite skipn_app_len.
        assert (u = []). { assert (length (e ++ [c]) = length (((e ++ [c]) ++ u) ++ d2)) by (rewrite <- E; reflexivity).
                           rewrite !app_length in H. destruct u; [reflexivity|simpl in H; lia]. }
        subst u. reflexivity.
      * (* d1 is a prefix of e ++ [c] but not equal: a prefix of e *)
        assert (exists d2', e = d1 ++ d2') as [d2' E'].
        { destruct (@exists_last _ d2) as [d2' [z Ez]].
          - intro; subst d2. rewrite app_nil_r in E. subst d1. rewrite is_prefix_refl in P. discriminate.
          - subst d2. rewrite app_assoc in E. apply app_inj_tail in E. destruct E as [E _]. eauto. }
        apply (Hd d1 d2' E').
    + intros Hm. destruct m as [|c' m']; [exfalso; apply Hm; reflexivity|]. simpl hd.
      specialize (K1 ((e ++ [c]) ++ [c'])). rewrite is_prefix_app, skipn_app_len in K1.
      unfold kind_at in K1. simpl in K1.
      apply omap_none. exact K1.
Qed.

(* ------------------------------------------------------------------ os.makedirs / _mkdir_p / _make_link on plain paths *)
Lemma makedirs_final_fresh : forall s cwd d c,
  Forall plain d -> plain c -> dirs_to (fst s) d -> get (fst s) (d ++ [c]) = None ->
  makedirs_final s cwd (A (d ++ [c])) = ok (tick (upd (fst s) (d ++ [c]) (Some (Dir []))) s).
Proof.
  intros s cwd d c Hd Hc Hw G. unfold makedirs_final, mkdir.
  rewrite create_plain by auto. rewrite G. reflexivity.
Qed.

Lemma strip_trailing_A' : forall p, Forall plain p ->
  strip_trailing_empty (A p) = match p with [] => [] | _ => A p end.
Proof.
  intros p H. destruct p as [|c p]; [reflexivity|]. apply strip_trailing_A; [discriminate|exact H].
Qed.

Lemma dirs_to_mkchain : forall w e m,
  dirs_to w e -> (m <> [] -> get w (e ++ [hd [] m]) = None) -> dirs_to (mkchain w e m) (e ++ m).
Proof.
  intros w e m Hd Hn d1 d2 E.
  rewrite kind_mkchain by auto.
  assert (P : is_prefix d1 (e ++ m) = true) by (apply is_prefix_spec; eauto). rewrite P. simpl.
  destruct (Nat.ltb (length e) (length d1)) eqn:L; [reflexivity|].
  apply Nat.ltb_ge in L.
  (* d1 is a prefix of e *)
  assert (exists r, e = d1 ++ r) as [r Er].
  { exists (skipn (length d1) e).
    assert (firstn (length d1) (e ++ m) = firstn (length d1) (d1 ++ d2)) by (rewrite E; reflexivity).
    rewrite firstn_app in H. replace (length d1 - length e) with 0 in H by lia. simpl in H. rewrite app_nil_r in H.
    rewrite firstn_app, firstn_all, Nat.sub_diag in H. simpl in H. rewrite app_nil_r in H.
    rewrite <- H at 1. symmetry. apply firstn_skipn. }
  apply (Hd d1 r Er).
Qed.

Lemma app_snoc_nonnil : forall X (a b : list X) x, a ++ b ++ [x] <> [].
Proof. intros X a b x E. apply app_eq_nil in E. destruct E as [_ E]. apply app_eq_nil in E. destruct E; discriminate. Qed.

Lemma makedirs_S : forall fuel' s cwd name,
  makedirs (S fuel') s cwd name =
  match split_last (strip_trailing_empty name) with
  | None => makedirs_final s cwd name
  | Some (head0, tail) =>
      let head := strip_trailing_empty head0 in
      if negb (is_nil head) && negb (is_nil tail) && negb (exists_ (fst s) cwd head) then
        match makedirs fuel' s cwd head with
        | (s', Some EOS) => fail s' EOS
        | (s', _) => if str_eqb tail s_dot then ok s' else makedirs_final s' cwd name
        end
      else makedirs_final s cwd name
  end.
Proof. reflexivity. Qed.

Lemma makedirs_chain : forall m e w n cwd fuel,
  m <> [] -> Forall plain (e ++ m) -> dirs_to w e -> get w (e ++ [hd [] m]) = None ->
  length m <= fuel ->
  makedirs fuel (w, n) cwd (A (e ++ m)) = ok (mkchain w e m, (n + N.of_nat (length m))%N).
Proof.
  induction m as [|c m0 IH] using rev_ind; intros e w n cwd fuel Hne Hp Hd Hn Hf; [congruence|].
  change str in c. change path in m0.
  rewrite app_length in Hf. simpl in Hf. destruct fuel as [|f]; [lia|].
  assert (Hp' := Hp). rewrite app_assoc in Hp'. apply Forall_app in Hp'. destruct Hp' as [Hpe Hpc].
  inversion Hpc as [|? ? Hc _]; subst.
  rewrite makedirs_S. simpl fst.
  rewrite strip_trailing_A; [|apply app_snoc_nonnil|exact Hp].
  rewrite app_assoc. change (A ((e ++ m0) ++ [c])) with (A (e ++ m0) ++ [c]). rewrite split_last_app.
  cbv zeta. rewrite strip_trailing_A' by exact Hpe.
  assert (Hnil : is_nil c = false) by (destruct c; [exfalso; eapply plain_nonempty; eauto|reflexivity]).
  assert (Hdot : str_eqb c s_dot = false).
  { destruct Hc as [H1 _]. unfold skipc in H1. apply orb_false_iff in H1. tauto. }
  destruct m0 as [|c0 m0'].
  - (* single missing component: no recursion *)
    rewrite app_nil_r in *. simpl hd in Hn. simpl length.
    assert (Fin : makedirs_final (w, n) cwd (A e ++ [c]) = ok (mkchain w e [c], (n + 1)%N)).
    { change (A e ++ [c]) with (A (e ++ [c])).
      rewrite makedirs_final_fresh; auto. unfold tick, ok. simpl. f_equal. f_equal. lia. }
    destruct e as [|x e'].
    + simpl is_nil. simpl negb. simpl andb. cbv iota. exact Fin.
    + rewrite exists_plain_dir; [|discriminate|exact Hpe|exact Hd].
      simpl negb. rewrite Bool.andb_false_r. exact Fin.
  - assert (Hne0 : e ++ c0 :: m0' <> []) by (destruct e; discriminate).
    destruct (e ++ c0 :: m0') as [|y l] eqn:El; [congruence|]. rewrite <- El in *. clear El y l.
    assert (Hex : exists_ w cwd (A (e ++ c0 :: m0')) = false).
    { apply exists_plain_missing; auto. }
    simpl hd in Hn.
    change (is_nil (A (e ++ c0 :: m0'))) with false. rewrite Hnil, Hex. simpl andb. cbv iota.
    rewrite (IH e w n cwd f); [|discriminate|exact Hpe|exact Hd|exact Hn|simpl in Hf; simpl; lia].
    unfold ok at 1. rewrite Hdot.
    change (A (e ++ c0 :: m0') ++ [c]) with (A ((e ++ c0 :: m0') ++ [c])).
    rewrite makedirs_final_fresh; auto.
    + simpl fst. unfold tick, ok. simpl snd.
      rewrite (mkchain_snoc (c0 :: m0') w e c). rewrite <- app_assoc.
      f_equal. f_equal. rewrite !app_length. simpl length. lia.
    + simpl fst. apply (dirs_to_mkchain w e (c0 :: m0') Hd). intros _. exact Hn.
    + simpl fst. apply omap_none.
      pose proof (kind_mkchain (c0 :: m0') w e Hd (fun _ => Hn) ((e ++ c0 :: m0') ++ [c])) as K.
      assert (P : is_prefix ((e ++ c0 :: m0') ++ [c]) (e ++ c0 :: m0') = false).
      { destruct (is_prefix ((e ++ c0 :: m0') ++ [c]) (e ++ c0 :: m0')) eqn:P; [|reflexivity].
        apply is_prefix_length in P. rewrite app_length in P. simpl in P. lia. }
      rewrite P in K. rewrite Bool.andb_false_l in K. unfold kind_at in K.
      assert (G : get w ((e ++ c0 :: m0') ++ [c]) = None).
      { replace ((e ++ c0 :: m0') ++ [c]) with ((e ++ [c0]) ++ m0' ++ [c]) by (rewrite <- !app_assoc; reflexivity).
        apply get_none_app. exact Hn. }
      rewrite G in K. exact K.
Qed.

Lemma mkdir_p_chain : forall e m w n cwd,
  e ++ m <> [] -> Forall plain (e ++ m) -> dirs_to w e -> (m <> [] -> get w (e ++ [hd [] m]) = None) ->
  mkdir_p (w, n) cwd (A (e ++ m)) = ok (mkchain w e m, (n + N.of_nat (length m))%N).
Proof.
  intros e m w n cwd Hne Hp Hd Hn. unfold mkdir_p. simpl fst.
  destruct m as [|c m'].
  - rewrite app_nil_r in *. rewrite isdir_plain_dir by auto. simpl. unfold ok. f_equal. f_equal. lia.
  - rewrite isdir_plain_missing; auto; [|apply Hn; discriminate].
    apply makedirs_chain; auto; [discriminate|apply Hn; discriminate|].
    unfold A. simpl length. rewrite app_length. simpl. lia.
Qed.

Lemma dirname_A : forall d c, d <> [] -> Forall plain d -> dirname (A (d ++ [c])) = A d.
Proof.
  intros d c Hne Hp. unfold dirname. change (A (d ++ [c])) with (A d ++ [c]). rewrite split_last_app.
  rewrite strip_trailing_A by auto. destruct d; [congruence|reflexivity].
Qed.

Definition linked (w : node) (e m : path) (c : str) (src : str) : node :=
  upd (mkchain w e m) ((e ++ m) ++ [c]) (Some (Lnk src)).

Lemma make_link_plain : forall e m c src w n cwd,
  e ++ m <> [] -> Forall plain (e ++ m) -> plain c -> dirs_to w e ->
  (m <> [] -> get w (e ++ [hd [] m]) = None) -> get w ((e ++ m) ++ [c]) = None ->
  make_link (w, n) cwd src (A ((e ++ m) ++ [c])) =
  ok (linked w e m c src, N.succ (n + N.of_nat (length m))).
Proof.
  intros e m c src w n cwd Hne Hp Hc Hd Hn Hg. unfold make_link.
  rewrite dirname_A by auto. rewrite mkdir_p_chain by auto. unfold ok at 1.
  unfold symlink. rewrite create_plain; auto.
  - simpl fst.
    assert (G : get (mkchain w e m) ((e ++ m) ++ [c]) = None).
    { apply omap_none.
      pose proof (kind_mkchain m w e Hd Hn ((e ++ m) ++ [c])) as K.
      assert (P : is_prefix ((e ++ m) ++ [c]) (e ++ m) = false).
      { destruct (is_prefix ((e ++ m) ++ [c]) (e ++ m)) eqn:P; [|reflexivity].
        apply is_prefix_length in P. rewrite app_length in P. simpl in P. lia. }
      rewrite P in K. rewrite Bool.andb_false_l in K. unfold kind_at in K. rewrite Hg in K. exact K. }
    rewrite G. reflexivity.
  - simpl fst. apply dirs_to_mkchain; auto.
Qed.

Lemma kind_linked : forall e m c src w,
  dirs_to w e -> (m <> [] -> get w (e ++ [hd [] m]) = None) -> get w ((e ++ m) ++ [c]) = None ->
  forall r, kind_at (linked w e m c src) r =
            if path_eqb r ((e ++ m) ++ [c]) then Some (KLnk src)
            else if is_prefix r (e ++ m) then Some KDir
            else kind_at w r.
Proof.
  intros e m c src w Hd Hn Hg r. unfold linked.
  destruct (kind_dir_get (mkchain w e m) (e ++ m)) as [es Ge].
  { apply (dirs_to_mkchain w e m Hd Hn (e ++ m) []). rewrite app_nil_r. reflexivity. }
  pose proof (kind_upd (e ++ m) (mkchain w e m) c (Some (Lnk src)) r es Ge) as K. cbv beta iota in K.
  etransitivity; [exact K|]. clear K.
  pose proof (kind_mkchain m w e Hd Hn r) as K2.
  destruct (path_eqb r ((e ++ m) ++ [c])) eqn:E.
  - apply path_eqb_eq in E. subst r. rewrite is_prefix_refl, skipn_all. reflexivity.
  - destruct (is_prefix ((e ++ m) ++ [c]) r) eqn:P.
    + apply is_prefix_spec in P. destruct P as [u Eu]. subst r.
      rewrite skipn_app_len. destruct u as [|x u].
      * rewrite app_nil_r, path_eqb_refl in E. discriminate.
      * assert (is_prefix (((e ++ m) ++ [c]) ++ x :: u) (e ++ m) = false) as ->.
        { destruct (is_prefix (((e ++ m) ++ [c]) ++ x :: u) (e ++ m)) eqn:P; [|reflexivity].
          apply is_prefix_length in P. rewrite !app_length in P. simpl in P. lia. }
        unfold kind_at. rewrite (get_none_app w ((e ++ m) ++ [c]) (x :: u) Hg). reflexivity.
    + rewrite K2. destruct (is_prefix r (e ++ m)) eqn:P2; simpl.
      * destruct (Nat.ltb (length e) (length r)) eqn:L; [reflexivity|].
        apply Nat.ltb_ge in L. apply is_prefix_spec in P2. destruct P2 as [u Eu].
        assert (exists r', e = r ++ r') as [r' Er].
        { exists (skipn (length r) e).
          assert (firstn (length r) (e ++ m) = firstn (length r) (r ++ u)) by (rewrite Eu; reflexivity).
          rewrite firstn_app in H. replace (length r - length e) with 0 in H by lia. simpl in H. rewrite app_nil_r in H.
          rewrite firstn_app, firstn_all, Nat.sub_diag in H. simpl in H. rewrite app_nil_r in H.
          rewrite <- H at 1. symmetry. apply firstn_skipn. }
        apply (Hd r r' Er).
      * reflexivity.
Qed.
