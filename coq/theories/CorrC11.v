(* CorrC11.v — observational form of C11 (crashes and I/O errors in lifecycle operations).

   A case is one scenario (pre-state tree, operation, JSON thread-support configuration) with one probe:
     PCrash  the clean run: its outcome and the recovery observation (tree, listing and check() of a
             FRESH Project per workspace) of EVERY crash state — every prefix of the recorded mutation
             trace x torn offsets {1, mid, len-1} — as a sequence of DISTINCT on-disk states;
     PFault  one injected fault: "the occ-th call with this signature fails with errno e", the exception
             class seen by the caller and the recovery observation afterwards.
   mismatch: the model (Crash.op_prog under Proc.crash_list / Proc.run_fault) predicts something else.
   violation: the oracle (Crash.cinv_b / post_ok), evaluated on the IMPLEMENTATION's observation, fails. *)
From SV Require Import Base Json MD5 Canon FS Proc Crash WsNames.
Import ListNotations.

(* float lexeme table (oracle for float.__repr__) *)
Fixpoint ftab_lookup (t : list (fl * str)) (f : fl) : str :=
  match t with
  | [] => [63%N]
  | (g, s) :: t' => if fl_eqb f g then s else ftab_lookup t' f
  end.

(* ------------------------------------------------------------------ call signatures *)
Inductive ckind := SgStat | SgRead | SgListdir | SgMkdir | SgOpen | SgWrite | SgClose | SgRename | SgUnlink | SgRmdir | SgMeta.

Definition ckind_eqb (a b : ckind) : bool :=
  match a, b with
  | SgStat, SgStat | SgRead, SgRead | SgListdir, SgListdir | SgMkdir, SgMkdir | SgOpen, SgOpen
  | SgWrite, SgWrite | SgClose, SgClose | SgRename, SgRename | SgUnlink, SgUnlink | SgRmdir, SgRmdir
  | SgMeta, SgMeta => true
  | _, _ => false
  end.

Record csig := { sg_kind : ckind; sg_p : path; sg_q : path }.

Definition sig_of (c : call) : csig :=
  match c with
  | CStat p => {| sg_kind := SgStat; sg_p := p; sg_q := [] |}
  | CRead p => {| sg_kind := SgRead; sg_p := p; sg_q := [] |}
  | CListdir p => {| sg_kind := SgListdir; sg_p := p; sg_q := [] |}
  | CMkdir p => {| sg_kind := SgMkdir; sg_p := p; sg_q := [] |}
  | COpenW p => {| sg_kind := SgOpen; sg_p := p; sg_q := [] |}
  | CWrite p _ => {| sg_kind := SgWrite; sg_p := p; sg_q := [] |}
  | CClose p => {| sg_kind := SgClose; sg_p := p; sg_q := [] |}
  | CRename a b => {| sg_kind := SgRename; sg_p := a; sg_q := b |}
  | CUnlink p => {| sg_kind := SgUnlink; sg_p := p; sg_q := [] |}
  | CRmdir p => {| sg_kind := SgRmdir; sg_p := p; sg_q := [] |}
  | CMeta p => {| sg_kind := SgMeta; sg_p := p; sg_q := [] |}
  end.

Definition csig_eqb (a b : csig) : bool :=
  ckind_eqb (sg_kind a) (sg_kind b) && path_eqb (sg_p a) (sg_p b) && path_eqb (sg_q a) (sg_q b).

(* index (among all calls) of the occ-th call with signature s in a trace *)
Fixpoint find_occ (s : csig) (occ : nat) (tr : list call) (i : nat) : option nat :=
  match tr with
  | [] => None
  | c :: tr' =>
      if csig_eqb (sig_of c) s then
        match occ with O => Some i | S occ' => find_occ s occ' tr' (S i) end
      else find_occ s occ tr' (S i)
  end.

(* ------------------------------------------------------------------ cases *)
Record fobs := { fo_tree : fs; fo_ws : list wobs }.

Inductive probe :=
| PCrash (out : option exn) (states : list fobs)
| PFault (s : csig) (occ : nat) (e : errno) (out : option exn) (post : fobs)
| PFault2 (s1 : csig) (occ1 : nat) (e1 : errno) (s2 : csig) (occ2 : nat) (e2 : errno)
          (out : option exn) (post : fobs)       (* a second fault later in the same (faulted) run *)
| PFollow (s : csig) (occ : nat) (e : errno) (out1 : option exn) (mid : fobs)
          (fo : fop) (out2 : option exn) (final : fobs).
          (* a handled fault, then a follow-up operation through the SAME handle, then a restart *)

Record case_C11 := {
  k_atomic : bool;
  k_ftab : list (fl * str);
  k_op : cop;
  k_wss : list path;
  k_pre : fs;
  k_probe : probe;
  k_noload : bool;          (* re-key by `job.statepoint = nsp` through a handle that never read its state point *)
  k_clean : option fs       (* the tree the IMPLEMENTATION leaves after the same operation WITHOUT any fault, when
                               that run returned normally (the reference for "an error that was swallowed") *)
}.

Definition frepr_of (c : case_C11) : fl -> str := ftab_lookup (k_ftab c).
Definition prog_of (c : case_C11) : prog unit := op_prog_r (frepr_of c) (k_atomic c) (k_noload c) (k_op c).

(* ------------------------------------------------------------------ comparing observations *)
Definition content_match (a b : content) : bool :=
  list_eqb N.eqb (c_bytes a) (c_bytes b) &&
  match c_json a, c_json b with
  | Some v, Some v' => json_same v v'
  | None, None => true
  | _, _ => false
  end.

Definition node_match (a b : option node) : bool :=
  match a, b with
  | Some Dir, Some Dir => true
  | Some (File c), Some (File c') => content_match c c'
  | None, None => true
  | _, _ => false
  end.

Definition tree_le (a b : fs) : bool :=
  forallb (fun e => negb (deep (fst e)) || node_match (get a (fst e)) (get b (fst e))) a.
Definition tree_match (a b : fs) : bool := tree_le a b && tree_le b a.

Definition strs_sameset (a b : list str) : bool :=
  forallb (fun x => str_mem x b) a && forallb (fun x => str_mem x a) b.

Definition optstrs_same (a b : option (list str)) : bool :=
  match a, b with
  | Some x, Some y => strs_sameset x y
  | None, None => true
  | _, _ => false
  end.

Definition wobs_match (m i : wobs) : bool :=
  path_eqb (wo_ws m) (wo_ws i) && strs_sameset (wo_listed m) (wo_listed i)
  && optstrs_same (wo_reported m) (wo_reported i).

Fixpoint all2 {X Y} (p : X -> Y -> bool) (a : list X) (b : list Y) : bool :=
  match a, b with
  | [], [] => true
  | x :: a', y :: b' => p x y && all2 p a' b'
  | _, _ => false
  end.

Definition fobs_match (frepr : fl -> str) (wss : list path) (m : fs) (i : fobs) : bool :=
  tree_match m (fo_tree i) && all2 wobs_match (observe frepr m wss) (fo_ws i).

(* consecutive duplicates (as trees below the workspaces) removed *)
Fixpoint dedupe (l : list fs) : list fs :=
  match l with
  | [] => []
  | x :: l' =>
      match dedupe l' with
      | [] => [x]
      | y :: r => if tree_match x y then y :: r else x :: y :: r
      end
  end.

Definition out_match (m : outcome unit) (i : option exn) : bool :=
  match m, i with
  | inl _, None => true
  | inr e, Some x => exn_eqb (exn_of_perr e) x
  | _, _ => false
  end.

Definition model_crash_states (c : case_C11) : list fs := dedupe (crash_list (prog_of c) (k_pre c)).

Definition call_list (c : case_C11) : list call := map fst (trace (prog_of c) (k_pre c)).

Definition mismatch_C11 (c : case_C11) : bool :=
  let fr := frepr_of c in
  match k_probe c with
  | PCrash out sts =>
      negb (out_match (snd (run (prog_of c) (k_pre c))) out
            && all2 (fobs_match fr (k_wss c)) (model_crash_states c) sts)
  | PFault s occ e out post =>
      match find_occ s occ (call_list c) 0 with
      | None => true                          (* the model performs no such call *)
      | Some k =>
          let '(f, o) := run_fault (single k e) 0 (prog_of c) (k_pre c) in
          negb (out_match o out && fobs_match fr (k_wss c) f post)
      end
  | PFault2 s1 occ1 e1 s2 occ2 e2 out post =>
      match find_occ s1 occ1 (call_list c) 0 with
      | None => true
      | Some k1 =>
          (* the second position is counted in the run that already contains the first fault *)
          match find_occ s2 occ2 (map fst (trace_fault (single k1 e1) 0 (prog_of c) (k_pre c))) 0 with
          | None => true
          | Some k2 =>
              let plan := fun i => if Nat.eqb i k1 then Some e1 else if Nat.eqb i k2 then Some e2 else None in
              let '(f, o) := run_fault plan 0 (prog_of c) (k_pre c) in
              negb (Nat.ltb k1 k2 && out_match o out && fobs_match fr (k_wss c) f post)
          end
      end
  | PFollow s occ e out1 mid fo out2 final =>
      match find_occ s occ (call_list c) 0 with
      | None => true
      | Some k =>
          let '(f1, o1) := run_fault (single k e) 0 (prog_of c) (k_pre c) in
          let '(f2, o2) := run_fault (single k e) 0 (follow_prog_r fr (k_atomic c) (k_noload c) (k_op c) fo) (k_pre c) in
          negb (out_match o1 out1 && fobs_match fr (k_wss c) f1 mid
                && match o2 with
                   | inl (r1, r2) => out_match r1 out1 && out_match r2 out2
                   | inr _ => false
                   end
                && fobs_match fr (k_wss c) f2 final)
      end
  end.

(* ------------------------------------------------------------------ the oracle *)
Definition holds_obs (c : case_C11) (o : fobs) : bool :=
  cinv_b (frepr_of c) (k_op c) (k_pre c) (fo_tree o) (fo_ws o).

(* after a handled fault: the pre-state, the complete post-state, or a state in which check() reports an affected directory
   (removals are exempt: they destroy data by design and rmtree is not atomic) *)
Definition detectable (c : case_C11) (o : fobs) : bool :=
  existsb (fun w =>
    match wo_reported w with
    | Some rep => existsb (fun i => under_any (affected (frepr_of c) (k_op c) (k_pre c)) (wo_ws w ++ [i])) rep
    | None => false
    end) (fo_ws o).

Definition fault_state_ok (c : case_C11) (o : fobs) : bool :=
  is_removal (k_op c) || others_same [] (k_pre c) (fo_tree o) || detectable c o
  || post_ok (frepr_of c) (k_op c) (k_pre c) (fo_tree o).      (* the effect is complete; only the final validation read failed *)

(* ---- a handled error must leave the HANDLE in the pre-state too: what a follow-up through it may produce *)
(* where the job may legitimately be after the first operation: (workspace, state point) *)
Definition cands (c : case_C11) : list (path * json) :=
  let fr := frepr_of c in
  let old ws i := match sp_value (k_pre c) ws i with Some v => [(ws, v)] | None => [] end in
  match k_op c with
  | KInit ws sp _ => [(ws, sp)]
  | KRekey ws i nsp => old ws i ++ [(ws, nsp)]
  | KMove ws i dws => old ws i ++ match sp_value (k_pre c) ws i with Some v => [(dws, v)] | None => [] end
  | KClone ws i _ | KRemove ws i | KClear ws i => old ws i
  end.

Definition apply_fop (fo : fop) (d : json) : json :=
  match fo with FSet k v => set_key d k v | _ => d end.

(* the places in which the job validates after the first operation; the follow-up acts on exactly these *)
Definition bases (c : case_C11) (mid : fobs) : list (path * json) :=
  filter (fun b => validates (frepr_of c) (fo_tree mid) (fst b) (calc_id (frepr_of c) (snd b))
                   && match sp_value (fo_tree mid) (fst b) (calc_id (frepr_of c) (snd b)) with
                      | Some v => json_same v (snd b) | None => false end) (cands c).

Definition allowed_after (c : case_C11) (mid : fobs) (fo : fop) : list (path * json) :=
  let bs := match bases c mid with [] => cands c | l => l end in
  bs ++ map (fun b => (fst b, apply_fop fo (snd b))) bs.

Definition follow_dirs (c : case_C11) (fo : fop) : list path :=
  let fr := frepr_of c in
  let all := cands c ++ map (fun b => (fst b, apply_fop fo (snd b))) (cands c) in
  map (fun b => fst b ++ [calc_id fr (snd b)]) all ++ affected fr (k_op c) (k_pre c)
  ++ match k_op c with KClone _ _ _ => [dst_dir fr (k_op c) (k_pre c)] | _ => [] end.

Definition follow_ok (c : case_C11) (mid : fobs) (fo : fop) (final : fobs) : bool :=
  let fr := frepr_of c in
  let f := fo_tree final in
  let ds := follow_dirs c fo in
  let ok := allowed_after c mid fo in
  (* nothing outside the directories the two operations may legitimately touch has changed (in particular:
     no directory under an unexpected id has appeared) *)
  others_same ds (k_pre c) f
  && forallb (fun w =>
       listed_ok fr f (wo_ws w) (wo_listed w) (wo_reported w)
       && forallb (fun i =>
            negb (validates fr f (wo_ws w) i) || negb (under_any ds (wo_ws w ++ [i]))
            || match sp_value f (wo_ws w) i with
               | Some v => existsb (fun b => path_eqb (fst b) (wo_ws w) && json_same v (snd b)) ok
                           || match k_op c with
                              | KClone _ _ _ => path_eqb (wo_ws w ++ [i]) (dst_dir fr (k_op c) (k_pre c))
                              | _ => false end
               | None => false
               end) (wo_listed w)) (fo_ws final).

(* "never a silent partial success": a run in which an injected error was SWALLOWED (the operation returned
   normally although a file-system call failed) must leave exactly what the operation leaves without the fault.
   Judged on the implementation's two observations; anything extra (a stray backup or temp file), missing or
   different below a workspace is a partial result that nobody was told about. *)
Definition same_as_clean (c : case_C11) (post : fobs) : bool :=
  match k_clean c with
  | Some t => tree_match t (fo_tree post)
  | None => true
  end.

Definition holds_C11 (c : case_C11) : bool :=
  match k_probe c with
  | PCrash out sts =>
      forallb (holds_obs c) sts
      && match out with
         | None => post_ok (frepr_of c) (k_op c) (k_pre c) (fo_tree (last sts {| fo_tree := k_pre c; fo_ws := [] |}))
         | Some _ =>       (* refused without any fault (collision, corrupt state point): nothing may have changed *)
             others_same [] (k_pre c) (fo_tree (last sts {| fo_tree := k_pre c; fo_ws := [] |}))
         end
  | PFault _ _ _ out post =>
      match out with
      | None => post_ok (frepr_of c) (k_op c) (k_pre c) (fo_tree post) && holds_obs c post   (* never a silent partial success *)
                && same_as_clean c post
      | Some _ => holds_obs c post && fault_state_ok c post   (* an exception, and the pre-state or a detectable CInv state *)
      end
  | PFault2 _ _ _ _ _ _ out post =>
      match out with
      | None => post_ok (frepr_of c) (k_op c) (k_pre c) (fo_tree post) && holds_obs c post && same_as_clean c post
      | Some _ => holds_obs c post && fault_state_ok c post
      end
  | PFollow _ _ _ out1 mid fo _ final =>
      match out1 with
      | None => true                                  (* only handled errors are followed up *)
      | Some _ => holds_obs c mid && fault_state_ok c mid && follow_ok c mid fo final
      end
  end.

Definition violation_C11 (c : case_C11) : bool := negb (holds_C11 c).

Definition mismatches_C11 (cs : list case_C11) : list N := indices_where mismatch_C11 cs.
Definition violations_C11 (cs : list case_C11) : list N := indices_where violation_C11 cs.

(* known-finding classifier over the INPUT (scenario + probe); idx*100 + tag *)
(* tag 3 (tags 1, 2, 4, 5, 6 are retired: repaired in /repo; 4 = 8529336, the handle keeping a state point
   rejected by an I/O error at the parking of the state point file): Project.clone under a DOUBLE fault — a failure
   while copying AND a failure of a clean-up unlink / rmdir below the destination (shutil.rmtree with
   ignore_errors) — leaves a partial destination that may validate *)
(* The class is "clone + a first fault during the copy + a second fault that hits the CLEAN-UP", identified by
   what the second fault hits: the clean-up (shutil.rmtree(dst, ignore_errors=True)) begins with the lstat of the
   destination directory — the LAST stat of that directory in the run that contains the first fault — and consists
   of lstat / scandir / unlink / rmdir calls on the destination and below it; any of them failing is ignored and
   leaves (part of) the partial copy.  The first fault must come before the clean-up, on the source or the
   destination. *)
Fixpoint last_occ (s : csig) (tr : list call) (i : nat) (acc : option nat) : option nat :=
  match tr with
  | [] => acc
  | c :: tr' => last_occ s tr' (S i) (if csig_eqb (sig_of c) s then Some i else acc)
  end.

Definition known_tag_C11 (c : case_C11) : N :=
  match k_op c, k_probe c with
  | KClone ws i dws, PFault2 s1 occ1 e1 s2 occ2 _ (Some _) _ =>
      let d := dst_dir (frepr_of c) (k_op c) (k_pre c) in
      match find_occ s1 occ1 (call_list c) 0 with
      | None => 0
      | Some k1 =>
          let tr1 := map fst (trace_fault (single k1 e1) 0 (prog_of c) (k_pre c)) in
          match find_occ s2 occ2 tr1 0, last_occ {| sg_kind := SgStat; sg_p := d; sg_q := [] |} tr1 0 None with
          | Some k2, Some start =>
              if Nat.ltb k1 start && Nat.leb start k2 && under d (sg_p s2)
                 && (under d (sg_p s1) || under (ws ++ [i]) (sg_p s1)) then 3 else 0
          | _, _ => 0
          end
      end
  | _, _ => 0
  end%N.

Fixpoint known_aux_C11 (cs : list case_C11) (i : N) : list N :=
  match cs with
  | [] => []
  | c :: cs' =>
      (if violation_C11 c && negb (N.eqb (known_tag_C11 c) 0) then [i * 100 + known_tag_C11 c] else [])%N
      ++ known_aux_C11 cs' (i + 1)%N
  end.
Definition known_C11 (cs : list case_C11) : list N := known_aux_C11 cs 0%N.
