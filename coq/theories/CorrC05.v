(* CorrC05.v — observational form of C05 used by the correspondence check. *)
From SV Require Import Base Json Canon Doc.

Fixpoint ftab5 (t : list (fl * str)) (f : fl) : str :=
  match t with
  | [] => [63%N]
  | (g, s) :: t' => if fl_eqb f g then s else ftab5 t' f
  end.

(* what the harness sees after one program item *)
Record obs5 := {
  o_ret : result json;              (* returned value (plain data) or exception class            *)
  o_files : list (N * json);        (* file id |-> parsed document file (missing files omitted)   *)
  o_dirs : list N;                  (* job directories that exist (by job number)                 *)
  o_buffered : bool;                (* signac.is_buffered()                                       *)
  o_stray : N                       (* entries in the project/job directories that should not be there *)
}.

Record case_C05 := {
  c5_ftab : list (fl * str);
  c5_cap0 : N;                      (* buffer capacity at the start                               *)
  c5_prog : list jitem;
  c5_obs : list obs5
}.

Definition init_core (cap0 : N) : cstate :=
  {| files := []; mems := []; buf := []; reg := []; cap := cap0; caps := []; depth := 0;
     dk := {| vers := []; clock := 1; nowrite := []; ferr := false; oerr := false |} |}.
Definition init_js (cap0 : N) : jstate := {| core := init_core cap0; dirs := []; jobs := []; nexth := 1%N |}.

Definition model_obs (js : jstate) (r : result json) : obs5 :=
  {| o_ret := r; o_files := files (core js); o_dirs := dirs js;
     o_buffered := match depth (core js) with O => false | S _ => true end; o_stray := 0%N |}.

(* keys 100 + f are the names of file f as spelled through a symlinked prefix *)
Definition canon100 (k : N) : N := if (100 <=? k)%N then (k - 100)%N else k.

Fixpoint jrun (frepr : fl -> str) (mg : json -> json -> json) (js : jstate) (prog : list jitem) : list obs5 :=
  match prog with
  | [] => []
  | it :: r => let '(js1, x) := jstep frepr mg canon100 js it in model_obs js1 x :: jrun frepr mg js1 r
  end.

Definition run_C05 (c : case_C05) : list obs5 := jrun (ftab5 (c5_ftab c)) merge (init_js (c5_cap0 c)) (c5_prog c).
(* the run in which "None did not replace a container" leaves a visible marker (classifier only) *)
Definition run_marked (c : case_C05) : list obs5 := jrun (ftab5 (c5_ftab c)) merge_mark (init_js (c5_cap0 c)) (c5_prog c).

(* ---- comparison of observations (type-exact, key order ignored) ---- *)
Definition same_val (a b : json) : bool := json_eqb (norm a) (norm b).
Definition res_same (a b : result json) : bool :=
  match a, b with
  | Ok x, Ok y => same_val x y
  | Err e, Err e' => exn_eqb e e'
  | _, _ => false
  end.
Definition files_same (a b : list (N * json)) : bool :=
  Nat.eqb (length a) (length b) &&
  forallb (fun kv => match nlookup (fst kv) b with Some v => same_val (snd kv) v | None => false end) a.
Definition set_same (a b : list N) : bool :=
  forallb (fun x => nmem x b) a && forallb (fun x => nmem x a) b.
Definition obs_same (a b : obs5) : bool :=
  res_same (o_ret a) (o_ret b) && files_same (o_files a) (o_files b) && set_same (o_dirs a) (o_dirs b)
  && Bool.eqb (o_buffered a) (o_buffered b) && N.eqb (o_stray a) (o_stray b).

Fixpoint all2 {A B} (p : A -> B -> bool) (a : list A) (b : list B) : bool :=
  match a, b with
  | [], [] => true
  | x :: a', y :: b' => p x y && all2 p a' b'
  | _, _ => false
  end.

Definition mismatch_C05 (c : case_C05) : bool := negb (all2 obs_same (run_C05 c) (c5_obs c)).

(* ---- the oracle: plain dict semantics, evaluated against what the implementation showed ---- *)
Record rstate := {
  r_docs : list (N * json);          (* file id |-> the plain dict                                   *)
  r_dirs : list N;
  r_jobs : list (N * N);             (* Job/Project object |-> file id                               *)
  r_depth : nat;
  r_acc : list (N * list N)          (* in the current outermost block: file id |-> objects that touched it *)
}.

Definition rdoc (rs : rstate) (f : N) : json := match nlookup f (r_docs rs) with Some d => d | None => empty_obj end.
Definition racc (rs : rstate) (f : N) : list N := match nlookup f (r_acc rs) with Some l => l | None => [] end.

Definition res_py_eq (a b : result json) : bool :=
  match a, b with
  | Ok x, Ok y => py_eq x y
  | Err e, Err e' => exn_eqb e e'
  | _, _ => false
  end.

(* the reference step: new reference state, and whether the observed result is acceptable *)
Definition rstep (rs : rstate) (it : jitem) (o : obs5) : rstate * bool :=
  match it with
  | JCwd _ => (rs, res_py_eq (o_ret o) (Ok JNull))
  | JOpen j f _ =>
      ({| r_docs := r_docs rs; r_dirs := r_dirs rs; r_jobs := nset j f (r_jobs rs); r_depth := r_depth rs; r_acc := r_acc rs |}, true)
  | JOp j p op =>
      match nlookup j (r_jobs rs) with
      | None => (rs, false)
      | Some f =>
          let '(d', r) := plain_step p op (rdoc rs f) in
          let acc' := match r_depth rs with
                      | O => r_acc rs
                      | S _ => nset f (if nmem j (racc rs f) then racc rs f else racc rs f ++ [j]) (r_acc rs)
                      end in
          let rs' := {| r_docs := nset f d' (r_docs rs); r_dirs := add_dir (r_dirs rs) f; r_jobs := r_jobs rs;
                        r_depth := r_depth rs; r_acc := acc' |} in
          (* inside a block only the handle that alone used the file in this block is promised to see the
             block's writes *)
          let sole := match r_depth rs with
                      | O => true
                      | S _ => forallb (N.eqb j) (match nlookup f acc' with Some l => l | None => [] end)
                      end in
          (rs', negb sole || res_py_eq (o_ret o) r)
      end
  | JInit j =>
      match nlookup j (r_jobs rs) with
      | None => (rs, false)
      | Some f => ({| r_docs := r_docs rs; r_dirs := add_dir (r_dirs rs) f; r_jobs := r_jobs rs; r_depth := r_depth rs; r_acc := r_acc rs |},
                   res_py_eq (o_ret o) (Ok JNull))
      end
  | JRekey j f' =>
      match nlookup j (r_jobs rs) with
      | None => (rs, false)
      | Some f =>
          if N.eqb f f' then (rs, res_py_eq (o_ret o) (Ok JNull))
          else if negb (nmem f (r_dirs rs)) then
            ({| r_docs := r_docs rs; r_dirs := r_dirs rs; r_jobs := nset j f' (r_jobs rs); r_depth := r_depth rs; r_acc := r_acc rs |},
             res_py_eq (o_ret o) (Ok JNull))
          else if nmem f' (r_dirs rs) then (rs, res_py_eq (o_ret o) (Err EDestinationExists))
          else
            ({| r_docs := nset f' (rdoc rs f) (nremove f (r_docs rs));
                r_dirs := add_dir (del_dir (r_dirs rs) f) f';
                r_jobs := nset j f' (r_jobs rs); r_depth := r_depth rs; r_acc := r_acc rs |},
             res_py_eq (o_ret o) (Ok JNull))
      end
  | JMove j =>
      match nlookup j (r_jobs rs) with
      | None => (rs, false)
      | Some f =>
          let f' := (f + 10)%N in
          if negb (nmem f (r_dirs rs)) then (rs, res_py_eq (o_ret o) (Err ERuntimeError))
          else if nmem f' (r_dirs rs) then (rs, res_py_eq (o_ret o) (Err EDestinationExists))
          else
            ({| r_docs := nset f' (rdoc rs f) (nremove f (r_docs rs));
                r_dirs := add_dir (del_dir (r_dirs rs) f) f';
                r_jobs := nset j f' (r_jobs rs); r_depth := r_depth rs; r_acc := r_acc rs |},
             res_py_eq (o_ret o) (Ok JNull))
      end
  | JRemove j =>
      match nlookup j (r_jobs rs) with
      | None => (rs, false)
      | Some f =>
          (* the document is gone: whoever uses the (re-created) job's document afterwards starts afresh *)
          ({| r_docs := nremove f (r_docs rs); r_dirs := del_dir (r_dirs rs) f; r_jobs := r_jobs rs;
              r_depth := r_depth rs; r_acc := nremove f (r_acc rs) |}, res_py_eq (o_ret o) (Ok JNull))
      end
  | JEnter _ =>
      ({| r_docs := r_docs rs; r_dirs := r_dirs rs; r_jobs := r_jobs rs; r_depth := S (r_depth rs); r_acc := r_acc rs |},
       res_py_eq (o_ret o) (Ok JNull))
  | JExit =>
      match r_depth rs with
      | O => (rs, true)
      | S d => ({| r_docs := r_docs rs; r_dirs := r_dirs rs; r_jobs := r_jobs rs; r_depth := d;
                   r_acc := match d with O => [] | S _ => r_acc rs end |},
                res_py_eq (o_ret o) (Ok JNull))     (* buffering must not introduce errors *)
      end
  | JSetCap _ => (rs, res_py_eq (o_ret o) (Ok JNull))
  end.

(* outside buffered blocks every document file parses to the plain dict (a missing file = empty document),
   the set of job directories is the expected one, nothing else appeared; is_buffered() tells the truth *)
Definition files_ok (rs : rstate) (o : obs5) : bool :=
  forallb (fun kv => py_eq (snd kv) (rdoc rs (fst kv))) (o_files o)
  && forallb (fun kv => match nlookup (fst kv) (o_files o) with
                        | Some v => true      (* compared above *)
                        | None => py_eq empty_obj (snd kv)
                        end) (r_docs rs).

Definition state_ok (rs : rstate) (o : obs5) : bool :=
  Bool.eqb (o_buffered o) (match r_depth rs with O => false | S _ => true end)
  && N.eqb (o_stray o) 0
  && match r_depth rs with
     | O => files_ok rs o && set_same (o_dirs o) (r_dirs rs)
     | S _ => true
     end.

Fixpoint holds_from (rs : rstate) (prog : list jitem) (os : list obs5) : bool :=
  match prog, os with
  | [], [] => true
  | it :: prog', o :: os' =>
      let '(rs', ok) := rstep rs it o in
      ok && state_ok rs' o && holds_from rs' prog' os'
  | _, _ => false
  end.

Definition init_rs : rstate := {| r_docs := []; r_dirs := []; r_jobs := []; r_depth := 0; r_acc := [] |}.

Definition holds_C05 (c : case_C05) : bool := holds_from init_rs (c5_prog c) (c5_obs c).
Definition violation_C05 (c : case_C05) : bool := negb (holds_C05 c).

(* ---- known finding 1: inside one outermost buffered block a document file is used through two
        different collections and at least one of the uses is a modification (the flush decides on the
        data of the collection registered last — a stale one drops the other one's writes) ---- *)
Fixpoint shared_in_block (jobs : list (N * N)) (d : nat) (acc : list (N * (list N * bool))) (prog : list jitem) : bool :=
  match prog with
  | [] => false
  | it :: r =>
      match it with
      | JOpen j f _ => shared_in_block (nset j f jobs) d acc r
      | JRekey j f' => shared_in_block (nset j f' jobs) d acc r
      | JMove j => match nlookup j jobs with
                   | Some f => shared_in_block (nset j (f + 10)%N jobs) d acc r
                   | None => shared_in_block jobs d acc r
                   end
      | JEnter _ => shared_in_block jobs (S d) acc r
      | JExit => match d with
                 | O => shared_in_block jobs d acc r
                 | S O => shared_in_block jobs O [] r
                 | S d' => shared_in_block jobs d' acc r
                 end
      | JRemove j =>
          match nlookup j jobs with
          | Some f => shared_in_block jobs d (nremove f acc) r
          | None => shared_in_block jobs d acc r
          end
      | JOp j _ op =>
          match d, nlookup j jobs with
          | S _, Some f =>
              let '(l, w) := match nlookup f acc with Some x => x | None => ([], false) end in
              let l' := if nmem j l then l else l ++ [j] in
              let w' := w || negb (is_read op) in
              ((1 <? length l')%nat && w') || shared_in_block jobs d (nset f (l', w') acc) r
          | _, _ => shared_in_block jobs d acc r
          end
      | _ => shared_in_block jobs d acc r
      end
  end.

(* ---- known finding 2: update()/reset()/a reload cannot replace a nested dict or list by None
        (SyncedDict._update calls existing._update(None), which does nothing, and moves on).  Recognised by
        running the model with [merge_mark]: the marker reaches a returned value or a file ---- *)
Fixpoint has_marker (v : json) : bool :=
  match v with
  | JStr s => json_eqb v null_marker
  | JArr l => existsb has_marker l
  | JObj kvs => existsb (fun kv => has_marker (snd kv)) kvs
  | _ => false
  end.
Definition obs_marked (o : obs5) : bool :=
  match o_ret o with Ok v => has_marker v | Err _ => false end
  || existsb (fun kv => has_marker (snd kv)) (o_files o).

(* ---- known finding 3: job.remove() inside a buffered block while the job's document is in the buffer.
        Job.remove() deletes the directory behind the buffer's back; the entry outlives the file.  If the file
        existed when it was buffered the flush finds it changed (MetadataError) or its directory gone and raises
        BufferedError — on block exit, or out of whatever operation forces a flush — and what was buffered for
        the re-created job is dropped; if the removing Job object is not the one whose collection buffered the
        document, nothing is cleared and the removed document's buffered content reappears in the re-created job.
        Recognised on the model run: at a JRemove inside a block the buffer holds an entry for that job's file ---- *)
Fixpoint remove_while_buffered (frepr : fl -> str) (js : jstate) (prog : list jitem) : bool :=
  match prog with
  | [] => false
  | it :: r =>
      (match it with
       | JRemove j =>
           match depth (core js), nlookup j (jobs js) with
           | S _, Some (k, _) =>
               (* an entry under either spelling of the file *)
               existsb (fun e => N.eqb (canon100 (fst e)) (canon100 k)) (buf (core js))
           | _, _ => false
           end
       | _ => false
       end) || remove_while_buffered frepr (fst (jstep frepr merge canon100 js it)) r
  end.

(* ---- known finding 4: inside one outermost buffered block the same document is used (at least one use being a
        modification) through two Job/Project objects whose project paths differ by a symlinked prefix: the file
        names differ as strings, the buffer holds two entries for one file, the second flush finds the file
        changed (MetadataError): BufferedError on exit and one object's writes are lost.  Purely over the input:
        [jobs] maps an object to (file, reached through the symlink?) ---- *)
Fixpoint symlink_shared (jobs : list (N * (N * bool))) (d : nat) (acc : list (N * (bool * bool * bool))) (prog : list jitem) : bool :=
  match prog with
  | [] => false
  | it :: r =>
      match it with
      | JOpen j f prov => symlink_shared (nset j (f, N.eqb prov prov_symlink) jobs) d acc r
      | JRekey j f' =>
          match nlookup j jobs with
          | Some (_, a) => symlink_shared (nset j (f', a) jobs) d acc r
          | None => symlink_shared jobs d acc r
          end
      | JMove j =>
          match nlookup j jobs with
          | Some (f, _) => symlink_shared (nset j ((f + 10)%N, false) jobs) d acc r
          | None => symlink_shared jobs d acc r
          end
      | JEnter _ => symlink_shared jobs (S d) acc r
      | JExit => match d with
                 | O => symlink_shared jobs d acc r
                 | S O => symlink_shared jobs O [] r
                 | S d' => symlink_shared jobs d' acc r
                 end
      | JOp j _ op =>
          match d, nlookup j jobs with
          | S _, Some (f, a) =>
              let '(p, s, w) := match nlookup f acc with Some x => x | None => (false, false, false) end in
              let p' := p || negb a in
              let s' := s || a in
              let w' := w || negb (is_read op) in
              (p' && s' && w') || symlink_shared jobs d (nset f (p', s', w') acc) r
          | _, _ => symlink_shared jobs d acc r
          end
      | _ => symlink_shared jobs d acc r
      end
  end.

(* the dropped collection's clear() can also be what puts the document into the buffer (it was opened before the
   block): then the program removes a job inside a block and the model predicts a BufferedError *)
Fixpoint remove_in_block (d : nat) (prog : list jitem) : bool :=
  match prog with
  | [] => false
  | JEnter _ :: r => remove_in_block (S d) r
  | JExit :: r => remove_in_block (pred d) r
  | JRemove _ :: r => match d with O => remove_in_block d r | S _ => true end
  | _ :: r => remove_in_block d r
  end.
Definition predicts_buffered_error (c : case_C05) : bool :=
  existsb (fun o => match o_ret o with Err ERuntimeError => true | _ => false end) (run_C05 c).

Definition classify_C05 (c : case_C05) : N :=
  if symlink_shared [] 0 [] (c5_prog c) then 4%N
  else if (remove_in_block 0 (c5_prog c) && predicts_buffered_error c) || remove_while_buffered (ftab5 (c5_ftab c)) (init_js (c5_cap0 c)) (c5_prog c) then 3%N
  else if existsb obs_marked (run_marked c) then 2%N
  else if shared_in_block [] 0 [] (c5_prog c) then 1%N else 0%N.

Fixpoint tags_aux {A} (f : A -> N) (l : list A) (i : N) : list N :=
  match l with
  | [] => []
  | x :: r => (if N.eqb (f x) 0 then [] else [(i * 100 + f x)%N]) ++ tags_aux f r (N.succ i)
  end.

Definition mismatches_C05 (cs : list case_C05) : list N := indices_where mismatch_C05 cs.
Definition violations_C05 (cs : list case_C05) : list N := indices_where violation_C05 cs.
Definition known_C05 (cs : list case_C05) : list N := tags_aux classify_C05 cs 0%N.

(* debugging aid: index and model observation of the first item where model and implementation differ *)
Fixpoint first_diff_aux (a b : list obs5) (i : N) : option (N * obs5) :=
  match a, b with
  | x :: a', y :: b' => if obs_same x y then first_diff_aux a' b' (N.succ i) else Some (i, x)
  | x :: _, [] => Some (i, x)
  | _, _ => None
  end.
Definition first_diff (c : case_C05) : option (N * obs5) := first_diff_aux (run_C05 c) (c5_obs c) 0%N.

Fixpoint jstate_after (frepr : fl -> str) (js : jstate) (prog : list jitem) (n : nat) : jstate :=
  match n, prog with
  | S n', it :: r => jstate_after frepr (fst (jstep frepr merge canon100 js it)) r n'
  | _, _ => js
  end.
Definition state_after (c : case_C05) (n : nat) : jstate :=
  jstate_after (ftab5 (c5_ftab c)) (init_js (c5_cap0 c)) (c5_prog c) n.
