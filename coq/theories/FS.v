(* FS.v — a small executable file-system model shared by the workspace-level properties.

   A file system is a finite map from absolute paths (lists of components) to nodes, represented
   as an association list read through [get] (first match).  The root [[]] is always a directory.
   Every operation is total and returns either a new file system or an errno, with POSIX
   semantics for the cases signac relies on ([os.replace] of a directory onto an EMPTY directory
   succeeds, onto a non-empty one fails with ENOTEMPTY, a missing source gives ENOENT).

   A regular file carries its bytes AND the JSON value those bytes parse to ([c_json = None] when
   they are not valid JSON).  Files written by the models carry [(dumps v, Some v)]; files emitted
   by the harness carry what Python's json.loads returned for those bytes.  (This replaces a
   parser: "loads (dumps v) = Some v" is built into the node written by the model.)

   All reasoning elsewhere goes through the [get_*] characterisations and the frame lemmas at
   the end of this file; two file systems are "the same tree" when they agree on every path
   ([fs_eq]). *)
From SV Require Export Base Json.

Inductive errno :=
| ENOENT | EEXIST | ENOTEMPTY | EACCES | ENOTDIR | EISDIR | EINVAL | EIO | ENOSPC | EXDEV | EROFS | EPERM.

Definition errno_eqb (a b : errno) : bool :=
  match a, b with
  | ENOENT, ENOENT | EEXIST, EEXIST | ENOTEMPTY, ENOTEMPTY | EACCES, EACCES | ENOTDIR, ENOTDIR
  | EISDIR, EISDIR | EINVAL, EINVAL | EIO, EIO | ENOSPC, ENOSPC | EXDEV, EXDEV | EROFS, EROFS
  | EPERM, EPERM => true
  | _, _ => false
  end.

Lemma errno_eqb_eq : forall a b, errno_eqb a b = true <-> a = b.
Proof. destruct a, b; simpl; split; congruence. Qed.

Inductive fres (A : Type) := FOk (a : A) | FErr (e : errno).
Arguments FOk {A} a.
Arguments FErr {A} e.

(* ------------------------------------------------------------------ paths *)
Definition path := list str.

Definition path_eqb (a b : path) : bool := list_eqb str_eqb a b.

Lemma path_eqb_eq : forall a b, path_eqb a b = true <-> a = b.
Proof. apply list_eqb_eq. apply str_eqb_eq. Qed.

Lemma path_eqb_refl : forall a, path_eqb a a = true.
Proof. intro a. apply path_eqb_eq. reflexivity. Qed.

Lemma path_eqb_neq : forall a b, path_eqb a b = false <-> a <> b.
Proof.
  intros a b. split; intro H.
  - intro E. apply path_eqb_eq in E. congruence.
  - destruct (path_eqb a b) eqn:E; auto. apply path_eqb_eq in E. contradiction.
Qed.

Lemma path_eqb_sym : forall a b, path_eqb a b = path_eqb b a.
Proof.
  intros a b. destruct (path_eqb a b) eqn:E.
  - apply path_eqb_eq in E. subst. symmetry. apply path_eqb_refl.
  - symmetry. apply path_eqb_neq. apply path_eqb_neq in E. congruence.
Qed.

(* [strip p q = Some r] iff [q = p ++ r] *)
Fixpoint strip (p q : path) : option path :=
  match p, q with
  | [], _ => Some q
  | x :: p', y :: q' => if str_eqb x y then strip p' q' else None
  | _ :: _, [] => None
  end.

Lemma strip_spec : forall p q r, strip p q = Some r <-> q = p ++ r.
Proof.
  induction p as [|x p IH]; intros q r; simpl.
  - split; congruence.
  - destruct q as [|y q]; [split; discriminate|].
    destruct (str_eqb x y) eqn:E.
    + apply str_eqb_eq in E. subst y. rewrite IH. split; intro H; [congruence|inversion H; auto].
    + apply str_eqb_neq in E. split; [discriminate|]. intro H. inversion H. congruence.
Qed.

Lemma strip_app : forall p r, strip p (p ++ r) = Some r.
Proof. intros. apply strip_spec. reflexivity. Qed.

(* [under p q]: q is p or lies below p *)
Definition under (p q : path) : bool := match strip p q with Some _ => true | None => false end.
(* strictly below *)
Definition below (p q : path) : bool := match strip p q with Some (_ :: _) => true | _ => false end.

Lemma under_spec : forall p q, under p q = true <-> exists r, q = p ++ r.
Proof.
  intros p q. unfold under. destruct (strip p q) as [r|] eqn:E.
  - apply strip_spec in E. split; eauto.
  - split; [discriminate|]. intros [r H]. apply strip_spec in H. congruence.
Qed.

Lemma below_spec : forall p q, below p q = true <-> exists n r, q = p ++ n :: r.
Proof.
  intros p q. unfold below. destruct (strip p q) as [[|n r]|] eqn:E.
  - apply strip_spec in E. split; [discriminate|]. intros [n [r H]].
    rewrite H in E. apply app_inv_head in E. discriminate.
  - apply strip_spec in E. split; eauto.
  - split; [discriminate|]. intros [n [r H]]. apply strip_spec in H. congruence.
Qed.

Lemma under_refl : forall p, under p p = true.
Proof. intro p. apply under_spec. exists []. symmetry. apply app_nil_r. Qed.

Lemma under_app : forall p r, under p (p ++ r) = true.
Proof. intros. apply under_spec. eauto. Qed.

Lemma below_under : forall p q, below p q = true -> under p q = true.
Proof. intros p q H. apply below_spec in H. destruct H as [n [r ->]]. apply under_app. Qed.

Lemma under_trans : forall a b c, under a b = true -> under b c = true -> under a c = true.
Proof.
  intros a b c H1 H2. apply under_spec in H1. apply under_spec in H2.
  destruct H1 as [r1 ->]. destruct H2 as [r2 ->]. rewrite <- app_assoc. apply under_app.
Qed.

Lemma under_false_app : forall p q r, under p q = false -> q <> p ++ r.
Proof. intros p q r H E. subst q. rewrite under_app in H. discriminate. Qed.

(* two paths with a common extension are comparable *)
Lemma under_comparable : forall a b c, under a c = true -> under b c = true -> under a b = true \/ under b a = true.
Proof.
  induction a as [|x a IH]; intros b c Ha Hb.
  - left. reflexivity.
  - destruct b as [|y b]; [right; reflexivity|].
    destruct c as [|z c]; [unfold under in Ha; simpl in Ha; discriminate|].
    unfold under in *. simpl in *.
    destruct (str_eqb x z) eqn:E1; [|discriminate]. destruct (str_eqb y z) eqn:E2; [|discriminate].
    apply str_eqb_eq in E1, E2. subst.
    rewrite !str_eqb_refl. apply (IH b c); auto.
Qed.

Definition parent (p : path) : path := removelast p.

Lemma parent_snoc : forall p n, parent (p ++ [n]) = p.
Proof. intros. unfold parent. apply removelast_last. Qed.

(* ------------------------------------------------------------------ nodes and the map *)
Record content := mkContent { c_bytes : list N; c_json : option json }.

Inductive node := File (c : content) | Dir.

Definition fs := list (path * node).

Fixpoint lookup (p : path) (f : fs) : option node :=
  match f with
  | [] => None
  | (q, n) :: f' => if path_eqb p q then Some n else lookup p f'
  end.

Definition get (f : fs) (p : path) : option node :=
  match p with [] => Some Dir | _ => lookup p f end.

Definition isdir (f : fs) (p : path) : bool := match get f p with Some Dir => true | _ => false end.
Definition isfile (f : fs) (p : path) : bool := match get f p with Some (File _) => true | _ => false end.
Definition exists_ (f : fs) (p : path) : bool := match get f p with Some _ => true | None => false end.

(* the same tree *)
Definition fs_eq (a b : fs) : Prop := forall p, get a p = get b p.

Lemma fs_eq_refl : forall a, fs_eq a a.
Proof. intros a p. reflexivity. Qed.
Lemma fs_eq_sym : forall a b, fs_eq a b -> fs_eq b a.
Proof. intros a b H p. symmetry. apply H. Qed.
Lemma fs_eq_trans : forall a b c, fs_eq a b -> fs_eq b c -> fs_eq a c.
Proof. intros a b c H1 H2 p. rewrite H1. apply H2. Qed.

(* removal of one key / of a whole sub-tree; re-keying of a sub-tree *)
Definition remove (p : path) (f : fs) : fs := filter (fun e => negb (path_eqb p (fst e))) f.
Definition del_under (p : path) (f : fs) : fs := filter (fun e => negb (under p (fst e))) f.
Definition rekey (a b : path) (e : path * node) : path * node :=
  match strip a (fst e) with Some r => (b ++ r, snd e) | None => e end.
Definition move_tree (a b : path) (f : fs) : fs := map (rekey a b) f.
Definition sub_tree (a : path) (f : fs) : fs := filter (fun e => under a (fst e)) f.

Definition has_children (f : fs) (p : path) : bool := existsb (fun e => below p (fst e)) f.

(* names directly below p *)
Definition child_name (p : path) (e : path * node) : list str :=
  match strip p (fst e) with Some [n] => [n] | _ => [] end.
Definition children (f : fs) (p : path) : list str := nodup str_eq_dec (flat_map (child_name p) f).

(* ------------------------------------------------------------------ operations *)
Definition mkdir (f : fs) (p : path) : fres fs :=
  match get f p with
  | Some _ => FErr EEXIST
  | None =>
      match get f (parent p) with
      | Some Dir => FOk ((p, Dir) :: f)
      | Some (File _) => FErr ENOTDIR
      | None => FErr ENOENT
      end
  end.

(* os.makedirs(base ++ rest, exist_ok = ok) given that [base] is a directory *)
Fixpoint makedirs_from (ok : bool) (f : fs) (base rest : path) : fres fs :=
  match rest with
  | [] => FOk f
  | c :: rest' =>
      let cur := base ++ [c] in
      match get f cur with
      | Some Dir =>
          match rest' with
          | [] => if ok then FOk f else FErr EEXIST
          | _ => makedirs_from ok f cur rest'
          end
      | Some (File _) => match rest' with [] => FErr EEXIST | _ => FErr ENOTDIR end
      | None => makedirs_from ok ((cur, Dir) :: f) cur rest'
      end
  end.
Definition makedirs (f : fs) (p : path) : fres fs := makedirs_from true f [] p.
Definition makedirs_new (f : fs) (p : path) : fres fs := makedirs_from false f [] p.

(* open(p, "wb"); write; close *)
Definition write_file (f : fs) (p : path) (c : content) : fres fs :=
  match get f p with
  | Some Dir => FErr EISDIR
  | _ =>
      match get f (parent p) with
      | Some Dir => FOk ((p, File c) :: remove p f)
      | Some (File _) => FErr ENOTDIR
      | None => FErr ENOENT
      end
  end.

Definition unlink (f : fs) (p : path) : fres fs :=
  match get f p with
  | None => FErr ENOENT
  | Some Dir => FErr EISDIR
  | Some (File _) => FOk (remove p f)
  end.

Definition rmtree (f : fs) (p : path) : fres fs :=
  match p, get f p with
  | [], _ => FErr EINVAL
  | _, None => FErr ENOENT
  | _, Some (File _) => FErr ENOTDIR
  | _, Some Dir => FOk (del_under p f)
  end.

(* os.replace(a, b) *)
Definition rename (f : fs) (a b : path) : fres fs :=
  match get f a with
  | None => FErr ENOENT
  | Some na =>
      match get f (parent b) with
      | None => FErr ENOENT
      | Some (File _) => FErr ENOTDIR
      | Some Dir =>
          if path_eqb a b then FOk f
          else
            match na, get f b with
            | File _, Some Dir => FErr EISDIR
            | File c, _ => FOk ((b, File c) :: remove a (remove b f))
            | Dir, Some (File _) => FErr ENOTDIR
            | Dir, _ =>
                if under a b then FErr EINVAL
                else if under b a then FErr ENOTEMPTY
                else if has_children f b then FErr ENOTEMPTY
                else FOk (move_tree a b (del_under b f))
            end
      end
  end.

(* shutil.copytree(a, b): scandir(a), makedirs(b) (must not exist), copy everything below a *)
Definition copytree (f : fs) (a b : path) : fres fs :=
  match get f a with
  | None => FErr ENOENT
  | Some (File _) => FErr ENOTDIR
  | Some Dir =>
      match makedirs_new f b with          (* an existing destination (also the source itself) fails first *)
      | FErr e => FErr e
      | FOk f1 =>
          if under a b then FErr EINVAL
          else FOk (move_tree a b (filter (fun e => below a (fst e)) f) ++ f1)
      end
  end.

Definition listdir (f : fs) (p : path) : fres (list str) :=
  match get f p with
  | None => FErr ENOENT
  | Some (File _) => FErr ENOTDIR
  | Some Dir => FOk (children f p)
  end.

(* ------------------------------------------------------------------ lookup lemmas *)
Lemma lookup_filter : forall (P : path -> bool) p f,
  lookup p (filter (fun e => P (fst e)) f) = if P p then lookup p f else None.
Proof.
  intros P p f. induction f as [|[q n] f IH]; simpl.
  - destruct (P p); reflexivity.
  - destruct (P q) eqn:Pq; simpl.
    + destruct (path_eqb p q) eqn:E.
      * apply path_eqb_eq in E. subst q. rewrite Pq. reflexivity.
      * exact IH.
    + destruct (path_eqb p q) eqn:E.
      * apply path_eqb_eq in E. subst q. rewrite Pq in *. exact IH.
      * exact IH.
Qed.

Lemma lookup_remove : forall p q f, lookup q (remove p f) = if path_eqb p q then None else lookup q f.
Proof.
  intros p q f. unfold remove. rewrite (lookup_filter (fun x => negb (path_eqb p x))).
  destruct (path_eqb p q); reflexivity.
Qed.

Lemma lookup_del_under : forall p q f, lookup q (del_under p f) = if under p q then None else lookup q f.
Proof.
  intros p q f. unfold del_under. rewrite (lookup_filter (fun x => negb (under p x))).
  destruct (under p q); reflexivity.
Qed.

Lemma lookup_app : forall p f g, lookup p (f ++ g) = match lookup p f with Some n => Some n | None => lookup p g end.
Proof.
  intros p f g. induction f as [|[q n] f IH]; simpl; auto. destruct (path_eqb p q); auto.
Qed.

Lemma lookup_In : forall p f n, lookup p f = Some n -> In (p, n) f.
Proof.
  induction f as [|[q m] f IH]; simpl; intros n H; [discriminate|].
  destruct (path_eqb p q) eqn:E.
  - apply path_eqb_eq in E. inversion H. subst. auto.
  - auto.
Qed.

Lemma lookup_None_iff : forall p f, lookup p f = None <-> ~ In p (map fst f).
Proof.
  induction f as [|[q m] f IH]; simpl; [tauto|].
  destruct (path_eqb p q) eqn:E.
  - apply path_eqb_eq in E. subst. split; [discriminate|]. intro H. exfalso. apply H. auto.
  - apply path_eqb_neq in E. rewrite IH. split; intro H; [intros [H1|H1]; [congruence|auto]|auto].
Qed.

Lemma In_keys_lookup : forall p f, In p (map fst f) <-> exists n, lookup p f = Some n.
Proof.
  intros p f. destruct (lookup p f) as [n|] eqn:E.
  - split; [eauto|]. intros _. apply lookup_In in E. apply (in_map fst) in E. exact E.
  - apply lookup_None_iff in E. split; [contradiction|]. intros [n H]. discriminate.
Qed.

(* the sub-tree moved from a to b: keys not touched by the move *)
Lemma lookup_move_tree_out : forall a b q f,
  under a q = false -> under b q = false -> lookup q (move_tree a b f) = lookup q f.
Proof.
  intros a b q f Ha Hb. induction f as [|[k n] f IH]; simpl; auto.
  unfold rekey at 1. simpl. destruct (strip a k) as [r|] eqn:E; simpl.
  - apply strip_spec in E. subst k.
    assert (E1 : path_eqb q (b ++ r) = false) by (apply path_eqb_neq; apply under_false_app; auto).
    assert (E2 : path_eqb q (a ++ r) = false) by (apply path_eqb_neq; apply under_false_app; auto).
    rewrite E1, E2. exact IH.
  - destruct (path_eqb q k); auto.
Qed.

Lemma lookup_move_tree_src : forall a b q f,
  under a q = true -> under b q = false -> lookup q (move_tree a b f) = None.
Proof.
  intros a b q f Ha Hb. induction f as [|[k n] f IH]; simpl; auto.
  unfold rekey at 1. simpl. destruct (strip a k) as [r|] eqn:E; simpl.
  - assert (E1 : path_eqb q (b ++ r) = false) by (apply path_eqb_neq; apply under_false_app; auto).
    rewrite E1. exact IH.
  - destruct (path_eqb q k) eqn:E2; auto.
    apply path_eqb_eq in E2. subst k. unfold under in Ha. rewrite E in Ha. discriminate.
Qed.

(* keys below the destination, when the list has no entry under b beforehand *)
Lemma lookup_move_tree_dst : forall a b r f,
  (forall k, In k (map fst f) -> under b k = false) ->
  lookup (b ++ r) (move_tree a b f) = lookup (a ++ r) f.
Proof.
  intros a b r f Hclean. induction f as [|[k n] f IH]; simpl; auto.
  assert (Hk : under b k = false) by (apply Hclean; simpl; auto).
  assert (IH' : lookup (b ++ r) (move_tree a b f) = lookup (a ++ r) f).
  { apply IH. intros k' Hk'. apply Hclean. simpl. auto. }
  unfold rekey at 1. simpl. destruct (strip a k) as [r'|] eqn:E; simpl.
  - apply strip_spec in E. subst k.
    destruct (path_eqb (b ++ r) (b ++ r')) eqn:E1.
    + apply path_eqb_eq in E1. apply app_inv_head in E1. subst r'. rewrite path_eqb_refl. reflexivity.
    + assert (E2 : path_eqb (a ++ r) (a ++ r') = false).
      { apply path_eqb_neq. apply path_eqb_neq in E1. intro H. apply app_inv_head in H. subst. auto. }
      rewrite E2. exact IH'.
  - assert (E1 : path_eqb (b ++ r) k = false).
    { apply path_eqb_neq. intro H. subst k. rewrite under_app in Hk. discriminate. }
    assert (E2 : path_eqb (a ++ r) k = false).
    { apply path_eqb_neq. intro H. subst k. rewrite strip_app in E. discriminate. }
    rewrite E1, E2. exact IH'.
Qed.

Lemma del_under_clean : forall b f k, In k (map fst (del_under b f)) -> under b k = false.
Proof.
  intros b f k H. apply in_map_iff in H. destruct H as [[k' n] [<- Hin]]. simpl.
  unfold del_under in Hin. apply filter_In in Hin. destruct Hin as [_ Hn]. simpl in Hn.
  apply negb_true_iff in Hn. exact Hn.
Qed.

Lemma has_children_spec : forall f p,
  has_children f p = true <-> exists q, below p q = true /\ In q (map fst f).
Proof.
  intros f p. unfold has_children. rewrite existsb_exists. split.
  - intros [[q n] [Hin Hb]]. exists q. split; auto. apply (in_map fst) in Hin. exact Hin.
  - intros [q [Hb Hin]]. apply in_map_iff in Hin. destruct Hin as [[q' n] [<- Hin]]. eauto.
Qed.

Lemma has_children_false : forall f p n r, has_children f p = false -> lookup (p ++ n :: r) f = None.
Proof.
  intros f p n r H. apply lookup_None_iff. intro Hin.
  assert (Ht : has_children f p = true).
  { apply has_children_spec. exists (p ++ n :: r). split; auto. apply below_spec. eauto. }
  congruence.
Qed.

Lemma In_children : forall f p n, In n (children f p) <-> In (p ++ [n]) (map fst f).
Proof.
  intros f p n. unfold children. rewrite nodup_In, in_flat_map. split.
  - intros [[q m] [Hin Hc]]. unfold child_name in Hc. simpl in Hc.
    destruct (strip p q) as [[|x [|y r]]|] eqn:E; simpl in Hc; try contradiction.
    destruct Hc as [<-|[]]. apply strip_spec in E. subst q. apply (in_map fst) in Hin. exact Hin.
  - intro Hin. apply in_map_iff in Hin. destruct Hin as [[q m] [Hq Hin]]. simpl in Hq. subst q.
    exists (p ++ [n], m). split; auto. unfold child_name. simpl. rewrite strip_app. simpl. auto.
Qed.

Lemma children_NoDup : forall f p, NoDup (children f p).
Proof. intros. apply NoDup_nodup. Qed.

(* get on non-root paths is lookup *)
Lemma get_cons_path : forall f x p, get f (x :: p) = lookup (x :: p) f.
Proof. reflexivity. Qed.

Lemma get_app_cons : forall f p n r, get f (p ++ n :: r) = lookup (p ++ n :: r) f.
Proof. intros. destruct p; reflexivity. Qed.

(* ------------------------------------------------------------------ characterisations via get *)
Lemma get_mkdir : forall f p f' q, mkdir f p = FOk f' ->
  get f' q = if path_eqb q p then Some Dir else get f q.
Proof.
  intros f p f' q H. unfold mkdir in H.
  destruct (get f p) eqn:Ep; [discriminate|].
  destruct (get f (parent p)) as [[c|]|]; try discriminate. inversion H; subst. clear H.
  destruct q as [|x q]; simpl.
  - destruct p; simpl in *; [discriminate|reflexivity].
  - destruct (path_eqb (x :: q) p); reflexivity.
Qed.

Lemma get_write_file : forall f p c f' q, write_file f p c = FOk f' ->
  get f' q = if path_eqb q p then Some (File c) else get f q.
Proof.
  intros f p c f' q H. unfold write_file in H.
  assert (Hp : p <> []). { intro E. subst p. simpl in H. discriminate. }
  destruct (get f p) as [[c0|]|]; try discriminate;
  destruct (get f (parent p)) as [[c1|]|]; try discriminate; inversion H; subst; clear H;
  (destruct q as [|x q]; simpl;
   [ destruct p; [contradiction|reflexivity]
   | destruct (path_eqb (x :: q) p) eqn:E; auto;
     rewrite lookup_remove; rewrite path_eqb_sym, E; reflexivity ]).
Qed.

Lemma get_unlink : forall f p f' q, unlink f p = FOk f' ->
  get f' q = if path_eqb q p then None else get f q.
Proof.
  intros f p f' q H. unfold unlink in H.
  destruct (get f p) as [[c|]|] eqn:Ep; try discriminate. inversion H; subst; clear H.
  destruct q as [|x q]; simpl.
  - destruct p; [simpl in Ep; discriminate|reflexivity].
  - rewrite lookup_remove. rewrite path_eqb_sym. reflexivity.
Qed.

Lemma get_rmtree : forall f p f' q, rmtree f p = FOk f' ->
  get f' q = if under p q then None else get f q.
Proof.
  intros f p f' q H. unfold rmtree in H. destruct p as [|y p]; [discriminate|].
  destruct (get f (y :: p)) as [[c|]|]; try discriminate. inversion H; subst; clear H.
  destruct q as [|x q]; simpl.
  - reflexivity.
  - apply lookup_del_under.
Qed.

(* renaming a regular file *)
Lemma get_rename_file : forall f a b c f' q,
  get f a = Some (File c) -> a <> b -> rename f a b = FOk f' ->
  get f' q = if path_eqb q b then Some (File c) else if path_eqb q a then None else get f q.
Proof.
  intros f a b c f' q Ha Hab H. unfold rename in H. rewrite Ha in H.
  destruct (get f (parent b)) as [[c1|]|]; try discriminate.
  apply path_eqb_neq in Hab. rewrite Hab in H.
  assert (Hb : b <> []). { intro E. subst b. simpl in H. discriminate. }
  assert (Hres : f' = (b, File c) :: remove a (remove b f)).
  { destruct (get f b) as [[c2|]|]; try discriminate; inversion H; reflexivity. }
  subst f'. clear H.
  destruct q as [|x q]; simpl.
  - destruct b; [contradiction|]. destruct a; [simpl in Ha; discriminate|]. reflexivity.
  - destruct (path_eqb (x :: q) b) eqn:E1; auto.
    rewrite !lookup_remove. rewrite (path_eqb_sym a), (path_eqb_sym b), E1.
    destruct (path_eqb (x :: q) a); reflexivity.
Qed.

(* renaming a directory onto an absent path or an empty directory *)
Lemma get_rename_dir : forall f a b f' q,
  get f a = Some Dir -> a <> b -> rename f a b = FOk f' ->
  get f' q =
    match strip b q with
    | Some r => get f (a ++ r)
    | None => if under a q then None else get f q
    end.
Proof.
  intros f a b f' q Ha Hab H. unfold rename in H. rewrite Ha in H.
  destruct (get f (parent b)) as [[c1|]|]; try discriminate.
  apply path_eqb_neq in Hab. rewrite Hab in H.
  assert (Hres : under a b = false /\ under b a = false /\ f' = move_tree a b (del_under b f)).
  { destruct (get f b) as [[c2|]|]; try discriminate;
      destruct (under a b); try discriminate; destruct (under b a); try discriminate;
      destruct (has_children f b); try discriminate; inversion H; auto. }
  destruct Hres as [Hab1 [Hba ->]]. clear H.
  assert (Ha0 : a <> []). { intro E. subst a. discriminate. }
  assert (Hb0 : b <> []). { intro E. subst b. discriminate. }
  destruct (strip b q) as [r|] eqn:E.
  - apply strip_spec in E. subst q.
    assert (Hq : b ++ r <> []) by (destruct b; [contradiction|discriminate]).
    assert (Hq' : a ++ r <> []) by (destruct a; [contradiction|discriminate]).
    destruct (b ++ r) as [|x q] eqn:Eq; [contradiction|]. rewrite get_cons_path, <- Eq.
    rewrite lookup_move_tree_dst by (apply del_under_clean).
    rewrite lookup_del_under.
    assert (Hu : under b (a ++ r) = false).
    { destruct (under b (a ++ r)) eqn:Hu; auto.
      destruct (under_comparable a b (a ++ r) (under_app a r) Hu); congruence. }
    rewrite Hu. destruct (a ++ r) eqn:Ear; [contradiction|]. reflexivity.
  - assert (Hbq : under b q = false) by (unfold under; rewrite E; reflexivity).
    destruct q as [|x q]; [destruct a; [contradiction|]; reflexivity|].
    rewrite get_cons_path.
    destruct (under a (x :: q)) eqn:Haq.
    + apply lookup_move_tree_src; auto.
    + rewrite lookup_move_tree_out by auto. rewrite lookup_del_under, Hbq. reflexivity.
Qed.

(* a successful rename of a directory required an absent or empty destination *)
Lemma rename_dir_ok_dest : forall f a b f', get f a = Some Dir -> a <> b -> rename f a b = FOk f' ->
  (get f b = None \/ get f b = Some Dir) /\ has_children f b = false.
Proof.
  intros f a b f' Ha Hab H. unfold rename in H. rewrite Ha in H.
  destruct (get f (parent b)) as [[c1|]|]; try discriminate.
  apply path_eqb_neq in Hab. rewrite Hab in H.
  destruct (get f b) as [[c2|]|]; try discriminate;
    destruct (under a b); try discriminate; destruct (under b a); try discriminate;
    destruct (has_children f b); try discriminate; auto.
Qed.

(* a failed operation returns no file system: nothing to say.  ENOTEMPTY exactly when the
   destination directory has entries (or contains the source) *)
Lemma rename_dir_nonempty : forall f a b,
  get f a = Some Dir -> get f (parent b) = Some Dir -> get f b = Some Dir -> a <> b ->
  under a b = false -> has_children f b = true -> rename f a b = FErr ENOTEMPTY.
Proof.
  intros f a b Ha Hp Hb Hab Hu Hc. unfold rename. rewrite Ha, Hp.
  apply path_eqb_neq in Hab. rewrite Hab, Hb, Hu, Hc. destruct (under b a); reflexivity.
Qed.

Lemma rename_missing : forall f a b, get f a = None -> rename f a b = FErr ENOENT.
Proof. intros f a b H. unfold rename. rewrite H. reflexivity. Qed.

(* round trip of a file rename: moving a file away and back restores the tree, provided the
   temporary name was free *)
Lemma rename_file_roundtrip : forall f a t c f1 f2,
  get f a = Some (File c) -> get f t = None ->
  rename f a t = FOk f1 -> rename f1 t a = FOk f2 -> fs_eq f2 f.
Proof.
  intros f a t c f1 f2 Ha Ht H1 H2 q.
  assert (Hat : a <> t) by (intro E; subst; congruence).
  pose proof (get_rename_file f a t c f1) as G1.
  assert (Ht1 : get f1 t = Some (File c)).
  { rewrite (G1 t Ha Hat H1). rewrite path_eqb_refl. reflexivity. }
  rewrite (get_rename_file f1 t a c f2 q Ht1 (not_eq_sym Hat) H2).
  destruct (path_eqb q a) eqn:Ea.
  - apply path_eqb_eq in Ea. subst q. symmetry. exact Ha.
  - destruct (path_eqb q t) eqn:Et.
    + apply path_eqb_eq in Et. subst q. symmetry. exact Ht.
    + rewrite (G1 q Ha Hat H1). rewrite Et, Ea. reflexivity.
Qed.

(* the rollback rename cannot fail once the forward one succeeded and nothing else changed *)
Lemma rename_file_back_ok : forall f a t c f1,
  get f a = Some (File c) -> get f t = None -> get f (parent a) = Some Dir -> parent a <> t ->
  rename f a t = FOk f1 -> exists f2, rename f1 t a = FOk f2.
Proof.
  intros f a t c f1 Ha Ht Hpa Hpt H1.
  assert (Hat : a <> t) by (intro E; subst; congruence).
  pose proof (get_rename_file f a t c f1) as G1.
  assert (Ht1 : get f1 t = Some (File c)).
  { rewrite (G1 t Ha Hat H1). rewrite path_eqb_refl. reflexivity. }
  assert (Ha1 : get f1 a = None).
  { rewrite (G1 a Ha Hat H1). apply path_eqb_neq in Hat. rewrite Hat, path_eqb_refl. reflexivity. }
  assert (Hpa1 : get f1 (parent a) = Some Dir).
  { rewrite (G1 (parent a) Ha Hat H1).
    apply path_eqb_neq in Hpt. rewrite Hpt.
    destruct (path_eqb (parent a) a) eqn:E; [|exact Hpa].
    apply path_eqb_eq in E. rewrite E in Hpa. congruence. }
  unfold rename. rewrite Ht1, Hpa1.
  assert (Hta : path_eqb t a = false) by (apply path_eqb_neq; auto).
  rewrite Hta, Ha1. eauto.
Qed.

(* ------------------------------------------------------------------ frame lemmas *)
(* An operation on path p leaves every entry that is not under p unchanged. *)
Lemma mkdir_frame : forall f p f' q, mkdir f p = FOk f' -> under p q = false -> get f' q = get f q.
Proof.
  intros f p f' q H Hu. rewrite (get_mkdir f p f' q H).
  destruct (path_eqb q p) eqn:E; auto. apply path_eqb_eq in E. subst. rewrite under_refl in Hu. discriminate.
Qed.

Lemma write_file_frame : forall f p c f' q, write_file f p c = FOk f' -> q <> p -> get f' q = get f q.
Proof.
  intros f p c f' q H Hne. rewrite (get_write_file f p c f' q H).
  apply path_eqb_neq in Hne. rewrite Hne. reflexivity.
Qed.

Lemma unlink_frame : forall f p f' q, unlink f p = FOk f' -> q <> p -> get f' q = get f q.
Proof.
  intros f p f' q H Hne. rewrite (get_unlink f p f' q H).
  apply path_eqb_neq in Hne. rewrite Hne. reflexivity.
Qed.

Lemma rmtree_frame : forall f p f' q, rmtree f p = FOk f' -> under p q = false -> get f' q = get f q.
Proof. intros f p f' q H Hu. rewrite (get_rmtree f p f' q H), Hu. reflexivity. Qed.

Lemma rename_dir_frame : forall f a b f' q,
  get f a = Some Dir -> a <> b -> rename f a b = FOk f' ->
  under a q = false -> under b q = false -> get f' q = get f q.
Proof.
  intros f a b f' q Ha Hab H Hua Hub. rewrite (get_rename_dir f a b f' q Ha Hab H).
  unfold under in Hub. destruct (strip b q); [discriminate|]. rewrite Hua. reflexivity.
Qed.

Lemma rename_file_frame : forall f a b c f' q,
  get f a = Some (File c) -> a <> b -> rename f a b = FOk f' -> q <> a -> q <> b -> get f' q = get f q.
Proof.
  intros f a b c f' q Ha Hab H Hqa Hqb. rewrite (get_rename_file f a b c f' q Ha Hab H).
  apply path_eqb_neq in Hqa, Hqb. rewrite Hqa, Hqb. reflexivity.
Qed.

(* the moved sub-tree arrives intact *)
Lemma rename_dir_carry : forall f a b f' r,
  get f a = Some Dir -> a <> b -> rename f a b = FOk f' -> get f' (b ++ r) = get f (a ++ r).
Proof.
  intros f a b f' r Ha Hab H. rewrite (get_rename_dir f a b f' (b ++ r) Ha Hab H).
  rewrite strip_app. reflexivity.
Qed.

Lemma rename_dir_src_gone : forall f a b f' r,
  get f a = Some Dir -> a <> b -> rename f a b = FOk f' -> get f' (a ++ r) = None.
Proof.
  intros f a b f' r Ha Hab H. rewrite (get_rename_dir f a b f' (a ++ r) Ha Hab H).
  destruct (strip b (a ++ r)) as [r'|] eqn:E.
  - exfalso. apply strip_spec in E.
    unfold rename in H. rewrite Ha in H.
    destruct (get f (parent b)) as [[c1|]|]; try discriminate.
    apply path_eqb_neq in Hab. rewrite Hab in H.
    assert (Hba : under b a = false /\ under a b = false).
    { destruct (get f b) as [[c2|]|]; try discriminate;
        destruct (under a b); try discriminate; destruct (under b a); try discriminate; auto. }
    destruct Hba as [Hba Hab'].
    assert (Hu : under b (a ++ r) = true) by (rewrite E; apply under_app).
    destruct (under_comparable a b (a ++ r) (under_app a r) Hu); congruence.
  - rewrite under_app. reflexivity.
Qed.

(* ------------------------------------------------------------------ makedirs *)
Lemma makedirs_from_get_old : forall ok rest f base f' q,
  makedirs_from ok f base rest = FOk f' -> get f q <> None -> get f' q = get f q.
Proof.
  induction rest as [|c rest IH]; intros f base f' q H Hq; simpl in H.
  - inversion H; reflexivity.
  - destruct (get f (base ++ [c])) as [[c0|]|] eqn:Ec.
    + destruct rest; discriminate.
    + destruct rest as [|c' rest'].
      * destruct ok; inversion H; reflexivity.
      * eapply IH; eauto.
    + assert (Hstep : get ((base ++ [c], Dir) :: f) q = get f q).
      { destruct q as [|x q]; simpl; auto.
        destruct (path_eqb (x :: q) (base ++ [c])) eqn:E; auto.
        apply path_eqb_eq in E. rewrite E in Hq. congruence. }
      rewrite <- Hstep. eapply IH; eauto. rewrite Hstep. exact Hq.
Qed.

Lemma makedirs_from_frame : forall ok rest f base f' q,
  makedirs_from ok f base rest = FOk f' -> under q (base ++ rest) = false -> q <> [] -> get f' q = get f q.
Proof.
  induction rest as [|c rest IH]; intros f base f' q H Hu Hq0; simpl in H.
  - inversion H; reflexivity.
  - assert (Hu' : under q ((base ++ [c]) ++ rest) = false) by (rewrite <- app_assoc; exact Hu).
    destruct (get f (base ++ [c])) as [[c0|]|] eqn:Ec.
    + destruct rest; discriminate.
    + destruct rest as [|c' rest'].
      * destruct ok; inversion H; reflexivity.
      * eapply IH; eauto.
    + rewrite (IH _ _ _ q H Hu' Hq0).
      destruct q as [|x q]; [contradiction|]. simpl.
      destruct (path_eqb (x :: q) (base ++ [c])) eqn:E; auto.
      apply path_eqb_eq in E. rewrite E in Hu'. rewrite under_app in Hu'. discriminate.
Qed.

Lemma makedirs_from_isdir : forall ok rest f base f',
  makedirs_from ok f base rest = FOk f' -> get f base = Some Dir -> get f' (base ++ rest) = Some Dir.
Proof.
  induction rest as [|c rest IH]; intros f base f' H Hb; simpl in H.
  - inversion H; subst. rewrite app_nil_r. exact Hb.
  - replace (base ++ c :: rest) with ((base ++ [c]) ++ rest) by (rewrite <- app_assoc; reflexivity).
    destruct (get f (base ++ [c])) as [[c0|]|] eqn:Ec.
    + destruct rest; discriminate.
    + destruct rest as [|c' rest'].
      * destruct ok; inversion H; subst; rewrite app_nil_r; exact Ec.
      * eapply IH; eauto.
    + eapply IH; eauto. rewrite get_app_cons. simpl. rewrite path_eqb_refl. reflexivity.
Qed.

(* makedirs on an existing directory changes nothing *)
Lemma makedirs_from_existing : forall rest f base,
  (forall k, (k <= length rest)%nat -> k <> 0%nat -> get f (base ++ firstn k rest) = Some Dir) ->
  makedirs_from true f base rest = FOk f.
Proof.
  induction rest as [|c rest IH]; intros f base H; simpl; auto.
  assert (H1 : get f (base ++ [c]) = Some Dir).
  { apply (H 1%nat); simpl; lia. }
  rewrite H1. destruct rest as [|c' rest']; auto.
  apply IH. intros k Hk Hk0. rewrite <- app_assoc. apply (H (S k)); simpl in *; lia.
Qed.

(* creating exactly one new leaf directory below an existing chain of directories *)
Lemma makedirs_from_leaf : forall rest f base n,
  (forall k, (1 <= k <= length rest)%nat -> get f (base ++ firstn k rest) = Some Dir) ->
  get f (base ++ rest ++ [n]) = None ->
  makedirs_from true f base (rest ++ [n]) = FOk ((base ++ rest ++ [n], Dir) :: f).
Proof.
  induction rest as [|c rest IH]; intros f base n Hd Hn; simpl.
  - simpl in Hn. rewrite Hn. reflexivity.
  - assert (H1 : get f (base ++ [c]) = Some Dir) by (apply (Hd 1%nat); simpl; lia).
    rewrite H1.
    destruct (rest ++ [n]) as [|x r] eqn:E; [destruct rest; discriminate|]. rewrite <- E.
    replace (base ++ c :: rest ++ [n]) with ((base ++ [c]) ++ rest ++ [n]) by (rewrite <- app_assoc; reflexivity).
    apply IH.
    + intros k Hk. rewrite <- app_assoc. apply (Hd (S k)). simpl. lia.
    + rewrite <- app_assoc. exact Hn.
Qed.

Lemma makedirs_leaf : forall f p n,
  (forall k, (k <= length p)%nat -> get f (firstn k p) = Some Dir) ->
  get f (p ++ [n]) = None ->
  makedirs f (p ++ [n]) = FOk ((p ++ [n], Dir) :: f).
Proof.
  intros f p n Hd Hn. unfold makedirs. apply (makedirs_from_leaf p f [] n); auto.
  intros k Hk. simpl. apply Hd. lia.
Qed.

Lemma get_cons_entry : forall f p n q, p <> [] ->
  get ((p, n) :: f) q = if path_eqb q p then Some n else get f q.
Proof.
  intros f p n q Hp. destruct q as [|x q]; simpl.
  - destruct p; [contradiction|reflexivity].
  - reflexivity.
Qed.

(* ------------------------------------------------------------------ more facts used by the workspace layer *)
Lemma has_children_get : forall f p,
  has_children f p = true <-> exists q n, below p q = true /\ get f q = Some n.
Proof.
  intros f p. rewrite has_children_spec. split.
  - intros [q [Hb Hin]]. apply In_keys_lookup in Hin. destruct Hin as [n Hn].
    exists q, n. split; auto. apply below_spec in Hb. destruct Hb as [x [r ->]].
    rewrite get_app_cons. exact Hn.
  - intros [q [n [Hb Hg]]]. exists q. split; auto. apply In_keys_lookup.
    apply below_spec in Hb. destruct Hb as [x [r ->]]. rewrite get_app_cons in Hg. eauto.
Qed.

(* two different names in one directory are incomparable *)
Lemma sibling_not_under : forall (p : path) a b, a <> b -> under (p ++ [a]) (p ++ [b]) = false.
Proof.
  intros p a b Hab. destruct (under (p ++ [a]) (p ++ [b])) eqn:E; auto.
  apply under_spec in E. destruct E as [r E]. rewrite <- app_assoc in E. apply app_inv_head in E.
  simpl in E. inversion E. congruence.
Qed.

Lemma sibling_not_under_deep : forall (p : path) a b r, a <> b -> under (p ++ [a]) (p ++ b :: r) = false.
Proof.
  intros p a b r Hab. destruct (under (p ++ [a]) (p ++ b :: r)) eqn:E; auto.
  apply under_spec in E. destruct E as [r' E]. rewrite <- app_assoc in E. apply app_inv_head in E.
  simpl in E. inversion E. congruence.
Qed.

Lemma under_neq : forall p q, under p q = false -> q <> p.
Proof. intros p q H E. subst. rewrite under_refl in H. discriminate. Qed.

(* the conditions under which os.replace of a directory succeeds *)
Lemma rename_dir_ok : forall f a b,
  get f a = Some Dir -> get f (parent b) = Some Dir -> a <> b ->
  under a b = false -> under b a = false ->
  (get f b = None \/ get f b = Some Dir) -> has_children f b = false ->
  rename f a b = FOk (move_tree a b (del_under b f)).
Proof.
  intros f a b Ha Hp Hab Hu1 Hu2 Hb Hc. unfold rename. rewrite Ha, Hp.
  apply path_eqb_neq in Hab. rewrite Hab.
  destruct Hb as [Hb|Hb]; rewrite Hb, Hu1, Hu2, Hc; reflexivity.
Qed.

(* makedirs with exist_ok=False on a path that exists *)
Lemma makedirs_from_exists : forall rest f base n x,
  (forall k, (1 <= k <= length rest)%nat -> get f (base ++ firstn k rest) = Some Dir) ->
  get f (base ++ rest ++ [n]) = Some x ->
  makedirs_from false f base (rest ++ [n]) = FErr EEXIST.
Proof.
  induction rest as [|c rest IH]; intros f base n x Hd Hn; simpl.
  - simpl in Hn. rewrite Hn. destruct x; reflexivity.
  - assert (H1 : get f (base ++ [c]) = Some Dir) by (apply (Hd 1%nat); simpl; lia).
    rewrite H1.
    destruct (rest ++ [n]) as [|y r] eqn:E; [destruct rest; discriminate|]. rewrite <- E.
    assert (Hn' : get f ((base ++ [c]) ++ rest ++ [n]) = Some x) by (rewrite <- app_assoc; exact Hn).
    eapply IH; [|exact Hn'].
    intros k Hk. rewrite <- app_assoc. apply (Hd (S k)). simpl. lia.
Qed.

Lemma makedirs_from_leaf_new : forall rest f base n,
  (forall k, (1 <= k <= length rest)%nat -> get f (base ++ firstn k rest) = Some Dir) ->
  get f (base ++ rest ++ [n]) = None ->
  makedirs_from false f base (rest ++ [n]) = FOk ((base ++ rest ++ [n], Dir) :: f).
Proof.
  induction rest as [|c rest IH]; intros f base n Hd Hn; simpl.
  - simpl in Hn. rewrite Hn. reflexivity.
  - assert (H1 : get f (base ++ [c]) = Some Dir) by (apply (Hd 1%nat); simpl; lia).
    rewrite H1.
    destruct (rest ++ [n]) as [|x r] eqn:E; [destruct rest; discriminate|]. rewrite <- E.
    replace (base ++ c :: rest ++ [n]) with ((base ++ [c]) ++ rest ++ [n]) by (rewrite <- app_assoc; reflexivity).
    apply IH.
    + intros k Hk. rewrite <- app_assoc. apply (Hd (S k)). simpl. lia.
    + rewrite <- app_assoc. exact Hn.
Qed.

(* shutil.copytree: fails with EEXIST whenever the destination exists (even as an empty directory) *)
Lemma copytree_exists : forall f a p n x,
  get f a = Some Dir -> under a (p ++ [n]) = false ->
  (forall k, (k <= length p)%nat -> get f (firstn k p) = Some Dir) ->
  get f (p ++ [n]) = Some x ->
  copytree f a (p ++ [n]) = FErr EEXIST.
Proof.
  intros f a p n x Ha Hu Hd Hx. unfold copytree. rewrite Ha. unfold makedirs_new.
  rewrite (makedirs_from_exists p f [] n x); auto. intros k Hk. simpl. apply Hd. lia.
Qed.

Lemma copytree_missing : forall f a b, get f a = None -> copytree f a b = FErr ENOENT.
Proof. intros f a b H. unfold copytree. rewrite H. reflexivity. Qed.

(* keys of a moved list all lie under the destination *)
Lemma lookup_move_tree_all_src : forall a b q g,
  (forall k, In k (map fst g) -> under a k = true) -> under b q = false ->
  lookup q (move_tree a b g) = None.
Proof.
  intros a b q g Hall Hq. induction g as [|[k n] g IH]; simpl; auto.
  assert (Hk : under a k = true) by (apply Hall; simpl; auto).
  unfold rekey at 1. simpl. unfold under in Hk. destruct (strip a k) as [r|] eqn:E; [|discriminate]. simpl.
  assert (E1 : path_eqb q (b ++ r) = false) by (apply path_eqb_neq; apply under_false_app; auto).
  rewrite E1. apply IH. intros k' Hk'. apply Hall. simpl. auto.
Qed.

(* copytree into a fresh leaf of an existing directory chain: the copy is exact, everything else untouched *)
Lemma get_copytree : forall f a p n f' q,
  get f a = Some Dir -> under a (p ++ [n]) = false -> under (p ++ [n]) a = false ->
  (forall k, (k <= length p)%nat -> get f (firstn k p) = Some Dir) ->
  get f (p ++ [n]) = None ->
  copytree f a (p ++ [n]) = FOk f' ->
  get f' q =
    match strip (p ++ [n]) q with
    | Some [] => Some Dir
    | Some (x :: r) => match get f (a ++ x :: r) with Some v => Some v | None => get f q end
    | None => get f q
    end.
Proof.
  intros f a p n f' q Ha Hu1 Hu2 Hd Hn H. set (b := p ++ [n]) in *.
  unfold copytree in H. rewrite Ha in H. unfold makedirs_new in H. fold b in H.
  assert (Hmk : makedirs_from false f [] b = FOk ((b, Dir) :: f)).
  { unfold b. apply (makedirs_from_leaf_new p f [] n); auto. intros k Hk. simpl. apply Hd. lia. }
  rewrite Hmk, Hu1 in H. inversion H; subst f'. clear H.
  assert (Hb0 : b <> []) by (unfold b; destruct p; discriminate).
  set (g := filter (fun e => below a (fst e)) f).
  assert (Hg : forall k, In k (map fst g) -> under a k = true /\ under b k = false).
  { intros k Hk. apply in_map_iff in Hk. destruct Hk as [[k' m] [<- Hin]]. apply filter_In in Hin.
    destruct Hin as [_ Hbel]. simpl in *. split; [apply below_under; exact Hbel|].
    destruct (under b k') eqn:E; auto.
    destruct (under_comparable a b k' (below_under _ _ Hbel) E); congruence. }
  assert (Hclean : forall k, In k (map fst g) -> under b k = false) by (intros k Hk; apply Hg; exact Hk).
  assert (Hsrc : forall k, In k (map fst g) -> under a k = true) by (intros k Hk; apply Hg; exact Hk).
  assert (Hlg : forall r, lookup (a ++ r) g = match r with [] => None | _ => lookup (a ++ r) f end).
  { intro r. unfold g. rewrite (lookup_filter (fun k => below a k)).
    destruct r as [|x r].
    - assert (Hb : below a (a ++ []) = false).
      { destruct (below a (a ++ [])) eqn:Eb; auto. apply below_spec in Eb. destruct Eb as [y [r' Eb]].
        apply app_inv_head in Eb. discriminate. }
      rewrite Hb. reflexivity.
    - assert (Hb : below a (a ++ x :: r) = true) by (apply below_spec; eauto). rewrite Hb. reflexivity. }
  destruct q as [|x0 q0].
  { destruct (strip b []) as [r|] eqn:E; [|reflexivity].
    apply strip_spec in E. destruct b; [contradiction|discriminate]. }
  rewrite get_cons_path, lookup_app. set (q := x0 :: q0).
  destruct (strip b q) as [[|x r]|] eqn:E.
  - apply strip_spec in E. rewrite E.
    rewrite (lookup_move_tree_dst a b [] g Hclean), Hlg. rewrite app_nil_r. simpl.
    rewrite path_eqb_refl. reflexivity.
  - apply strip_spec in E. rewrite E.
    rewrite (lookup_move_tree_dst a b (x :: r) g Hclean), Hlg.
    rewrite <- (get_app_cons f a x r).
    destruct (get f (a ++ x :: r)) as [v|]; [reflexivity|].
    simpl. assert (Hne : path_eqb (b ++ x :: r) b = false).
    { apply path_eqb_neq. intro H. rewrite <- (app_nil_r b) in H at 2. apply app_inv_head in H. discriminate. }
    rewrite Hne. rewrite get_app_cons. reflexivity.
  - assert (Hq : under b q = false) by (unfold under; rewrite E; reflexivity).
    rewrite (lookup_move_tree_all_src a b q g Hsrc Hq). simpl.
    assert (Hne : path_eqb q b = false).
    { apply path_eqb_neq. intro H. rewrite H, under_refl in Hq. discriminate. }
    rewrite Hne. reflexivity.
Qed.
