(* C10Proofs.v — lemmas for C10 (documents and the cache file are replaced atomically). *)
From SV Require Import Base Atomic CorrC10.

Local Open Scope N_scope.

(* steps that only concern the temp file *)
Definition tmpstep (tmp : N) (s : wstep) : Prop :=
  match s with
  | WOpen n => n = tmp
  | WAppend _ => True
  | WClose => True
  | WUnlink n => n = tmp
  | WRename _ _ => False
  end.

(* what such steps cannot disturb: every other name, the inode behind it, and the fact that neither the
   writer's descriptor nor the temp name refer to such an inode *)
Definition tmp_inv (fs : afs) (tmp : N) (st : wstate) : Prop :=
  (forall n, n <> tmp -> dent (w_fs st) n = dent fs n) /\
  (forall n i, n <> tmp -> dent fs n = Some i ->
     ino (w_fs st) i = ino fs i /\ i < next (w_fs st) /\ w_fd st <> Some i /\ dent (w_fs st) tmp <> Some i).

Lemma tmp_inv_start : forall fs tmp, wf_afs fs -> tmp_inv fs tmp (start fs).
Proof.
  intros fs tmp [Hlt Hinj]. split; [reflexivity|]. simpl. intros n i Hn Hd. repeat split.
  - eapply Hlt; eauto.
  - discriminate.
  - intro Ht. apply Hn. eapply Hinj; eauto.
Qed.

Ltac solve_inv :=
  simpl; rewrite ?upd_same;
  first [ assumption
        | lia
        | discriminate
        | (rewrite upd_other by assumption; assumption)
        | (let E := fresh in intro E; inversion E; subst; first [contradiction | lia | congruence]) ].

Lemma tmp_inv_step : forall fs tmp st s, tmp_inv fs tmp st -> tmpstep tmp s -> tmp_inv fs tmp (wexec st s).
Proof.
  intros fs tmp st s Hinv Hs. destruct s as [n|c| |a b|n]; simpl in Hs; try contradiction; subst.
  - (* WOpen tmp *)
    unfold wexec. destruct (dent (w_fs st) tmp) as [it|] eqn:Et; destruct Hinv as [Hd Hi].
    + split; [exact Hd|]. intros n i Hn Hb. destruct (Hi n i Hn Hb) as (H1 & H2 & H3 & H4).
      assert (Hne : i <> it) by (intro; subst; apply H4; exact Et).
      repeat split; solve_inv.
    + split.
      * intros n Hn. simpl. rewrite upd_other by exact Hn. apply Hd; exact Hn.
      * intros n i Hn Hb. destruct (Hi n i Hn Hb) as (H1 & H2 & H3 & H4).
        assert (Hne : i <> next (w_fs st)) by lia.
        repeat split; solve_inv.
  - (* WAppend *)
    unfold wexec. destruct (w_fd st) as [it|] eqn:Ef; [|exact Hinv]. destruct Hinv as [Hd Hi].
    split; [exact Hd|]. intros n i Hn Hb. destruct (Hi n i Hn Hb) as (H1 & H2 & H3 & H4).
    assert (Hne : i <> it) by (intro; subst; apply H3; exact Ef).
    repeat split; solve_inv.
  - (* WClose *)
    destruct Hinv as [Hd Hi].
    split; [exact Hd|]. intros n i Hn Hb. destruct (Hi n i Hn Hb) as (H1 & H2 & H3 & H4).
    repeat split; solve_inv.
  - (* WUnlink tmp *)
    destruct Hinv as [Hd Hi]. split.
    + intros n Hn. simpl. rewrite upd_other by exact Hn. apply Hd; exact Hn.
    + intros n i Hn Hb. destruct (Hi n i Hn Hb) as (H1 & H2 & H3 & H4).
      repeat split; solve_inv.
Qed.

Lemma tmp_inv_run : forall fs tmp l st, tmp_inv fs tmp st -> Forall (tmpstep tmp) l -> tmp_inv fs tmp (wrun st l).
Proof.
  intros fs tmp l. induction l as [|s l IH]; intros st Hinv Hall; simpl; [exact Hinv|].
  inversion Hall; subst. apply IH; [apply tmp_inv_step; assumption|assumption].
Qed.

Lemma tmp_inv_read : forall fs tmp st n, tmp_inv fs tmp st -> n <> tmp -> read_name (w_fs st) n = read_name fs n.
Proof.
  intros fs tmp st n [Hd Hi] Hn. unfold read_name. rewrite (Hd n Hn).
  destruct (dent fs n) as [i|] eqn:E; [|reflexivity].
  destruct (Hi n i Hn E) as (H1 & _). rewrite H1. reflexivity.
Qed.

(* ---- the temp file's own contents ---- *)
Lemma wrun_app : forall l1 l2 st, wrun st (l1 ++ l2) = wrun (wrun st l1) l2.
Proof. intros. unfold wrun. apply fold_left_app. Qed.

Lemma appends_content : forall cs st it,
  w_fd st = Some it ->
  let st' := wrun st (map WAppend cs) in
  w_fd st' = Some it /\ dent (w_fs st') = dent (w_fs st) /\ next (w_fs st') = next (w_fs st) /\
  ino (w_fs st') it = ino (w_fs st) it ++ concat cs /\
  (forall i, i <> it -> ino (w_fs st') i = ino (w_fs st) i).
Proof.
  induction cs as [|c cs IH]; intros st it Hfd; simpl.
  - rewrite app_nil_r. repeat split; auto.
  - rewrite Hfd.
    match goal with |- context [wrun ?s _] => destruct (IH s it eq_refl) as (A & B & C & D & E) end.
    simpl in *. repeat split; auto.
    + rewrite D. rewrite upd_same. rewrite <- app_assoc. reflexivity.
    + intros i Hi. rewrite (E i Hi). rewrite upd_other by exact Hi. reflexivity.
Qed.

(* the inode the temp name gets when it is opened *)
Definition it_of (fs : afs) (tmp : N) : N := match dent fs tmp with Some i => i | None => next fs end.

Lemma open_tmp : forall fs tmp,
  let st := wexec (start fs) (WOpen tmp) in
  w_fd st = Some (it_of fs tmp) /\ dent (w_fs st) tmp = Some (it_of fs tmp) /\ ino (w_fs st) (it_of fs tmp) = [].
Proof.
  intros fs tmp. unfold it_of. simpl. destruct (dent fs tmp) as [i|] eqn:E; simpl.
  - rewrite E, upd_same. auto.
  - rewrite !upd_same. auto.
Qed.

(* state just before the rename: the temp name is bound to an inode holding exactly the new contents *)
Lemma before_rename : forall fs tmp chunks,
  let st := wrun (start fs) (WOpen tmp :: map WAppend chunks ++ [WClose]) in
  dent (w_fs st) tmp = Some (it_of fs tmp) /\ ino (w_fs st) (it_of fs tmp) = concat chunks /\ w_fd st = None.
Proof.
  intros fs tmp chunks. cbv zeta. change (WOpen tmp :: map WAppend chunks ++ [WClose]) with ([WOpen tmp] ++ map WAppend chunks ++ [WClose]).
  rewrite !wrun_app. change (wrun (start fs) [WOpen tmp]) with (wexec (start fs) (WOpen tmp)).
  destruct (open_tmp fs tmp) as (A & B & C).
  destruct (appends_content chunks _ _ A) as (A' & B' & _ & D' & _).
  set (s0 := wexec (start fs) (WOpen tmp)) in *.
  set (s1 := wrun s0 (map WAppend chunks)) in *.
  simpl. rewrite B', B, D', C. simpl. auto.
Qed.

Lemma rename_result : forall fs tmp target st it new,
  tmp <> target -> tmp_inv fs tmp st -> dent (w_fs st) tmp = Some it -> ino (w_fs st) it = new ->
  let st' := wexec st (WRename tmp target) in
  read_name (w_fs st') target = Some new /\ dent (w_fs st') tmp = None /\
  (forall n, n <> tmp -> n <> target -> read_name (w_fs st') n = read_name fs n) /\
  (forall i, ino (w_fs st') i = ino (w_fs st) i).
Proof.
  intros fs tmp target st it new Hne Hinv Ht Hc. cbv zeta. unfold wexec. rewrite Ht.
  assert (E : N.eqb tmp target = false) by (apply N.eqb_neq; exact Hne). rewrite E. simpl.
  unfold read_name. simpl. repeat split.
  - rewrite upd_same. rewrite Hc. reflexivity.
  - rewrite upd_other by exact Hne. rewrite upd_same. reflexivity.
  - intros n H1 H2. rewrite upd_other by exact H2. rewrite upd_other by exact H1.
    apply (tmp_inv_read fs tmp st n Hinv H1).
Qed.

(* ---- shape of prefixes ---- *)
Lemma tmpsteps_body : forall tmp chunks, Forall (tmpstep tmp) (WOpen tmp :: map WAppend chunks ++ [WClose]).
Proof.
  intros. constructor; [reflexivity|]. apply Forall_app. split.
  - apply Forall_forall. intros x Hx. apply in_map_iff in Hx. destruct Hx as (c & <- & _). exact I.
  - constructor; [exact I|constructor].
Qed.

Lemma Forall_prefix : forall A (P : A -> Prop) l1 l2, Forall P (l1 ++ l2) -> Forall P l1.
Proof. intros A P l1 l2 H. apply Forall_app in H. tauto. Qed.

Lemma atomic_write_snoc : forall tmp target chunks,
  atomic_write tmp target chunks = (WOpen tmp :: map WAppend chunks ++ [WClose]) ++ [WRename tmp target].
Proof. intros. unfold atomic_write. simpl. rewrite <- app_assoc. reflexivity. Qed.

(* a prefix of a list [body ++ [x]] is the whole list or a prefix of body *)
Lemma prefix_snoc : forall A (body : list A) x p p', body ++ [x] = p ++ p' -> p' = [] \/ exists r, body = p ++ r.
Proof.
  intros A body x p p' H. destruct p' as [|y p'] using rev_ind; [left; reflexivity|]. clear IHp'.
  right. rewrite app_assoc in H. apply app_inj_tail in H. destruct H as [H _]. eauto.
Qed.

Lemma prefix_cases : forall tmp target chunks p p',
  atomic_write tmp target chunks = p ++ p' -> p' = [] \/ Forall (tmpstep tmp) p.
Proof.
  intros tmp target chunks p p' H. rewrite atomic_write_snoc in H.
  apply prefix_snoc in H. destruct H as [H|[r H]]; [left; exact H|right].
  eapply Forall_prefix. rewrite <- H. apply tmpsteps_body.
Qed.

(* torn prefixes: the complete program, or temp-file steps only *)
Lemma torn_tail : forall tmp target cs q,
  torn_prefix (map WAppend cs ++ [WClose; WRename tmp target]) q ->
  q = map WAppend cs ++ [WClose; WRename tmp target] \/ Forall (tmpstep tmp) q.
Proof.
  intros tmp target cs. induction cs as [|c cs IH]; intros q H; simpl in *.
  - inversion H; subst; [right; constructor|].
    match goal with Hq : torn_prefix [WRename _ _] _ |- _ => inversion Hq; subst end.
    + right. constructor; [exact I|constructor].
    + match goal with Hq : torn_prefix [] _ |- _ => inversion Hq; subst end. left. reflexivity.
  - inversion H; subst.
    + right. constructor.
    + match goal with Hq : torn_prefix _ _ |- _ => destruct (IH _ Hq) as [-> | Hf] end.
      * left. reflexivity.
      * right. constructor; [exact I|exact Hf].
    + right. constructor; [exact I|constructor].
Qed.

Lemma torn_cases : forall tmp target chunks q,
  torn_prefix (atomic_write tmp target chunks) q ->
  q = atomic_write tmp target chunks \/ Forall (tmpstep tmp) q.
Proof.
  intros tmp target chunks q H. unfold atomic_write in *. inversion H; subst.
  - right. constructor.
  - match goal with Hq : torn_prefix _ _ |- _ => destruct (torn_tail _ _ _ _ Hq) as [-> | Hf] end.
    + left. reflexivity.
    + right. constructor; [reflexivity|exact Hf].
Qed.

(* ---- the complete atomic write ---- *)
Lemma atomic_complete : forall fs tmp target chunks,
  wf_afs fs -> tmp <> target ->
  let st := wrun (start fs) (atomic_write tmp target chunks) in
  read_name (w_fs st) target = Some (concat chunks) /\ dent (w_fs st) tmp = None /\
  (forall n, n <> tmp -> n <> target -> read_name (w_fs st) n = read_name fs n).
Proof.
  intros fs tmp target chunks Hwf Hne. cbv zeta. rewrite atomic_write_snoc, wrun_app.
  destruct (before_rename fs tmp chunks) as (A & B & C).
  assert (Hinv : tmp_inv fs tmp (wrun (start fs) (WOpen tmp :: map WAppend chunks ++ [WClose]))).
  { apply tmp_inv_run; [apply tmp_inv_start; exact Hwf|apply tmpsteps_body]. }
  destruct (rename_result fs tmp target _ _ _ Hne Hinv A B) as (R1 & R2 & R3 & _).
  change (wrun ?s [WRename tmp target]) with (wexec s (WRename tmp target)). auto.
Qed.

(* ================= atomic_prefix_safe ================= *)
Theorem atomic_prefix_safe : forall fs tmp target chunks q,
  wf_afs fs -> tmp <> target ->
  torn_prefix (atomic_write tmp target chunks) q ->
  let fs' := w_fs (wrun (start fs) q) in
  (read_name fs' target = read_name fs target \/ read_name fs' target = Some (concat chunks)) /\
  (forall n, n <> tmp -> n <> target -> read_name fs' n = read_name fs n).
Proof.
  intros fs tmp target chunks q Hwf Hne Hq. cbv zeta.
  destruct (torn_cases _ _ _ _ Hq) as [-> | Hf].
  - destruct (atomic_complete fs tmp target chunks Hwf Hne) as (A & _ & C). split; [right; exact A|exact C].
  - assert (Hinv : tmp_inv fs tmp (wrun (start fs) q)) by (apply tmp_inv_run; [apply tmp_inv_start; exact Hwf|exact Hf]).
    split.
    + left. apply (tmp_inv_read fs tmp _ target Hinv). auto.
    + intros n H1 _. apply (tmp_inv_read fs tmp _ n Hinv H1).
Qed.

(* ================= direct_write_refuted ================= *)
Definition fs_one (d : bytes) : afs :=
  {| ino := upd (fun _ => []) 1 d; dent := upd (fun _ => None) 0 (Some 1); next := 2 |}.

Lemma fs_one_wf : forall d, wf_afs (fs_one d).
Proof.
  intro d. split; simpl.
  - intros n i H. unfold upd in H. destruct (N.eqb n 0); inversion H. lia.
  - intros n m i H1 H2. unfold upd in *. destruct (N.eqb n 0) eqn:E1; destruct (N.eqb m 0) eqn:E2; try discriminate.
    apply N.eqb_eq in E1, E2. congruence.
Qed.

Theorem direct_write_refuted :
  exists fs target chunks q,
    wf_afs fs /\ torn_prefix (direct_write target chunks) q /\
    let got := read_name (w_fs (wrun (start fs) q)) target in
    got = Some [] /\ got <> read_name fs target /\ got <> Some (concat chunks).
Proof.
  exists (fs_one [1]), 0, [[2; 3]], [WOpen 0]. split; [apply fs_one_wf|]. split.
  - unfold direct_write. simpl. apply tp_step. apply tp_stop.
  - vm_compute. repeat split; discriminate.
Qed.

(* a torn append is visible as well *)
Theorem direct_write_torn :
  exists fs target chunks q,
    wf_afs fs /\ torn_prefix (direct_write target chunks) q /\
    read_name (w_fs (wrun (start fs) q)) target = Some [2].
Proof.
  exists (fs_one [1]), 0, [[2; 3]], [WOpen 0; WAppend [2]]. split; [apply fs_one_wf|]. split.
  - unfold direct_write. simpl. apply tp_step. apply (tp_torn [2; 3] [2] [3]). reflexivity.
  - reflexivity.
Qed.

(* and a concurrent reader of a direct write can obtain the empty file *)
Theorem direct_write_reader_refuted :
  exists fs target chunks sched ks,
    wf_afs fs /\
    let '(_, r, rp) := irun sched (start fs) (direct_write target chunks) rstart (reader target ks) in
    rp = [] /\ r_enoent r = false /\ r_got r = [] /\ read_name fs target = Some [1] /\ concat chunks = [2; 3].
Proof.
  exists (fs_one [1]), 0, [[2; 3]], [true; false; false; false], [10%nat].
  split; [apply fs_one_wf|]. vm_compute. repeat split.
Qed.

(* ================= the reader ================= *)
Local Close Scope N_scope.

Definition sum (l : list nat) : nat := fold_right plus 0 l.

Lemma sum_app : forall a b, sum (a ++ b) = sum a + sum b.
Proof. induction a; simpl; intros; [reflexivity|rewrite IHa; lia]. Qed.

Lemma firstn_read : forall (d : bytes) a k,
  firstn a d ++ firstn k (skipn (length (firstn a d)) d) = firstn (a + k) d.
Proof.
  intros d a k. destruct (Nat.le_gt_cases a (length d)) as [H|H].
  - rewrite firstn_length_le by exact H.
    rewrite <- (firstn_skipn a d) at 3. rewrite firstn_app.
    rewrite firstn_length_le by exact H.
    replace (a + k - a) with k by lia.
    f_equal. symmetry. apply firstn_all2. rewrite firstn_length_le by exact H. lia.
  - assert (E : firstn a d = d) by (apply firstn_all2; lia).
    rewrite E. rewrite skipn_all. rewrite firstn_nil, app_nil_r.
    symmetry. apply firstn_all2. lia.
Qed.

Lemma rename_ino : forall st a b i, ino (w_fs (wexec st (WRename a b))) i = ino (w_fs st) i.
Proof.
  intros. unfold wexec. destruct (dent (w_fs st) a); [destruct (N.eqb a b)|]; reflexivity.
Qed.

Definition no_open (rp : list rstep) : Prop := forall s, In s rp -> match s with ROpen _ => False | _ => True end.

Section Reader.
  Variables (target : N) (old : option bytes) (new : bytes).

  Definition acceptable (d : bytes) : Prop := old = Some d \/ d = new.

  (* the writer, in state w with wp still to do: whenever the target name is bound, the inode behind it
     keeps one acceptable content for the rest of the run; whenever it is not bound there was no old file *)
  Definition good_writer (w : wstate) (wp : list wstep) : Prop :=
    forall p1 p2, wp = p1 ++ p2 ->
      match dent (w_fs (wrun w p1)) target with
      | Some i => exists d, acceptable d /\ forall p3 p4, p2 = p3 ++ p4 -> ino (w_fs (wrun (wrun w p1) p3)) i = d
      | None => old = None
      end.

  Lemma good_writer_step : forall w s wp, good_writer w (s :: wp) -> good_writer (wexec w s) wp.
  Proof.
    intros w s wp H p1 p2 E. specialize (H (s :: p1) p2). simpl in H. apply H. rewrite E. reflexivity.
  Qed.

  Variable ks : list nat.

  Inductive reader_inv (w : wstate) (wp : list wstep) : rstate -> list rstep -> Prop :=
  | ri_start : reader_inv w wp rstart (reader target ks)
  | ri_enoent : forall r rp, r_enoent r = true -> r_fd r = None -> r_got r = [] -> old = None -> no_open rp ->
      reader_inv w wp r rp
  | ri_open : forall r i d done rest,
      r_fd r = Some i -> r_enoent r = false -> acceptable d ->
      (forall p3 p4, wp = p3 ++ p4 -> ino (w_fs (wrun w p3)) i = d) ->
      ks = done ++ rest -> r_got r = firstn (sum done) d -> r_pos r = length (r_got r) ->
      reader_inv w wp r (map RRead rest ++ [RClose])
  | ri_closed : forall r d, r_enoent r = false -> acceptable d -> r_got r = firstn (sum ks) d ->
      reader_inv w wp r [].

  Lemma reader_inv_wstep : forall w s wp r rp,
    reader_inv w (s :: wp) r rp -> reader_inv (wexec w s) wp r rp.
  Proof.
    intros w s wp r rp H. inversion H; subst.
    - apply ri_start.
    - apply ri_enoent; assumption.
    - eapply ri_open; eauto. intros p3 p4 E.
      match goal with Hs : forall p3 p4, s :: wp = _ -> _ |- _ => specialize (Hs (s :: p3) p4); simpl in Hs; apply Hs end.
      rewrite E. reflexivity.
    - eapply ri_closed; eauto.
  Qed.

  Lemma no_open_tail : forall s rp, no_open (s :: rp) -> no_open rp.
  Proof. intros s rp H x Hx. apply H. right. exact Hx. Qed.

  Lemma no_open_reads : forall rest, no_open (map RRead rest ++ [RClose]).
  Proof.
    intros rest s Hs. apply in_app_or in Hs. destruct Hs as [Hs|[<-|[]]]; [|exact I].
    apply in_map_iff in Hs. destruct Hs as (k & <- & _). exact I.
  Qed.

  Lemma reader_inv_rstep : forall w wp r s rp,
    good_writer w wp -> reader_inv w wp r (s :: rp) ->
    reader_inv w wp (rexec (w_fs w) r s) rp.
  Proof.
    intros w wp r s rp Hg H.
    remember (s :: rp) as rp0 eqn:Erp. destruct H as [|r rp1 He Hf Hgot Ho Hn|r i d done rest Hf He Hd Hst Eks Hgot Hp|r d He Hd Hgot].
    - (* the open *)
      unfold reader in Erp. inversion Erp; subst s rp.
      specialize (Hg [] wp eq_refl). simpl in Hg. simpl.
      destruct (dent (w_fs w) target) as [i|] eqn:Ed.
      + destruct Hg as (d & Hd & Hst).
        apply (ri_open w wp _ i d [] ks); simpl; auto.
      + apply ri_enoent; simpl; auto. apply no_open_reads.
    - (* after ENOENT every further step is a no-op on what was read *)
      subst rp1.
      pose proof (Hn s (or_introl eq_refl)) as Hs. pose proof (no_open_tail _ _ Hn) as Hn'.
      destruct s; simpl in *; [contradiction| |].
      + rewrite Hf. apply ri_enoent; auto.
      + apply ri_enoent; simpl; auto.
    - (* open: a read or the close *)
      destruct rest as [|k rest]; simpl in Erp.
      + inversion Erp; subst s rp. simpl.
        rewrite app_nil_r in Eks. subst done. eapply ri_closed; simpl; eauto.
      + inversion Erp; subst s rp. simpl. rewrite Hf.
        pose proof (Hst [] wp eq_refl) as Hnow. simpl in Hnow.
        eapply (ri_open w wp _ i d (done ++ [k]) rest); simpl; eauto.
        * rewrite <- app_assoc. exact Eks.
        * rewrite Hnow, Hp, Hgot.
          rewrite firstn_read. rewrite sum_app. simpl. rewrite Nat.add_0_r. reflexivity.
        * rewrite app_length, Hp. reflexivity.
    - discriminate Erp.
  Qed.

  Lemma irun_inv : forall sched w wp r rp,
    good_writer w wp -> reader_inv w wp r rp ->
    let '(w', r', rp') := irun sched w wp r rp in
    exists wp', good_writer w' wp' /\ reader_inv w' wp' r' rp'.
  Proof.
    induction sched as [|b sc IH]; intros w wp r rp Hg Hr; simpl.
    - exists wp. auto.
    - destruct b.
      + destruct wp as [|s wp']; [apply IH; assumption|].
        apply IH; [apply good_writer_step; exact Hg|apply reader_inv_wstep; exact Hr].
      + destruct rp as [|s rp']; [apply IH; assumption|].
        apply IH; [exact Hg|apply reader_inv_rstep; assumption].
  Qed.

  (* what the invariant says about the bytes obtained *)
  Lemma reader_inv_result : forall w wp r rp,
    reader_inv w wp r rp ->
    (r_enoent r = true /\ r_got r = [] /\ old = None) \/
    (r_enoent r = false /\
     exists d done rest, ks = done ++ rest /\ acceptable d /\ r_got r = firstn (sum done) d /\ (rp = [] -> rest = [])).
  Proof.
    intros w wp r rp H. inversion H; subst.
    - right. split; [reflexivity|]. exists new, [], ks. repeat split; auto; [right; reflexivity|discriminate].
    - left. auto.
    - right. split; [assumption|]. exists d, done, rest. repeat split; auto.
      intro E. destruct (map RRead rest); discriminate E.
    - right. split; [assumption|]. exists d, ks, []. rewrite app_nil_r. repeat split; auto.
  Qed.
End Reader.

(* the atomic writer is a good writer *)
Lemma atomic_good_writer : forall fs tmp target chunks,
  wf_afs fs -> tmp <> target ->
  good_writer target (read_name fs target) (concat chunks) (start fs) (atomic_write tmp target chunks).
Proof.
  intros fs tmp target chunks Hwf Hne p1 p2 E.
  assert (Hbody : tmp_inv fs tmp (wrun (start fs) (WOpen tmp :: map WAppend chunks ++ [WClose]))).
  { apply tmp_inv_run; [apply tmp_inv_start; exact Hwf|apply tmpsteps_body]. }
  destruct (prefix_cases _ _ _ _ _ E) as [-> | Hf].
  - (* the complete program has run *)
    rewrite app_nil_r in E. subst p1.
    destruct (atomic_complete fs tmp target chunks Hwf Hne) as (A & _ & _). unfold read_name in A.
    destruct (dent (w_fs (wrun (start fs) (atomic_write tmp target chunks))) target) as [i|]; [|discriminate].
    exists (concat chunks). split; [right; reflexivity|].
    intros p3 p4 E3. destruct p3; [|discriminate]. simpl. inversion A. reflexivity.
  - assert (Hinv : tmp_inv fs tmp (wrun (start fs) p1)) by (apply tmp_inv_run; [apply tmp_inv_start; exact Hwf|exact Hf]).
    destruct Hinv as [Hd Hi]. rewrite (Hd target) by auto.
    destruct (dent fs target) as [i|] eqn:Et.
    + exists (ino fs i). split; [left; unfold read_name; rewrite Et; reflexivity|].
      intros p3 p4 E3. rewrite <- wrun_app.
      assert (E' : atomic_write tmp target chunks = (p1 ++ p3) ++ p4) by (rewrite E, E3, app_assoc; reflexivity).
      destruct (prefix_cases _ _ _ _ _ E') as [-> | Hf'].
      * rewrite app_nil_r in E'. rewrite <- E'. rewrite atomic_write_snoc, wrun_app.
        change (wrun ?s [WRename tmp target]) with (wexec s (WRename tmp target)). rewrite rename_ino.
        destruct Hbody as [_ Hbi]. apply (Hbi target i); auto.
      * assert (Hinv' : tmp_inv fs tmp (wrun (start fs) (p1 ++ p3))) by (apply tmp_inv_run; [apply tmp_inv_start; exact Hwf|exact Hf']).
        destruct Hinv' as [_ Hi']. apply (Hi' target i); auto.
    + unfold read_name. rewrite Et. reflexivity.
Qed.

(* ================= atomic_reader_safe ================= *)
Theorem atomic_reader_safe : forall sched fs tmp target chunks ks,
  wf_afs fs -> tmp <> target ->
  let '(_, r, rp) := irun sched (start fs) (atomic_write tmp target chunks) rstart (reader target ks) in
  (r_enoent r = true /\ r_got r = [] /\ read_name fs target = None) \/
  (r_enoent r = false /\
   exists d done rest,
     ks = done ++ rest /\ (read_name fs target = Some d \/ d = concat chunks) /\
     r_got r = firstn (sum done) d /\ (rp = [] -> rest = [])).
Proof.
  intros sched fs tmp target chunks ks Hwf Hne.
  pose proof (irun_inv target (read_name fs target) (concat chunks) ks sched (start fs)
                (atomic_write tmp target chunks) rstart (reader target ks)
                (atomic_good_writer fs tmp target chunks Hwf Hne) (ri_start _ _ _ _ _ _)) as H.
  destruct (irun sched (start fs) (atomic_write tmp target chunks) rstart (reader target ks)) as [[w r] rp].
  destruct H as (wp' & _ & Hr). exact (reader_inv_result _ _ _ _ _ _ _ _ Hr).
Qed.

(* a reader that is scheduled to the end and asks for enough bytes gets exactly old or exactly new *)
Lemma irun_reader_done : forall sched w wp r rp,
  length rp <= length (filter negb sched) -> snd (irun sched w wp r rp) = [].
Proof.
  induction sched as [|b sc IH]; intros w wp r rp H; simpl in *.
  - destruct rp; [reflexivity|simpl in H; lia].
  - destruct b; simpl in H.
    + destruct wp; apply IH; exact H.
    + destruct rp as [|s rp']; [apply IH; simpl; lia|apply IH; simpl in H; lia].
Qed.

Theorem atomic_reader_exact : forall sched fs tmp target chunks ks,
  wf_afs fs -> tmp <> target ->
  length ks + 2 <= length (filter negb sched) ->
  (forall d, read_name fs target = Some d -> length d <= sum ks) -> length (concat chunks) <= sum ks ->
  let '(_, r, _) := irun sched (start fs) (atomic_write tmp target chunks) rstart (reader target ks) in
  (r_enoent r = true /\ read_name fs target = None) \/
  read_name fs target = Some (r_got r) \/ r_got r = concat chunks.
Proof.
  intros sched fs tmp target chunks ks Hwf Hne Hlen Hold Hnew.
  pose proof (atomic_reader_safe sched fs tmp target chunks ks Hwf Hne) as H.
  pose proof (irun_reader_done sched (start fs) (atomic_write tmp target chunks) rstart (reader target ks)) as Hd.
  destruct (irun sched (start fs) (atomic_write tmp target chunks) rstart (reader target ks)) as [[w r] rp].
  simpl in Hd. assert (rp = []) as ->.
  { apply Hd. unfold reader. simpl. rewrite app_length, map_length. simpl. lia. }
  destruct H as [(A & B & C)|(_ & d & done & rest & E & Hd' & Hg & Hr)]; [left; auto|].
  right. specialize (Hr eq_refl). subst rest. rewrite app_nil_r in E. subst done.
  destruct Hd' as [Ho | ->].
  - left. rewrite Hg, firstn_all2; [exact Ho|apply Hold; exact Ho].
  - right. rewrite Hg. apply firstn_all2. exact Hnew.
Qed.

(* ================= update_cache ================= *)
Theorem cache_write_prefix_safe : forall fs tmp target chunks q,
  wf_afs fs -> tmp <> target ->
  torn_prefix (cache_write tmp target chunks) q ->
  let fs' := w_fs (wrun (start fs) q) in
  (read_name fs' target = read_name fs target \/ read_name fs' target = Some (concat chunks)) /\
  (forall n, n <> tmp -> n <> target -> read_name fs' n = read_name fs n).
Proof. exact atomic_prefix_safe. Qed.

Theorem cache_write_reader_safe : forall sched fs tmp target chunks ks,
  wf_afs fs -> tmp <> target ->
  let '(_, r, rp) := irun sched (start fs) (cache_write tmp target chunks) rstart (reader target ks) in
  (r_enoent r = true /\ r_got r = [] /\ read_name fs target = None) \/
  (r_enoent r = false /\
   exists d done rest,
     ks = done ++ rest /\ (read_name fs target = Some d \/ d = concat chunks) /\
     r_got r = firstn (sum done) d /\ (rp = [] -> rest = [])).
Proof. exact atomic_reader_safe. Qed.

(* OSError in the stream: whatever part of the try body ran, and whatever the `with` block still wrote to
   the temp file while unwinding, after the handler's os.remove the target is untouched and the temp file
   is gone; no other name is affected *)
Theorem cache_cleanup : forall fs tmp target chunks k extra,
  wf_afs fs -> tmp <> target -> Forall (tmpstep tmp) extra ->
  let fs' := w_fs (wrun (start fs) (firstn k (cache_try_body tmp chunks) ++ extra ++ [WUnlink tmp])) in
  read_name fs' target = read_name fs target /\ read_name fs' tmp = None /\
  (forall n, n <> tmp -> read_name fs' n = read_name fs n).
Proof.
  intros fs tmp target chunks k extra Hwf Hne Hex. cbv zeta.
  assert (Hall : Forall (tmpstep tmp) (firstn k (cache_try_body tmp chunks) ++ extra)).
  { apply Forall_app. split; [|exact Hex].
    eapply Forall_prefix. rewrite firstn_skipn. apply tmpsteps_body. }
  rewrite app_assoc, wrun_app.
  pose proof (tmp_inv_run fs tmp _ _ (tmp_inv_start fs tmp Hwf) Hall) as Hinv.
  change (wrun ?s [WUnlink tmp]) with (wexec s (WUnlink tmp)).
  assert (Hinv' := tmp_inv_step fs tmp _ (WUnlink tmp) Hinv eq_refl).
  repeat split.
  - apply (tmp_inv_read fs tmp _ target Hinv'). auto.
  - unfold read_name. simpl. rewrite upd_same. reflexivity.
  - intros n Hn. apply (tmp_inv_read fs tmp _ n Hinv' Hn).
Qed.

Corollary cache_write_fault_cleanup : forall fs tmp target chunks k,
  wf_afs fs -> tmp <> target ->
  let fs' := w_fs (wrun (start fs) (cache_write_fault tmp chunks k)) in
  read_name fs' target = read_name fs target /\ read_name fs' tmp = None /\
  (forall n, n <> tmp -> read_name fs' n = read_name fs n).
Proof.
  intros fs tmp target chunks k Hwf Hne. unfold cache_write_fault.
  exact (cache_cleanup fs tmp target chunks k [] Hwf Hne (Forall_nil _)).
Qed.

(* ================= licence for the correspondence (C10_model_holds) ================= *)
Lemma bytes_eqb_eq : forall a b, bytes_eqb a b = true <-> a = b.
Proof. apply list_eqb_eq. intros. apply N.eqb_eq. Qed.

Lemma obytes_eqb_eq : forall a b, obytes_eqb a b = true <-> a = b.
Proof.
  intros [a|] [b|]; simpl; split; intro H; try discriminate; try reflexivity.
  - f_equal. apply bytes_eqb_eq. exact H.
  - inversion H. apply bytes_eqb_eq. reflexivity.
Qed.

Lemma outcome_eqb_eq : forall a b, outcome_eqb a b = true <-> a = b.
Proof. destruct a, b; simpl; split; intro; congruence. Qed.

Lemma co_eqb_eq : forall a b, co_eqb a b = true <-> a = b.
Proof.
  intros [o l] [o' l']. unfold co_eqb. simpl. rewrite andb_true_iff, outcome_eqb_eq.
  unfold nlist_eqb. rewrite (list_eqb_eq N N.eqb N.eqb_eq). split; [intros [-> ->]; reflexivity|intro H; inversion H; auto].
Qed.

Lemma subset_forall : forall A (eqb : A -> A -> bool) (P : A -> Prop) a b,
  (forall x y, eqb x y = true -> x = y) ->
  subset eqb a b = true -> (forall y, In y b -> P y) -> forall x, In x a -> P x.
Proof.
  intros A eqb P a b Heq Hs Hb x Hx. unfold subset in Hs. rewrite forallb_forall in Hs.
  specialize (Hs x Hx). apply existsb_exists in Hs. destruct Hs as (y & Hy & E). apply Heq in E. subst. auto.
Qed.

Lemma fs_of_props : forall l i,
  next (fs_of l i) = (i + N.of_nat (length l))%N /\
  (forall n j, dent (fs_of l i) n = Some j -> (i <= j < i + N.of_nat (length l))%N) /\
  (forall n m j, dent (fs_of l i) n = Some j -> dent (fs_of l i) m = Some j -> n = m).
Proof.
  induction l as [|[n0 d] l IH]; intro i; simpl.
  - repeat split; try discriminate. lia.
  - destruct (IH (N.succ i)) as (A & B & C). repeat split.
    + rewrite A. lia.
    + unfold upd in H. destruct (N.eqb n n0); [inversion H; lia|apply B in H; lia].
    + unfold upd in H. destruct (N.eqb n n0); [inversion H; lia|apply B in H; lia].
    + intros n m j H1 H2. unfold upd in *.
      destruct (N.eqb n n0) eqn:E1; destruct (N.eqb m n0) eqn:E2.
      * apply N.eqb_eq in E1, E2. congruence.
      * inversion H1; subst. apply B in H2. lia.
      * inversion H2; subst. apply B in H1. lia.
      * eapply C; eauto.
Qed.

Lemma fs0_wf : forall c, wf_afs (fs0 c).
Proof.
  intro c. unfold fs0. destruct (fs_of_props (k_old c) 1%N) as (A & B & C). split.
  - intros n i H. apply B in H. rewrite A. lia.
  - exact C.
Qed.

Lemma prefixes_torn_sound : forall cuts p q, In q (prefixes_torn cuts p) -> torn_prefix p q.
Proof.
  intros cuts p. induction p as [|s r IH]; intros q H; simpl in H.
  - destruct H as [<-|[]]. apply tp_stop.
  - destruct H as [<-|H]; [apply tp_stop|]. apply in_app_or in H. destruct H as [H|H].
    + destruct s; try contradiction. apply in_map_iff in H. destruct H as (k & <- & _).
      apply (tp_torn c (firstn k c) (skipn k c)). symmetry. apply firstn_skipn.
    + apply in_map_iff in H. destruct H as (q' & <- & Hq). apply tp_step. apply IH. exact Hq.
Qed.

Lemma classify_good : forall c got,
  got = read_name (fs0 c) 0 \/ got = Some (new_content c) -> good (classify c got) = true.
Proof.
  intros c got H. unfold classify. cbv zeta. destruct got as [d|].
  - destruct (obytes_eqb (Some d) (read_name (fs0 c) 0)) eqn:E; [reflexivity|].
    destruct H as [H|H]; [rewrite <- H in E; assert (obytes_eqb (Some d) (Some d) = true) by (apply obytes_eqb_eq; reflexivity); congruence|].
    inversion H; subst. assert (Hb : bytes_eqb (new_content c) (new_content c) = true) by (apply bytes_eqb_eq; reflexivity).
    rewrite Hb. reflexivity.
  - destruct H as [H|H]; [rewrite <- H; reflexivity|discriminate].
Qed.

Lemma forallb_filter : forall A (p f : A -> bool) l,
  (forall x, In x l -> f x = true -> p x = true) -> forallb p (filter f l) = true.
Proof.
  intros A p f l H. apply forallb_forall. intros x Hx. apply filter_In in Hx. destruct Hx. auto.
Qed.

Lemma extras_only_tmp : forall c fs,
  (forall n, n <> 1%N -> n <> 0%N -> read_name fs n = read_name (fs0 c) n) -> only_tmp (extras c fs) = true.
Proof.
  intros c fs H. unfold only_tmp, extras. apply forallb_filter. intros n Hn Hf.
  destruct (N.eq_dec n 1) as [->|H1]; [reflexivity|].
  destruct (N.eq_dec n 0) as [->|H0].
  - destruct (dent fs 0), (dent (fs0 c) 0); discriminate.
  - specialize (H n H1 H0). unfold read_name in H.
    destruct (dent fs n), (dent (fs0 c) n); try discriminate.
Qed.

Lemma extras_nil : forall c fs,
  dent fs 1%N = None -> (forall n, n <> 1%N -> n <> 0%N -> read_name fs n = read_name (fs0 c) n) -> extras c fs = [].
Proof.
  intros c fs Ht H. unfold extras, names.
  assert (E : forall n, In n [0; 1; 2; 3]%N ->
     (match dent fs n, dent (fs0 c) n with Some _, None => negb (N.eqb n 0) | _, _ => false end) = false).
  { intros n Hn. destruct (N.eq_dec n 1) as [->|H1]; [rewrite Ht; reflexivity|].
    destruct (N.eq_dec n 0) as [->|H0]; [destruct (dent fs 0), (dent (fs0 c) 0); reflexivity|].
    specialize (H n H1 H0). unfold read_name in H. destruct (dent fs n), (dent (fs0 c) n); try reflexivity; discriminate. }
  simpl. rewrite !E by (simpl; auto 6). reflexivity.
Qed.

Definition signac_prog (c : case_C10) : Prop := model_prog c = atomic_write 1 0 (k_chunks c).

Lemma signac_prog_site : forall c, k_fault c = None -> raw_site (k_site c) = false ->
  inplace_site (k_site c) = false -> signac_prog c.
Proof.
  intros c Hf Hs Hi. unfold signac_prog, model_prog. rewrite Hf.
  destruct (k_site c); simpl in Hs, Hi; try discriminate; reflexivity.
Qed.

Lemma model_crash_good : forall c, signac_prog c ->
  forall x, In x (model_crash c) -> good (fst x) && only_tmp (snd x) = true.
Proof.
  intros c Hp x Hx. unfold model_crash in Hx. apply in_map_iff in Hx. destruct Hx as (q & <- & Hq).
  rewrite Hp in Hq. apply prefixes_torn_sound in Hq.
  destruct (atomic_prefix_safe (fs0 c) 1 0 (k_chunks c) q (fs0_wf c) ltac:(discriminate) Hq) as [A B].
  simpl. apply andb_true_iff. split.
  - apply classify_good. destruct A as [A|A]; [left|right]; exact A.
  - apply extras_only_tmp. intros n H1 H0. apply B; assumption.
Qed.

Lemma pre_inplace : forall c, pre_C10 c = true -> inplace_site (k_site c) = false.
Proof.
  intros c H. unfold pre_C10 in H. apply andb_true_iff in H. destruct H as [H _].
  apply andb_true_iff in H. destruct H as [H _]. apply andb_true_iff in H. destruct H as [H _].
  apply negb_true_iff in H. exact H.
Qed.

Lemma pre_parts : forall c, pre_C10 c = true ->
  read_name (fs0 c) 0 <> Some (new_content c) /\ length (new_content c) <= big /\
  (forall d, read_name (fs0 c) 0 = Some d -> length d <= big).
Proof.
  intros c H. unfold pre_C10 in H. apply andb_true_iff in H. destruct H as [H H3].
  apply andb_true_iff in H. destruct H as [H1 H2]. apply andb_true_iff in H1. destruct H1 as [_ H1]. repeat split.
  - intro E. apply negb_true_iff in H1. apply obytes_eqb_eq in E. congruence.
  - apply Nat.leb_le. exact H2.
  - intros d E. rewrite E in H3. apply Nat.leb_le. exact H3.
Qed.

Lemma model_final_good : forall c, pre_C10 c = true ->
  model_final c = match k_fault c with Some _ => (OOld, []) | None => (ONew, []) end \/ (k_fault c = None /\ raw_site (k_site c) = true).
Proof.
  intros c Hpre. destruct (pre_parts c Hpre) as (Hne & _ & _). unfold model_final.
  destruct (k_fault c) as [k|] eqn:Ef.
  - left. unfold model_prog. rewrite Ef.
    destruct (cache_write_fault_cleanup (fs0 c) 1 0 (k_chunks c) k (fs0_wf c) ltac:(discriminate)) as (A & B & C).
    f_equal.
    + rewrite A. unfold classify. cbv zeta. destruct (read_name (fs0 c) 0) as [d|]; [|reflexivity].
      assert (E : obytes_eqb (Some d) (Some d) = true) by (apply obytes_eqb_eq; reflexivity). rewrite E. reflexivity.
    + apply extras_nil.
      * unfold read_name in B. destruct (dent _ 1%N); [discriminate|reflexivity].
      * intros n H1 _. apply C. exact H1.
  - destruct (raw_site (k_site c)) eqn:Es; [right; auto|left].
    rewrite (signac_prog_site c Ef Es (pre_inplace c Hpre)).
    destruct (atomic_complete (fs0 c) 1 0 (k_chunks c) (fs0_wf c) ltac:(discriminate)) as (A & B & C).
    f_equal.
    + rewrite A. unfold classify. cbv zeta.
      match goal with |- context [obytes_eqb ?a ?b] => destruct (obytes_eqb a b) eqn:E end.
      * apply obytes_eqb_eq in E. exfalso. apply Hne. symmetry. exact E.
      * assert (Hb : bytes_eqb (concat (k_chunks c)) (new_content c) = true) by (apply bytes_eqb_eq; reflexivity).
        rewrite ?E, Hb. reflexivity.
    + apply extras_nil; [exact B|exact C].
Qed.

(* the model's reader positions are instances of the schedules of atomic_reader_safe *)
Opaque big.
Lemma irun_wblock : forall k sc w wp r rp,
  irun (repeat true k ++ sc) w wp r rp = irun sc (wrun w (firstn k wp)) (skipn k wp) r rp.
Proof.
  induction k as [|k IH]; intros sc w wp r rp; simpl; [reflexivity|].
  destruct wp as [|s wp'].
  - rewrite IH. rewrite firstn_nil, skipn_nil. reflexivity.
  - rewrite IH. reflexivity.
Qed.

Lemma reader_at_irun : forall c i j,
  let p := model_prog c in
  let sched := repeat true i ++ false :: repeat true (j - i) ++ [false; false] in
  let '(_, r, rp) := irun sched (start (fs0 c)) p rstart (reader 0 [big]) in
  rp = [] /\ reader_at c i j = if r_enoent r then classify c None else classify c (Some (r_got r)).
Proof.
  intros c i j. cbv zeta. rewrite irun_wblock. unfold reader. simpl map. simpl app.
  cbn [irun]. rewrite irun_wblock. cbn [irun]. split; [reflexivity|].
  unfold reader_at. cbv zeta.
  set (w1 := wrun (start (fs0 c)) (firstn i (model_prog c))).
  set (w2 := wrun w1 (firstn (j - i) (skipn i (model_prog c)))).
  set (r1 := rexec (w_fs w1) rstart (ROpen 0)).
  set (r2 := rexec (w_fs w2) r1 (RRead big)).
  reflexivity.
Qed.

Lemma model_reader_good : forall c, pre_C10 c = true -> signac_prog c ->
  forall o, In o (model_reader c) -> good o = true.
Proof.
  intros c Hpre Hp o Ho. destruct (pre_parts c Hpre) as (_ & Hnew & Hold).
  unfold model_reader in Ho. apply in_flat_map in Ho. destruct Ho as (i & _ & Ho).
  apply in_map_iff in Ho. destruct Ho as (j & <- & _).
  pose proof (reader_at_irun c i j) as H. cbv zeta in H.
  pose proof (atomic_reader_safe (repeat true i ++ false :: repeat true (j - i) ++ [false; false])
                (fs0 c) 1 0 (k_chunks c) [big] (fs0_wf c) ltac:(discriminate)) as Hs.
  rewrite <- Hp in Hs.
  destruct (irun _ (start (fs0 c)) (model_prog c) rstart (reader 0 [big])) as [[w r] rp].
  destruct H as [-> ->].
  destruct Hs as [(He & _ & Hn)|(He & d & done & rest & E & Hd & Hg & Hr)].
  - rewrite He. apply classify_good. left. symmetry. exact Hn.
  - rewrite He. specialize (Hr eq_refl). subst rest. rewrite app_nil_r in E. subst done.
    assert (Hsum : sum [big] = big) by (unfold sum; cbn [fold_right]; apply Nat.add_0_r). rewrite Hsum in Hg.
    assert (Hd' : r_got r = d).
    { rewrite Hg. apply firstn_all2. destruct Hd as [Hd|Hd]; [apply Hold; exact Hd|subst d; exact Hnew]. }
    rewrite Hd'. apply classify_good. destruct Hd as [Hd|Hd]; [left; symmetry; exact Hd|right; subst; reflexivity].
Qed.

Theorem model_holds_C10 : forall c, pre_C10 c = true -> mismatch_C10 c = false -> holds_C10 c = true.
Proof.
  intros c Hpre Hm. unfold mismatch_C10 in Hm. apply negb_false_iff in Hm.
  apply andb_true_iff in Hm. destruct Hm as [Hfin Hrest]. apply co_eqb_eq in Hfin.
  unfold holds_C10. destruct (raw_site (k_site c)) eqn:Es; [reflexivity|]. simpl.
  destruct (model_final_good c Hpre) as [Hmf|[_ Hraw]]; [|congruence].
  destruct (k_fault c) as [k|] eqn:Ef.
  - (* a faulted cache write: nothing is observed but the final state *)
    rewrite Hfin, Hmf. reflexivity.
  - apply andb_true_iff in Hrest. destruct Hrest as [Hrest Hrd]. apply andb_true_iff in Hrest. destruct Hrest as [_ Hcr].
    unfold set_eqb in Hcr, Hrd. apply andb_true_iff in Hcr, Hrd. destruct Hcr as [Hcr _]. destruct Hrd as [Hrd _].
    pose proof (signac_prog_site c Ef Es (pre_inplace c Hpre)) as Hp.
    rewrite Hfin, Hmf. rewrite andb_true_r.
    apply andb_true_iff. split.
    + apply forallb_forall. intros x Hx.
      apply (subset_forall _ co_eqb (fun x => good (fst x) && only_tmp (snd x) = true) _ _
               (fun a b H => proj1 (co_eqb_eq a b) H) Hcr (model_crash_good c Hp) x Hx).
    + apply forallb_forall. intros x Hx.
      apply (subset_forall _ outcome_eqb (fun x => good x = true) _ _
               (fun a b H => proj1 (outcome_eqb_eq a b) H) Hrd (model_reader_good c Hpre Hp) x Hx).
Qed.

(* the two places where signac rewrites a document in place are the model's direct_write (known finding C10 tag 1) *)
Lemma inplace_is_direct : forall c, k_fault c = None -> inplace_site (k_site c) = true ->
  model_prog c = direct_write 0 (k_chunks c).
Proof.
  intros c Hf Hi. unfold model_prog. rewrite Hf. destruct (k_site c); simpl in Hi; try discriminate; reflexivity.
Qed.

Definition case_sync_copy : case_C10 :=
  {| k_site := SSyncCopy; k_thread := true; k_old := [(0%N, [1%N])]; k_chunks := [[10%N; 10%N]]; k_fault := None;
     k_steps := direct_write 0 [[10%N; 10%N]]; k_crash := model_crash
       {| k_site := SSyncCopy; k_thread := true; k_old := [(0%N, [1%N])]; k_chunks := [[10%N; 10%N]]; k_fault := None;
          k_steps := []; k_crash := []; k_reader := []; k_final := (ONew, []) |};
     k_reader := [OOld; OEmpty; ONew]; k_final := (ONew, []) |}.

Lemma sync_copy_refuted_w :
  mismatch_C10 case_sync_copy = false /\ holds_C10 case_sync_copy = false /\ classify_C10 case_sync_copy = 1%N /\
  existsb (fun x => outcome_eqb (fst x) OEmpty) (model_crash case_sync_copy) = true /\
  existsb (fun x => outcome_eqb (fst x) OTorn) (model_crash case_sync_copy) = true.
Proof. vm_compute. repeat split. Qed.
