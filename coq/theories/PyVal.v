(* PyVal.v — Python's ==, ordering, dict-slot identity and isinstance on JSON-shaped values.
   Domain assumption (stated in DESIGN §7): ints satisfy |x| < 2^53 (then CPython's numeric hash of
   an int is the int itself except hash(-1) = -2), floats are finite binary64 given as exact dyadics. *)
From SV Require Export Base Json.
Require Coq.Strings.String Coq.Strings.Ascii.
Import Coq.Strings.String.StringSyntax.

Definition S (s : String.string) : str :=
  List.map (fun a => Ascii.N_of_ascii a) (String.list_ascii_of_string s).

(* ---------- dotted keys ---------- *)
Definition dot : N := 46%N.
Definition dollar : N := 36%N.

Fixpoint split_on (c : N) (s : str) : list str :=
  match s with
  | [] => [[]]
  | x :: r =>
      if N.eqb x c then [] :: split_on c r
      else match split_on c r with
           | [] => [[x]]            (* unreachable: split_on never returns [] *)
           | h :: t => (x :: h) :: t
           end
  end.

Fixpoint join_with (c : N) (l : list str) : str :=
  match l with
  | [] => []
  | [x] => x
  | x :: r => x ++ c :: join_with c r
  end.

Definition contains_char (c : N) (s : str) : bool := existsb (N.eqb c) s.
Definition count_char (c : N) (s : str) : nat := length (filter (N.eqb c) s).

(* s.split(".", 1)[0] *)
Fixpoint head_before (c : N) (s : str) : str :=
  match s with
  | [] => []
  | x :: r => if N.eqb x c then [] else x :: head_before c r
  end.

(* substring test: needle in hay *)
Fixpoint is_substr (needle hay : str) : bool :=
  str_prefix needle hay ||
  match hay with
  | [] => false
  | _ :: r => is_substr needle r
  end.

(* ---------- numbers ---------- *)
(* exact dyadic value of a numeric JSON value; bool counts as 0/1 like in Python *)
Definition num_of (v : json) : option (Z * Z) :=
  match v with
  | JBool b => Some ((if b then 1 else 0)%Z, 0%Z)
  | JInt z => Some (z, 0%Z)
  | JFloat (m, e) => Some (m, if Z.eqb m 0 then 0%Z else e)
  | _ => None
  end.

Definition dy_cmp (a b : Z * Z) : comparison :=
  let '(m1, e1) := a in
  let '(m2, e2) := b in
  let e := Z.min e1 e2 in
  Z.compare (m1 * 2 ^ (e1 - e)) (m2 * 2 ^ (e2 - e)).

Definition is_num (v : json) : bool := match num_of v with Some _ => true | None => false end.

(* integer value of an integer-valued number *)
Definition int_value (v : json) : option Z :=
  match num_of v with
  | Some (m, e) => if (0 <=? e)%Z then Some (m * 2 ^ e)%Z else None   (* mant is odd when e<0 *)
  | None => None
  end.

(* ---------- Python == ---------- *)
Fixpoint py_eq (a b : json) : bool :=
  match a, b with
  | JNull, JNull => true
  | JStr x, JStr y => str_eqb x y
  | JArr x, JArr y =>
      (fix go (x y : list json) : bool :=
         match x, y with
         | [], [] => true
         | p :: x', q :: y' => py_eq p q && go x' y'
         | _, _ => false
         end) x y
  | JObj x, JObj y =>
      Nat.eqb (length x) (length y) &&
      (fix go (x : list (str * json)) : bool :=
         match x with
         | [] => true
         | (k, p) :: x' =>
             match alookup k y with
             | Some q => py_eq p q && go x'
             | None => false
             end
         end) x
  | _, _ =>
      match num_of a, num_of b with
      | Some p, Some q => match dy_cmp p q with Eq => true | _ => false end
      | _, _ => false
      end
  end.

(* ---------- Python ordering; None = TypeError ---------- *)
Fixpoint py_order (a b : json) : option comparison :=
  match a, b with
  | JStr x, JStr y => Some (str_cmp x y)
  | JArr x, JArr y =>
      (fix go (x y : list json) : option comparison :=
         match x, y with
         | [], [] => Some Eq
         | [], _ :: _ => Some Lt
         | _ :: _, [] => Some Gt
         | p :: x', q :: y' => if py_eq p q then go x' y' else py_order p q
         end) x y
  | _, _ =>
      match num_of a, num_of b with
      | Some p, Some q => Some (dy_cmp p q)
      | _, _ => None
      end
  end.

(* ---------- isinstance against signac's _TYPES ---------- *)
Inductive pytype := TyInt | TyFloat | TyBool | TyStr | TyList | TyNull | TyDict.

Definition py_type (v : json) : pytype :=
  match v with
  | JNull => TyNull | JBool _ => TyBool | JInt _ => TyInt | JFloat _ => TyFloat
  | JStr _ => TyStr | JArr _ => TyList | JObj _ => TyDict
  end.

Definition pytype_eqb (a b : pytype) : bool :=
  match a, b with
  | TyInt, TyInt | TyFloat, TyFloat | TyBool, TyBool | TyStr, TyStr | TyList, TyList
  | TyNull, TyNull | TyDict, TyDict => true
  | _, _ => false
  end.

(* ---------- dict slot identity of index keys ----------
   _TypedSetDefaultDict wraps floats in _float (hash+1).  Two keys occupy one slot iff their
   hashes agree and they compare ==.  For |int| < 2^53: hash(n) = n except hash(-1) = -2, and a
   hash result of -1 is mapped to -2, so _float(x) collides with the int of equal value exactly
   for x in {-1.0, -2.0}; bools hash like 0/1 and compare == to them.  Dict values are replaced by
   the _DictPlaceholder class object, which only equals itself. *)
Definition is_m1_m2 (v : json) : bool :=
  match int_value v with
  | Some z => Z.eqb z (-1) || Z.eqb z (-2)
  | None => false
  end.

Definition is_float (v : json) : bool := match v with JFloat _ => true | _ => false end.
Definition is_obj (v : json) : bool := match v with JObj _ => true | _ => false end.

Definition slot_eq (a b : json) : bool :=
  if is_obj a || is_obj b then is_obj a && is_obj b
  else if is_float a && is_float b then py_eq a b
  else if is_float a || is_float b then py_eq a b && is_m1_m2 a
  else py_eq a b.

(* same slot yet distinguishable by type: the conflation the typed index is meant to avoid *)
Definition slot_clash (a b : json) : bool :=
  slot_eq a b && negb (is_obj a) && negb (pytype_eqb (py_type a) (py_type b)).
