(* C12Proofs.v — lemmas for C12 (interleavings of initialising / document-writing actors). *)
From SV Require Import Base Json MD5 Canon FS Proc Crash WsNames CorrC11 CorrC12.
Import ListNotations.

(* ------------------------------------------------------------------ confinement of the actor programs *)
Lemma under_snoc_self : forall (p : path) n, under (p ++ [n]) p = false.
Proof.
  intros p n. destruct (under (p ++ [n]) p) eqn:E; auto. apply under_spec in E. destruct E as [r E].
  rewrite <- app_assoc in E. rewrite <- (app_nil_r p) in E at 1. apply app_inv_head in E. discriminate.
Qed.

Lemma tmpname_snoc : forall tag (d : path) n, tmpname tag (d ++ [n]) = d ++ [TMPPFX ++ tag ++ n].
Proof. intros. unfold tmpname. rewrite parent_snoc, last_last. reflexivity. Qed.

Ltac conf := unfold confined; cbn [call_paths is_listdir forallb negb]; rewrite ?under_app, ?under_refl; reflexivity.

Section CONFINED.
  Variable frepr : fl -> str.
  Variable atomic : bool.
  Variable tag : str.
  Variable f0 : fs.
  Variable w1 w2 : str.
  Variable wr : path.
  Let ws : path := w1 :: w2 :: wr.
  Hypothesis Hws : get f0 ws = Some Dir.
  Variable i : str.
  Let d : path := ws ++ [i].
  Context {A : Type}.

  Lemma pc_json_save : forall at_ n v (k : fres unit -> prog A),
    (forall x, prog_confined f0 d (k x)) -> prog_confined f0 d (json_save frepr tag at_ (d ++ [n]) v k).
  Proof.
    intros at_ n v k Hk. unfold json_save. rewrite tmpname_snoc.
    destruct at_.
    - apply pc_do; [conf|]. intros [v1|e1]; [|apply Hk].
      apply pc_do; [conf|]. intros rw. apply pc_do; [conf|]. intros rc.
      destruct rw, rc; try apply Hk. apply pc_do; [conf|]. intros [v2|e2]; apply Hk.
    - apply pc_do; [conf|]. intros [v1|e1]; [|apply Hk].
      apply pc_do; [conf|]. intros rw. apply pc_do; [conf|]. intros rc.
      destruct rw, rc; apply Hk.
  Qed.

  Lemma pc_sp_load : forall n j (k : json + perr -> prog A),
    (forall x, prog_confined f0 d (k x)) -> prog_confined f0 d (sp_load frepr (d ++ [n]) j k).
  Proof.
    intros n j k Hk. unfold sp_load. apply pc_do; [conf|]. intros [v|e].
    - destruct v; try apply Hk. destruct (c_json c) as [vv|]; [|apply Hk]. destruct (is_jnull vv); [apply Hk|]. destruct (str_eqb _ _); apply Hk.
    - destruct e; apply Hk.
  Qed.

  Lemma parent_d : parent d = ws.
  Proof. unfold d. apply parent_snoc. Qed.

  Lemma pc_mkdir_p : forall (k : fres unit -> prog A),
    (forall x, prog_confined f0 d (k x)) -> prog_confined f0 d (mkdir_p d k).
  Proof.
    intros k Hk. unfold mkdir_p. apply pc_do; [conf|]. intros r. destruct (is_dir_r r); [apply Hk|].
    assert (Hleaf : prog_confined f0 d
      (Do (CMkdir d) (fun r0 => match r0 with
                                | FOk _ => k (FOk tt)
                                | FErr e => Do (CStat d) (fun r2 => if is_dir_r r2 then k (FOk tt) else k (FErr e))
                                end))).
    { apply pc_do; [conf|]. intros [v|e]; [apply Hk|]. apply pc_do; [conf|]. intros r2. destruct (is_dir_r r2); apply Hk. }
    rewrite makedirs_p_unfold, parent_d. unfold ws at 1. cbv zeta. fold ws.
    apply pc_anc.
    - unfold d. apply under_app.
    - unfold d. apply under_snoc_self.
    - fold ws. rewrite Hws. simpl. exact Hleaf.
  Qed.

  Lemma pc_sp_save : forall n v force (k : unit + perr -> prog A),
    (forall x, prog_confined f0 d (k x)) -> prog_confined f0 d (sp_save frepr atomic tag (d ++ [n]) v force k).
  Proof.
    intros n v force k Hk. unfold sp_save.
    assert (Hh : forall r : fres unit, prog_confined f0 d
              match r with
              | FOk _ => k (inl tt)
              | FErr e => if errno_eqb e EEXIST || errno_eqb e EACCES then k (inl tt)
                          else Do (CUnlink (d ++ [n])) (fun _ => k (inr (POs e)))
              end).
    { intros [u|e]; [apply Hk|]. destruct (errno_eqb e EEXIST || errno_eqb e EACCES); [apply Hk|].
      apply pc_do; [conf|]. intros _. apply Hk. }
    destruct force.
    - apply pc_json_save. exact Hh.
    - apply pc_do; [conf|]. intros r. destruct (is_file_r r); [apply (Hh (FOk tt))|].
      apply pc_json_save. exact Hh.
  Qed.

  Lemma pc_job_init : forall sp force (k : unit + perr -> prog A),
    calc_id frepr sp = i ->
    (forall x, prog_confined f0 d (k x)) -> prog_confined f0 d (job_init frepr atomic tag ws sp force k).
  Proof.
    intros sp force k Hi Hk. unfold job_init. rewrite Hi. fold d.
    replace (ws ++ [i; SPF]) with (d ++ [SPF]) by (unfold d; rewrite <- app_assoc; reflexivity).
    apply pc_sp_load. intros [v|e]; [apply Hk|].
    apply pc_mkdir_p. intros [u|e1]; [|apply Hk].
    apply pc_sp_save. intros [u2|e2]; [|apply Hk].
    apply pc_sp_load. intros [v3|e3]; apply Hk.
  Qed.

  Lemma pc_doc_access : forall sp (k : unit + perr -> prog A),
    calc_id frepr sp = i ->
    (forall x, prog_confined f0 d (k x)) -> prog_confined f0 d (doc_access frepr atomic tag ws sp k).
  Proof.
    intros sp k Hi Hk. unfold doc_access. rewrite Hi. fold d. apply pc_do; [conf|]. intros r.
    destruct (is_dir_r r); [apply Hk|]. apply pc_job_init; auto.
  Qed.

  Lemma pc_doc_load : forall n (k : json + perr -> prog A),
    (forall x, prog_confined f0 d (k x)) -> prog_confined f0 d (doc_load (d ++ [n]) k).
  Proof.
    intros n k Hk. unfold doc_load. apply pc_do; [conf|]. intros [v|e].
    - destruct v; try apply Hk. destruct (c_json c); apply Hk.
    - destruct e; apply Hk.
  Qed.

  Lemma pc_doc_store : forall n v (k : unit + perr -> prog A),
    (forall x, prog_confined f0 d (k x)) -> prog_confined f0 d (doc_store frepr tag (d ++ [n]) v k).
  Proof.
    intros n v k Hk. unfold doc_store. apply pc_json_save. intros [u|e]; apply Hk.
  Qed.
End CONFINED.

(* the actions of an actor that works on its own job i only (Project() included: the workspace exists) *)
Definition own_act (frepr : fl -> str) (i : str) (a : act) : Prop :=
  match a with
  | AProject => True
  | AInit sp | ADocSet sp _ _ | ADocRead sp => calc_id frepr sp = i
  | ALen | ARmWs | APDocSet _ _ | APDocRead | AEach _ _ | AWithInit _ _ => False
  end.

Lemma pc_actor : forall frepr atomic tag f0 w1 w2 wr i acts acc,
  get f0 (w1 :: w2 :: wr) = Some Dir ->
  Forall (own_act frepr i) acts ->
  prog_confined f0 ((w1 :: w2 :: wr) ++ [i]) (actor_prog frepr atomic tag (w1 :: w2 :: wr) acts acc).
Proof.
  intros frepr atomic tag f0 w1 w2 wr i acts. set (ws := w1 :: w2 :: wr). set (d := ws ++ [i]).
  induction acts as [|a acts IH]; intros acc Hws Hall; simpl.
  - apply pc_ret.
  - inversion Hall as [|a' acts' Ha Hrest]; subst.
    assert (Hk : forall o, prog_confined f0 d (actor_prog frepr atomic tag ws acts (o :: acc))) by (intro o; apply IH; auto).
    destruct a; simpl in Ha; try contradiction; unfold act_prog.
    + (* Project(): stat of the workspace, an ancestor, which is a directory *)
      unfold project_open. apply pc_anc.
      * unfold d. apply under_app.
      * unfold d. apply under_snoc_self.
      * fold ws. rewrite Hws. simpl. apply Hk.
    + apply (pc_job_init frepr atomic tag f0 w1 w2 wr Hws i); auto. intros [u|e]; [apply Hk|apply pc_raise].
    + unfold docfile_of. rewrite Ha.
      replace (ws ++ [i; DOCF]) with (d ++ [DOCF]) by (unfold d; rewrite <- app_assoc; reflexivity).
      apply (pc_doc_access frepr atomic tag f0 w1 w2 wr Hws i); auto. intros [u|e]; [|apply pc_raise].
      apply (pc_doc_load f0 w1 w2 wr i). intros [dd|e]; [|apply pc_raise].
      apply (pc_doc_store frepr tag f0 w1 w2 wr i). intros [u2|e2]; [apply Hk|apply pc_raise].
    + unfold docfile_of. rewrite Ha.
      replace (ws ++ [i; DOCF]) with (d ++ [DOCF]) by (unfold d; rewrite <- app_assoc; reflexivity).
      apply (pc_doc_access frepr atomic tag f0 w1 w2 wr Hws i); auto. intros [u|e]; [|apply pc_raise].
      apply (pc_doc_load f0 w1 w2 wr i). intros [dd|e]; [apply Hk|apply pc_raise].
Qed.

(* ------------------------------------------------------------------ actors on different jobs commute *)
Record aspec := { s_id : str; s_tag : str; s_acts : list act }.

Definition spec_prog (frepr : fl -> str) (atomic : bool) (ws : path) (s : aspec) : prog (list aobs) :=
  actor_prog frepr atomic (s_tag s) ws (s_acts s) [].

Theorem docs_disjoint_jobs_lemma : forall frepr atomic f0 w1 w2 wr (specs : list aspec) sched,
  let ws := w1 :: w2 :: wr in
  get f0 ws = Some Dir ->
  NoDup (map s_id specs) ->
  (forall s, In s specs -> Forall (own_act frepr (s_id s)) (s_acts s)) ->
  let ps := map (spec_prog frepr atomic ws) specs in
  snd (interleave sched f0 ps) = snd (sequential f0 ps) /\
  fs_eq (fst (interleave sched f0 ps)) (fst (sequential f0 ps)).
Proof.
  intros frepr atomic f0 w1 w2 wr specs sched ws Hws Hnd Hown ps.
  apply (interleave_disjoint_seq _ (map (fun s => ws ++ [s_id s]) specs) ps f0 sched).
  - unfold ps. rewrite !map_length. reflexivity.
  - intros n d p Hd Hp. unfold ps in Hp. rewrite nth_error_map in Hd, Hp.
    destruct (nth_error specs n) as [s|] eqn:Es; [|discriminate]. simpl in Hd, Hp.
    injection Hd as <-. injection Hp as <-. unfold spec_prog. apply pc_actor; auto.
    apply Hown. eapply nth_error_In; eauto.
  - intros a b da db Hab Ha Hb. rewrite nth_error_map in Ha, Hb.
    destruct (nth_error specs a) as [sa|] eqn:Ea; [|discriminate].
    destruct (nth_error specs b) as [sb|] eqn:Eb; [|discriminate]. simpl in Ha, Hb.
    injection Ha as <-. injection Hb as <-.
    assert (Hne : s_id sa <> s_id sb).
    { intro E. apply Hab. eapply (proj1 (NoDup_nth_error (map s_id specs))); eauto.
      - apply nth_error_Some. rewrite nth_error_map, Ea. discriminate.
      - rewrite !nth_error_map, Ea, Eb. simpl. congruence. }
    split; [apply (sibling_not_under ws)|apply (sibling_not_under ws)]; auto.
Qed.

(* a read that follows a completed document write returns the written value *)
Lemma doc_read_after_write_lemma : forall frepr tag (f f1 : fs) (file : path) (v : json),
  run (doc_store frepr tag file v (fun r => match r with inl _ => Ret tt | inr e => Raise e end)) f = (f1, inl tt) ->
  forall g, (forall q, q = file -> get g q = get f1 q) ->
  snd (run (doc_load file (fun r => match r with inl d => Ret d | inr e => Raise e end)) g) = inl v.
Proof.
  intros frepr tag f f1 file v H g Hg.
  assert (Hf : get f1 file = Some (File (jcontent frepr v))).
  { unfold doc_store, json_save in H. simpl in H.
    set (tmp := tmpname tag file) in *.
    unfold exec_res in H. simpl in H.
    destruct (write_file f tmp empty_content) as [fa|ea] eqn:E1; simpl in H; [|discriminate].
    unfold exec_res in H. simpl in H.
    unfold write_open in H. rewrite (get_write_file _ _ _ _ tmp E1), path_eqb_refl in H.
    destruct (write_file fa tmp (jcontent frepr v)) as [fb|eb] eqn:E2; simpl in H; [|discriminate].
    unfold exec_res in H. simpl in H.
    destruct (rename fb tmp file) as [fc|ec] eqn:E3; simpl in H; [|discriminate].
    injection H as <-.
    assert (Gt : get fb tmp = Some (File (jcontent frepr v))) by (rewrite (get_write_file _ _ _ _ tmp E2), path_eqb_refl; reflexivity).
    destruct (path_eqb tmp file) eqn:Etf.
    - apply path_eqb_eq in Etf. rewrite <- Etf in *. unfold rename in E3. rewrite Gt in E3.
      destruct (get fb (parent tmp)) as [[c|]|]; try discriminate. rewrite path_eqb_refl in E3. injection E3 as <-. exact Gt.
    - apply path_eqb_neq in Etf. rewrite (get_rename_file fb tmp file _ fc file Gt Etf E3), path_eqb_refl. reflexivity. }
  unfold doc_load. simpl. unfold exec_res. simpl. rewrite (Hg file eq_refl), Hf. simpl. reflexivity.
Qed.

(* ------------------------------------------------------------------ the in-place write loses the race *)
Definition wit_p : str := [112%N].
Definition wit_ws : path := [wit_p; WS].
Definition wit_f0 : fs := [([wit_p], Dir); (wit_ws, Dir)].
Definition wit_sp : json := JObj [([97%N], JInt 2)].
Definition wit_repr : fl -> str := fun _ => [].
Definition wit_sched : list nat := [0;0;0;0;0;0;0; 1;1;1;1;1]%nat.
Definition wit_progs (atomic : bool) : list (prog (list aobs)) :=
  [actor_prog wit_repr atomic [97%N] wit_ws [AProject; AInit wit_sp] [];
   actor_prog wit_repr atomic [98%N] wit_ws [AProject; AInit wit_sp] []].

Lemma init_race_direct_write_witness :
  snd (interleave wit_sched wit_f0 (wit_progs false)) = [inl [OUnit; OUnit]; inr (PExn EJobsCorrupted)]
  /\ snd (interleave wit_sched wit_f0 (wit_progs true)) = [inl [OUnit; OUnit]; inl [OUnit; OUnit]].
Proof. split; vm_compute; reflexivity. Qed.

(* ------------------------------------------------------------------ licence for the correspondence step *)
Lemma irun_chk_irun : forall A sched (st st' : istate A),
  irun_chk sched st = Some st' -> st' = irun (map fst sched) st.
Proof.
  intros A sched. induction sched as [|[a s] sched IH]; intros st st' H; simpl in H.
  - injection H as <-. reflexivity.
  - destruct (nth_error (snd st) a) as [[x|e|c k]|]; try discriminate.
    destruct (csig_eqb (sig_of c) s); [|discriminate]. apply IH in H. exact H.
Qed.

(* no mismatch: the lock-step run of the implementation IS a run of the interleaving semantics under the
   realised schedule (so every theorem about all schedules speaks about it), with the same results per
   actor and an observationally equal final workspace *)
Theorem model_holds_sched : forall c,
  mismatch_C12 c = false ->
  exists f ps,
    irun (map fst (q_sched c)) (q_pre c, progs_of c) = (f, ps) /\
    all2 result_match (map result_of ps) (q_results c) = true /\
    fobs_match (frepr12 c) [q_ws c] f (q_final c) = true.
Proof.
  intros c H. unfold mismatch_C12 in H.
  destruct (irun_chk (q_sched c) (q_pre c, progs_of c)) as [[f ps]|] eqn:E; [|discriminate].
  apply negb_false_iff in H. apply andb_true_iff in H. destruct H as [H1 H2].
  exists f, ps. split; auto. symmetry. apply irun_chk_irun. exact E.
Qed.
