(* C12Proofs.v — lemmas for C12 (interleavings of initialising / document-writing actors). *)
From SV Require Import Base Json MD5 Canon FS Proc Crash CorrC11 CorrC12.
Import ListNotations.
