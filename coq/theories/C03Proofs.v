(* C03Proofs.v — lemmas behind props/C03.v.

   Store-level refinement.  The abstract state of one workspace is the finite map
        id |-> sub-tree of the job directory          ([absj f wsd i r] : option node, r the relative path)
   defined for exactly the names that count as jobs.  Every life-cycle program of Ws.v, under the
   pre-conditions of its C02 / C04 theorem, acts on this map as the one-line update of the simple model
   (create / re-key / remove / move / clone / nothing).  [refine_run] lifts the single steps to all finite
   sequences by induction. *)
From SV Require Import Base Json MD5 Canon FS Ws WsLemmas WsInit CorrC02 CorrC03 C02Proofs C04Proofs.

(* ------------------------------------------------------------------ which names count as jobs *)
Lemma id_match_is_id : forall n, id_match n = is_id n.
Proof.
  intro n. unfold id_match, is_id.
  destruct (Nat.eqb (length n) 32) eqn:E.
  - apply Nat.eqb_eq in E. rewrite E. reflexivity.
  - simpl. rewrite andb_false_r. reflexivity.
Qed.

Definition listed (f : fs) (wsd : path) (i : str) : Prop :=
  get f wsd = Some Dir /\ get f (wsd ++ [i]) <> None /\ is_id i = true.

(* only exactly id-named entries of the workspace count as jobs *)
Lemma job_dirs_listed : forall f wsd i, In i (job_dirs f wsd) <-> listed f wsd i.
Proof.
  intros f wsd i. unfold job_dirs, listdir, listed.
  destruct (get f wsd) as [[c|]|] eqn:E.
  - split; [contradiction|]. intros [H _]. discriminate.
  - rewrite filter_In, In_children, id_match_is_id. rewrite In_keys_lookup.
    assert (G : get f (wsd ++ [i]) = lookup (wsd ++ [i]) f) by (destruct wsd; reflexivity).
    rewrite G. split.
    + intros [[n Hn] Hid]. split; [reflexivity|]. split; [congruence|exact Hid].
    + intros [_ [Hn Hid]]. split; [|exact Hid]. destruct (lookup (wsd ++ [i]) f); [eauto|congruence].
  - split; [contradiction|]. intros [H _]. discriminate.
Qed.

Lemma job_dirs_NoDup : forall f wsd, NoDup (job_dirs f wsd).
Proof.
  intros f wsd. unfold job_dirs, listdir. destruct (get f wsd) as [[c|]|]; try constructor.
  apply NoDup_filter. apply children_NoDup.
Qed.

Definition listed_b (f : fs) (wsd : path) (i : str) : bool :=
  isdir f wsd && exists_ f (wsd ++ [i]) && is_id i.

Lemma listed_b_spec : forall f wsd i, listed_b f wsd i = true <-> listed f wsd i.
Proof.
  intros f wsd i. unfold listed_b, listed, isdir, exists_. rewrite !andb_true_iff.
  destruct (get f wsd) as [[c|]|]; destruct (get f (wsd ++ [i])); split; intros [[A B] C] || intros [A [B C]];
    try discriminate; try congruence; auto.
  all: try (repeat split; auto; discriminate).
Qed.

(* the abstraction: the sub-tree of job i (None everywhere when i is not a job) *)
Definition absj (f : fs) (wsd : path) (i : str) (r : path) : option node :=
  if listed_b f wsd i then get f ((wsd ++ [i]) ++ r) else None.

(* ------------------------------------------------------------------ the simple model on these maps *)
Definition amap := str -> path -> option node.

Inductive aop :=
| ACreate (i : str) (c : content)                 (* a new job holding just its state point file *)
| ARekey (old new : str) (c : content)            (* the job moves to a new id with a new state point file *)
| ARemove (i : str)
| ANop.

Definition astep (a : amap) (o : aop) : amap :=
  match o with
  | ACreate i c => fun k r =>
      if str_eqb k i then
        match r with
        | [] => Some Dir
        | [n] => if str_eqb n SPF then Some (File c) else None
        | _ => None
        end
      else a k r
  | ARekey old new c => fun k r =>
      if str_eqb k new then
        match r with
        | [n] => if str_eqb n SPF then Some (File c) else if str_eqb n SPT then None else a old r
        | _ => a old r
        end
      else if str_eqb k old then None else a k r
  | ARemove i => fun k r => if str_eqb k i then None else a k r
  | ANop => a
  end.

(* what a concrete step must do to the tree to be a refinement of [o] (these are exactly the get-level
   post-conditions of C02_init_post, C04_rekey_ok, FS.get_rmtree, and of every read-only / failing step) *)
Inductive cstep_ok (wsd : path) : fs -> aop -> fs -> Prop :=
| ok_create : forall f f' i c,
    get f wsd = Some Dir -> is_id i = true ->
    (forall q, under (wsd ++ [i]) q = true -> get f q = None) ->
    get f' (wsd ++ [i]) = Some Dir -> get f' (wsd ++ [i; SPF]) = Some (File c) ->
    (forall q, q <> wsd ++ [i] -> q <> wsd ++ [i; SPF] -> get f' q = get f q) ->
    cstep_ok wsd f (ACreate i c) f'
| ok_rekey : forall f f' old new c,
    get f wsd = Some Dir -> is_id old = true -> is_id new = true -> old <> new ->
    get f (wsd ++ [old]) = Some Dir ->
    (get f (wsd ++ [new]) = None \/ get f (wsd ++ [new]) = Some Dir) ->
    (forall r, get f' ((wsd ++ [old]) ++ r) = None) ->
    get f' (wsd ++ [new]) = Some Dir ->
    get f' ((wsd ++ [new]) ++ [SPF]) = Some (File c) ->
    get f' ((wsd ++ [new]) ++ [SPT]) = None ->
    (forall x r, x :: r <> [SPF] -> x :: r <> [SPT] ->
       get f' ((wsd ++ [new]) ++ x :: r) = get f ((wsd ++ [old]) ++ x :: r)) ->
    (forall q, under (wsd ++ [old]) q = false -> under (wsd ++ [new]) q = false -> get f' q = get f q) ->
    cstep_ok wsd f (ARekey old new c) f'
| ok_remove : forall f f' i,
    (forall q, get f' q = if under (wsd ++ [i]) q then None else get f q) ->
    cstep_ok wsd f (ARemove i) f'
| ok_nop : forall f f', fs_eq f' f -> cstep_ok wsd f ANop f'.

Lemma under_ws_child : forall (wsd : path) i, under (wsd ++ [i]) wsd = false.
Proof.
  intros wsd i. destruct (under (wsd ++ [i]) wsd) eqn:E; auto.
  apply under_spec in E. destruct E as [r E]. rewrite <- app_assoc in E.
  rewrite <- (app_nil_r wsd) in E at 1. apply app_inv_head in E. discriminate.
Qed.

Lemma app3 : forall (wsd : path) k r, wsd ++ [k] ++ r = (wsd ++ [k]) ++ r.
Proof. intros. rewrite <- app_assoc. reflexivity. Qed.

Lemma listed_b_frame : forall f f' wsd k,
  get f' wsd = get f wsd -> get f' (wsd ++ [k]) = get f (wsd ++ [k]) -> listed_b f' wsd k = listed_b f wsd k.
Proof. intros f f' wsd k H1 H2. unfold listed_b, isdir, exists_. rewrite H1, H2. reflexivity. Qed.

Lemma neq_len : forall (a b : path), length a <> length b -> a <> b.
Proof. intros a b H E. subst. auto. Qed.

Lemma refine_create : forall wsd f f' i c k r,
  get f wsd = Some Dir -> is_id i = true ->
  (forall q, under (wsd ++ [i]) q = true -> get f q = None) ->
  get f' (wsd ++ [i]) = Some Dir -> get f' (wsd ++ [i; SPF]) = Some (File c) ->
  (forall q, q <> wsd ++ [i] -> q <> wsd ++ [i; SPF] -> get f' q = get f q) ->
  absj f' wsd k r = astep (absj f wsd) (ACreate i c) k r.
Proof.
  intros wsd f f' i c k r Hws Hid Hfree Hjd Hfile Hframe. unfold absj. simpl.
  assert (Hws' : get f' wsd = get f wsd).
  { apply Hframe; apply neq_len; rewrite !app_length; simpl; lia. }
  destruct (str_eqb k i) eqn:Ek.
  - apply str_eqb_eq in Ek. subst k.
    assert (L : listed_b f' wsd i = true).
    { unfold listed_b, isdir, exists_. rewrite Hws', Hws, Hjd, Hid. reflexivity. }
    rewrite L. destruct r as [|n [|m r]].
    + rewrite app_nil_r. exact Hjd.
    + destruct (str_eqb n SPF) eqn:En.
      * apply str_eqb_eq in En. subst n. rewrite <- two_snoc. exact Hfile.
      * rewrite Hframe.
        -- apply Hfree. apply under_app.
        -- apply snoc_neq_self.
        -- rewrite two_snoc. intro E. apply snoc_inj in E. subst n. rewrite str_eqb_refl in En. discriminate.
    + rewrite Hframe.
      * apply Hfree. apply under_app.
      * apply neq_len. rewrite !app_length. simpl. lia.
      * apply neq_len. rewrite !app_length. simpl. lia.
  - apply str_eqb_neq in Ek.
    assert (Hout : forall q, under (wsd ++ [k]) q = true -> get f' q = get f q).
    { intros q Hq. apply Hframe.
      - intro E. subst q. rewrite sibling_not_under in Hq by auto. discriminate.
      - intro E. subst q.
        replace (wsd ++ [i; SPF]) with (wsd ++ i :: [SPF]) in Hq by reflexivity.
        rewrite sibling_not_under_deep in Hq by auto. discriminate. }
    rewrite (listed_b_frame f f' wsd k Hws' (Hout _ (under_refl _))).
    destruct (listed_b f wsd k); auto. apply Hout. apply under_app.
Qed.

Lemma refine_remove : forall wsd f f' i k r,
  (forall q, get f' q = if under (wsd ++ [i]) q then None else get f q) ->
  absj f' wsd k r = astep (absj f wsd) (ARemove i) k r.
Proof.
  intros wsd f f' i k r Hg. unfold absj. simpl.
  assert (Hws' : get f' wsd = get f wsd) by (rewrite Hg, under_ws_child; reflexivity).
  destruct (str_eqb k i) eqn:Ek.
  - apply str_eqb_eq in Ek. subst k.
    assert (L : listed_b f' wsd i = false).
    { unfold listed_b, exists_. rewrite (Hg (wsd ++ [i])), under_refl. rewrite andb_false_r. reflexivity. }
    rewrite L. reflexivity.
  - apply str_eqb_neq in Ek.
    assert (Hout : forall q, under (wsd ++ [k]) q = true -> get f' q = get f q).
    { intros q Hq. rewrite Hg.
      destruct (under (wsd ++ [i]) q) eqn:E; auto.
      destruct (under_comparable (wsd ++ [k]) (wsd ++ [i]) q Hq E) as [H|H];
        rewrite sibling_not_under in H by auto; discriminate. }
    rewrite (listed_b_frame f f' wsd k Hws' (Hout _ (under_refl _))).
    destruct (listed_b f wsd k); auto. apply Hout. apply under_app.
Qed.

Lemma refine_nop : forall wsd f f' k r, fs_eq f' f -> absj f' wsd k r = absj f wsd k r.
Proof.
  intros wsd f f' k r H. unfold absj, listed_b, isdir, exists_. rewrite !H. reflexivity.
Qed.

Lemma refine_rekey : forall wsd f f' old new c k r,
  get f wsd = Some Dir -> is_id old = true -> is_id new = true -> old <> new ->
  get f (wsd ++ [old]) = Some Dir ->
  (forall rr, get f' ((wsd ++ [old]) ++ rr) = None) ->
  get f' (wsd ++ [new]) = Some Dir ->
  get f' ((wsd ++ [new]) ++ [SPF]) = Some (File c) ->
  get f' ((wsd ++ [new]) ++ [SPT]) = None ->
  (forall x rr, x :: rr <> [SPF] -> x :: rr <> [SPT] ->
     get f' ((wsd ++ [new]) ++ x :: rr) = get f ((wsd ++ [old]) ++ x :: rr)) ->
  (forall q, under (wsd ++ [old]) q = false -> under (wsd ++ [new]) q = false -> get f' q = get f q) ->
  absj f' wsd k r = astep (absj f wsd) (ARekey old new c) k r.
Proof.
  intros wsd f f' old new c k r Hws Hio Hin Hne Hold Hgone Hnd Hnf Hnt Hcarry Hframe. unfold absj. simpl.
  assert (Hws' : get f' wsd = get f wsd) by (apply Hframe; apply under_ws_child).
  assert (Lold : listed_b f wsd old = true).
  { unfold listed_b, isdir, exists_. rewrite Hws, Hold, Hio. reflexivity. }
  destruct (str_eqb k new) eqn:Ekn.
  - apply str_eqb_eq in Ekn. subst k.
    assert (L : listed_b f' wsd new = true).
    { unfold listed_b, isdir, exists_. rewrite Hws', Hws, Hnd, Hin. reflexivity. }
    rewrite L, Lold.
    destruct r as [|n rr].
    + rewrite !app_nil_r. rewrite Hnd. symmetry. exact Hold.
    + destruct rr as [|m rr].
      * destruct (str_eqb n SPF) eqn:E1.
        -- apply str_eqb_eq in E1. subst n. exact Hnf.
        -- destruct (str_eqb n SPT) eqn:E2.
           ++ apply str_eqb_eq in E2. subst n. exact Hnt.
           ++ apply Hcarry; intro E; inversion E; subst n;
                [rewrite str_eqb_refl in E1|rewrite str_eqb_refl in E2]; discriminate.
      * apply Hcarry; discriminate.
  - apply str_eqb_neq in Ekn.
    destruct (str_eqb k old) eqn:Eko.
    + apply str_eqb_eq in Eko. subst k.
      assert (L : listed_b f' wsd old = false).
      { unfold listed_b, exists_. rewrite <- (app_nil_r (wsd ++ [old])), Hgone. rewrite andb_false_r. reflexivity. }
      rewrite L. reflexivity.
    + apply str_eqb_neq in Eko.
      assert (Hout : forall q, under (wsd ++ [k]) q = true -> get f' q = get f q).
      { intros q Hq. apply Hframe.
        - destruct (under (wsd ++ [old]) q) eqn:E; auto.
          destruct (under_comparable (wsd ++ [k]) (wsd ++ [old]) q Hq E) as [H|H];
            rewrite sibling_not_under in H by auto; discriminate.
        - destruct (under (wsd ++ [new]) q) eqn:E; auto.
          destruct (under_comparable (wsd ++ [k]) (wsd ++ [new]) q Hq E) as [H|H];
            rewrite sibling_not_under in H by auto; discriminate. }
      rewrite (listed_b_frame f f' wsd k Hws' (Hout _ (under_refl _))).
      destruct (listed_b f wsd k); auto. apply Hout. apply under_app.
Qed.

(* refine_step: one concrete step that meets its get-level post-condition acts on the abstraction as the
   simple model's update *)
Lemma refine_step : forall wsd f o f', cstep_ok wsd f o f' ->
  forall k r, absj f' wsd k r = astep (absj f wsd) o k r.
Proof.
  intros wsd f o f' H k r. destruct H.
  - apply refine_create; auto.
  - eapply refine_rekey; eauto.
  - apply refine_remove; auto.
  - simpl. apply refine_nop; auto.
Qed.

(* refine_run: the lift to every finite sequence, by induction *)
Inductive crun_ok (wsd : path) : fs -> list aop -> fs -> Prop :=
| run_nil : forall f, crun_ok wsd f [] f
| run_cons : forall f o f1 os f2, cstep_ok wsd f o f1 -> crun_ok wsd f1 os f2 -> crun_ok wsd f (o :: os) f2.

Definition astep_ext (a b : amap) : Prop := forall k r, a k r = b k r.

Lemma astep_proper : forall a b o, astep_ext a b -> astep_ext (astep a o) (astep b o).
Proof.
  intros a b o H k r. destruct o; simpl.
  - destruct (str_eqb k i); auto.
  - destruct (str_eqb k new).
    + destruct r as [|n [|m rr]]; auto. destruct (str_eqb n SPF); auto. destruct (str_eqb n SPT); auto.
    + destruct (str_eqb k old); auto.
  - destruct (str_eqb k i); auto.
  - auto.
Qed.

Lemma refine_run : forall wsd ops f f', crun_ok wsd f ops f' ->
  forall k r, absj f' wsd k r = fold_left astep ops (absj f wsd) k r.
Proof.
  intros wsd ops. induction ops as [|o ops IH]; intros f f' H k r.
  - inversion H; subst. reflexivity.
  - inversion H as [|? ? f1 ? ? Hs Hr]; subst. simpl. rewrite (IH f1 f' Hr).
    assert (G : forall a b, astep_ext a b -> forall l, astep_ext (fold_left astep l a) (fold_left astep l b)).
    { intros a b Hab l. revert a b Hab. induction l as [|x l IHl]; intros a b Hab; simpl; auto.
      apply IHl. apply astep_proper. exact Hab. }
    apply G. intros k' r'. apply (refine_step wsd f o f1 Hs).
Qed.

(* ------------------------------------------------------------------ the concrete programs meet the step conditions *)
Section Concrete.
  Variable frepr : fl -> str.

  Lemma calc_id_is_id : forall v, is_id (calc_id frepr v) = true.
  Proof.
    intro v. unfold is_id, calc_id. destruct (md5_hex_shape (canon frepr v)) as [Hl Hh].
    rewrite Hl, Hh. reflexivity.
  Qed.

  (* Job.init on a clean place = create *)
  Lemma init_refines_create : forall w h sp,
    (h < length (w_hs w))%nat ->
    h_cell (getH w h) = None -> h_cached (getH w h) = Some sp -> h_id (getH w h) = calc_id frepr sp ->
    is_null sp = false ->
    let wsd := wsp (getS w (h_s (getH w h))) in
    (forall k, (k <= length wsd)%nat -> get (w_fs w) (firstn k wsd) = Some Dir) ->
    (forall q, under (wsd ++ [h_id (getH w h)]) q = true -> get (w_fs w) q = None) ->
    exists w', init frepr false false w h = (w', inl tt) /\
      cstep_ok wsd (w_fs w) (ACreate (h_id (getH w h)) (sp_content frepr sp)) (w_fs w').
  Proof.
    intros w h sp Hlt Hc Hca Hid Hnn wsd Hchain Hfree.
    destruct (init_fresh_post frepr w h sp Hlt Hc Hca Hid Hnn Hchain Hfree) as [w' [Hi [Hjd [Hf [_ Hfr]]]]].
    exists w'. split; [exact Hi|]. fold wsd in Hjd, Hf, Hfr.
    apply ok_create; auto.
    - specialize (Hchain (length wsd) (le_n _)). rewrite firstn_all in Hchain. exact Hchain.
    - rewrite Hid. apply calc_id_is_id.
    - rewrite two_snoc. exact Hf.
    - intros q H1 H2. apply Hfr; auto. rewrite <- two_snoc. exact H2.
  Qed.

  (* Job.init on a valid job = nothing *)
  Lemma init_refines_nop : forall susp force w h wsd,
    (let '(w1, r) := sp_access frepr w h in
     exists ci v, r = inl ci /\ load_file frepr w1 (getH w1 h) = inl v) ->
    cstep_ok wsd (w_fs w) ANop (w_fs (fst (init frepr susp force w h))).
  Proof.
    intros susp force w h wsd H. pose proof (init_valid_no_write frepr susp force w h H) as G.
    destruct (init frepr susp force w h) as [w' r']. destruct G as [_ [Hfs _]]. simpl.
    apply ok_nop. rewrite Hfs. apply fs_eq_refl.
  Qed.

  (* every read-only operation = nothing *)
  Lemma readonly_refines_nop : forall w q o wsd,
    readonly o = true -> cstep_ok wsd (w_fs w) ANop (w_fs (fst (fst (step frepr w q o)))).
  Proof.
    intros w q o wsd H. pose proof (readonly_no_fs_effect frepr w q o H) as G.
    destruct (step frepr w q o) as [[w1 q1] out]. destruct G as [Hfs _]. simpl.
    apply ok_nop. rewrite Hfs. apply fs_eq_refl.
  Qed.

  (* the successful re-key = ARekey; the conflicting one = nothing *)
  Lemma sp_save_refines_rekey : forall w ci cf,
    let c := getC w ci in
    let js := c_jobs c in
    let h0 := getH w (hd 0%nat js) in
    let old := h_id h0 in
    let new := calc_id frepr (c_data c) in
    let wsd := wsp (getS w (h_s h0)) in
    let src := wsd ++ [old] in
    let dst := wsd ++ [new] in
    old <> new -> is_null (c_data c) = false -> is_id old = true ->
    js <> [] ->
    (forall j, In j js -> (j < length (w_hs w))%nat /\ h_cell (getH w j) = Some ci /\ h_s (getH w j) = h_s h0) ->
    getCF w ci = src ++ [SPF] ->
    get (w_fs w) (src ++ [SPF]) = Some (File cf) ->
    get (w_fs w) (src ++ [SPT]) = None -> get (w_fs w) (src ++ [TMPPFX ++ SPF]) = None ->
    get (w_fs w) src = Some Dir -> get (w_fs w) wsd = Some Dir ->
    (get (w_fs w) dst = None \/ get (w_fs w) dst = Some Dir) -> has_children (w_fs w) dst = false ->
    exists w', sp_save frepr false w ci = (w', inl tt) /\
      cstep_ok wsd (w_fs w) (ARekey old new (sp_content frepr (c_data c))) (w_fs w').
  Proof.
    intros w ci cf c js h0 old new wsd src dst Hne Hnn Hio Hjs Hall HCF Hfile Htmp Htmp2 Hsrc Hws Hdst Hkids.
    destruct (rekey_ok frepr w ci cf Hne Hnn Hjs Hall HCF Hfile Htmp Htmp2 Hsrc Hws Hdst Hkids)
      as [w' [E [Hgone [Hnd [Hnf [Hnt [Hcarry [Hframe _]]]]]]]].
    exists w'. split; [exact E|].
    eapply ok_rekey; eauto. apply calc_id_is_id.
  Qed.

  Lemma sp_save_conflict_refines_nop : forall w ci cf,
    let c := getC w ci in
    let h0 := getH w (hd 0%nat (c_jobs c)) in
    let old := h_id h0 in
    let new := calc_id frepr (c_data c) in
    let wsd := wsp (getS w (h_s h0)) in
    old <> new ->
    getCF w ci = wsd ++ [old; SPF] ->
    get (w_fs w) (wsd ++ [old; SPF]) = Some (File cf) ->
    get (w_fs w) (wsd ++ [old; SPT]) = None ->
    get (w_fs w) (wsd ++ [old]) = Some Dir -> get (w_fs w) wsd = Some Dir ->
    get (w_fs w) (wsd ++ [new]) = Some Dir -> has_children (w_fs w) (wsd ++ [new]) = true ->
    exists w', sp_save frepr false w ci = (w', inr (FExn EDestinationExists)) /\
      cstep_ok wsd (w_fs w) ANop (w_fs w').
  Proof.
    intros w ci cf c h0 old new wsd H1 H0 H2 H3 H4 H5 H6 H7.
    destruct (rekey_conflict frepr w ci cf H1 H0 H2 H3 H4 H5 H6 H7) as [w' [E [Hfs _]]].
    exists w'. split; [exact E|]. apply ok_nop. exact Hfs.
  Qed.

  (* Job.remove() of an existing job directory, through a handle that holds no document object = ARemove *)
  Lemma remove_refines_remove : forall w h,
    let jd := jobdir w (getH w h) in
    get (w_fs w) jd = Some Dir -> jd <> [] -> getHD w h = None ->
    exists w', remove_job frepr w h = (w', inl tt) /\
      cstep_ok (wsp (getS w (h_s (getH w h)))) (w_fs w) (ARemove (h_id (getH w h))) (w_fs w').
  Proof.
    intros w h jd Hjd Hne Hhd. unfold remove_job. fold jd.
    assert (R : rmtree (w_fs w) jd = FOk (del_under jd (w_fs w))).
    { unfold rmtree. destruct jd; [contradiction|]. rewrite Hjd. reflexivity. }
    rewrite R. simpl. change (getHD (set_fs w (del_under jd (w_fs w)) [EvRmtree jd]) h) with (getHD w h). rewrite Hhd.
    eexists. split; [reflexivity|]. apply ok_remove. intro q. simpl.
    apply (get_rmtree (w_fs w) jd _ q R).
  Qed.
  (* fix 270ca63: init() through a handle whose state point cannot be loaded has no effect on the tree, the
     handles or the cells (only the lock registry learns the file name) *)
  Lemma sp_access_fail_same : forall w h w1 e, sp_access frepr w h = (w1, inr e) ->
    w1 = lock_add w (spfile w (getH w h)).
  Proof.
    intros w h w1 e H. unfold sp_access in H.
    destruct (h_cell (getH w h)); [discriminate|]. destruct (h_cached (getH w h)); [discriminate|].
    destruct (load_file frepr w (getH w h)); inversion H; reflexivity.
  Qed.

  Lemma init_unloadable_no_effect : forall susp force w h w1 e,
    sp_access frepr w h = (w1, inr e) ->
    exists w', init frepr susp force w h = (w', inr e) /\
      w_fs w' = w_fs w /\ w_tr w' = w_tr w /\ w_hs w' = w_hs w /\ w_cs w' = w_cs w /\ w_ss w' = w_ss w.
  Proof.
    intros susp force w h w1 e H. pose proof (sp_access_fail_same w h w1 e H) as ->.
    unfold init. rewrite H.
    assert (H2 : sp_access frepr (lock_add w (spfile w (getH w h))) h
                 = (lock_add (lock_add w (spfile w (getH w h))) (spfile w (getH w h)), inr e)).
    { unfold sp_access in *. change (getH (lock_add w (spfile w (getH w h))) h) with (getH w h).
      destruct (h_cell (getH w h)); [discriminate|]. destruct (h_cached (getH w h)); [discriminate|].
      change (load_file frepr (lock_add w (spfile w (getH w h))) (getH w h)) with (load_file frepr w (getH w h)).
      destruct (load_file frepr w (getH w h)); inversion H; reflexivity. }
    rewrite H2. eexists. split; [reflexivity|]. repeat split; reflexivity.
  Qed.

  (* fix b6340e2: a string that is not exactly an id never resolves, whatever exists in the workspace *)
  Lemma resolve_requires_id : forall f wsd i m, resolve f wsd i = inl m -> is_id m = true.
  Proof.
    intros f wsd i m H. unfold resolve, resolve_ids in H.
    destruct (Nat.ltb (length i) 32).
    - destruct (filter (str_prefix i) (job_dirs f wsd)) as [|x [|y r]] eqn:E; try discriminate.
      inversion H; subst.
      assert (Hin : In m (filter (str_prefix i) (job_dirs f wsd))) by (rewrite E; simpl; auto).
      apply filter_In in Hin. destruct Hin as [Hin _]. apply job_dirs_listed in Hin. destruct Hin as [_ [_ Hid]]. exact Hid.
    - destruct (id_match i && exists_ f (wsd ++ [i])) eqn:E; [|discriminate]. inversion H; subst.
      apply andb_true_iff in E. destruct E as [E _]. rewrite id_match_is_id in E. exact E.
  Qed.
End Concrete.

(* ------------------------------------------------------------------ len = |iteration| = membership in the model *)
Lemma len_is_length_of_ids : forall frepr w q s,
  snd (step frepr w q (OLen s)) =
  VNum (N.of_nat (length (match snd (step frepr w q (OIds s)) with VStrs l => l | _ => [] end))).
Proof. reflexivity. Qed.

Lemma contains_iff_listed : forall f wsd i, is_id i = true -> get f wsd = Some Dir ->
  (exists_ f (wsd ++ [i]) = true <-> In i (job_dirs f wsd)).
Proof.
  intros f wsd i Hid Hws. rewrite job_dirs_listed. unfold listed, exists_.
  destruct (get f (wsd ++ [i])); split; intro H; try discriminate; auto.
  - repeat split; auto. discriminate.
  - destruct H as [_ [H _]]. contradiction.
Qed.

(* the fresh view has exactly one row per listed name, and check() is about the same names *)
Lemma view_ids : forall frepr f r, map v_id (view frepr f r) = job_dirs f (r ++ [WS]).
Proof. intros. unfold view. rewrite map_map. simpl. apply map_id. Qed.

(* ------------------------------------------------------------------ witnesses: where the public operations
   do NOT act as the simple model (each replayed on the real signac by harness/c03.py, SCRIPTS) *)
Definition xB : str := [98%N].
Definition xa0 : json := JObj [(kA, JInt 0)].
Definition xa1 : json := JObj [(kA, JInt 1)].
Definition xa2 : json := JObj [(kA, JInt 2)].
Definition xa1b0 : json := JObj [(kA, JInt 1); (xB, JInt 0)].
Definition xwB : path := [[66%N]].
Definition xid (v : json) : str := calc_id wfr v.

(* a rejected state point change (DestinationExistsError) is rolled back in memory too (fix 5e72814): the next
   change starts from the job's real state point *)
Definition xa0b0 : json := JObj [(kA, JInt 0); (xB, JInt 0)].
Lemma rollback_example :
  run wfr w0 0 [ONewSession wA; OOpenSp 0 xa0; OInit 0 false; OOpenSp 0 xa1; OInit 1 false;
                OEdit 0 [] (ESetKey kA (JInt 1)); OSp 0; OEdit 0 [] (ESetKey xB (JInt 0)); OIds 0]
  = [VUnit; VStr (xid xa0); VUnit; VStr (xid xa1); VUnit; VExn EDestinationExists; VJson xa0; VUnit;
     VStrs [xid xa1; xid xa0b0]].
Proof. vm_compute. reflexivity. Qed.

(* two handles of one job: after one re-keys it, a change through the other raises the lock registry's KeyError *)
Lemma lock_witness :
  run wfr w0 0 [ONewSession wA; OOpenSp 0 xa0; OInit 0 false; OOpenSp 0 xa0; OSp 1;
                OEdit 0 [] (ESetKey kA (JInt 1)); OEdit 1 [] (ESetKey xB (JInt 0))]
  = [VUnit; VStr (xid xa0); VUnit; VStr (xid xa0); VJson xa0; VUnit; VExn EKeyError].
Proof. vm_compute. reflexivity. Qed.

(* a by-id handle that never loaded its state point: init() after the job was removed raises, but nothing is
   created (fix 270ca63): the listing stays empty and check() passes *)
Lemma lazy_example :
  run wfr w0 0 [ONewSession wA; OOpenSp 0 xa0; OInit 0 false; ONewSession wA; OOpenId 1 (xid xa0); ORemove 0;
                OInit 1 false; OCheck 0; OIds 0]
  = [VUnit; VStr (xid xa0); VUnit; VUnit; VStr (xid xa0); VUnit; VExn EJobsCorrupted; VUnit; VStrs []].
Proof. vm_compute. reflexivity. Qed.

(* a second handle keeps its document object over remove() + init() through the first: its next write resurrects
   the removed job's document *)
Lemma stale_doc_witness :
  run wfr w0 0 [ONewSession wA; OOpenSp 0 xa0; OInit 0 false; ODocSet 0 kA (JInt 1); OOpenSp 0 xa0; ODoc 1;
                ORemove 0; OInit 0 false; ODocSet 1 xB (JInt 2); ODoc 0]
  = [VUnit; VStr (xid xa0); VUnit; VUnit; VStr (xid xa0); VJson (JObj [(kA, JInt 1)]); VUnit; VUnit; VUnit;
     VJson (JObj [(kA, JInt 1); (xB, JInt 2)])].
Proof. vm_compute. reflexivity. Qed.

(* after move() the moved handle has left its old cell (fix d38783c): a change through a shallow copy no longer
   touches it *)
Lemma moved_copy_example :
  run wfr w0 0 [ONewSession wA; ONewSession xwB; OOpenSp 0 xa0; OInit 0 false; OSp 0; OCopy 0; OMove 0 1;
                OEdit 1 [] (ESetKey kA (JInt 2)); OIdPath 0; OIdPath 1; OIds 1; OIds 0]
  = [VUnit; VUnit; VStr (xid xa0); VUnit; VJson xa0; VStr (xid xa0); VUnit; VUnit;
     VIdPath (xid xa0) (xwB ++ [WS; xid xa0]); VIdPath (xid xa2) (wA ++ [WS; xid xa2]); VStrs [xid xa0]; VStrs []].
Proof. vm_compute. reflexivity. Qed.

(* open_job(id = a name that is not an id) is refused although the directory exists (fix b6340e2) *)
Lemma non_id_name_example :
  let bak := xid xa0 ++ [46; 98; 97; 107]%N in
  run wfr w0 0 [ONewSession wA; OOpenSp 0 xa0; OInit 0 false; OPlantDir (wA ++ [WS; bak]); OOpenId 0 bak; OIds 0; OLen 0]
  = [VUnit; VStr (xid xa0); VUnit; VUnit; VExn EKeyError; VStrs [xid xa0]; VNum 1].
Proof. vm_compute. reflexivity. Qed.

(* no backup / temp file after a successful re-key *)
Lemma rekey_leaves_no_temp : forall frepr w ci cf,
  let c := getC w ci in
  let js := c_jobs c in
  let h0 := getH w (hd 0%nat js) in
  let old := h_id h0 in
  let new := calc_id frepr (c_data c) in
  let wsd := wsp (getS w (h_s h0)) in
  let src := wsd ++ [old] in
  let dst := wsd ++ [new] in
  old <> new -> is_null (c_data c) = false -> js <> [] ->
  (forall j, In j js -> (j < length (w_hs w))%nat /\ h_cell (getH w j) = Some ci /\ h_s (getH w j) = h_s h0) ->
  getCF w ci = src ++ [SPF] ->
  get (w_fs w) (src ++ [SPF]) = Some (File cf) ->
  get (w_fs w) (src ++ [SPT]) = None -> get (w_fs w) (src ++ [TMPPFX ++ SPF]) = None ->
  get (w_fs w) src = Some Dir -> get (w_fs w) wsd = Some Dir ->
  (get (w_fs w) dst = None \/ get (w_fs w) dst = Some Dir) -> has_children (w_fs w) dst = false ->
  exists w', sp_save frepr false w ci = (w', inl tt) /\
    get (w_fs w') (dst ++ [SPT]) = None /\ get (w_fs w') (dst ++ [TMPPFX ++ SPF]) = None /\
    (forall r, get (w_fs w') (src ++ r) = None).
Proof.
  intros frepr w ci cf c js h0 old new wsd src dst Hne Hnn Hjs Hall HCF Hfile Htmp Htmp2 Hsrc Hws Hdst Hkids.
  destruct (rekey_ok frepr w ci cf Hne Hnn Hjs Hall HCF Hfile Htmp Htmp2 Hsrc Hws Hdst Hkids)
    as [w' [E [Hgone [_ [_ [Hnt [Hcarry _]]]]]]].
  exists w'. split; [exact E|]. split; [exact Hnt|]. split; [|exact Hgone].
  subst dst src wsd new old h0 js c. etransitivity; [apply (Hcarry (TMPPFX ++ SPF) [])|exact Htmp2].
  - intro H. inversion H.
  - intro H. inversion H.
Qed.
