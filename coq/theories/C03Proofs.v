(* C03Proofs.v — lemmas behind props/C03.v *)
From SV Require Import Base Json MD5 Canon FS Ws WsLemmas WsInit CorrC02 CorrC03.
