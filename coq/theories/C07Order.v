(* C07Order.v — groupby: on mutually orderable scalar labels the groups' labels are pairwise different
   (strictly increasing), so the groups really partition the selected jobs by value. *)
From SV Require Import Base Json PyVal PyValProofs PyEqEquiv Query Front C07Proofs.
From Coq Require Import Sorted.
Local Open Scope Z_scope.

Definition scalar (v : json) : bool :=
  match v with JBool _ | JInt _ | JFloat _ | JStr _ => true | _ => false end.

(* ---------- order facts on scalars ---------- *)
Lemma py_order_num : forall a b p q, num_of a = Some p -> num_of b = Some q -> py_order a b = Some (dy_cmp p q).
Proof.
  intros a b p q Ha Hb.
  destruct a as [|x|z|[m e]|s|l|kvs]; simpl in Ha; try discriminate; inversion Ha; subst;
    destruct b as [|y|z'|[m' e']|s'|l'|kvs']; simpl in Hb; try discriminate; inversion Hb; subst; reflexivity.
Qed.

Lemma py_order_scalar_cases : forall a b c, scalar a = true -> scalar b = true -> py_order a b = Some c ->
  (exists p q, num_of a = Some p /\ num_of b = Some q /\ c = dy_cmp p q) \/
  (exists s t, a = JStr s /\ b = JStr t /\ c = str_cmp s t).
Proof.
  intros a b c Sa Sb H.
  destruct a as [|x|z|[m e]|s|l|kvs]; try discriminate; destruct b as [|y|z'|[m' e']|s'|l'|kvs']; try discriminate;
    simpl in H; try discriminate; inversion H; subst;
    try (left; eexists; eexists; split; [reflexivity|split; reflexivity]).
  right. eauto.
Qed.

Lemma dy_cmp_trans_le : forall p q r c1 c2, dy_cmp p q = c1 -> dy_cmp q r = c2 -> c1 <> Gt -> c2 <> Gt ->
  dy_cmp p r <> Gt /\ (dy_cmp p r = Eq -> c1 = Eq /\ c2 = Eq).
Proof.
  intros [m1 e1] [m2 e2] [m3 e3] c1 c2 H1 H2 N1 N2.
  set (E := Z.min e1 (Z.min e2 e3)).
  assert (HE1 : E <= e1) by (unfold E; lia). assert (HE2 : E <= e2) by (unfold E; lia).
  assert (HE3 : E <= e3) by (unfold E; lia).
  rewrite (dy_cmp_E m1 e1 m2 e2 E) in H1 by (apply Z.min_glb; lia).
  rewrite (dy_cmp_E m2 e2 m3 e3 E) in H2 by (apply Z.min_glb; lia).
  rewrite (dy_cmp_E m1 e1 m3 e3 E) by (apply Z.min_glb; lia).
  set (A := m1 * 2 ^ (e1 - E)) in *. set (B := m2 * 2 ^ (e2 - E)) in *. set (C := m3 * 2 ^ (e3 - E)) in *.
  assert (HAB : A <= B) by (subst c1; apply Z.compare_le_iff; exact N1).
  assert (HBC : B <= C) by (subst c2; apply Z.compare_le_iff; exact N2).
  split.
  - apply Z.compare_le_iff. lia.
  - intro HE. apply Z.compare_eq in HE. assert (A = B) by lia. assert (B = C) by lia.
    subst c1 c2. split; apply Z.compare_eq_iff; assumption.
Qed.

Lemma str_cmp_trans_le : forall a b c, str_cmp a b <> Gt -> str_cmp b c <> Gt ->
  str_cmp a c <> Gt /\ (str_cmp a c = Eq -> str_cmp a b = Eq /\ str_cmp b c = Eq).
Proof.
  intros a b c H1 H2.
  destruct (str_cmp a b) eqn:E1; try contradiction; destruct (str_cmp b c) eqn:E2; try contradiction.
  - apply str_cmp_eq in E1, E2. subst. assert (H : str_cmp c c = Eq) by (apply str_cmp_eq; reflexivity).
    rewrite H. split; [discriminate|auto].
  - apply str_cmp_eq in E1. subst. rewrite E2. split; [discriminate|discriminate].
  - apply str_cmp_eq in E2. subst. rewrite E1. split; [discriminate|discriminate].
  - rewrite (str_cmp_lt_trans _ _ _ E1 E2). split; discriminate.
Qed.

Definition le_lab (a b : json) : Prop := exists c, py_order a b = Some c /\ c <> Gt.
Definition lt_lab (a b : json) : Prop := py_order a b = Some Lt.

Lemma le_lab_trans : forall a b c, scalar a = true -> scalar b = true -> scalar c = true ->
  le_lab a b -> le_lab b c -> le_lab a c /\ (py_order a c = Some Eq -> py_order a b = Some Eq /\ py_order b c = Some Eq).
Proof.
  intros a b c Sa Sb Sc [c1 [H1 N1]] [c2 [H2 N2]].
  destruct (py_order_scalar_cases a b c1 Sa Sb H1) as [[p [q [Ha [Hb ->]]]]|[s [t [-> [-> ->]]]]].
  - destruct (py_order_scalar_cases b c c2 Sb Sc H2) as [[q' [r [Hb' [Hc ->]]]]|[s [t [Eb _]]]].
    + rewrite Hb in Hb'. inversion Hb'; subst q'.
      destruct (dy_cmp_trans_le p q r _ _ eq_refl eq_refl N1 N2) as [T1 T2].
      pose proof (py_order_num a c p r Ha Hc) as Hac. split.
      * exists (dy_cmp p r). split; [exact Hac|exact T1].
      * intro HE. rewrite Hac in HE. inversion HE as [HE']. destruct (T2 HE') as [X Y].
        rewrite H1, H2, X, Y. auto.
    + subst b. simpl in Hb. discriminate.
  - destruct (py_order_scalar_cases (JStr t) c c2 Sb Sc H2) as [[q' [r [Hb' _]]]|[s' [u [Eb [-> ->]]]]].
    + simpl in Hb'. discriminate.
    + inversion Eb; subst s'. destruct (str_cmp_trans_le s t u N1 N2) as [T1 T2]. split.
      * exists (str_cmp s u). split; [reflexivity|exact T1].
      * intro HE. simpl in HE. inversion HE as [HE']. destruct (T2 HE') as [X Y]. simpl. rewrite X, Y. auto.
Qed.

Lemma py_order_eq_py_eq : forall a b, scalar a = true -> scalar b = true ->
  (py_order a b = Some Eq <-> py_eq a b = true).
Proof.
  intros a b Sa Sb. split; intro H.
  - destruct (py_order_scalar_cases a b Eq Sa Sb H) as [[p [q [Ha [Hb Hc]]]]|[s [t [-> [-> Hc]]]]].
    + rewrite (py_eq_numl a b p Ha), Hb. unfold dy_eqb. rewrite <- Hc. reflexivity.
    + simpl. unfold str_eqb. rewrite <- Hc. reflexivity.
  - destruct (num_of a) as [p|] eqn:Ea.
    + rewrite (py_eq_numl a b p Ea) in H. destruct (num_of b) as [q|] eqn:Eb; [|discriminate].
      rewrite (py_order_num a b p q Ea Eb). unfold dy_eqb in H. destruct (dy_cmp p q); try discriminate. reflexivity.
    + destruct a as [|x|z|[m e]|s|l|kvs]; try discriminate.
      destruct b as [|y|z'|[m' e']|s'|l'|kvs']; try discriminate.
      simpl in H. apply str_eqb_eq in H. subst. simpl. f_equal. apply str_cmp_eq. reflexivity.
Qed.

(* ---------- insertion keeps the list sorted ---------- *)
Definition lab_le (x y : json * id) : Prop := le_lab (fst x) (fst y).

Definition orderable (l : list json) : Prop :=
  forall a b, In a l -> In b l -> exists c, py_order a b = Some c.

Lemma py_order_flip : forall a b c, scalar a = true -> scalar b = true -> py_order a b = Some c -> py_order b a = Some (CompOpp c).
Proof.
  intros a b c Sa Sb H.
  destruct (py_order_scalar_cases a b c Sa Sb H) as [[p [q [Ha [Hb ->]]]]|[s [t [-> [-> ->]]]]].
  - rewrite (py_order_num b a q p Hb Ha). rewrite (dy_cmp_antisym p q). reflexivity.
  - simpl. rewrite (str_cmp_antisym s t). reflexivity.
Qed.

Lemma insert_sorted_In : forall x l y, In y (insert_sorted x l) <-> y = x \/ In y l.
Proof.
  induction l as [|z l IH]; intro y; simpl; [split; [intros [H|[]]; auto|intros [H|[]]; auto]|].
  destruct (py_order (fst x) (fst z)) as [[| |]|]; simpl; try rewrite IH;
    (split; [intros [H|[H|H]]; auto|intros [H|[H|H]]; auto]).
Qed.

Lemma insert_sorted_sorted : forall x l,
  (forall y, In y (x :: l) -> scalar (fst y) = true) ->
  orderable (map fst (x :: l)) ->
  StronglySorted lab_le l -> StronglySorted lab_le (insert_sorted x l).
Proof.
  intros x l Hsc Hord Hs. induction Hs as [|z l Hs IH Hall]; simpl.
  - constructor; constructor.
  - assert (Sx : scalar (fst x) = true) by (apply Hsc; simpl; auto).
    assert (Sz : scalar (fst z) = true) by (apply Hsc; simpl; auto).
    destruct (Hord (fst x) (fst z)) as [c Hc]; [simpl; auto|simpl; auto|].
    rewrite Hc. destruct c.
    + (* equal: goes after z *)
      constructor.
      * apply IH.
        -- intros y Hy. apply Hsc. simpl in *. tauto.
        -- intros a b Ha Hb. apply Hord; simpl in *; tauto.
      * apply Forall_forall. intros y Hy. apply insert_sorted_In in Hy. destruct Hy as [->|Hy].
        -- exists Eq. split; [|discriminate]. change (Some Eq) with (Some (CompOpp Eq)). apply py_order_flip; auto.
        -- rewrite Forall_forall in Hall. apply Hall. exact Hy.
    + (* strictly smaller: goes first *)
      constructor; [constructor; auto|].
      constructor.
      * exists Lt. split; [exact Hc|discriminate].
      * apply Forall_forall. intros y Hy. rewrite Forall_forall in Hall.
        assert (Sy : scalar (fst y) = true) by (apply Hsc; simpl; auto).
        destruct (le_lab_trans (fst x) (fst z) (fst y) Sx Sz Sy) as [T _]; [exists Lt; split; [exact Hc|discriminate]|apply Hall; exact Hy|exact T].
    + (* greater: goes after z *)
      constructor.
      * apply IH.
        -- intros y Hy. apply Hsc. simpl in *. tauto.
        -- intros a b Ha Hb. apply Hord; simpl in *; tauto.
      * apply Forall_forall. intros y Hy. apply insert_sorted_In in Hy. destruct Hy as [->|Hy].
        -- exists Lt. split; [|discriminate]. change (Some Lt) with (Some (CompOpp Gt)). apply py_order_flip; auto.
        -- rewrite Forall_forall in Hall. apply Hall. exact Hy.
Qed.

Lemma sort_labeled_sorted_gen : forall l acc,
  (forall y, In y (acc ++ l) -> scalar (fst y) = true) ->
  orderable (map fst (acc ++ l)) ->
  StronglySorted lab_le acc ->
  StronglySorted lab_le (fold_left (fun acc x => insert_sorted x acc) l acc).
Proof.
  induction l as [|x l IH]; intros acc Hsc Hord Hs; simpl; [exact Hs|].
  apply IH.
  - intros y Hy. apply Hsc. apply in_app_or in Hy. apply in_or_app. destruct Hy as [Hy|Hy].
    + apply insert_sorted_In in Hy. destruct Hy as [->|Hy]; [right; simpl; auto|left; auto].
    + right. simpl. auto.
  - intros a b Ha Hb. apply Hord.
    + rewrite map_app in *. apply in_app_or in Ha. apply in_or_app. destruct Ha as [Ha|Ha].
      * apply in_map_iff in Ha. destruct Ha as [y [<- Hy]]. apply insert_sorted_In in Hy. destruct Hy as [->|Hy].
        -- right. simpl. auto.
        -- left. apply in_map. exact Hy.
      * right. simpl. auto.
    + rewrite map_app in *. apply in_app_or in Hb. apply in_or_app. destruct Hb as [Hb|Hb].
      * apply in_map_iff in Hb. destruct Hb as [y [<- Hy]]. apply insert_sorted_In in Hy. destruct Hy as [->|Hy].
        -- right. simpl. auto.
        -- left. apply in_map. exact Hy.
      * right. simpl. auto.
  - apply insert_sorted_sorted; auto.
    + intros y Hy. apply Hsc. apply in_or_app. simpl in *. destruct Hy as [->|Hy]; [right; simpl; auto|left; auto].
    + intros a b Ha Hb. apply Hord; rewrite map_app; apply in_or_app; simpl in *.
      * destruct Ha as [<-|Ha]; [right; simpl; auto|left; auto].
      * destruct Hb as [<-|Hb]; [right; simpl; auto|left; auto].
Qed.

Lemma sort_labeled_sorted : forall ls,
  (forall y, In y ls -> scalar (fst y) = true) -> orderable (map fst ls) ->
  StronglySorted lab_le (sort_labeled ls).
Proof. intros ls Hsc Hord. apply (sort_labeled_sorted_gen ls []); auto. constructor. Qed.

(* ---------- adjacent grouping of a sorted list: strictly increasing labels ---------- *)
Definition grp_lt (g h : json * list id) : Prop := lt_lab (fst g) (fst h).

Lemma group_labels_subset : forall l cur g, In g (group_adjacent l cur) ->
  (exists g0, cur = Some g0 /\ fst g = fst g0) \/ In (fst g) (map fst l).
Proof.
  induction l as [|[lab i] l IH]; intros cur g Hg; simpl in Hg.
  - destruct cur as [g0|]; [|inversion Hg]. destruct Hg as [<-|[]]. left. eauto.
  - destruct cur as [[cl ids]|].
    + destruct (py_eq cl lab).
      * destruct (IH _ _ Hg) as [[g0 [E F]]|H]; [inversion E; subst; left; eexists; split; [reflexivity|exact F]|right; simpl; auto].
      * destruct Hg as [<-|Hg]; [left; eexists; split; reflexivity|].
        destruct (IH _ _ Hg) as [[g0 [E F]]|H]; [inversion E; subst; right; simpl; left; auto|right; simpl; auto].
    + destruct (IH _ _ Hg) as [[g0 [E F]]|H]; [inversion E; subst; right; simpl; left; auto|right; simpl; auto].
Qed.

Lemma le_not_eq_lt : forall a b, scalar a = true -> scalar b = true -> le_lab a b -> py_eq a b = false -> lt_lab a b.
Proof.
  intros a b Sa Sb [c [Hc Nc]] He. unfold lt_lab. destruct c; [|exact Hc|contradiction].
  apply (py_order_eq_py_eq a b Sa Sb) in Hc. congruence.
Qed.

Lemma lt_le_lt : forall a b c, scalar a = true -> scalar b = true -> scalar c = true ->
  lt_lab a b -> le_lab b c -> lt_lab a c.
Proof.
  intros a b c Sa Sb Sc Hab Hbc.
  destruct (le_lab_trans a b c Sa Sb Sc) as [[k [Hk Nk]] Heq]; [exists Lt; split; [exact Hab|discriminate]|exact Hbc|].
  unfold lt_lab. destruct k; [|exact Hk|contradiction].
  destruct (Heq Hk) as [X _]. unfold lt_lab in Hab. congruence.
Qed.

Lemma group_adjacent_increasing : forall l cur,
  StronglySorted lab_le l ->
  (forall y, In y l -> scalar (fst y) = true) ->
  (forall g0, cur = Some g0 -> scalar (fst g0) = true /\ Forall (fun y => le_lab (fst g0) (fst y)) l) ->
  StronglySorted grp_lt (group_adjacent l cur).
Proof.
  induction l as [|[lab i] l IH]; intros cur Hs Hsc Hcur; simpl.
  - destruct cur as [g0|]; repeat constructor.
  - inversion Hs as [|? ? Hs' Hall]; subst.
    assert (Slab : scalar lab = true) by (apply (Hsc (lab, i)); simpl; auto).
    assert (Hsc' : forall y, In y l -> scalar (fst y) = true) by (intros y Hy; apply Hsc; simpl; auto).
    destruct cur as [[cl ids]|].
    + destruct (Hcur _ eq_refl) as [Scl Hle]. simpl in Scl, Hle. inversion Hle as [|? ? Hle1 Hle2]; subst. simpl in Hle1.
      destruct (py_eq cl lab) eqn:E.
      * apply IH; auto. intros g0 Hg0. inversion Hg0; subst. simpl. auto.
      * constructor.
        -- apply IH; auto. intros g0 Hg0. inversion Hg0; subst. simpl. split; auto.
        -- apply Forall_forall. intros g Hg. unfold grp_lt. simpl.
           assert (Hlt : lt_lab cl lab) by (apply le_not_eq_lt; auto).
           destruct (group_labels_subset _ _ _ Hg) as [[g0 [E0 F]]|Hin].
           ++ inversion E0; subst. rewrite F. exact Hlt.
           ++ apply in_map_iff in Hin. destruct Hin as [y [Fy Hy]]. rewrite <- Fy.
              apply (lt_le_lt cl lab (fst y)); auto. rewrite Forall_forall in Hall. apply (Hall y Hy).
    + apply IH; auto. intros g0 Hg0. inversion Hg0; subst. simpl. split; auto.
Qed.

(* the theorem: for mutually orderable scalar labels, groupby's groups have strictly increasing, hence
   pairwise different (Python ==) labels *)
Theorem groupby_labels_increasing : forall ls,
  (forall y, In y ls -> scalar (fst y) = true) -> orderable (map fst ls) ->
  StronglySorted grp_lt (group_adjacent (sort_labeled ls) None).
Proof.
  intros ls Hsc Hord. apply group_adjacent_increasing.
  - apply sort_labeled_sorted; auto.
  - intros y Hy. apply Hsc. eapply Permutation.Permutation_in; [apply Permutation.Permutation_sym, sort_labeled_perm|exact Hy].
  - intros g0 H. discriminate.
Qed.

Corollary groupby_labels_distinct : forall ls g h pre mid post,
  (forall y, In y ls -> scalar (fst y) = true) -> orderable (map fst ls) ->
  group_adjacent (sort_labeled ls) None = pre ++ g :: mid ++ h :: post ->
  py_eq (fst g) (fst h) = false.
Proof.
  intros ls g h pre mid post Hsc Hord E.
  pose proof (groupby_labels_increasing ls Hsc Hord) as Hs. rewrite E in Hs.
  assert (Hgh : grp_lt g h).
  { clear E. induction pre as [|x pre IH]; simpl in Hs.
    - inversion Hs as [|? ? _ Hall]; subst. rewrite Forall_forall in Hall. apply Hall.
      apply in_or_app. right. simpl. auto.
    - inversion Hs; subst. auto. }
  unfold grp_lt, lt_lab in Hgh.
  destruct (py_eq (fst g) (fst h)) eqn:Ee; auto.
  assert (Sg : scalar (fst g) = true /\ scalar (fst h) = true).
  { assert (Hin : forall x, In x (group_adjacent (sort_labeled ls) None) -> scalar (fst x) = true).
    { intros x Hx. destruct (group_labels_subset _ _ _ Hx) as [[g0 [E0 _]]|Hin]; [discriminate|].
      apply in_map_iff in Hin. destruct Hin as [y [Fy Hy]]. rewrite <- Fy. apply Hsc.
      eapply Permutation.Permutation_in; [apply Permutation.Permutation_sym, sort_labeled_perm|exact Hy]. }
    split; apply Hin; rewrite E; apply in_or_app; right; simpl; auto.
    right. apply in_or_app. right. simpl. auto. }
  destruct Sg as [Sg Sh]. apply (py_order_eq_py_eq _ _ Sg Sh) in Ee. congruence.
Qed.
