(* Repair.v — Project.check() and Project.repair(), written path by path after
   /repo/signac/project.py:1262-1356 (as of fix: bdc03b3 / 3837846), on top of the lookups and Job.init of
   Cache.v.  Behaviour worth knowing:
     * the loop body catches (KeyError, JobsCorruptedError, ValueError) around lookup / move / open_job: a job
       that cannot be looked up is recorded as corrupted and the loop CONTINUES;
     * the lookup is done with validate=False; its result is no longer stored in _sp_cache;
     * a decodable value that is not a mapping (1, [], "s", null) is reported as corrupted and the directory
       is left where it is (fix: 353a4b6; before, it was renamed to the hash of that value). *)
From SV Require Import Base Json MD5 Canon FS Ws Cache.

Inductive ck := CkOk | CkCorrupt (ids : list str) | CkExn (e : exn).

Inductive rr :=
| ROk                                    (* repair() returned *)
| RCorrupt (ids : list str).             (* the final "raise JobsCorruptedError(corrupted)" *)

Section REPAIR.
  Variable frepr : fl -> str.
  Variable loads_s : list N -> option json.
  Variable loads_b : list N -> dec.

  Notation cid := (cid frepr).
  Notation sp_from_ws := (sp_from_ws frepr loads_s).
  Notation get_statepoint := (get_statepoint frepr loads_s).
  Notation jinit := (jinit frepr loads_b).

  (* ---------------------------------------------------------------- check *)
  Fixpoint check_ids (f : fs) (ids : list str) : result (list str) :=
    match ids with
    | [] => Ok []
    | i :: r =>
        match sp_from_ws f true i with
        | Ok _ => check_ids f r
        | Err EJobsCorrupted =>
            match check_ids f r with Ok l => Ok (i :: l) | Err e => Err e end
        | Err e => Err e            (* KeyError: a listed name that is not a directory *)
        end
    end.

  (* [ids]: the listing in the order os.listdir produced it *)
  Definition check_in (f : fs) (ids : list str) : ck :=
    match check_ids f ids with
    | Ok [] => CkOk
    | Ok l => CkCorrupt l
    | Err e => CkExn e
    end.

  Definition check (f : fs) : ck := check_in f (listing f).

  (* what check() decides per job: the file is there, decodes, and hashes to the directory name *)
  Definition valid (f : fs) (i : str) : bool :=
    match get f (spf i) with
    | Some (File c) =>
        match loads_s (c_bytes c) with Some v => str_eqb (cid v) i | None => false end
    | _ => false
    end.

  (* ---------------------------------------------------------------- repair *)
  (* "os.replace(invalid_wd, correct_wd)" when the id computed from the state point differs *)
  Definition relocate (f : fs) (i ci : str) : option fs :=
    if str_eqb ci i then Some f
    else match rename f (jdir i) (jdir ci) with FOk f1 => Some f1 | FErr _ => None end.

  (* "job.init()", and on any exception "job.init(force=True)"; true = the job is fine now *)
  Definition reinit (f : fs) (s : sess) (sp : json) : fs * sess * bool :=
    match jinit false f s sp with
    | (f2, s2, Ok _) => (f2, s2, true)
    | (f2, s2, Err _) =>
        match jinit true f2 s2 sp with
        | (f3, s3, Ok _) => (f3, s3, true)
        | (f3, s3, Err _) => (f3, s3, false)
        end
    end.

  Fixpoint repair_loop (f : fs) (s : sess) (ids corrupted : list str) : fs * sess * rr :=
    match ids with
    | [] => (f, s, match corrupted with [] => ROk | _ => RCorrupt corrupted end)
    | i :: rest =>
        match get_statepoint f s false i with
        | (s1, Err _) => repair_loop f s1 rest (corrupted ++ [i])      (* KeyError / JobsCorruptedError: caught *)
        | (s1, Ok sp) =>
            if negb (is_objb sp) then
              (* "if not isinstance(statepoint, Mapping): raise JobsCorruptedError" (353a4b6): reported, NOT moved *)
              repair_loop f s1 rest (corrupted ++ [i])
            else
            match relocate f i (cid sp) with
            | None => repair_loop f s1 rest (corrupted ++ [i])    (* "Unable to fix location": continue *)
            | Some f1 =>
                let '(f2, s2, ok) := reinit f1 s1 sp in
                repair_loop f2 s2 rest (if ok then corrupted else corrupted ++ [i])
            end
        end
    end.

  (* Project.repair() on the listing [ids] *)
  Definition repair_in (f : fs) (s : sess) (ids : list str) : fs * sess * rr :=
    repair_loop f (fst (read_cache f s)) ids [].

  Definition repair (f : fs) (s : sess) : fs * sess * rr := repair_in f s (listing f).

  (* how the caller sees the outcome: exception class and job_ids *)
  Definition rr_seen (r : rr) : ck :=
    match r with
    | ROk => CkOk
    | RCorrupt l => CkCorrupt l
    end.

End REPAIR.
