(* ViewThm4.v — a fresh build followed by the same call is a no-op (views of at least two jobs). *)
From SV Require Import Base View CorrC17 C17Proofs ViewFS ViewThm ViewTrie ViewThm2 ViewThm3 ViewResolve.
From Coq Require Import Lia.

Lemma vk_key_value : forall (cur : list (path * str)) e,
  NoDup (map fst cur) -> In e cur -> vk true cur (fst e ++ [s_job]) = Some (KLnk (snd e)).
Proof.
  intros cur e Hnd He. rewrite vk_nonnil by (destruct (fst e); discriminate).
  match goal with |- context [find ?f cur] => destruct (find f cur) as [e'|] eqn:F end.
  - apply find_some in F. destruct F as [F1 F2]. apply path_eqb_eq in F2. apply app_inj_tail in F2.
    destruct F2 as [F2 _]. rewrite (same_fst_same_entry cur e e' Hnd He F1 F2). reflexivity.
  - exfalso. apply (find_none _ _ F e) in He. rewrite path_eqb_refl in He. discriminate.
Qed.

Lemma vk_prefix_dir : forall (cur : list (path * str)) e q,
  toks cur -> In e cur -> is_prefix q (fst e) = true -> vk true cur q = Some KDir.
Proof.
  intros cur e q Ht He Hp. destruct q as [|x q']; [reflexivity|].
  rewrite vk_nonnil by discriminate. rewrite find_none_ext.
  - assert (Ex : existsb (fun e0 : path * str => is_prefix (x :: q') (fst e0)) cur = true).
    { apply existsb_exists. exists e. auto. }
    match goal with |- (if ?b then _ else _) = _ => replace b with true by (symmetry; exact Ex) end. reflexivity.
  - intros e' _. apply path_eqb_false. eapply toks_no_job_last; [apply (Ht e He)|exact Hp].
Qed.

Lemma kind_lnk_get : forall w p t, kind_at w p = Some (KLnk t) -> get w p = Some (Lnk t).
Proof.
  unfold kind_at. intros w p t H. destruct (get w p) as [[h|t'|es]|]; simpl in H; try discriminate.
  inversion H. reflexivity.
Qed.

Lemma not_prefix_of_prefix : forall P d1 d2, is_prefix P (d1 ++ d2) = false -> is_prefix P d1 = false.
Proof.
  intros P d1 d2 H. destruct (is_prefix P d1) eqn:E; [|reflexivity].
  apply is_prefix_spec in E. destruct E as [r ->].
  assert (is_prefix P ((P ++ r) ++ d2) = true); [|congruence].
  apply is_prefix_spec. exists (r ++ d2). rewrite app_assoc. reflexivity.
Qed.

Definition good_targets (P : path) (w : node) (sp : spec) : Prop :=
  forall e, In e sp ->
    Forall plain (snd e) /\ Forall nosep (snd e) /\ dirs_to w (snd e) /\ is_prefix P (snd e) = false.

Theorem scratch_then_second_run_noop : forall P (sp : spec) hint hint2 w n cwd w' n',
  P <> [] -> Forall plain P -> Forall real P -> good_spec sp ->
  (forall e, In e sp -> Forall real (fst e)) -> good_targets P w sp ->
  dirs_to w (removelast P) -> get w P = None ->
  update_view hint (w, n) cwd (A P) (lk_of sp) = ok (w', n') -> nwf w' ->
  update_view hint2 (w', n') cwd (A P) (lk_of sp) = ok (w', n').
Proof.
  intros P sp hint hint2 w n cwd w' n' Pne Ppl Pre Hg Hreal Htg Hd Hn Hrun Hwf.
  destruct (from_scratch_inv P Pne Ppl sp hint w n cwd Hg Hd Hn) as [w1 [k [L [M [Hk [HL [HLn [I F]]]]]]]].
  rewrite M in Hrun. inversion Hrun; subst w' n'. clear Hrun.
  destruct sp as [|e0 sp0] eqn:Esp.
  - (* nothing selected: nothing was created, the prefix still does not exist *)
    assert (L = []) by (destruct L as [|x L']; [reflexivity|exfalso; apply (HL x); left; reflexivity]).
    subst L. simpl in I.
    assert (G1 : get w1 P = None).
    { apply omap_none. rewrite <- (app_nil_r P). exact (inv_kinds _ _ _ _ I []). }
    unfold update_view. simpl fst. rewrite (analysis_missing P Pne Ppl hint2 w1 cwd _ (inv_parent _ _ _ _ I) G1).
    simpl. rewrite order_by_nil. reflexivity.
  - rewrite <- Esp in *. assert (Hne : sp <> []) by (rewrite Esp; discriminate).
    assert (Eb : negb (is_nil sp) = true) by (rewrite Esp; reflexivity). rewrite Eb in I.
    destruct Hg as [Hnd Ht].
    (* the invariant, for the specification in its own order *)
    assert (I' : Inv P w1 true (map (placed P cwd) sp)).
    { constructor.
      - exact (inv_parent _ _ _ _ I).
      - intro q. rewrite (inv_kinds _ _ _ _ I). apply vk_ext.
        + intro e. rewrite !in_map_iff. split; intros [x [E Hx]]; exists x; split; auto; apply HL; exact Hx.
        + rewrite map_map. exact HLn.
        + rewrite map_map. exact Hnd.
      - discriminate.
      - intros e He. apply in_map_iff in He. destruct He as [x [<- Hx]]. simpl. apply Ht. exact Hx. }
    apply second_run_noop; auto; [split; auto|].
    intros e He. destruct (Htg e He) as [T1 [T2 [T3 T4]]].
    assert (Hpe : In (placed P cwd e) (map (placed P cwd) sp)) by (apply in_map; exact He).
    assert (HndC : NoDup (map fst (map (placed P cwd) sp))) by (rewrite map_map; exact Hnd).
    unfold key_of. apply link_target_resolves; auto.
    + apply Forall_app. split; [exact Ppl|]. eapply Forall_impl; [|apply (Ht e He)]. intros a [Ha _]. exact Ha.
    + apply Forall_app. split; [exact Pre|apply Hreal; exact He].
    + intros d1 d2 E. rewrite (F d1) by (apply (not_prefix_of_prefix P d1 d2); rewrite <- E; exact T4).
      apply (T3 d1 d2 E).
    + intros d1 d2 E. symmetry in E. destruct (prefix_cases P d1 d2 (fst e) E) as [[r Er]|[q' [E1 E2]]].
      * apply (inv_parent _ _ _ _ I' d1 r Er).
      * subst d1. rewrite (inv_kinds _ _ _ _ I').
        apply (vk_prefix_dir _ (placed P cwd e) q' (inv_tok _ _ _ _ I') Hpe).
        simpl. apply is_prefix_spec. eauto.
    + apply kind_lnk_get. rewrite <- app_assoc. rewrite (inv_kinds _ _ _ _ I').
      apply (vk_key_value _ (placed P cwd e) HndC Hpe).
Qed.
