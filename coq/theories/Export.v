(* Export.v — model of signac/import_export.py (export_jobs / import_into_project).

   The model follows the anchored code path by path, including its defects:
     * [auto_path]            _make_schema_based_path_function   (import_export.py:43-117)
     * [path_function]        _make_path_function + _check_path_function_unique (156-289)
     * [check_dirs]           _check_directory_structure_validity, AS WRITTEN (292-314)
     * [export_dir/zip/tar]   the three writers (360-527)
     * [schema_compile], [parse_path]   schema string -> regex -> typed state point (533-651)
     * [import_dir/zip/tar]   the three analysers and copy executors (704-1161)
     * [copy_to_job_workspace]  (740-767)
   Library behaviour signac merely calls is either written out (posixpath.join/normpath/dirname/
   relpath, str.split, zipfile's arcname normalisation, tarfile's member naming, the data filter's
   "escapes the destination" test, makedirs) or is an oracle carried by the case (float repr,
   str() of tuples/lists, json.loads of the state point files that occur).

   REPAIRED DEFECTS (the model follows the repaired code, /repo commits in brackets):
     F6  [56f80f6] zip analyser: [zip_under] is "in or below, by whole components" (is_below)
     F15 [fc0e7cc] [check_dirs] collects all nodes before testing the leaves
     F7  [55c0c50] [path_function], branch PNone: uniqueness check like the other branches
     F18 [c7ebc47] [zip_read_sp] / [tar_read_sp]: no separator for the archive root
     F19/F20 [3dfa233] [export_paths]: refuses absolute / '..' paths, duplicates after normalisation,
                       leaf/node check on the normalised paths; the copy still uses the raw strings
     F21 [a52f9e0] [walk_files] / [export_zip_step]: a directory member for every empty directory;
                   [zip_copy_one]: a member whose name ends with '/' becomes a directory
     relative schema [54d0555] [dir_schema_fn]: a relative schema string is always joined to the origin
     F20' [3224fe9] [export_paths]: a path that is the target itself ('' / '.') next to other jobs is refused
          [54a5f4b] [export_model]: the writers get the normalised path
*)
From Coq Require Import String Ascii.
From SV Require Import Base Json MD5 Canon.
Local Open Scope N_scope.

Definition S (s : string) : str := List.map N_of_ascii (list_ascii_of_string s).

(* ------------------------------------------------------------------ outcomes *)
Inductive res (A : Type) := ROk (a : A) | RExn (e : exn) | ROod.
Arguments ROk {A} a.
Arguments RExn {A} e.
Arguments ROod {A}.
(* ROod: the input is outside the domain on which the model claims fidelity; the correspondence
   treats it as a mismatch, so it can never hide anything. *)

Definition rbind {A B} (r : res A) (f : A -> res B) : res B :=
  match r with ROk a => f a | RExn e => RExn e | ROod => ROod end.
Notation "'do' x <- r ; k" := (rbind r (fun x => k)) (at level 200, x pattern, r at level 100, k at level 200).

(* ------------------------------------------------------------------ strings *)
Definition slash : str := [47].
Definition dot : str := [46].
Definition dotdot : str := [46; 46].
Definition is_slash (c : N) : bool := c =? 47.

Definition starts_slash (s : str) : bool := match s with c :: _ => is_slash c | [] => false end.
Definition ends_slash (s : str) : bool := starts_slash (rev s).
Fixpoint lstrip_slash (s : str) : str :=
  match s with c :: r => if is_slash c then lstrip_slash r else s | [] => [] end.
Definition rstrip_slash (s : str) : str := rev (lstrip_slash (rev s)).
Definition is_empty (s : str) : bool := match s with [] => true | _ => false end.

(* str.split(c) *)
Fixpoint split (c : N) (s : str) : list str :=
  match s with
  | [] => [[]]
  | x :: r =>
      if x =? c then [] :: split c r
      else match split c r with h :: t => (x :: h) :: t | [] => [[x]] end
  end.

(* sep.join(l) *)
Fixpoint joinw (sep : str) (l : list str) : str :=
  match l with
  | [] => []
  | [x] => x
  | x :: r => x ++ sep ++ joinw sep r
  end.

(* posixpath.join *)
Definition pjoin2 (a b : str) : str :=
  if starts_slash b then b
  else if is_empty a || ends_slash a then a ++ b
  else a ++ slash ++ b.
Definition pjoin (a : str) (ps : list str) : str := fold_left pjoin2 ps a.

(* posixpath.normpath *)
Fixpoint norm_comps (init_slash : bool) (comps : list str) (acc : list str) : list str :=
  match comps with
  | [] => rev acc
  | c :: r =>
      if is_empty c || str_eqb c dot then norm_comps init_slash r acc
      else if negb (str_eqb c dotdot) then norm_comps init_slash r (c :: acc)
      else match acc with
           | [] => if init_slash then norm_comps init_slash r acc else norm_comps init_slash r (c :: acc)
           | top :: acc' =>
               if str_eqb top dotdot then norm_comps init_slash r (c :: acc)
               else norm_comps init_slash r acc'
           end
  end.

Fixpoint count_lead_slash (s : str) : nat :=
  match s with c :: r => if is_slash c then Datatypes.S (count_lead_slash r) else O | [] => O end.

Definition normpath (s : str) : str :=
  match s with
  | [] => dot
  | _ =>
      let n := count_lead_slash s in
      let init := match n with O => O | 2%nat => 2%nat | _ => 1%nat end in
      let p := repeat 47 init ++ joinw slash (norm_comps (negb (Nat.eqb init 0)) (split 47 s) []) in
      match p with [] => dot | _ => p end
  end.

(* posixpath.dirname *)
Fixpoint drop_to_slash (r : str) : str :=   (* on the reversed string: drop the basename *)
  match r with c :: r' => if is_slash c then r else drop_to_slash r' | [] => [] end.
Definition dirname (p : str) : str :=
  let head := rev (drop_to_slash (rev p)) in
  if negb (is_empty head) && negb (forallb is_slash head) then rstrip_slash head else head.

Definition startswith (s p : str) : bool := str_prefix p s.

(* insertion sort on strings; asc = true: sorted(), false: reverse order *)
Fixpoint sins (asc : bool) (x : str) (l : list str) : list str :=
  match l with
  | [] => [x]
  | y :: r => if (if asc then str_leb x y else str_leb y x) then x :: l else y :: sins asc x r
  end.
Definition ssort (asc : bool) (l : list str) : list str := fold_right (sins asc) [] l.

Fixpoint sdedup (l : list str) : list str :=
  match l with [] => [] | x :: r => if str_mem x r then sdedup r else x :: sdedup r end.

(* component lists *)
Definition fpath := list str.
Definition fpath_eqb (a b : fpath) : bool := list_eqb str_eqb a b.
Fixpoint strip_prefix (p q : fpath) : option fpath :=
  match p, q with
  | [], _ => Some q
  | x :: p', y :: q' => if str_eqb x y then strip_prefix p' q' else None
  | _ :: _, [] => None
  end.
Fixpoint fpath_cmp (a b : fpath) : comparison :=
  match a, b with
  | [], [] => Eq | [], _ => Lt | _, [] => Gt
  | x :: a', y :: b' => match str_cmp x y with Eq => fpath_cmp a' b' | c => c end
  end.

(* ------------------------------------------------------------------ a small file system *)
Definition fnode := option str.            (* None = directory, Some c = regular file with bytes c *)
Definition fs := list (fpath * fnode).     (* keys are normalised component lists, unique *)

Fixpoint fs_get (p : fpath) (f : fs) : option fnode :=
  match f with [] => None | (q, n) :: r => if fpath_eqb p q then Some n else fs_get p r end.
Fixpoint fs_set (p : fpath) (n : fnode) (f : fs) : fs :=
  match f with
  | [] => [(p, n)]
  | (q, m) :: r => if fpath_eqb p q then (q, n) :: r else (q, m) :: fs_set p n r
  end.
Definition fs_isdir (p : fpath) (f : fs) : bool :=
  match p with [] => true | _ => match fs_get p f with Some None => true | _ => false end end.
Definition fs_exists (p : fpath) (f : fs) : bool :=
  match p with [] => true | _ => match fs_get p f with Some _ => true | None => false end end.

(* all non-empty prefixes of p, shortest first *)
Fixpoint prefixes_from (pre : fpath) (p : fpath) : list fpath :=
  match p with [] => [] | x :: r => (pre ++ [x]) :: prefixes_from (pre ++ [x]) r end.
Definition prefixes (p : fpath) : list fpath := prefixes_from [] p.

(* os.makedirs(p, exist_ok=True) on an already resolved path *)
Definition fs_mkdir_p (p : fpath) (f : fs) : res fs :=
  fold_left (fun acc q => do g <- acc;
               match fs_get q g with
               | None => ROk (fs_set q None g)
               | Some None => ROk g
               | Some (Some _) => RExn EOSError
               end) (prefixes p) (ROk f).

(* lexical resolution of a path string relative to [base]; '..' pops; None = leaves the root of the model *)
Fixpoint resolve_comps (acc : list str) (comps : list str) : option (list str) :=
  match comps with
  | [] => Some (rev acc)
  | c :: r =>
      if is_empty c || str_eqb c dot then resolve_comps acc r
      else if str_eqb c dotdot then match acc with [] => None | _ :: acc' => resolve_comps acc' r end
      else resolve_comps (c :: acc) r
  end.
Definition resolve (base : fpath) (s : str) : option fpath :=
  if starts_slash s then None else resolve_comps (rev base) (split 47 s).

(* os.makedirs(join(base, s), exist_ok=True) when s may contain '..': every lexical prefix is created *)
Fixpoint lex_prefixes (pre : list str) (comps : list str) : list (list str) :=
  match comps with [] => [] | c :: r => (pre ++ [c]) :: lex_prefixes (pre ++ [c]) r end.
Definition fs_makedirs_lex (base : fpath) (s : str) (f : fs) : res fs :=
  fold_left (fun acc cs => do g <- acc;
               match resolve_comps (rev base) cs with
               | None => ROod
               | Some q => fs_mkdir_p q g
               end) (lex_prefixes [] (split 47 s)) (ROk f).

(* open(p, 'wb').write(c) *)
Definition fs_write (p : fpath) (c : str) (f : fs) : res fs :=
  match fs_get p f with
  | Some None => RExn EOSError
  | _ => if fs_isdir (removelast p) f then ROk (fs_set p (Some c) f) else RExn EOSError
  end.

(* the entries below p, relative to p *)
Definition fs_subtree (p : fpath) (f : fs) : fs :=
  flat_map (fun e => match strip_prefix p (fst e) with
                     | Some [] => [] | Some q => [(q, snd e)] | None => [] end) f.

(* shutil.copytree(src, p) with dirs_exist_ok=False: os.makedirs(p) first *)
Definition fs_copytree (tree : fs) (p : fpath) (f : fs) : res fs :=
  if fs_exists p f then RExn EOSError
  else do g <- fs_mkdir_p p f;
       ROk (fold_left (fun acc e => fs_set (p ++ fst e) (snd e) acc) tree g).

(* shutil.copytree(src, join(base, s)) where s may contain '..' / '.' / '//':
   os.makedirs(dst) (exist_ok=False) works on the LEXICAL path: every proper lexical prefix that does
   not exist is created (so 'a/x/../y' leaves an empty 'a/x' behind), FileExistsError on the way is
   swallowed, and only the final mkdir insists that the directory is new *)
Definition fs_copytree_lex (tree : fs) (base : fpath) (s : str) (f : fs) : res (fs * option exn) :=
  if starts_slash s then ROod else
  let comps := filter (fun c => negb (is_empty c || str_eqb c dot)) (split 47 s) in
  match resolve_comps (rev base) comps with
  | None => ROod
  | Some p =>
      do g <- fold_left (fun acc cs => do g <- acc;
                 match resolve_comps (rev base) cs with
                 | None => ROod
                 | Some q => fs_mkdir_p q g
                 end) (removelast (lex_prefixes [] comps)) (ROk f);
      if fs_exists p g then ROk (g, Some EOSError)      (* the intermediate directories stay *)
      else do h <- fs_mkdir_p p g;
           ROk (fold_left (fun acc e => fs_set (p ++ fst e) (snd e) acc) tree h, None)
  end.

(* canonical listing: sorted by component list *)
Fixpoint fins (x : fpath * fnode) (l : fs) : fs :=
  match l with
  | [] => [x]
  | y :: r => match fpath_cmp (fst x) (fst y) with Gt => y :: fins x r | _ => x :: l end
  end.
Definition fs_sort (f : fs) : fs := fold_right fins [] f.

Definition fnode_eqb (a b : fnode) : bool :=
  match a, b with None, None => true | Some x, Some y => str_eqb x y | _, _ => false end.
Definition fs_eqb (a b : fs) : bool :=
  list_eqb (fun x y => fpath_eqb (fst x) (fst y) && fnode_eqb (snd x) (snd y)) (fs_sort a) (fs_sort b).

(* names directly below p *)
Definition fs_children (p : fpath) (f : fs) : list str :=
  flat_map (fun e => match strip_prefix p (fst e) with Some [n] => [n] | _ => [] end) f.

(* ------------------------------------------------------------------ jobs, oracles *)
Record job := { j_id : str; j_sp : json; j_files : fs }.   (* j_files relative to the job directory,
                                                             every directory listed explicitly *)
Definition FN_SP : str := S "signac_statepoint.json".

Record oracle := {
  o_asc : bool;                          (* os.listdir / os.scandir order: ascending or descending *)
  o_frepr : list (fl * str);             (* float.__repr__ *)
  o_text : list (bool * json * str);     (* (true, list)  -> str(tuple(list))   (index keys)
                                            (false, list) -> format(list, '')   (format fields) *)
  o_parse : list (str * json);           (* json.loads of the state point files that occur *)
  o_rel : bool;                          (* the directory target is given as a relative path with a single
                                            component ('exp', './exp', 'exp/'; cwd = its parent) instead of
                                            an absolute path *)
  o_origin : str                         (* how the directory ORIGIN of the import is spelled: [] = an
                                            absolute path (stands as ROOT_STR), otherwise a relative
                                            spelling such as 'exp', './exp', 'exp/', 'exp/../exp' *)
}.

Fixpoint ftab_get (t : list (fl * str)) (f : fl) : str :=
  match t with [] => [63] | (g, s) :: t' => if fl_eqb f g then s else ftab_get t' f end.
Fixpoint text_get (t : list (bool * json * str)) (k : bool) (v : json) : option str :=
  match t with
  | [] => None
  | (k', v', s) :: t' => if Bool.eqb k k' && json_eqb v v' then Some s else text_get t' k v
  end.
Fixpoint parse_get (t : list (str * json)) (c : str) : option json :=
  match t with [] => None | (c', v) :: t' => if str_eqb c c' then Some v else parse_get t' c end.

Definition has_brace (s : str) : bool := existsb (fun c => (c =? 123) || (c =? 125)) s.

(* str(value) for an index key (tuple = true) / format(value, '') for a format field (tuple = false) *)
Definition py_text (o : oracle) (tuple : bool) (v : json) : res str :=
  match v with
  | JNull => ROk (S "None")
  | JBool true => ROk (S "True")
  | JBool false => ROk (S "False")
  | JInt z => ROk (dec_Z z)
  | JStr s => ROk s
  | JFloat f => ROk (ftab_get (o_frepr o) f)
  | JArr _ => match text_get (o_text o) tuple v with Some s => ROk s | None => ROod end
  | JObj _ => ROod
  end.

Definition job_id_of (o : oracle) (sp : json) : str := calc_id (ftab_get (o_frepr o)) sp.

(* ------------------------------------------------------------------ Python == and dict slots *)
Definition num_of (v : json) : option (Z * Z) :=
  match v with
  | JBool b => Some ((if b then 1 else 0)%Z, 0%Z)
  | JInt z => Some (z, 0%Z)
  | JFloat (m, e) => Some (if (m =? 0)%Z then (0%Z, 0%Z) else (m, e))
  | _ => None
  end.
Definition num_eq (a b : Z * Z) : bool :=
  let '(m1, e1) := a in let '(m2, e2) := b in
  let e := Z.min e1 e2 in
  (m1 * 2 ^ (e1 - e) =? m2 * 2 ^ (e2 - e))%Z.

Fixpoint py_eq (a b : json) {struct a} : bool :=
  match a, b with
  | JNull, JNull => true
  | JStr x, JStr y => str_eqb x y
  | JArr x, JArr y =>
      (fix go (x y : list json) : bool :=
         match x, y with
         | [], [] => true
         | u :: x', v :: y' => py_eq u v && go x' y'
         | _, _ => false
         end) x y
  | JObj x, JObj y =>
      Nat.eqb (length x) (length y) &&
      (fix go (x : list (str * json)) : bool :=
         match x with
         | [] => true
         | (k, u) :: x' => match alookup k y with Some v => py_eq u v && go x' | None => false end
         end) x
  | _, _ => match num_of a, num_of b with Some p, Some q => num_eq p q | _, _ => false end
  end.

Definition is_float (v : json) : bool := match v with JFloat _ => true | _ => false end.
Definition P61 : Z := (2 ^ 61 - 1)%Z.
(* hash(int n) == hash(_float(n)) : only through the -1 -> -2 rule of CPython hashes *)
Definition int_collides_with_float (v : json) : bool :=
  match v with
  | JInt n => (n <? 0)%Z && (let r := (Z.abs n mod P61)%Z in (r =? 1)%Z || (r =? 2)%Z)
  | _ => false
  end.
(* two values occupy the same slot of a _TypedSetDefaultDict *)
Definition same_slot (a b : json) : bool :=
  match is_float a, is_float b with
  | true, true | false, false => py_eq a b
  | true, false => py_eq a b && int_collides_with_float b
  | false, true => py_eq a b && int_collides_with_float a
  end.

(* ------------------------------------------------------------------ the schema index *)
Fixpoint get_path (v : json) (ks : list str) : option json :=
  match ks with
  | [] => Some v
  | k :: r => match v with
              | JObj kvs => match alookup k kvs with Some x => get_path x r | None => None end
              | _ => None
              end
  end.

(* _nested_dicts_to_dotted_keys: the leaves (non-mappings and empty mappings) *)
Fixpoint dkeys (v : json) (pre : list str) : list (list str) :=
  match v with
  | JObj kvs =>
      match kvs with
      | [] => [pre]
      | _ => (fix go (l : list (str * json)) : list (list str) :=
                match l with [] => [] | (k, x) :: l' => dkeys x (pre ++ [k]) ++ go l' end) kvs
      end
  | _ => [pre]
  end.

Definition key_str (ks : list str) : str := joinw dot ks.

Definition slot := (option json * list str)%type.   (* None = _DictPlaceholder *)
Definition slot_same (a b : option json) : bool :=
  match a, b with None, None => true | Some x, Some y => same_slot x y | _, _ => false end.
Fixpoint slot_add (v : option json) (id : str) (sl : list slot) : list slot :=
  match sl with
  | [] => [(v, [id])]
  | (w, ids) :: r => if slot_same v w then (w, ids ++ [id]) :: r else (w, ids) :: slot_add v id r
  end.

(* _SearchIndexer.build_index for one dotted key *)
Definition build_index (jobs : list job) (ks : list str) : list slot :=
  fold_left (fun sl j =>
               match get_path (j_sp j) ks with
               | None => sl
               | Some (JObj _) => slot_add None (j_id j) sl
               | Some v => slot_add (Some v) (j_id j) sl
               end) jobs [].

Fixpoint kdedup (l : list (list str)) : list (list str) :=
  match l with
  | [] => []
  | x :: r => if existsb (fpath_eqb x) r then kdedup r else x :: kdedup r
  end.

(* sorted(indexes, key=lambda key: (len(indexes[key]), key)) *)
Definition idx_le (a b : list str * list slot) : bool :=
  let la := length (snd a) in let lb := length (snd b) in
  Nat.ltb la lb || (Nat.eqb la lb && str_leb (key_str (fst a)) (key_str (fst b))).
Fixpoint idx_ins (x : list str * list slot) (l : list (list str * list slot)) :=
  match l with [] => [x] | y :: r => if idx_le x y then x :: l else y :: idx_ins x r end.

(* is_const(key) of _build_job_statepoint_index (e6bcbe6): one slot holding all jobs; if that slot is the
   mapping placeholder, only if no dotted key extends the key (all the mappings are empty) *)
Definition is_const (n : nat) (keys : list (list str)) (e : list str * list slot) : bool :=
  match snd e with
  | [(v, ids)] =>
      Nat.eqb (length ids) n &&
      match v with
      | Some _ => true
      | None => negb (existsb (fun k => negb (fpath_eqb k (fst e)) &&
                                        match strip_prefix (fst e) k with Some _ => true | None => false end) keys)
      end
  | _ => false
  end.

(* _build_job_statepoint_index(exclude_const=True): (key, slots without the placeholder) in order *)
Definition statepoint_index (jobs : list job) : list (list str * list slot) :=
  let keys := kdedup (flat_map (fun j => filter (fun k => match k with [] => false | _ => true end) (dkeys (j_sp j) [])) jobs) in
  let idx := fold_right idx_ins [] (List.map (fun k => (k, build_index jobs k)) keys) in
  List.map (fun e => (fst e, filter (fun s => match fst s with None => false | _ => true end) (snd e)))
           (filter (fun e => negb (is_const (length jobs) keys e)) idx).

(* the [paths] dict of _make_schema_based_path_function for one job id *)
Definition job_tokens (o : oracle) (idx : list (list str * list slot)) (excl : list str) (id : str)
  : res (list str) :=
  fold_left (fun acc e => do toks <- acc;
     if str_mem (key_str (fst e)) excl then ROk toks
     else match find (fun s => str_mem id (snd s)) (snd e) with
          | Some (Some v, _) => do t <- py_text o true v; ROk (toks ++ [key_str (fst e); t])
          | _ => ROk toks
          end) idx (ROk []).

(* path(job, sep) of _make_schema_based_path_function(jobs, exclude_keys) *)
Definition auto_path (o : oracle) (jobs : list job) (excl : list str) (sep : str) (id : str) : res str :=
  if Nat.leb (length jobs) 1 then ROk []
  else do toks <- job_tokens o (statepoint_index jobs) excl id;
       match toks with
       | [] => RExn ERuntimeError                 (* KeyError -> "Unable to determine path" *)
       | t :: r => if is_empty sep then ROk (normpath (pjoin t r)) else ROk (normpath (joinw sep toks))
       end.

(* ------------------------------------------------------------------ path specifications *)
Inductive seg :=
| SLit (s : str)                 (* literal text without braces                     *)
| SKey (ks : list str)           (* {a}  or {a.b}                                   *)
| SJobId                         (* {job.id}                                        *)
| SJobSp (ks : list str)         (* {job.sp.a} / {job.sp.a.b}                       *)
| SAuto (sep : str).             (* {{auto}} / {{auto:sep}}                         *)

Inductive pathspec :=
| PNone | PFalse
| PFmt (segs : list seg)
| PCall (tab : list (str * res str)).   (* a callable, tabulated on the job ids     *)

Definition fmt_value (o : oracle) (sp : json) (ks : list str) : res str :=
  match get_path sp ks with
  | None => RExn ERuntimeError                    (* KeyError / AttributeError -> _SchemaPathEvaluationError *)
  | Some (JObj _) => RExn ERuntimeError           (* its text contains braces: the 2nd format pass fails *)
  | Some v => do t <- py_text o false v; if has_brace t then ROod else ROk t
  end.

(* field names of the first format pass: exclude_keys *)
Definition seg_excl (s : seg) : list str :=
  match s with
  | SKey ks => [key_str ks]
  | SJobId => [S "job.id"]
  | SJobSp ks => [S "job.sp." ++ key_str ks]
  | _ => []
  end.

Definition fmt_path (o : oracle) (jobs : list job) (segs : list seg) (j : job) : res str :=
  let excl := flat_map seg_excl segs in
  fold_left (fun acc s => do pre <- acc;
     do t <- match s with
             | SLit l => if has_brace l then ROod else ROk l
             | SKey ks => fmt_value o (j_sp j) ks
             | SJobId => ROk (j_id j)
             | SJobSp ks => fmt_value o (j_sp j) ks
             | SAuto sep => auto_path o jobs excl sep (j_id j)
             end;
     ROk (pre ++ t)) segs (ROk []).

Fixpoint has_dup (l : list str) : bool :=
  match l with [] => false | x :: r => str_mem x r || has_dup r end.

Fixpoint rmap {A B} (f : A -> res B) (l : list A) : res (list B) :=
  match l with
  | [] => ROk []
  | x :: r => do y <- f x; do ys <- rmap f r; ROk (y :: ys)
  end.

(* any exception raised while formatting is re-raised as _SchemaPathEvaluationError(RuntimeError) *)
Definition as_runtime {A} (r : res A) : res A :=
  match r with RExn _ => RExn ERuntimeError | _ => r end.

(* _export_jobs up to and including [paths = {job.path: path_function(job) ...}]:
   the destination of every job, in job order.  (PFalse: ids, no check needed.) *)
Definition path_function (o : oracle) (jobs : list job) (p : pathspec) : res (list str) :=
  match p with
  | PNone =>
      do ds <- rmap (fun j => auto_path o jobs [] [] (j_id j)) jobs;
      if has_dup ds then RExn ERuntimeError else ROk ds
  | PFalse => ROk (List.map j_id jobs)
  | PFmt segs =>
      do ds <- rmap (fun j => as_runtime (fmt_path o jobs segs j)) jobs;
      if has_dup ds then RExn ERuntimeError else ROk ds
  | PCall tab =>
      do ds <- rmap (fun j => match alookup (j_id j) tab with Some r => r | None => ROod end) jobs;
      if has_dup ds then RExn ERuntimeError else ROk ds
  end.

(* _check_directory_structure_validity: all nodes (proper token prefixes of every path) are collected
   first, then no path may be one of them. true = accepted *)
Fixpoint str_prefixes_from (pre : list str) (toks : list str) : list str :=
  match toks with
  | [] => []
  | [_] => []
  | t :: r => joinw slash (pre ++ [t]) :: str_prefixes_from (pre ++ [t]) r
  end.
Definition path_nodes (paths : list str) : list str :=
  flat_map (fun d => str_prefixes_from [] (split 47 d)) paths.
Definition check_dirs (paths : list str) : bool :=
  negb (existsb (fun d => str_mem d (path_nodes paths)) paths).

(* the checks _export_jobs makes on the normalised paths *)
Definition norm_dst (d : str) : str := if is_empty d then d else normpath d.
Definition leaves_target (n : str) : bool :=
  starts_slash n || str_eqb n dotdot || startswith n (dotdot ++ slash).

Definition export_paths (o : oracle) (jobs : list job) (p : pathspec) : res (list str) :=
  do ds <- path_function o jobs p;
  let ns := List.map norm_dst ds in
  if existsb leaves_target ns then RExn ERuntimeError
  else if has_dup ns then RExn ERuntimeError
  else if Nat.leb 2 (length ns) && existsb (fun n => is_empty n || str_eqb n dot) ns
       then RExn ERuntimeError                      (* 3224fe9: the target itself, next to other jobs *)
  else if check_dirs ns then ROk ds else RExn ERuntimeError.

(* ------------------------------------------------------------------ writers *)
Inductive tkind := KDir | KZip | KTar.

Inductive artifact :=
| ADir (f : fs)                              (* everything below the directory that contains the target's parents *)
| AZip (ms : list (str * str))               (* (name, bytes) in the order written; no directory members *)
| ATar (ms : list (str * bool * str)).       (* (name, isdir, bytes) in the order written *)

(* where the target lives inside the modelled export area *)
Definition TARGET : fpath := [S "t"; S "e"; S "exp"].
Definition TARGET_STR : str := S "t/e/exp".
Definition fs0 : fs := [([S "t"], None); ([S "t"; S "e"], None)].

(* the outcome of a generator that is consumed until it raises: what was done so far stays *)
Record partial (A : Type) := { p_exn : option exn; p_ood : bool; p_val : A }.
Arguments p_exn {A}. Arguments p_ood {A}. Arguments p_val {A}.

(* a step may fail after having changed the state: ROk (a, Some e) *)
Definition fold_partial2 {A B} (step : A -> B -> res (A * option exn)) (l : list B) (a0 : A) : partial A :=
  fold_left (fun acc x =>
               match p_exn acc, p_ood acc with
               | None, false =>
                   match step (p_val acc) x with
                   | ROk (a, e) => {| p_exn := e; p_ood := false; p_val := a |}
                   | RExn e => {| p_exn := Some e; p_ood := false; p_val := p_val acc |}
                   | ROod => {| p_exn := None; p_ood := true; p_val := p_val acc |}
                   end
               | _, _ => acc
               end) l {| p_exn := None; p_ood := false; p_val := a0 |}.
Definition fold_partial {A B} (step : A -> B -> res A) (l : list B) (a0 : A) : partial A :=
  fold_partial2 (fun a x => do a' <- step a x; ROk (a', None)) l a0.

(* export_to_directory: _mkdir_p(dirname(normpath(join(target, dst)))); shutil.copytree(src, join(target, dst)).
   F19 lives here: [resolve] follows '..' out of the target and nothing checks containment. *)
Definition REL_TARGET : str := S "exp".
Definition export_dir_step (rel : bool) (f : fs) (jd : job * str) : res (fs * option exn) :=
  let '(j, dst) := jd in
  let full := pjoin2 TARGET_STR dst in
  (* a relative one-component target whose job path is the target itself: _mkdir_p('') raises
     FileNotFoundError before anything is created *)
  if rel && is_empty (dirname (normpath (pjoin2 REL_TARGET dst))) then ROk (f, Some EOSError) else
  match resolve [] (dirname (normpath full)) with
  | Some par => do g <- fs_mkdir_p par f; fs_copytree_lex (j_files j) [] full g
  | None => ROod
  end.

(* copytree_to_zip: os.walk(src) under a given listing order.  One entry per file
   (directory relative to src, Some (file name, bytes)) and - since a52f9e0 - one entry
   (directory, None) for every directory that os.walk reports with no dirnames and no filenames *)
Fixpoint walk_files (fuel : nat) (asc : bool) (t : fs) (p : fpath) : list (fpath * option (str * str)) :=
  match fuel with
  | O => []
  | Datatypes.S fuel' =>
      let names := ssort asc (fs_children p t) in
      let files := flat_map (fun n => match fs_get (p ++ [n]) t with Some (Some c) => [(p, Some (n, c))] | _ => [] end) names in
      let dirs := filter (fun n => match fs_get (p ++ [n]) t with Some None => true | _ => false end) names in
      files
      ++ (match files, dirs with [], [] => [(p, None)] | _, _ => [] end)
      ++ flat_map (fun n => walk_files fuel' asc t (p ++ [n])) dirs
  end.

(* ZipInfo.from_file: normpath, then strip leading separators (a directory gets a trailing '/') *)
Definition zip_arcname (s : str) : str := lstrip_slash (normpath s).

Definition export_zip_step (asc : bool) (ms : list (str * str)) (jd : job * str) : res (list (str * str)) :=
  let '(j, dst) := jd in
  ROk (ms ++ List.map (fun e => let rel := match fst e with [] => dot | d => joinw slash d end in
                         match snd e with
                         | Some (n, c) => (zip_arcname (pjoin dst [rel; n]), c)
                         | None => (zip_arcname (pjoin dst [rel]) ++ slash, [])     (* directory member *)
                         end)
                      (walk_files (Datatypes.S (length (j_files j))) asc (j_files j) [])).

(* TarFile.add(src, arcname, recursive=True): the directory, then sorted(os.listdir) *)
Fixpoint tar_add (fuel : nat) (t : fs) (p : fpath) (arc : str) : list (str * bool * str) :=
  match fuel with
  | O => []
  | Datatypes.S fuel' =>
      (rstrip_slash (lstrip_slash arc), true, []) ::
      flat_map (fun n => match fs_get (p ++ [n]) t with
                         | Some (Some c) => [(lstrip_slash (pjoin2 arc n), false, c)]
                         | Some None => tar_add fuel' t (p ++ [n]) (pjoin2 arc n)
                         | None => []
                         end) (ssort true (fs_children p t))
  end.

Definition export_tar_step (ms : list (str * bool * str)) (jd : job * str) : res (list (str * bool * str)) :=
  let '(j, dst) := jd in ROk (ms ++ tar_add (Datatypes.S (length (j_files j))) (j_files j) [] dst).

Record export_out := {
  eo_exn : option exn;            (* the exception export_to raised, if any *)
  eo_ood : bool;
  eo_map : list str;              (* the destinations returned (job order) *)
  eo_art : artifact               (* what exists afterwards *)
}.

Definition export_model (o : oracle) (jobs : list job) (k : tkind) (p : pathspec) : export_out :=
  let empty := match k with KDir => ADir fs0 | KZip => AZip [] | KTar => ATar [] end in
  match export_paths o jobs p with
  | RExn e => {| eo_exn := Some e; eo_ood := false; eo_map := []; eo_art := empty |}
  | ROod => {| eo_exn := None; eo_ood := true; eo_map := []; eo_art := empty |}
  | ROk ds =>
      (* 54a5f4b: every job is copied to the normalised path that was checked; the mapping that is
         returned still shows the paths as written *)
      let jds := combine jobs (List.map norm_dst ds) in
      match k with
      | KDir => let r := fold_partial2 (export_dir_step (o_rel o)) jds fs0 in
                {| eo_exn := p_exn r; eo_ood := p_ood r; eo_map := ds; eo_art := ADir (p_val r) |}
      | KZip => let r := fold_partial (export_zip_step (o_asc o)) jds [] in
                {| eo_exn := p_exn r; eo_ood := p_ood r; eo_map := ds; eo_art := AZip (p_val r) |}
      | KTar => let r := fold_partial export_tar_step jds [] in
                {| eo_exn := p_exn r; eo_ood := p_ood r; eo_map := ds; eo_art := ATar (p_val r) |}
      end
  end.

(* ------------------------------------------------------------------ schema strings *)
Inductive fty := TyStr | TyInt | TyFloat | TyBool.

Definition is_digit (c : N) : bool := (48 <=? c) && (c <=? 57).
Definition is_lower (c : N) : bool := (97 <=? c) && (c <=? 122).
Definition is_word (c : N) : bool :=           (* \w; non-ASCII characters are assumed alphanumeric
                                                  (validated by the harness on every path it emits) *)
  is_digit c || is_lower c || ((65 <=? c) && (c <=? 90)) || (c =? 95) || (128 <=? c).
Definition is_keych (c : N) : bool := is_word c || (c =? 46).

Fixpoint span (p : N -> bool) (s : str) : str * str :=
  match s with
  | c :: r => if p c then let '(a, b) := span p r in (c :: a, b) else ([], s)
  | [] => ([], [])
  end.

Definition ty_of_name (n : str) : option fty :=
  if str_eqb n (S "str") then Some TyStr else if str_eqb n (S "int") then Some TyInt
  else if str_eqb n (S "float") then Some TyFloat else if str_eqb n (S "bool") then Some TyBool
  else None.

(* one attempt of  \{(?P<key>[\.\w]+)(?::(?P<type>[a-z]+))?\}  at the head of s (s starts after '{') *)
Definition field_at (s : str) : option (str * option str * str) :=
  let '(key, r1) := span is_keych s in
  match key, r1 with
  | [], _ => None
  | _, 125 :: r2 => Some (key, None, r2)
  | _, 58 :: r2 =>
      let '(ty, r3) := span is_lower r2 in
      match ty, r3 with
      | _ :: _, 125 :: r4 => Some (key, Some ty, r4)
      | _, _ => None
      end
  | _, _ => None
  end.

(* _convert_schema_path_to_regex: [(literal before the field, key, type)], the text after the last
   field is dropped (as in the code: the regex ends with '$' right after the last group) *)
Fixpoint schema_scan (fuel : nat) (s : str) (lit : str) : res (list (str * str * fty)) :=
  match fuel with
  | O => ROod
  | Datatypes.S fuel' =>
      match s with
      | [] => ROk []
      | c :: r =>
          if c =? 123 then
            match field_at r with
            | Some (key, tyn, rest) =>
                match ty_of_name (match tyn with Some n => n | None => S "str" end) with
                | None => RExn EKeyError                       (* RE_TYPES[...] *)
                | Some ty => do more <- schema_scan fuel' rest []; ROk ((rev lit, key, ty) :: more)
                end
            | None => schema_scan fuel' r (c :: lit)
            end
          else schema_scan fuel' r (c :: lit)
      end
  end.

(* literal regex text is matched character by character; only characters that mean themselves
   (after '.' -> '\.') are inside the domain *)
Definition lit_safe (c : N) : bool := is_word c || (c =? 47) || (c =? 32) || (c =? 45) || (c =? 46) || (c =? 58).

Definition schema_compile (text : str) : res (list (str * str * fty)) :=
  do fields <- schema_scan (Datatypes.S (length text)) text [];
  if negb (forallb (fun f => forallb lit_safe (fst (fst f))) fields) then ROod
  else if has_dup (List.map (fun f => snd (fst f)) fields) then RExn EOther       (* re.error: redefinition *)
  else if existsb (fun f => match snd (fst f) with c :: _ => is_digit c | [] => true end) fields then RExn EOther
  else ROk fields.

Fixpoint match_lit (lit s : str) : option str :=
  match lit, s with
  | [], _ => Some s
  | c :: l', d :: s' => if c =? d then match_lit l' s' else None
  | _ :: _, [] => None
  end.

(* all ways to cut a non-empty prefix of the run, longest first (greedy backtracking order); fuel = length run *)
Fixpoint cuts (fuel : nat) (run rest : str) : list (str * str) :=
  match fuel, run with
  | O, _ => []
  | _, [] => []
  | Datatypes.S f, _ => (run, rest) :: cuts f (removelast run) (last run 0 :: rest)
  end.

Definition is_sign (c : N) : bool := (c =? 43) || (c =? 45).

(* candidates (matched text, remainder) of one typed group, in the order Python's backtracking
   engine tries them *)
Definition cands (ty : fty) (s : str) : list (str * str) :=
  match ty with
  | TyStr | TyBool => let '(run, rest) := span is_word s in cuts (length run) run rest
  | TyInt =>
      let '(sg, s1) := match s with c :: r => if is_sign c then ([c], r) else ([], s) | [] => ([], s) end in
      let '(run, rest) := span is_digit s1 in
      List.map (fun cr => (sg ++ fst cr, snd cr)) (cuts (length run) run rest)
  | TyFloat =>
      let '(sg, s1) := match s with c :: r => if is_sign c then ([c], r) else ([], s) | [] => ([], s) end in
      let '(d1, r1) := span is_digit s1 in
      let withdot := match r1 with
                     | 46 :: r2 => let '(d2, r3) := span is_digit r2 in
                                   List.map (fun cr => (sg ++ d1 ++ [46] ++ fst cr, snd cr)) (cuts (length d2) d2 r3)
                     | _ => []
                     end in
      withdot ++ List.map (fun cr => (sg ++ fst cr, snd cr)) (cuts (length d1) d1 r1)
  end.

Fixpoint first_some {A B} (f : A -> option B) (l : list A) : option B :=
  match l with [] => None | x :: r => match f x with Some y => Some y | None => first_some f r end end.

(* re.match(regex, s) for  lit0 (?P<k1>C1) lit1 ... (?P<kn>Cn) $  *)
Fixpoint match_fields (fields : list (str * str * fty)) (s : str) : option (list (str * fty * str)) :=
  match fields with
  | [] => if is_empty s then Some [] else None
  | (lit, key, ty) :: r =>
      match match_lit lit s with
      | None => None
      | Some s1 =>
          first_some (fun mr => match match_fields r (snd mr) with
                                | Some b => Some ((key, ty, fst mr) :: b)
                                | None => None
                                end) (cands ty s1)
      end
  end.

(* int(text) for [+-]?[0-9]+ *)
Definition digits_val (ds : str) : Z := fold_left (fun acc c => (acc * 10 + Z.of_N (c - 48))%Z) ds 0%Z.
Definition conv_int (t : str) : Z :=
  match t with
  | 45 :: r => (- digits_val r)%Z
  | 43 :: r => digits_val r
  | _ => digits_val t
  end.

(* float(text) for [+-]?([0-9]*\.)?[0-9]+ : correctly rounded binary64 (normal range) as (mant, exp) *)
Definition round_div (num den : Z) : Z :=
  let q := (num / den)%Z in let r := (num mod den)%Z in
  if (2 * r <? den)%Z then q else if (den <? 2 * r)%Z then (q + 1)%Z
  else if Z.even q then q else (q + 1)%Z.
Fixpoint odd_norm (fuel : nat) (m e : Z) : Z * Z :=
  match fuel with
  | O => (m, e)
  | Datatypes.S f => if Z.even m then odd_norm f (m / 2)%Z (e + 1)%Z else (m, e)
  end.
Definition dec_to_fl (M k : Z) : fl :=
  if (M =? 0)%Z then (0%Z, 0%Z) else
  let D := (10 ^ k)%Z in
  let floor_at e := if (0 <=? e)%Z then (M / (D * 2 ^ e))%Z else ((M * 2 ^ (- e)) / D)%Z in
  let round_at e := if (0 <=? e)%Z then round_div M (D * 2 ^ e)%Z else round_div (M * 2 ^ (- e))%Z D in
  let e0 := (Z.log2 M - Z.log2 D - 53)%Z in
  let ok e := ((2 ^ 52 <=? floor_at e) && (floor_at e <? 2 ^ 53))%Z in
  let e := if ok e0 then e0 else if ok (e0 + 1)%Z then (e0 + 1)%Z else (e0 + 2)%Z in
  odd_norm 64 (round_at e) e.
Definition conv_float (t : str) : fl :=
  let '(neg, body) := match t with 45 :: r => (true, r) | 43 :: r => (false, r) | _ => (false, t) end in
  let '(ip, r1) := span is_digit body in
  let fp := match r1 with 46 :: r2 => r2 | _ => [] end in
  let '(m, e) := dec_to_fl (digits_val (ip ++ fp)) (Z.of_nat (length fp)) in
  if (m =? 0)%Z then (if neg then (0%Z, 1%Z) else (0%Z, 0%Z)) else ((if neg then - m else m)%Z, e).

Definition lower_ascii (c : N) : N := if (65 <=? c) && (c <=? 90) then c + 32 else c.
Definition conv_bool (t : str) : bool :=
  let l := List.map lower_ascii t in
  if str_eqb l (S "true") || str_eqb l (S "1") then true
  else if str_eqb l (S "false") || str_eqb l (S "0") then false
  else negb (is_empty t).

Definition conv (ty : fty) (t : str) : json :=
  match ty with
  | TyStr => JStr t | TyInt => JInt (conv_int t) | TyFloat => JFloat (conv_float t) | TyBool => JBool (conv_bool t)
  end.

(* _dotted_dict_to_nested_dicts *)
Fixpoint nest_set (fuel : nat) (ks : list str) (v : json) (d : list (str * json)) : res (list (str * json)) :=
  match fuel with
  | O => ROod
  | Datatypes.S fuel' =>
      match ks with
      | [] => ROod
      | [k] => ROk (aset k v d)
      | k :: r =>
          match alookup k d with
          | None => do sub <- nest_set fuel' r v []; ROk (aset k (JObj sub) d)
          | Some (JObj sub0) => do sub <- nest_set fuel' r v sub0; ROk (aset k (JObj sub) d)
          | Some _ => ROod                 (* TypeError inside the helper: outside the domain *)
          end
      end
  end.

(* parse_path of _make_path_based_schema_function, on the already normalised path *)
Definition parse_path (fields : list (str * str * fty)) (path : str) : res (option json) :=
  match match_fields fields path with
  | None => ROk None
  | Some binds =>
      do d <- fold_left (fun acc b => do d <- acc;
                           let '(key, ty, text) := b in
                           nest_set (Datatypes.S (length key)) (split 46 key) (conv ty text) d) binds (ROk []);
      ROk (Some (JObj d))
  end.

(* text of one field as export writes it (used by the round-trip theorem and by [schema_matches]) *)
Definition escape_dots (s : str) : str := flat_map (fun c => if c =? 46 then [92; 46] else [c]) s.

(* ------------------------------------------------------------------ import *)
Inductive schemaspec :=
| SchNone
| SchStr (text : str)
| SchCall (tab : list (str * option json)).   (* a callable, tabulated on the normalised path relative
                                                 to the origin ('.' = the origin itself) / on the
                                                 normalised archive name *)

Definition truthy (v : option json) : bool :=
  match v with Some (JObj (_ :: _)) => true | Some (JObj []) => false | Some _ => true | None => false end.

(* _with_consistency_check *)
Definition consistency (sp spd : option json) : res (option json) :=
  match sp, spd with
  | Some a, Some b => if truthy sp && truthy spd && negb (py_eq b a) then RExn ERuntimeError else ROk sp
  | _, _ => ROk sp
  end.

Definition parse_file (o : oracle) (c : str) : res json :=
  match parse_get (o_parse o) c with Some v => ROk v | None => ROod end.

(* the state: destination project (rooted at the project directory), ids already yielded *)
Definition WS : fpath := [S "workspace"].
Definition job_dir (id : str) : fpath := WS ++ [id].

(* job.init() right after the copy *)
Definition job_init (o : oracle) (sp : json) (id : str) (d : fs) : res fs :=
  match fs_get (job_dir id ++ [FN_SP]) d with
  | Some (Some c) =>
      do v <- parse_file o c;
      if str_eqb (job_id_of o v) id then ROk d else RExn EJobsCorrupted
  | Some None => ROod
  | None => do d1 <- fs_mkdir_p (job_dir id) d;
            ROk (fs_set (job_dir id ++ [FN_SP]) (Some (dumps (ftab_get (o_frepr o)) sp)) d1)
  end.

(* _copy_to_job_workspace(src, job, shutil.copytree) *)
Definition copy_to_job_workspace (o : oracle) (tree : fs) (sp : json) (id : str) (d : fs)
  : res (fs * option exn) :=
  match fs_copytree tree (job_dir id) d with
  | RExn EOSError => ROk (d, Some EDestinationExists)
  | RExn e => RExn e
  | ROod => ROod
  | ROk d1 =>
      match job_init o sp id d1 with
      | ROk d2 => ROk (d2, None)
      | RExn e => ROk (d1, Some e)          (* the copy stays; init() raised afterwards *)
      | ROod => ROod
      end
  end.

(* ---- directory origin *)
Definition ROOT_STR : str := S "/R/t/e/exp".      (* stands for the absolute origin path *)

Definition dir_read_sp (o : oracle) (src : fs) (p : fpath) : res (option json) :=
  match fs_get (p ++ [FN_SP]) src with
  | Some (Some c) => do v <- parse_file o c; ROk (Some v)
  | Some None => RExn EOSError
  | None => ROk None
  end.

Definition rel_str (rel : fpath) : str := match rel with [] => dot | _ => joinw slash rel end.

(* schema_function(path) for the directory analyser; rel = path relative to the origin *)
Definition dir_schema_fn (o : oracle) (sch : schemaspec) (src : fs) (rel : fpath) : res (option json) :=
  let p := TARGET ++ rel in
  match sch with
  | SchNone => dir_read_sp o src p
  | SchCall tab =>
      do sp <- match alookup (rel_str rel) tab with Some r => ROk r | None => ROod end;
      do spd <- dir_read_sp o src p;
      consistency sp spd
  | SchStr text =>
      (* (repair of round 4) the schema is matched against the path RELATIVE to the origin, so neither the
         spelling nor the name of the origin takes part ([o_origin] is no longer used); an ABSOLUTE schema
         that starts with the absolute origin (ROOT_STR for every spelling) is first made relative to it *)
      let root_s := ROOT_STR ++ slash in
      do text' <- (if starts_slash text && startswith text ROOT_STR then
                     let n := normpath text in
                     if str_eqb n ROOT_STR then ROk dot
                     else if startswith n root_s then ROk (skipn (length root_s) n)
                     else ROod                       (* relpath starting with '..': never generated *)
                   else ROk (normpath text));
      do fields <- schema_compile text';
      do sp <- parse_path fields (rel_str rel);
      do spd <- dir_read_sp o src p;
      consistency sp spd
  end.

(* what the crawl has identified so far: (path relative to the origin, state point) in visiting order, and
   the ids already taken *)
Record istate := { is_items : list (fpath * json); is_seen : list str }.

(* one directory identified by _crawl_directory_data_space inside _analyze_directory_for_import *)
Definition dir_visit (o : oracle) (rel : fpath) (sp : json) (st : istate) : res istate :=
  let id := job_id_of o sp in
  if str_mem id (is_seen st) then RExn ERuntimeError           (* StatepointParsingError: not unique *)
  else ROk {| is_items := is_items st ++ [(rel, sp)]; is_seen := id :: is_seen st |}.

(* os.walk(root) top-down with 'del dirs[:]' on identified directories.  (repair of round 4) like the zip
   and tar analysers, the directory analyser now validates EVERY directory - schema function, consistency
   with the state point file, uniqueness - before anything is copied: the crawl only collects *)
Fixpoint dir_crawl (fuel : nat) (o : oracle) (sch : schemaspec) (src : fs) (rel : fpath) (st : partial istate)
  : partial istate :=
  match fuel with
  | O => {| p_exn := p_exn st; p_ood := true; p_val := p_val st |}
  | Datatypes.S fuel' =>
      match p_exn st, p_ood st with
      | None, false =>
          let stop_exn e := {| p_exn := Some e; p_ood := false; p_val := p_val st |} in
          let stop_ood := {| p_exn := None; p_ood := true; p_val := p_val st |} in
          match dir_schema_fn o sch src rel with
          | RExn e => stop_exn e
          | ROod => stop_ood
          | ROk (Some sp) =>
              match dir_visit o rel sp (p_val st) with
              | ROk s => {| p_exn := None; p_ood := false; p_val := s |}
              | RExn e => stop_exn e
              | ROod => stop_ood
              end
          | ROk None =>
              fold_left (fun acc n =>
                           match fs_get (TARGET ++ rel ++ [n]) src with
                           | Some None => dir_crawl fuel' o sch src (rel ++ [n]) acc
                           | _ => acc
                           end) (ssort (o_asc o) (fs_children (TARGET ++ rel) src)) st
          end
      | _, _ => st
      end
  end.

(* the copy executor of one identified directory: what was copied before an exception stays *)
Definition dir_copy (o : oracle) (src : fs) (d : fs) (it : fpath * json) : res (fs * option exn) :=
  copy_to_job_workspace o (fs_subtree (TARGET ++ fst it) src) (snd it) (job_id_of o (snd it)) d.

Record import_out := { io_exn : option exn; io_ood : bool; io_dst : fs }.

Definition import_dir (o : oracle) (sch : schemaspec) (src : fs) (dst0 : fs) : import_out :=
  if negb (fs_isdir TARGET src) then
    {| io_exn := Some EValueError; io_ood := false; io_dst := dst0 |}
  else
    let r := dir_crawl (Datatypes.S (length src)) o sch src []
                       {| p_exn := None; p_ood := false; p_val := {| is_items := []; is_seen := [] |} |} in
    match p_exn r, p_ood r with
    | None, false =>
        let c := fold_partial2 (dir_copy o src) (is_items (p_val r)) dst0 in
        {| io_exn := p_exn c; io_ood := p_ood c; io_dst := p_val c |}
    | e, ood => {| io_exn := e; io_ood := ood; io_dst := dst0 |}       (* raised before any copy *)
    end.

(* ---- zip origin *)
Fixpoint zip_read (ms : list (str * str)) (name : str) : option str :=      (* the LAST entry wins *)
  match ms with
  | [] => None
  | (n, c) :: r => match zip_read r name with Some c' => Some c' | None => if str_eqb n name then Some c else None end
  end.

Definition zip_read_sp (o : oracle) (ms : list (str * str)) (path : str) : res (option json) :=
  match zip_read ms (if is_empty path then FN_SP else path ++ slash ++ FN_SP) with
  | Some c => do v <- parse_file o c; ROk (Some v)
  | None => ROk None
  end.

Definition arch_schema_fn (o : oracle) (sch : schemaspec) (read : str -> res (option json)) (name : str)
  : res (option json) :=
  match sch with
  | SchNone => read name
  | SchCall tab =>
      do sp <- match alookup (normpath name) tab with Some r => ROk r | None => ROod end;
      do spd <- read name;
      consistency sp spd
  | SchStr text =>
      do fields <- schema_compile text;
      do sp <- parse_path fields (normpath name);
      do spd <- read name;
      consistency sp spd
  end.

(* is_below(name, parent): in or below, by whole components *)
Definition zip_under (name root : str) : bool :=
  is_empty root || str_eqb name root || startswith name (root ++ slash).

(* os.path.relpath(name, root) with a current directory deeper than any '..' that occurs *)
Definition CWD : list str := [[1]; [2]; [3]; [4]; [5]; [6]].
Fixpoint common_len (a b : list str) : nat :=
  match a, b with x :: a', y :: b' => if str_eqb x y then Datatypes.S (common_len a' b') else O | _, _ => O end.
Definition relpath (path start : str) : res str :=
  match resolve CWD path, resolve CWD start with
  | Some pl, Some sl =>
      let i := common_len pl sl in
      let rel := repeat dotdot (length sl - i) ++ skipn i pl in
      ROk (match rel with [] => dot | t :: r => pjoin t r end)
  | _, _ => ROod
  end.

(* the analysis loop shared by the zip and the tar analyser: names -> mappings, or an exception
   raised before anything is copied *)
Definition analyse (o : oracle) (sf : str -> res (option json)) (skipped : str -> list str -> bool)
           (skip_adds_skipped : bool) (names : list str) (dst0 : fs) : res (list (str * json * str)) :=
  do r <- fold_left (fun acc name =>
            do st <- acc;
            let '(maps, skip) := st in
            if skipped name skip then ROk (maps, if skip_adds_skipped then name :: skip else skip)
            else do sp <- sf name;
                 match sp with
                 | None => ROk (maps, skip)
                 | Some v =>
                     let id := job_id_of o v in
                     if fs_exists (job_dir id) dst0 then RExn EDestinationExists
                     else ROk (filter (fun m => negb (str_eqb (fst (fst m)) name)) maps ++ [(name, v, id)], name :: skip)
                 end) names (ROk ([], []));
  let maps := fst r in
  if has_dup (List.map snd maps) then RExn ERuntimeError else ROk maps.
(* note: mappings[name] = job replaces the value but keeps the key's first position; names are
   distinct in the zip analyser (a set) and duplicates in the tar analyser map to the same job, so
   the position does not matter *)

(* _CopyFromZipFileExecutor *)
Definition zip_copy_one (ms : list (str * str)) (root : str) (id : str) (d : fs) (name : str) : res fs :=
  do rel <- relpath name root;
  let jobpath := joinw slash (job_dir id) in
  let fn_dst := pjoin2 jobpath rel in
  if ends_slash name then fs_makedirs_lex [] fn_dst d        (* directory member: _mkdir_p(fn_dst); continue *)
  else
  do d1 <- fs_makedirs_lex [] (dirname fn_dst) d;
  match resolve [] fn_dst, zip_read ms name with
  | Some p, Some c => fs_write p c d1
  | _, _ => ROod
  end.

Definition import_zip (o : oracle) (sch : schemaspec) (ms : list (str * str)) (dst0 : fs) : import_out :=
  let names := List.map fst ms in
  let dirs := ssort true (sdedup (List.map dirname names)) in
  let sf := arch_schema_fn o sch (zip_read_sp o ms) in
  match analyse o sf (fun name skip => existsb (zip_under name) skip) false dirs dst0 with
  | RExn e => {| io_exn := Some e; io_ood := false; io_dst := dst0 |}
  | ROod => {| io_exn := None; io_ood := true; io_dst := dst0 |}
  | ROk maps =>
      let r := fold_partial (fun d (m : str * json * str) =>
                   let '(root, _, id) := m in
                   fold_left (fun acc name => do g <- acc; zip_copy_one ms root id g name)
                             (filter (fun n => negb (str_eqb n root) && zip_under n root) names) (ROk d)) maps dst0 in
      (* an exception inside one executor leaves the files it had already written; the model keeps
         the state before that executor, which is exact for every case where no executor fails *)
      {| io_exn := p_exn r; io_ood := p_ood r || match p_exn r with Some _ => true | None => false end;
         io_dst := p_val r |}
  end.

(* ---- tar origin *)
Fixpoint tar_get (ms : list (str * bool * str)) (name : str) : option (bool * str) :=   (* the LAST member wins *)
  match ms with
  | [] => None
  | (n, d, c) :: r => match tar_get r name with
                      | Some x => Some x
                      | None => if str_eqb n name then Some (d, c) else None
                      end
  end.

Definition tar_read_sp (o : oracle) (ms : list (str * bool * str)) (path : str) : res (option json) :=
  match tar_get ms (let p := rstrip_slash path in if is_empty p then FN_SP else p ++ slash ++ FN_SP) with
  | Some (false, c) => do v <- parse_file o c; ROk (Some v)
  | Some (true, _) => ROod
  | None => ROk None
  end.

(* TarFile.extractall(tmpdir, filter='data'): a member whose name leaves tmpdir raises
   OutsideDestinationError (tarfile.FilterError, not a signac / builtin class: EOther) *)
Definition tar_extract (ms : list (str * bool * str)) : res fs :=
  fold_left (fun acc (m : str * bool * str) => do f <- acc;
     let '(name, isdir, c) := m in
     match resolve_comps [] (split 47 (lstrip_slash name)) with
     | None => RExn EOther
     | Some p =>
         (* a '..' that does not leave tmpdir: tarfile's makedirs(exist_ok=False) on a lexical path;
            outside the domain of the model *)
         if existsb (str_eqb dotdot) (split 47 name) then ROod else
         if (isdir : bool) then fs_mkdir_p p f
         else rbind (fs_mkdir_p (removelast p) f) (fun g : fs => fs_write p c g)
     end) ms (ROk ([] : fs)).

Definition import_tar (o : oracle) (sch : schemaspec) (ms : list (str * bool * str)) (dst0 : fs) : import_out :=
  let dirs := ssort true (flat_map (fun m : str * bool * str => let '(n, d, _) := m in if d then [n] else []) ms) in
  let sf := arch_schema_fn o sch (tar_read_sp o ms) in
  match analyse o sf (fun name skip => str_mem (dirname name) skip) true dirs dst0 with
  | RExn e => {| io_exn := Some e; io_ood := false; io_dst := dst0 |}
  | ROod => {| io_exn := None; io_ood := true; io_dst := dst0 |}
  | ROk maps =>
      match tar_extract ms with
      | RExn e => {| io_exn := Some e; io_ood := false; io_dst := dst0 |}
      | ROod => {| io_exn := None; io_ood := true; io_dst := dst0 |}
      | ROk tmp =>
          let r := fold_partial2 (fun d (m : str * json * str) =>
                       let '(path, sp, id) := m in
                       match resolve_comps [] (split 47 path) with
                       | None => ROod
                       | Some p =>
                           if negb (fs_isdir p tmp) then RExn ERuntimeError
                           else copy_to_job_workspace o (fs_subtree p tmp) sp id d
                       end) maps dst0 in
          {| io_exn := p_exn r; io_ood := p_ood r; io_dst := p_val r |}
      end
  end.

Definition import_model (o : oracle) (sch : schemaspec) (a : artifact) (dst0 : fs) : import_out :=
  match a with
  | ADir f => import_dir o sch f dst0
  | AZip ms => import_zip o sch ms dst0
  | ATar ms => import_tar o sch ms dst0
  end.

(* the destination project before the import: the workspace directory and the jobs already there *)
Definition dst_init (pre : list job) : fs :=
  (WS, None) :: flat_map (fun j => (job_dir (j_id j), None)
                                   :: List.map (fun e => (job_dir (j_id j) ++ fst e, snd e)) (j_files j)) pre.

(* what a faithful round trip leaves in the destination *)
Definition expected_dst (pre jobs : list job) : fs := dst_init (pre ++ jobs).
