(* CorrC20.v — observational form of C20 (version gate; migration preserves every job).
   One case = one real project directory [c20_root] inside the scratch directory [c20_base], in
   one of the layouts / versions / options of the property, with
     - what Project(), get_project(), get_project(search=False), init_project() did on the pristine
       tree (exception class, byte snapshot compared, tree after if it changed),
     - what signac.migration.apply_migrations did (outcome, tree after), what a second call did,
       and what the migrated project shows when opened with the real signac. *)
From SV Require Import Base Json Discover Migrate.

Inductive gkind := GProject | GGet (search : bool) | GInit.

Record gobs := {
  g_kind : gkind;
  g_res : result str;          (* Project.path or the exception class *)
  g_changed : bool;            (* byte snapshot differs after the call *)
  g_post : option node         (* tree after, present iff g_changed *)
}.

Record jobrec := { j_id : str; j_sp : json; j_doc : json; j_files : list (str * str) }.

Record case_C20 := {
  c20_base : str;
  c20_tree : node;
  c20_root : str;
  c20_cwd : str;
  c20_gate : list gobs;
  c20_mig : result unit;
  c20_mig_post : node;
  c20_again : result unit;
  c20_again_changed : bool;
  c20_jobs_before : list jobrec;          (* read from the raw files of the configured workspace *)
  c20_open_after : result (list jobrec);  (* get_project(root) after the migration, jobs by id  *)
  c20_name_after : option json;           (* project.document.get("signac_project_name") after *)
  c20_hist : list (node * list gobs);
     (* earlier states of the SAME directory in the SAME process (history): for each, the tree it
        then had and what the four entry points did; afterwards the directory was replaced by the
        next state and finally by c20_tree.  The model is stateless: every step is judged on its own
        tree, so any state the implementation carries from one lookup to the next shows up. *)
  c20_orig : option (option str * option str);
     (* legacy layout: the ORIGINAL project name and workspace_dir the legacy writer was given,
        before ConfigObj quoted / un-quoted them (None for other layouts) *)
  c20_rel : list (str * str * gobs)
     (* the entry points called with OTHER spellings of a path from OTHER working directories, on the
        pristine tree: (os.getcwd() of the process, the path string handed to signac, what happened).
        Relative paths ("." / "sub" / ".." / "../..") from the project directory, from its
        sub-directories, its workspace and a job directory, and from the directory above it. *)
}.

Definition base_comps (base : str) : list str := filter nonempty (split_sl base).
Definition mkroot (base : str) (tree : node) : node :=
  fold_right (fun c t => Dir [(c, t)]) tree (base_comps base).

Definition sub_eqb (root' : node) (bc : list str) (t : node) : bool :=
  match get root' bc with Some t' => node_eqb t' t && node_eqb t t' | None => false end.

Definition res_str_eqb (a b : result str) : bool :=
  match a, b with Ok x, Ok y => str_eqb x y | Err e, Err f => exn_eqb e f | _, _ => false end.
Definition res_unit_eqb (a b : result unit) : bool :=
  match a, b with Ok _, Ok _ => true | Err e, Err f => exn_eqb e f | _, _ => false end.

(* ------------------------------------------------------------------ model vs implementation *)
Definition run_g (root : node) (cwd rdir : str) (k : gkind) : result str * node :=
  match k with
  | GProject => project_open root cwd rdir
  | GGet s => get_project root cwd rdir s
  | GInit => init_project root cwd rdir
  end.

Definition agree_g (c : case_C20) (g : gobs) : bool :=
  let root := mkroot (c20_base c) (c20_tree c) in
  let bc := base_comps (c20_base c) in
  let (r, root') := run_g root (c20_cwd c) (c20_root c) (g_kind g) in
  res_str_eqb r (g_res g)
  && Bool.eqb (negb (sub_eqb root' bc (c20_tree c))) (g_changed g)
  && match g_post g with
     | Some t => g_changed g && sub_eqb root' bc t
     | None => negb (g_changed g)
     end.

(* job ids the model sees after the migration: the entries of <root>/workspace *)
Fixpoint insert_str (s : str) (l : list str) : list str :=
  match l with
  | [] => [s]
  | x :: l' => if str_leb s x then s :: l else x :: insert_str s l'
  end.
Definition sort_strs (l : list str) : list str := fold_right insert_str [] l.

Definition ws_ids (root : node) (cwd rdir : str) : list str :=
  match os_stat root cwd (path_join rdir s_workspace) with
  | Some (Dir es) => sort_strs (map fst es)
  | _ => []
  end.

Definition agree_mig (c : case_C20) : bool :=
  let root := mkroot (c20_base c) (c20_tree c) in
  let bc := base_comps (c20_base c) in
  let (r1, root1) := apply_migrations root (c20_cwd c) (c20_root c) in
  let (r2, root2) := apply_migrations root1 (c20_cwd c) (c20_root c) in
  res_unit_eqb r1 (c20_mig c)
  && sub_eqb root1 bc (c20_mig_post c)
  && res_unit_eqb r2 (c20_again c)
  && Bool.eqb (negb (sub_eqb root2 bc (c20_mig_post c))) (c20_again_changed c)
  && match get_project root2 (c20_cwd c) (c20_root c) true, c20_open_after c with
     | (Ok _, root3), Ok js => list_eqb str_eqb (ws_ids root3 (c20_cwd c) (c20_root c)) (map j_id js)
     | (Err e, _), Err f => exn_eqb e f
     | _, _ => false
     end.

Definition with_tree (c : case_C20) (t : node) : case_C20 :=
  {| c20_base := c20_base c; c20_tree := t; c20_root := c20_root c; c20_cwd := c20_cwd c;
     c20_gate := c20_gate c; c20_mig := c20_mig c; c20_mig_post := c20_mig_post c;
     c20_again := c20_again c; c20_again_changed := c20_again_changed c;
     c20_jobs_before := c20_jobs_before c; c20_open_after := c20_open_after c;
     c20_name_after := c20_name_after c; c20_hist := []; c20_orig := c20_orig c; c20_rel := [] |}.

(* the same case asked through another working directory / path string *)
Definition with_query (c : case_C20) (cwd path : str) : case_C20 :=
  {| c20_base := c20_base c; c20_tree := c20_tree c; c20_root := path; c20_cwd := cwd;
     c20_gate := c20_gate c; c20_mig := c20_mig c; c20_mig_post := c20_mig_post c;
     c20_again := c20_again c; c20_again_changed := c20_again_changed c;
     c20_jobs_before := c20_jobs_before c; c20_open_after := c20_open_after c;
     c20_name_after := c20_name_after c; c20_hist := []; c20_orig := c20_orig c; c20_rel := [] |}.

Definition agree_rel (c : case_C20) : bool :=
  forallb (fun q => match q with (cwd, path, g) => agree_g (with_query c cwd path) g end) (c20_rel c).

Definition agree_hist (c : case_C20) : bool :=
  forallb (fun st => forallb (agree_g (with_tree c (fst st))) (snd st)) (c20_hist c).

Definition mismatch_C20 (c : case_C20) : bool :=
  negb (forallb (agree_g c) (c20_gate c) && agree_mig c && agree_hist c && agree_rel c).

(* ------------------------------------------------------------------ the property (oracle) *)
Inductive layout := LV1 (c : cfgrec) | LV2 (c : cfgrec) | LNone.

(* what the project directory declares, read from the pristine tree by physical lookups *)
Definition proj_phys (c : case_C20) : option (list str) :=
  os_resolve (mkroot (c20_base c) (c20_tree c)) (c20_cwd c) (c20_root c).

Definition layout_of (pd : node) : layout :=
  match get pd [s_dotsignac; s_config], get pd [s_rc] with
  | Some (File (FCfg c)), _ => LV2 c
  | _, Some (File (FCfg c)) => match cproj c with Some _ => LV1 c | None => LNone end
  | _, _ => LNone
  end.

Definition the_layout (c : case_C20) : layout :=
  match proj_phys c with
  | Some ph => match get (mkroot (c20_base c) (c20_tree c)) ph with Some pd => layout_of pd | None => LNone end
  | None => LNone
  end.

(* the version the configuration declares (an absent key counts as 0 in signac.rc and as the
   configspec default 1 in .signac/config; either way it is not the supported one) *)
Definition declared (l : layout) : option Z :=
  match l with
  | LV1 c => Some (match cv c with Some v => v | None => 0%Z end)
  | LV2 c => Some (match cv c with Some v => v | None => 1%Z end)
  | LNone => None
  end.

Definition is_err {A} (r : result A) : bool := match r with Err _ => true | Ok _ => false end.

Definition gate_ok (c : case_C20) (g : gobs) : bool :=
  match the_layout c, declared (the_layout c) with
  | _, None => true
  | l, Some v =>
      if Z.eqb v SCHEMA then
        match l with
        | LV2 _ => res_str_eqb (g_res g) (Ok (c20_root c))
        | _ => true
        end
      else
        (* every entry point, search=False included: the property text exempts none *)
        negb (g_changed g) && res_str_eqb (g_res g) (Err EIncompatibleSchemaVersion)
  end.

(* --- the gate asked from elsewhere.  Written over PHYSICAL locations, independently of the string
   walk of the model: the place the query denotes is resolved, and the nearest directory at or above
   it that holds a configuration of either layout is looked up prefix by prefix.  When that directory
   declares an unsupported version, get_project (search) from anywhere at or below it, and every
   entry point asked for the directory itself under any spelling, must raise
   IncompatibleSchemaVersion and change nothing; an up-to-date .signac/config must open as that
   directory.  (search=False / Project / init_project strictly below a project are about another
   directory and are compared with the model only.) *)
Fixpoint nearest_cfgdir (root : node) (rph : list str) : option (list str * layout) :=
  match (match get root (rev rph) with Some pd => layout_of pd | None => LNone end) with
  | LNone => match rph with [] => None | _ :: r' => nearest_cfgdir root r' end
  | l => Some (rev rph, l)
  end.

Definition verdict_ok (l : layout) (expect_root : str) (g : gobs) : bool :=
  match declared l with
  | None => true
  | Some v =>
      if Z.eqb v SCHEMA then
        match l with LV2 _ => res_str_eqb (g_res g) (Ok expect_root) | _ => true end
      else negb (g_changed g) && res_str_eqb (g_res g) (Err EIncompatibleSchemaVersion)
  end.

Definition rel_ok (c : case_C20) (q : str * str * gobs) : bool :=
  match q with
  | (cwd, path, g) =>
      let root := mkroot (c20_base c) (c20_tree c) in
      match os_resolve root cwd path with
      | None => true
      | Some ph =>
          match nearest_cfgdir root (rev ph) with
          | None => true
          | Some (pp, l) =>
              let applies := match g_kind g with
                             | GGet true => true
                             | _ => list_eqb str_eqb pp ph
                             end in
              if applies then verdict_ok l (SL :: join_sl pp) g else true
          end
      end
  end.

Definition jobrec_eqb (a b : jobrec) : bool :=
  str_eqb (j_id a) (j_id b) && json_eqb (norm (j_sp a)) (norm (j_sp b))
  && json_eqb (norm (j_doc a)) (norm (j_doc b))
  && list_eqb (fun x y => str_eqb (fst x) (fst y) && str_eqb (snd x) (snd y)) (j_files a) (j_files b).

Definition opt_node_eqb (a b : option node) : bool :=
  match a, b with
  | Some x, Some y => node_eqb x y && node_eqb y x
  | None, None => true
  | _, _ => false
  end.

(* the place a workspace_dir value names below the project directory: its components with empty and
   "." components dropped (and "x/.." folded), the way the kernel reads os.path.join(root, w).
   "./workspace" and "workspace/" name the directory "workspace". *)
Definition wcomps (w : str) : list str := norm_comps false (split_sl w).

Definition touched (w : str) : list str :=
  (match wcomps w with x :: _ => [x] | [] => [] end)
  ++ [s_workspace; s_rc; s_dotsignac; s_doc; s_hist_old; s_cache_old].

Definition frame_ok (w : str) (pre post : node) : bool :=
  match pre, post with
  | Dir e1, Dir e2 =>
      forallb (fun kv => str_mem (fst kv) (touched w) || opt_node_eqb (Some (snd kv)) (alookup (fst kv) e2)) e1
      && forallb (fun kv => str_mem (fst kv) (touched w) || opt_node_eqb (Some (snd kv)) (alookup (fst kv) e1)) e2
  | _, _ => false
  end.

Definition moved_ok (pre post : node) (old : str) (new : list str) : bool :=
  match get pre [old] with
  | Some (File d) => opt_node_eqb (get post new) (Some (File d)) && opt_node_eqb (get post [old]) None
  | _ => true
  end.

Definition name_ok (name : str) (pre post : node) (name_after : option json) : bool :=
  if str_eqb name s_None then
    opt_node_eqb (get post [s_doc]) (get pre [s_doc])
  else
    match get post [s_doc] with
    | Some (File (FJson (JObj kvs))) =>
        match alookup s_name_key kvs with Some (JStr n) => str_eqb n name | _ => false end
        && match get pre [s_doc] with
           | Some (File (FJson (JObj kvs0))) =>
               forallb (fun kv => str_eqb (fst kv) s_name_key ||
                                  match alookup (fst kv) kvs with
                                  | Some x => json_eqb (norm x) (norm (snd kv))
                                  | None => false
                                  end) kvs0
           | Some _ => false
           | None => true
           end
        && match name_after with Some (JStr n) => str_eqb n name | _ => false end
    | _ => false
    end.

Definition legacy_cfg_kept (c0 : cfgrec) (post : node) : bool :=
  match get post [s_rc], get post [s_dotsignac] with
  | Some (File (FCfg c1)), None =>
      optstr_eqb (cproj c1) (cproj c0) && optstr_eqb (cws c1) (cws c0)
      && match cv c1 with Some v => Z.ltb v SCHEMA | None => true end
  | _, _ => false
  end.

Definition mig_ok (c : case_C20) : bool :=
  let root := mkroot (c20_base c) (c20_tree c) in
  let bc := base_comps (c20_base c) in
  let unchanged := node_eqb (c20_mig_post c) (c20_tree c) && node_eqb (c20_tree c) (c20_mig_post c) in
  match proj_phys c with
  | None => true
  | Some ph =>
    let rel := skipn (List.length bc) ph in
    match get (c20_tree c) rel, get (c20_mig_post c) rel with
    | Some pre, Some post =>
      match layout_of pre, declared (layout_of pre) with
      | _, None => true
      | l, Some v =>
          if Z.ltb SCHEMA v then
            (* newer than supported: refused, nothing touched *)
            res_unit_eqb (c20_mig c) (Err ERuntimeError) && unchanged
          else if Z.eqb v SCHEMA then
            match l with
            | LV2 _ => res_unit_eqb (c20_mig c) (Ok tt) && unchanged     (* up to date: no-op *)
            | _ => true
            end
          else
            match l with
            | LV1 c0 =>
                if Z.ltb v 0 then true else
                let w := match cws c0 with Some w => w | None => s_workspace end in
                (* custom = the configured directory is another PLACE than <root>/workspace, not another
                   spelling of it ("./workspace", "workspace/" are the default) *)
                let custom := negb (list_eqb str_eqb (wcomps w) [s_workspace]) in
                let name := match cproj c0 with Some n => n | None => s_None end in
                if custom && match get pre [s_workspace] with Some _ => true | None => false end then
                  (* collision: refused; every job stays where it was; still a migratable v1 project *)
                  res_unit_eqb (c20_mig c) (Err ERuntimeError)
                  && opt_node_eqb (get post (wcomps w)) (get pre (wcomps w))
                  && opt_node_eqb (get post [s_workspace]) (get pre [s_workspace])
                  && legacy_cfg_kept c0 post
                  && frame_ok [] pre post
                else
                  res_unit_eqb (c20_mig c) (Ok tt)
                  (* the workspace, with every job directory byte for byte, is now <root>/workspace *)
                  && match get pre (wcomps w) with
                     | Some ws => opt_node_eqb (get post [s_workspace]) (Some ws)
                     | None => match get post [s_workspace] with None | Some (Dir []) => true | _ => false end
                     end
                  && (negb custom || opt_node_eqb (get post (wcomps w)) None)
                  (* v2 layout, supported version, v1 artefacts gone *)
                  && match get post [s_dotsignac; s_config] with
                     | Some (File (FCfg c1)) => optZ_eqb (cv c1) (Some SCHEMA)
                     | _ => false
                     end
                  && opt_node_eqb (get post [s_rc]) None
                  && moved_ok pre post s_hist_old [s_dotsignac; s_hist_new]
                  && moved_ok pre post s_cache_old [s_dotsignac; s_cache_new]
                  && name_ok name pre post (c20_name_after c)
                  && frame_ok w pre post
                  (* it opens, and shows exactly the jobs that were there *)
                  && match c20_open_after c with
                     | Ok js => list_eqb jobrec_eqb js (c20_jobs_before c)
                     | Err _ => false
                     end
                  (* migrating the up-to-date result is a no-op *)
                  && res_unit_eqb (c20_again c) (Ok tt) && negb (c20_again_changed c)
            | _ => true
            end
      end
    | _, _ => false
    end
  end.

(* the config-file lexer (ConfigObj: quoting on write, un-quoting / list splitting on read) is not
   modelled; it is validated here on every generated value: what the configspec-free parse of the
   legacy file yields (and the model is given) must be the ORIGINAL name / workspace_dir, so that
   every clause of mig_ok about "the name" and "the workspace" is a clause about the originals. *)
Definition orig_ok (c : case_C20) : bool :=
  match c20_orig c, the_layout c with
  | Some (n, w), LV1 c0 => optstr_eqb (cproj c0) n && optstr_eqb (cws c0) w
  | Some (None, _), LNone => true            (* a signac.rc without project key is not loadable *)
  | Some _, _ => false
  | None, _ => true
  end.

Definition hist_ok (c : case_C20) : bool :=
  forallb (fun st => forallb (gate_ok (with_tree c (fst st))) (snd st)) (c20_hist c).

Definition holds_C20 (c : case_C20) : bool :=
  forallb (gate_ok c) (c20_gate c) && mig_ok c && orig_ok c && hist_ok c && forallb (rel_ok c) (c20_rel c).
Definition violation_C20 (c : case_C20) : bool := negb (holds_C20 c).

Definition mismatches_C20 (cs : list case_C20) : list N := indices_where mismatch_C20 cs.
Definition violations_C20 (cs : list case_C20) : list N := indices_where violation_C20 cs.

(* debugging aids *)
Definition bad_gates (c : case_C20) : list N := indices_where (fun g => negb (agree_g c g)) (c20_gate c).
Definition model_mig (c : case_C20) :=
  let root := mkroot (c20_base c) (c20_tree c) in
  let (r1, root1) := apply_migrations root (c20_cwd c) (c20_root c) in
  (r1, get root1 (base_comps (c20_base c))).
