(* ViewResolve.v — the relative target computed by _update_view resolves to the job directory. *)
From SV Require Import Base View CorrC17 C17Proofs ViewFS ViewThm ViewThm2.
From Coq Require Import Lia.

Definition real (c : str) : Prop := c <> s_up.

Lemma realpath_nil : forall lf w cur, realpath_from lf w cur [] = cur.
Proof. destruct lf; reflexivity. Qed.

Lemma realpath_up : forall lf w cur c cs, updir c = true -> skipc c = false ->
  realpath_from lf w cur (c :: cs) = realpath_from lf w (up cur) cs.
Proof. destruct lf; intros; simpl; rewrite H0, H; reflexivity. Qed.

Lemma realpath_skip : forall lf w cur c cs, skipc c = true ->
  realpath_from lf w cur (c :: cs) = realpath_from lf w cur cs.
Proof. destruct lf; intros; simpl; rewrite H; reflexivity. Qed.

Lemma realpath_dir : forall lf w cur c cs es,
  plain c -> get w (cur ++ [c]) = Some (Dir es) ->
  realpath_from lf w cur (c :: cs) = realpath_from lf w (cur ++ [c]) cs.
Proof. destruct lf; intros w cur c cs es [H1 H2] G; simpl; rewrite H1, H2, G; reflexivity. Qed.

Lemma realpath_lnk_last : forall lf w cur c t,
  plain c -> get w (cur ++ [c]) = Some (Lnk t) -> is_abs (split_sep t) = false ->
  realpath_from (S lf) w cur [c] = realpath_from lf w cur (split_sep t).
Proof.
  intros lf w cur c t [H1 H2] G Ha. simpl. rewrite H1, H2, G. cbv zeta. rewrite Ha.
  destruct lf; reflexivity.
Qed.

Lemma realpath_dirs : forall lf w q cur,
  Forall plain q -> (forall q1 q2, q = q1 ++ q2 -> kind_at w (cur ++ q1) = Some KDir) ->
  realpath_from lf w cur q = cur ++ q.
Proof.
  induction q as [|c q IH]; intros cur Hp Hd.
  - rewrite realpath_nil, app_nil_r. reflexivity.
  - inversion Hp as [|? ? Hc Hq]; subst.
    destruct (kind_dir_get w (cur ++ [c])) as [es G]; [apply (Hd [c] q); reflexivity|].
    rewrite (realpath_dir lf w cur c q es Hc G). rewrite IH; auto.
    + rewrite <- app_assoc. reflexivity.
    + intros q1 q2 E. rewrite <- app_assoc. apply (Hd (c :: q1) q2). simpl. rewrite E. reflexivity.
Qed.

Lemma up_snoc : forall l c, real c -> up (l ++ [c]) = l.
Proof.
  intros l c Hc. unfold up. destruct (l ++ [c]) eqn:E; [destruct l; discriminate|]. rewrite <- E.
  rewrite last_last. assert (str_eqb c s_up = false) as -> by (apply str_eqb_neq; exact Hc).
  apply removelast_last.
Qed.

Lemma realpath_ups : forall lf w t C rest,
  Forall real t ->
  realpath_from lf w (C ++ t) (map (fun _ => s_dotdot) t ++ rest) = realpath_from lf w C rest.
Proof.
  intros lf w t. induction t as [|c t IH] using rev_ind; intros C rest Hr.
  - simpl. rewrite app_nil_r. reflexivity.
  - apply Forall_app in Hr. destruct Hr as [Hr1 Hr2]. inversion Hr2; subst.
    rewrite map_app. simpl map. rewrite <- app_assoc. simpl app.
    (* reorder: the dotdots are all equal, so peel one from the front *)
    assert (E : map (fun _ : str => s_dotdot) t ++ s_dotdot :: rest = s_dotdot :: map (fun _ : str => s_dotdot) t ++ rest).
    { clear. induction t; simpl; [reflexivity|]. rewrite IHt. reflexivity. }
    rewrite E. rewrite realpath_up by reflexivity.
    rewrite app_assoc. rewrite up_snoc by assumption. apply IH. exact Hr1.
Qed.

Lemma strip_common_spec : forall a b s t, strip_common a b = (s, t) -> exists C, a = C ++ s /\ b = C ++ t.
Proof.
  induction a as [|x a IH]; intros b s t H.
  - simpl in H. inversion H; subst. exists []. auto.
  - destruct b as [|y b]; simpl in H.
    + inversion H; subst. exists []. auto.
    + destruct (str_eqb x y) eqn:E.
      * apply str_eqb_eq in E. subst y. destruct (IH b s t H) as [C [-> ->]]. exists (x :: C). auto.
      * inversion H; subst. exists []. auto.
Qed.

Lemma lexnorm_aux_plain : forall q acc, Forall plain q -> lexnorm_aux acc q = rev acc ++ q.
Proof.
  induction q as [|c q IH]; intros acc H; simpl; [rewrite app_nil_r; reflexivity|].
  inversion H as [|? ? [H1 H2] Hq]; subst. rewrite H1, H2. rewrite IH by exact Hq. simpl.
  rewrite <- app_assoc. reflexivity.
Qed.

Lemma lexnorm_A : forall q, Forall plain q -> lexnorm (A q) = q.
Proof. intros q H. unfold lexnorm, A. simpl. apply (lexnorm_aux_plain q [] H). Qed.

Lemma nosep_dotdot : nosep s_dotdot.
Proof. unfold nosep, s_dotdot, SEP. simpl. intuition discriminate. Qed.
Lemma nosep_dot : nosep s_dot.
Proof. unfold nosep, s_dot, SEP. simpl. intuition discriminate. Qed.

Lemma realpath_descend : forall lf w q cur rest,
  Forall plain q -> (forall q1 q2, q = q1 ++ q2 -> kind_at w (cur ++ q1) = Some KDir) ->
  realpath_from lf w cur (q ++ rest) = realpath_from lf w (cur ++ q) rest.
Proof.
  induction q as [|c q IH]; intros cur rest Hq Hd.
  - rewrite app_nil_r. reflexivity.
  - inversion Hq as [|? ? Hc Hq']; subst.
    destruct (kind_dir_get w (cur ++ [c])) as [es Ge]; [apply (Hd [c] q); reflexivity|].
    simpl app. rewrite (realpath_dir lf w cur c (q ++ rest) es Hc Ge). rewrite IH; auto.
    + rewrite <- app_assoc. reflexivity.
    + intros q1 q2 E. rewrite <- app_assoc. apply (Hd (c :: q1) q2). simpl. rewrite E. reflexivity.
Qed.

(* the link T/job below the prefix P, with the target _update_view computes, resolves to tgt *)
Theorem link_target_resolves : forall P T tgt w cwd,
  P <> [] -> Forall plain (P ++ T) -> Forall real (P ++ T) ->
  Forall plain tgt -> Forall nosep tgt -> dirs_to w tgt -> dirs_to w (P ++ T) ->
  Forall tok T ->
  get w ((P ++ T) ++ [s_job]) = Some (Lnk (link_target cwd (A P) (T ++ [s_job]) tgt)) ->
  realpath w cwd (pjoin (A P) (T ++ [s_job])) = tgt.
Proof.
  intros P T tgt w cwd Pne Hpl Hre Htp Htn Htd Hvd HT G.
  assert (HPpl : Forall plain P) by (apply Forall_app in Hpl; tauto).
  assert (HTpl : Forall plain T) by (apply Forall_app in Hpl; tauto).
  rewrite (pjoin_key P T HT). unfold realpath.
  rewrite absolutize_A by (destruct (P ++ T); discriminate).
  unfold A. change LF with (S 39). rewrite realpath_skip by reflexivity.
  rewrite (realpath_descend (S 39) w (P ++ T) [] [s_job] Hpl) by (intros q1 q2 E; apply (Hvd q1 q2 E)).
  simpl app at 1.
  (* the target text *)
  unfold link_target in G. rewrite (pjoin_key P T HT) in G.
  rewrite dirname_A in G; [|destruct P; [congruence|discriminate]|exact Hpl].
  rewrite absolutize_A in G by (destruct P; [congruence|discriminate]).
  unfold relpath in G. rewrite lexnorm_A in G by exact Hpl.
  destruct (strip_common tgt (P ++ T)) as [s t] eqn:SC.
  destruct (strip_common_spec _ _ _ _ SC) as [C [Etgt Ept]].
  set (r := match map (fun _ : str => s_dotdot) t ++ s with [] => [s_dot] | x :: l => x :: l end) in G.
  assert (Hrn : Forall nosep r /\ r <> [] /\ is_abs r = false).
  { assert (Hs : Forall nosep s) by (rewrite Etgt in Htn; apply Forall_app in Htn; tauto).
    assert (Hsp : Forall plain s) by (rewrite Etgt in Htp; apply Forall_app in Htp; tauto).
    unfold r. destruct t as [|x t'].
    - simpl. destruct s as [|y s'].
      + split; [repeat constructor; apply nosep_dot|]. split; [discriminate|reflexivity].
      + split; [exact Hs|]. split; [discriminate|]. inversion Hsp as [|? ? Hy _]; subst.
        simpl. destruct y; [exfalso; eapply plain_nonempty; eauto|]. destruct s'; reflexivity.
    - simpl. split; [|split; [discriminate|]].
      + constructor; [apply nosep_dotdot|]. apply Forall_app. split; [|exact Hs].
        clear. induction t'; simpl; constructor; auto. apply nosep_dotdot.
      + destruct (map (fun _ : str => s_dotdot) t' ++ s); reflexivity. }
  destruct Hrn as [Hr1 [Hr2 Hr3]].
  rewrite (realpath_lnk_last 39 w (P ++ T) s_job _ plain_job G) by (rewrite split_join; auto).
  rewrite split_join by auto.
  (* climb and descend *)
  assert (Hreal_t : Forall real t) by (rewrite Ept in Hre; apply Forall_app in Hre; tauto).
  assert (Hs_pl : Forall plain s) by (rewrite Etgt in Htp; apply Forall_app in Htp; tauto).
  assert (Fin : realpath_from 39 w (P ++ T) (map (fun _ : str => s_dotdot) t ++ s) = tgt).
  { rewrite Ept. rewrite realpath_ups by exact Hreal_t.
    rewrite <- (app_nil_r s) at 1. rewrite (realpath_descend 39 w s C [] Hs_pl).
    - rewrite realpath_nil. symmetry. exact Etgt.
    - intros q1 q2 E. apply (Htd (C ++ q1) q2). rewrite Etgt, E, app_assoc. reflexivity. }
  unfold r. destruct (map (fun _ : str => s_dotdot) t ++ s) as [|x l] eqn:El.
  - (* target and link directory coincide *)
    rewrite realpath_skip by reflexivity. rewrite realpath_nil.
    rewrite realpath_nil in Fin. exact Fin.
  - exact Fin.
Qed.
