(* C16Frame.v — file-system lemmas and the frame theorems of C16:
   what export_to_directory and the directory / tar import can change. *)
From Coq Require Import String Ascii.
From SV Require Import Base Json MD5 Canon Export CorrC16.
Local Open Scope N_scope.
Local Opaque S.

(* ------------------------------------------------------------------ paths *)
Lemma fpath_eqb_eq : forall a b, fpath_eqb a b = true <-> a = b.
Proof. apply list_eqb_eq. apply str_eqb_eq. Qed.

Lemma fpath_eqb_refl : forall a, fpath_eqb a a = true.
Proof. intro a. apply fpath_eqb_eq. reflexivity. Qed.

Lemma fpath_eqb_neq : forall a b, a <> b -> fpath_eqb a b = false.
Proof. intros a b H. destruct (fpath_eqb a b) eqn:E; auto. apply fpath_eqb_eq in E. contradiction. Qed.

Lemma fpath_eq_dec : forall a b : fpath, {a = b} + {a <> b}.
Proof. intros a b. destruct (fpath_eqb a b) eqn:E; [left; apply fpath_eqb_eq; auto | right; intro H; apply fpath_eqb_eq in H; congruence]. Qed.

Lemma strip_prefix_refl : forall l, strip_prefix l l = Some [].
Proof. induction l as [|x l IH]; simpl; auto. rewrite str_eqb_refl. exact IH. Qed.

Lemma strip_prefix_app : forall p r, strip_prefix p (p ++ r) = Some r.
Proof. induction p as [|x p IH]; simpl; auto. intro r. rewrite str_eqb_refl. apply IH. Qed.

Lemma strip_prefix_spec : forall p q r, strip_prefix p q = Some r -> q = p ++ r.
Proof.
  induction p as [|x p IH]; simpl; intros q r H.
  - inversion H. reflexivity.
  - destruct q as [|y q]; [discriminate|]. destruct (str_eqb x y) eqn:E; [|discriminate].
    apply str_eqb_eq in E. subst y. f_equal. apply IH. exact H.
Qed.

Lemma is_prefix_refl : forall l, is_prefix l l = true.
Proof. intro l. unfold is_prefix. rewrite strip_prefix_refl. reflexivity. Qed.

Lemma is_prefix_app : forall p r, is_prefix p (p ++ r) = true.
Proof. intros. unfold is_prefix. rewrite strip_prefix_app. reflexivity. Qed.

Lemma is_prefix_spec : forall p q, is_prefix p q = true <-> exists r, q = p ++ r.
Proof.
  intros p q. unfold is_prefix. split.
  - destruct (strip_prefix p q) as [r|] eqn:E; [|discriminate]. intros _. exists r. apply strip_prefix_spec. exact E.
  - intros [r ->]. rewrite strip_prefix_app. reflexivity.
Qed.

Lemma is_prefix_trans : forall a b c, is_prefix a b = true -> is_prefix b c = true -> is_prefix a c = true.
Proof.
  intros a b c H1 H2. apply is_prefix_spec in H1, H2. destruct H1 as [r1 ->], H2 as [r2 ->].
  rewrite <- app_assoc. apply is_prefix_app.
Qed.

(* ------------------------------------------------------------------ get / set *)
Lemma fs_get_set_same : forall p n f, fs_get p (fs_set p n f) = Some n.
Proof.
  induction f as [|[q m] f IH]; simpl.
  - rewrite fpath_eqb_refl. reflexivity.
  - destruct (fpath_eqb p q) eqn:E; simpl; rewrite E; auto.
Qed.

Lemma fs_get_set_other : forall p q n f, p <> q -> fs_get q (fs_set p n f) = fs_get q f.
Proof.
  intros p q n f Hne. induction f as [|[r m] f IH]; simpl.
  - rewrite (fpath_eqb_neq q p); auto.
  - destruct (fpath_eqb p r) eqn:E; simpl.
    + apply fpath_eqb_eq in E. subst r. rewrite (fpath_eqb_neq q p); auto.
    + destruct (fpath_eqb q r); auto.
Qed.

(* res plumbing *)
Lemma fold_res_exn : forall A B (step : res A -> B -> res A) l e,
  (forall x, step (RExn e) x = RExn e) -> fold_left step l (RExn e) = RExn e.
Proof. induction l as [|x l IH]; simpl; intros e H; auto. rewrite H. apply IH. exact H. Qed.

Lemma fold_res_ood : forall A B (step : res A -> B -> res A) l,
  (forall x, step ROod x = ROod) -> fold_left step l ROod = ROod.
Proof. induction l as [|x l IH]; simpl; intros H; auto. rewrite H. apply IH. exact H. Qed.

(* ------------------------------------------------------------------ mkdir -p *)
Definition mkdir_step (acc : res fs) (q : fpath) : res fs :=
  do g <- acc;
  match fs_get q g with
  | None => ROk (fs_set q None g)
  | Some None => ROk g
  | Some (Some _) => RExn EOSError
  end.

Lemma fs_mkdir_p_unfold : forall p f, fs_mkdir_p p f = fold_left mkdir_step (prefixes p) (ROk f).
Proof. reflexivity. Qed.

(* [only_adds f g]: every entry of f is still there, unchanged *)
Definition only_adds (f g : fs) : Prop := forall q n, fs_get q f = Some n -> fs_get q g = Some n.

Lemma only_adds_refl : forall f, only_adds f f.
Proof. intros f q n H. exact H. Qed.
Lemma only_adds_trans : forall f g h, only_adds f g -> only_adds g h -> only_adds f h.
Proof. intros f g h H1 H2 q n H. auto. Qed.

Lemma mkdirs_spec : forall l f g, fold_left mkdir_step l (ROk f) = ROk g ->
  only_adds f g /\ (forall q, ~ In q l -> fs_get q g = fs_get q f).
Proof.
  induction l as [|x l IH]; simpl; intros f g H.
  - inversion H; subst. split; [apply only_adds_refl|auto].
  - destruct (fs_get x f) as [[c|]|] eqn:E.
    + rewrite fold_res_exn in H by reflexivity. discriminate.
    + destruct (IH _ _ H) as [H1 H2]. split; auto. intros q Hq. apply H2. tauto.
    + destruct (IH _ _ H) as [H1 H2]. split.
      * intros q n Hq. apply H1. destruct (fpath_eq_dec x q) as [->|Hne]; [congruence|].
        rewrite fs_get_set_other; auto.
      * intros q Hq. rewrite H2 by tauto. apply fs_get_set_other. tauto.
Qed.

Lemma fs_mkdir_p_spec : forall p f g, fs_mkdir_p p f = ROk g ->
  only_adds f g /\ (forall q, ~ In q (prefixes p) -> fs_get q g = fs_get q f).
Proof. intros p f g H. rewrite fs_mkdir_p_unfold in H. apply mkdirs_spec. exact H. Qed.

Lemma in_prefixes_from : forall p pre q, In q (prefixes_from pre p) ->
  exists a b, p = a ++ b /\ a <> [] /\ q = pre ++ a.
Proof.
  induction p as [|x p IH]; simpl; intros pre q H; [tauto|].
  destruct H as [<-|H].
  - exists [x], p. repeat split; auto. discriminate.
  - destruct (IH _ _ H) as [a [b [-> [Ha ->]]]].
    exists (x :: a), b. repeat split; auto; [discriminate|]. rewrite <- app_assoc. reflexivity.
Qed.

Lemma in_prefixes : forall p q, In q (prefixes p) -> is_prefix q p = true /\ q <> [].
Proof.
  intros p q H. destruct (in_prefixes_from _ _ _ H) as [a [b [-> [Ha ->]]]]. simpl.
  split; [apply is_prefix_app|exact Ha].
Qed.

(* ------------------------------------------------------------------ copytree *)
Lemma fold_set_other : forall (tree : fs) p q h,
  (forall e, In e tree -> p ++ fst e <> q) ->
  fs_get q (fold_left (fun acc e => fs_set (p ++ fst e) (snd e) acc) tree h) = fs_get q h.
Proof.
  induction tree as [|e tree IH]; simpl; intros p q h H; auto.
  rewrite IH by auto. apply fs_get_set_other. apply H. auto.
Qed.

Lemma not_prefix_neq_app : forall p q r, is_prefix p q = false -> p ++ r <> q.
Proof. intros p q r H E. subst q. rewrite is_prefix_app in H. discriminate. Qed.

Lemma fs_copytree_spec : forall tree p f g, fs_copytree tree p f = ROk g ->
  fs_exists p f = false /\
  forall q, is_prefix p q = false -> (fs_get q g = fs_get q f \/ (In q (prefixes p) /\ fs_get q f = None)).
Proof.
  intros tree p f g H. unfold fs_copytree in H.
  destruct (fs_exists p f) eqn:Ex; [discriminate|]. split; auto.
  destruct (fs_mkdir_p p f) as [g0| |] eqn:Em; simpl in H; try discriminate.
  inversion H; subst g. clear H.
  destruct (fs_mkdir_p_spec _ _ _ Em) as [Hadd Hoth].
  intros q Hq. rewrite fold_set_other by (intros; apply not_prefix_neq_app; exact Hq).
  destruct (in_dec fpath_eq_dec q (prefixes p)) as [Hin|Hnin].
  - destruct (fs_get q f) as [n|] eqn:E.
    + left. apply Hadd. exact E.
    + right. auto.
  - left. apply Hoth. exact Hnin.
Qed.

(* ------------------------------------------------------------------ job directories *)
Lemma job_dir_eq : forall id, job_dir id = [S "workspace"; id].
Proof. reflexivity. Qed.

Lemma prefixes_job_dir : forall id, prefixes (job_dir id) = [WS; job_dir id].
Proof. reflexivity. Qed.

Lemma under_two_job_dirs : forall id id' q,
  is_prefix (job_dir id) q = true -> is_prefix (job_dir id') q = true -> id = id'.
Proof.
  intros id id' q H1 H2. apply is_prefix_spec in H1, H2. destruct H1 as [r1 ->], H2 as [r2 H2].
  rewrite !job_dir_eq in H2. simpl in H2. inversion H2. reflexivity.
Qed.

Lemma under_job_dir_not_ws : forall id q, is_prefix (job_dir id) q = true -> q <> WS.
Proof.
  intros id q H E. subst q. apply is_prefix_spec in H. destruct H as [r H].
  rewrite job_dir_eq in H. unfold WS in H. simpl in H. inversion H.
Qed.

Lemma job_id_shape : forall o sp, is_job_id (job_id_of o sp) = true.
Proof.
  intros o sp. unfold is_job_id, job_id_of, calc_id.
  destruct (md5_hex_shape (canon (ftab_get (o_frepr o)) sp)) as [Hl Hh]. rewrite Hl, Hh. reflexivity.
Qed.

(* what one job.init() / one copy into the workspace may change *)
Definition touches_only (id : str) (d d' : fs) : Prop :=
  forall q, is_prefix (job_dir id) q = false ->
            fs_get q d' = fs_get q d \/ (q = WS /\ fs_get q d = None).

Lemma touches_only_refl : forall id d, touches_only id d d.
Proof. intros id d q _. left. reflexivity. Qed.

Lemma touches_only_trans : forall id a b c, touches_only id a b -> touches_only id b c -> touches_only id a c.
Proof.
  intros id a b c H1 H2 q Hq. destruct (H1 q Hq) as [E1|[-> E1]], (H2 q Hq) as [E2|[E2 E2']].
  - left. congruence.
  - right. subst q. split; auto. congruence.
  - right. auto.
  - right. auto.
Qed.

Lemma job_init_touches : forall o sp id d d', job_init o sp id d = ROk d' -> touches_only id d d'.
Proof.
  intros o sp id d d' H. unfold job_init in H.
  destruct (fs_get (job_dir id ++ [FN_SP]) d) as [[c|]|] eqn:E.
  - destruct (parse_file o c) as [v| |]; simpl in H; try discriminate.
    destruct (str_eqb (job_id_of o v) id); inversion H; subst. apply touches_only_refl.
  - discriminate.
  - destruct (fs_mkdir_p (job_dir id) d) as [d1| |] eqn:Em; simpl in H; try discriminate.
    inversion H; subst d'. clear H. destruct (fs_mkdir_p_spec _ _ _ Em) as [Hadd Hoth].
    intros q Hq. rewrite fs_get_set_other by (apply not_prefix_neq_app; exact Hq).
    destruct (in_dec fpath_eq_dec q (prefixes (job_dir id))) as [Hin|Hnin].
    + rewrite prefixes_job_dir in Hin. destruct Hin as [<-|[<-|[]]].
      * destruct (fs_get WS d) as [n|] eqn:Ew; [left; apply Hadd; exact Ew | right; auto].
      * rewrite is_prefix_refl in Hq. discriminate.
    + left. apply Hoth. exact Hnin.
Qed.

Lemma copy_touches : forall o tree sp id d d' e,
  copy_to_job_workspace o tree sp id d = ROk (d', e) ->
  touches_only id d d' /\ (d' = d \/ fs_exists (job_dir id) d = false).
Proof.
  intros o tree sp id d d' e H. unfold copy_to_job_workspace in H.
  destruct (fs_copytree tree (job_dir id) d) as [d1|[]|] eqn:Ec; try discriminate.
  - destruct (fs_copytree_spec _ _ _ _ Ec) as [Hex Hch].
    assert (T1 : touches_only id d d1).
    { intros q Hq. destruct (Hch q Hq) as [E|[Hin E]]; [left; exact E|].
      rewrite prefixes_job_dir in Hin. destruct Hin as [<-|[<-|[]]]; [right; auto|].
      rewrite is_prefix_refl in Hq. discriminate. }
    destruct (job_init o sp id d1) as [d2|e2|] eqn:Ei; inversion H; subst.
    + split; [|right; exact Hex]. eapply touches_only_trans; [exact T1|]. eapply job_init_touches; eauto.
    + split; [exact T1|right; exact Hex].
  - inversion H; subst. split; [apply touches_only_refl|left; reflexivity].
Qed.

(* ------------------------------------------------------------------ the import invariant *)
(* relative to the project state d0 before the import:
     (a) nothing at or below an existing job directory has changed;
     (b) every change is WS (created if missing) or lies in the directory of a well-formed job id *)
Definition import_frame (d0 d : fs) : Prop :=
  (forall id q, fs_exists (job_dir id) d0 = true -> is_prefix (job_dir id) q = true -> fs_get q d = fs_get q d0)
  /\ (forall q, fs_get q d <> fs_get q d0 ->
                (q = WS /\ fs_get q d0 = None) \/ exists id, is_job_id id = true /\ is_prefix (job_dir id) q = true).

Lemma import_frame_refl : forall d0, import_frame d0 d0.
Proof. intro d0. split; [auto|]. intros q H. congruence. Qed.

Lemma fs_exists_job_dir : forall id d, fs_exists (job_dir id) d = true <-> fs_get (job_dir id) d <> None.
Proof.
  intros id d. rewrite job_dir_eq. unfold fs_exists.
  destruct (fs_get [S "workspace"; id] d); split; intro H; congruence.
Qed.

Lemma import_frame_step : forall o tree sp d0 d d' e,
  import_frame d0 d ->
  copy_to_job_workspace o tree sp (job_id_of o sp) d = ROk (d', e) ->
  import_frame d0 d'.
Proof.
  intros o tree sp d0 d d' e [Ha Hb] Hc. set (id' := job_id_of o sp) in *.
  destruct (copy_touches _ _ _ _ _ _ _ Hc) as [Ht Hd].
  destruct Hd as [->|Hnew]; [split; assumption|].
  split.
  - intros id q Hex Hq.
    assert (Hne : id <> id').
    { intro E. subst id. pose proof (Ha id' (job_dir id') Hex (is_prefix_refl _)) as E.
      apply fs_exists_job_dir in Hex. rewrite <- E in Hex. apply fs_exists_job_dir in Hex. congruence. }
    rewrite <- (Ha id q Hex Hq).
    assert (Hq' : is_prefix (job_dir id') q = false).
    { destruct (is_prefix (job_dir id') q) eqn:E; auto. exfalso. apply Hne. eapply under_two_job_dirs; eauto. }
    destruct (Ht q Hq') as [E|[E _]]; [exact E|]. exfalso. eapply under_job_dir_not_ws; eauto.
  - intros q Hq. destruct (is_prefix (job_dir id') q) eqn:E.
    + right. exists id'. split; [apply job_id_shape|exact E].
    + destruct (Ht q E) as [E1|[-> E1]].
      * apply Hb. congruence.
      * destruct (fs_get WS d0) as [n|] eqn:E0.
        -- exfalso. destruct (fpath_eq_dec (fs_get WS d) (fs_get WS d0)) as [E2|E2].
           ++ congruence.
           ++ destruct (Hb WS) as [[_ E3]|[id [_ E3]]]; [congruence|congruence|].
              eapply under_job_dir_not_ws; eauto.
        -- left. auto.
Qed.
