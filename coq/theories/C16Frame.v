(* C16Frame.v — file-system lemmas and the frame theorems of C16:
   what export_to_directory and the directory / tar import can change. *)
From Coq Require Import String Ascii.
From SV Require Import Base Json MD5 Canon Export CorrC16.
Local Open Scope N_scope.
Local Opaque S.

(* ------------------------------------------------------------------ paths *)
Lemma fpath_eqb_eq : forall a b, fpath_eqb a b = true <-> a = b.
Proof. apply list_eqb_eq. apply str_eqb_eq. Qed.

Lemma fpath_eqb_refl : forall a, fpath_eqb a a = true.
Proof. intro a. apply fpath_eqb_eq. reflexivity. Qed.

Lemma fpath_eqb_neq : forall a b, a <> b -> fpath_eqb a b = false.
Proof. intros a b H. destruct (fpath_eqb a b) eqn:E; auto. apply fpath_eqb_eq in E. contradiction. Qed.

Lemma fpath_eq_dec : forall a b : fpath, {a = b} + {a <> b}.
Proof. intros a b. destruct (fpath_eqb a b) eqn:E; [left; apply fpath_eqb_eq; auto | right; intro H; apply fpath_eqb_eq in H; congruence]. Qed.

Lemma strip_prefix_refl : forall l, strip_prefix l l = Some [].
Proof. induction l as [|x l IH]; simpl; auto. rewrite str_eqb_refl. exact IH. Qed.

Lemma strip_prefix_app : forall p r, strip_prefix p (p ++ r) = Some r.
Proof. induction p as [|x p IH]; simpl; auto. intro r. rewrite str_eqb_refl. apply IH. Qed.

Lemma strip_prefix_spec : forall p q r, strip_prefix p q = Some r -> q = p ++ r.
Proof.
  induction p as [|x p IH]; simpl; intros q r H.
  - inversion H. reflexivity.
  - destruct q as [|y q]; [discriminate|]. destruct (str_eqb x y) eqn:E; [|discriminate].
    apply str_eqb_eq in E. subst y. f_equal. apply IH. exact H.
Qed.

Lemma is_prefix_refl : forall l, is_prefix l l = true.
Proof. intro l. unfold is_prefix. rewrite strip_prefix_refl. reflexivity. Qed.

Lemma is_prefix_app : forall p r, is_prefix p (p ++ r) = true.
Proof. intros. unfold is_prefix. rewrite strip_prefix_app. reflexivity. Qed.

Lemma is_prefix_spec : forall p q, is_prefix p q = true <-> exists r, q = p ++ r.
Proof.
  intros p q. unfold is_prefix. split.
  - destruct (strip_prefix p q) as [r|] eqn:E; [|discriminate]. intros _. exists r. apply strip_prefix_spec. exact E.
  - intros [r ->]. rewrite strip_prefix_app. reflexivity.
Qed.

Lemma is_prefix_trans : forall a b c, is_prefix a b = true -> is_prefix b c = true -> is_prefix a c = true.
Proof.
  intros a b c H1 H2. apply is_prefix_spec in H1, H2. destruct H1 as [r1 ->], H2 as [r2 ->].
  rewrite <- app_assoc. apply is_prefix_app.
Qed.

(* ------------------------------------------------------------------ get / set *)
Lemma fs_get_set_same : forall p n f, fs_get p (fs_set p n f) = Some n.
Proof.
  induction f as [|[q m] f IH]; simpl.
  - rewrite fpath_eqb_refl. reflexivity.
  - destruct (fpath_eqb p q) eqn:E; simpl; rewrite E; auto.
Qed.

Lemma fs_get_set_other : forall p q n f, p <> q -> fs_get q (fs_set p n f) = fs_get q f.
Proof.
  intros p q n f Hne. induction f as [|[r m] f IH]; simpl.
  - rewrite (fpath_eqb_neq q p); auto.
  - destruct (fpath_eqb p r) eqn:E; simpl.
    + apply fpath_eqb_eq in E. subst r. rewrite (fpath_eqb_neq q p); auto.
    + destruct (fpath_eqb q r); auto.
Qed.

(* res plumbing *)
Lemma fold_res_exn : forall A B (step : res A -> B -> res A) l e,
  (forall x, step (RExn e) x = RExn e) -> fold_left step l (RExn e) = RExn e.
Proof. induction l as [|x l IH]; simpl; intros e H; auto. rewrite H. apply IH. exact H. Qed.

Lemma fold_res_ood : forall A B (step : res A -> B -> res A) l,
  (forall x, step ROod x = ROod) -> fold_left step l ROod = ROod.
Proof. induction l as [|x l IH]; simpl; intros H; auto. rewrite H. apply IH. exact H. Qed.

(* ------------------------------------------------------------------ mkdir -p *)
Definition mkdir_step (acc : res fs) (q : fpath) : res fs :=
  do g <- acc;
  match fs_get q g with
  | None => ROk (fs_set q None g)
  | Some None => ROk g
  | Some (Some _) => RExn EOSError
  end.

Lemma fs_mkdir_p_unfold : forall p f, fs_mkdir_p p f = fold_left mkdir_step (prefixes p) (ROk f).
Proof. reflexivity. Qed.

(* [only_adds f g]: every entry of f is still there, unchanged *)
Definition only_adds (f g : fs) : Prop := forall q n, fs_get q f = Some n -> fs_get q g = Some n.

Lemma only_adds_refl : forall f, only_adds f f.
Proof. intros f q n H. exact H. Qed.
Lemma only_adds_trans : forall f g h, only_adds f g -> only_adds g h -> only_adds f h.
Proof. intros f g h H1 H2 q n H. auto. Qed.

Lemma mkdirs_spec : forall l f g, fold_left mkdir_step l (ROk f) = ROk g ->
  only_adds f g /\ (forall q, ~ In q l -> fs_get q g = fs_get q f).
Proof.
  induction l as [|x l IH]; simpl; intros f g H.
  - inversion H; subst. split; [apply only_adds_refl|auto].
  - destruct (fs_get x f) as [[c|]|] eqn:E.
    + rewrite fold_res_exn in H by reflexivity. discriminate.
    + destruct (IH _ _ H) as [H1 H2]. split; [exact H1|]. intros q Hq. apply H2. tauto.
    + destruct (IH _ _ H) as [H1 H2]. split.
      * intros q n Hq. apply H1. destruct (fpath_eq_dec x q) as [->|Hne]; [congruence|].
        rewrite fs_get_set_other; auto.
      * intros q Hq. rewrite H2 by tauto. apply fs_get_set_other. tauto.
Qed.

Lemma fs_mkdir_p_spec : forall p f g, fs_mkdir_p p f = ROk g ->
  only_adds f g /\ (forall q, ~ In q (prefixes p) -> fs_get q g = fs_get q f).
Proof. intros p f g H. rewrite fs_mkdir_p_unfold in H. apply mkdirs_spec. exact H. Qed.

Lemma in_prefixes_from : forall p pre q, In q (prefixes_from pre p) ->
  exists a b, p = a ++ b /\ a <> [] /\ q = pre ++ a.
Proof.
  induction p as [|x p IH]; simpl; intros pre q H; [tauto|].
  destruct H as [<-|H].
  - exists [x], p. repeat split; auto. discriminate.
  - destruct (IH _ _ H) as [a [b [-> [Ha ->]]]].
    exists (x :: a), b. repeat split; auto; [discriminate|]. rewrite <- app_assoc. reflexivity.
Qed.

Lemma in_prefixes : forall p q, In q (prefixes p) -> is_prefix q p = true /\ q <> [].
Proof.
  intros p q H. destruct (in_prefixes_from _ _ _ H) as [a [b [-> [Ha ->]]]]. simpl.
  split; [apply is_prefix_app|exact Ha].
Qed.

(* ------------------------------------------------------------------ copytree *)
Lemma fold_set_other : forall (tree : fs) p q h,
  (forall e, In e tree -> p ++ fst e <> q) ->
  fs_get q (fold_left (fun acc e => fs_set (p ++ fst e) (snd e) acc) tree h) = fs_get q h.
Proof.
  induction tree as [|e tree IH]; simpl; intros p q h H; auto.
  rewrite IH by auto. apply fs_get_set_other. apply H. auto.
Qed.

Lemma not_prefix_neq_app : forall p q r, is_prefix p q = false -> p ++ r <> q.
Proof. intros p q r H E. subst q. rewrite is_prefix_app in H. discriminate. Qed.

Lemma fs_copytree_spec : forall tree p f g, fs_copytree tree p f = ROk g ->
  fs_exists p f = false /\
  forall q, is_prefix p q = false -> (fs_get q g = fs_get q f \/ (In q (prefixes p) /\ fs_get q f = None)).
Proof.
  intros tree p f g H. unfold fs_copytree in H.
  destruct (fs_exists p f) eqn:Ex; [discriminate|]. split; auto.
  destruct (fs_mkdir_p p f) as [g0| |] eqn:Em; simpl in H; try discriminate.
  inversion H; subst g. clear H.
  destruct (fs_mkdir_p_spec _ _ _ Em) as [Hadd Hoth].
  intros q Hq. rewrite fold_set_other by (intros; apply not_prefix_neq_app; exact Hq).
  destruct (in_dec fpath_eq_dec q (prefixes p)) as [Hin|Hnin].
  - destruct (fs_get q f) as [n|] eqn:E.
    + left. apply Hadd. exact E.
    + right. auto.
  - left. apply Hoth. exact Hnin.
Qed.

(* ------------------------------------------------------------------ job directories *)
Lemma job_dir_eq : forall id, job_dir id = [S "workspace"; id].
Proof. reflexivity. Qed.

Lemma prefixes_job_dir : forall id, prefixes (job_dir id) = [WS; job_dir id].
Proof. reflexivity. Qed.

Lemma under_two_job_dirs : forall id id' q,
  is_prefix (job_dir id) q = true -> is_prefix (job_dir id') q = true -> id = id'.
Proof.
  intros id id' q H1 H2. apply is_prefix_spec in H1, H2. destruct H1 as [r1 E1], H2 as [r2 E2].
  rewrite E1 in E2. rewrite !job_dir_eq in E2. simpl in E2. inversion E2. reflexivity.
Qed.

Lemma under_job_dir_not_ws : forall id q, is_prefix (job_dir id) q = true -> q <> WS.
Proof.
  intros id q H E. subst q. apply is_prefix_spec in H. destruct H as [r H].
  rewrite job_dir_eq in H. unfold WS in H. simpl in H. inversion H.
Qed.

Lemma job_id_shape : forall o sp, is_job_id (job_id_of o sp) = true.
Proof.
  intros o sp. unfold is_job_id, job_id_of, calc_id.
  destruct (md5_hex_shape (canon (ftab_get (o_frepr o)) sp)) as [Hl Hh]. rewrite Hl, Hh. reflexivity.
Qed.

(* what one job.init() / one copy into the workspace may change *)
Definition touches_only (id : str) (d d' : fs) : Prop :=
  forall q, is_prefix (job_dir id) q = false ->
            fs_get q d' = fs_get q d \/ (q = WS /\ fs_get q d = None).

Lemma touches_only_refl : forall id d, touches_only id d d.
Proof. intros id d q _. left. reflexivity. Qed.

Lemma touches_only_trans : forall id a b c, touches_only id a b -> touches_only id b c -> touches_only id a c.
Proof.
  intros id a b c H1 H2 q Hq. destruct (H1 q Hq) as [E1|[Eq E1]]; destruct (H2 q Hq) as [E2|[E2 E2']].
  - left. congruence.
  - right. split; auto. congruence.
  - right. auto.
  - right. auto.
Qed.

Lemma job_init_touches : forall o sp id d d', job_init o sp id d = ROk d' -> touches_only id d d'.
Proof.
  intros o sp id d d' H. unfold job_init in H.
  destruct (fs_get (job_dir id ++ [FN_SP]) d) as [[c|]|] eqn:E.
  - destruct (parse_file o c) as [v| |]; simpl in H; try discriminate.
    destruct (str_eqb (job_id_of o v) id); inversion H; subst. apply touches_only_refl.
  - discriminate.
  - destruct (fs_mkdir_p (job_dir id) d) as [d1| |] eqn:Em; cbn [rbind] in H; try discriminate.
    injection H as H. subst d'. destruct (fs_mkdir_p_spec _ _ _ Em) as [Hadd Hoth].
    intros q Hq.
    rewrite (fs_get_set_other (job_dir id ++ [FN_SP]) q) by (apply (not_prefix_neq_app (job_dir id) q [FN_SP]); exact Hq).
    destruct (in_dec fpath_eq_dec q (prefixes (job_dir id))) as [Hin|Hnin].
    + rewrite prefixes_job_dir in Hin. destruct Hin as [<-|[<-|[]]].
      * destruct (fs_get WS d) as [n|] eqn:Ew; [left; apply Hadd; exact Ew | right; auto].
      * rewrite is_prefix_refl in Hq. discriminate.
    + left. apply Hoth. exact Hnin.
Qed.

Lemma copy_touches : forall o tree sp id d d' e,
  copy_to_job_workspace o tree sp id d = ROk (d', e) ->
  touches_only id d d' /\ (d' = d \/ fs_exists (job_dir id) d = false).
Proof.
  intros o tree sp id d d' e H. unfold copy_to_job_workspace in H.
  destruct (fs_copytree tree (job_dir id) d) as [d1|[]|] eqn:Ec; try discriminate.
  - destruct (fs_copytree_spec _ _ _ _ Ec) as [Hex Hch].
    assert (T1 : touches_only id d d1).
    { intros q Hq. destruct (Hch q Hq) as [E|[Hin E]]; [left; exact E|].
      rewrite prefixes_job_dir in Hin. destruct Hin as [<-|[<-|[]]]; [right; auto|].
      rewrite is_prefix_refl in Hq. discriminate. }
    destruct (job_init o sp id d1) as [d2|e2|] eqn:Ei; inversion H; subst.
    + split; [|right; exact Hex]. eapply touches_only_trans; [exact T1|]. eapply job_init_touches; eauto.
    + split; [exact T1|right; exact Hex].
  - inversion H; subst. split; [apply touches_only_refl|left; reflexivity].
Qed.

(* ------------------------------------------------------------------ the import invariant *)
(* relative to the project state d0 before the import:
     (a) nothing at or below an existing job directory has changed;
     (b) every change is WS (created if missing) or lies in the directory of a well-formed job id *)
Definition import_frame (d0 d : fs) : Prop :=
  (forall id q, fs_exists (job_dir id) d0 = true -> is_prefix (job_dir id) q = true -> fs_get q d = fs_get q d0)
  /\ (forall q, fs_get q d <> fs_get q d0 ->
                (q = WS /\ fs_get q d0 = None) \/ exists id, is_job_id id = true /\ is_prefix (job_dir id) q = true).

Lemma import_frame_refl : forall d0, import_frame d0 d0.
Proof. intro d0. split; [auto|]. intros q H. congruence. Qed.

Lemma fs_exists_job_dir : forall id d, fs_exists (job_dir id) d = true <-> fs_get (job_dir id) d <> None.
Proof.
  intros id d. rewrite job_dir_eq. unfold fs_exists.
  destruct (fs_get [S "workspace"; id] d); split; intro H; congruence.
Qed.

Lemma import_frame_step : forall o tree sp id' d0 d d' e,
  is_job_id id' = true ->
  import_frame d0 d ->
  copy_to_job_workspace o tree sp id' d = ROk (d', e) ->
  import_frame d0 d'.
Proof.
  intros o tree sp id' d0 d d' e Hid [Ha Hb] Hc.
  destruct (copy_touches _ _ _ _ _ _ _ Hc) as [Ht Hd].
  destruct Hd as [->|Hnew]; [split; assumption|].
  split.
  - intros id q Hex Hq.
    assert (Hne : id <> id').
    { intro E. subst id. pose proof (Ha id' (job_dir id') Hex (is_prefix_refl _)) as E.
      apply fs_exists_job_dir in Hex. rewrite <- E in Hex. apply fs_exists_job_dir in Hex. congruence. }
    rewrite <- (Ha id q Hex Hq).
    assert (Hq' : is_prefix (job_dir id') q = false).
    { destruct (is_prefix (job_dir id') q) eqn:E; auto. exfalso. apply Hne. eapply under_two_job_dirs; eauto. }
    destruct (Ht q Hq') as [E|[E _]]; [exact E|]. exfalso. eapply under_job_dir_not_ws; eauto.
  - intros q Hq. destruct (is_prefix (job_dir id') q) eqn:E.
    + right. exists id'. split; [exact Hid|exact E].
    + destruct (Ht q E) as [E1|[-> E1]].
      * apply Hb. congruence.
      * destruct (fs_get WS d0) as [n|] eqn:E0.
        -- exfalso. destruct (Hb WS) as [[_ E3]|[id [_ E3]]]; [congruence|congruence|].
           eapply under_job_dir_not_ws; eauto.
        -- left. auto.
Qed.

(* ------------------------------------------------------------------ loops *)
Lemma fold_partial2_inv : forall A B (P : A -> Prop) (step : A -> B -> res (A * option exn)) l a0,
  P a0 -> (forall a x a' e, In x l -> P a -> step a x = ROk (a', e) -> P a') ->
  P (p_val (fold_partial2 step l a0)).
Proof.
  intros A B P step l a0 H0 Hstep. unfold fold_partial2.
  set (acc0 := {| p_exn := None; p_ood := false; p_val := a0 |}).
  assert (H : P (p_val acc0)) by exact H0. clearbody acc0. revert acc0 H.
  induction l as [|x l IH]; simpl; intros acc H; auto.
  apply IH.
  - intros a y a' e Hy. apply Hstep. right. exact Hy.
  - destruct (p_exn acc); [exact H|]. destruct (p_ood acc); [exact H|].
    destruct (step (p_val acc) x) as [[a' e]| |] eqn:E; simpl; auto.
    eapply Hstep; eauto. left. reflexivity.
Qed.

(* every mapping produced by the analysers carries the id of its state point *)
Lemma analyse_ids : forall o sf skipped adds names dst0 maps,
  analyse o sf skipped adds names dst0 = ROk maps ->
  forall m, In m maps -> snd m = job_id_of o (snd (fst m)).
Proof.
  intros o sf skipped adds names dst0 maps H. unfold analyse in H.
  match type of H with (do r <- ?F; _) = _ => destruct F as [[maps0 skip0]| |] eqn:EF end; simpl in H; try discriminate.
  assert (Hinv : forall m, In m maps0 -> snd m = job_id_of o (snd (fst m))).
  { clear H. revert EF.
    match goal with |- fold_left ?step names ?init = _ -> _ => set (st := step) end.
    assert (Hgen : forall l acc ms sk, fold_left st l acc = ROk (ms, sk) ->
              (forall ms0 sk0, acc = ROk (ms0, sk0) -> forall m, In m ms0 -> snd m = job_id_of o (snd (fst m))) ->
              forall m, In m ms -> snd m = job_id_of o (snd (fst m))).
    { induction l as [|name l IH]; simpl; intros acc ms sk Hf Hacc.
      - eapply Hacc; eauto.
      - eapply IH; [exact Hf|]. intros ms1 sk1 Hst. unfold st in Hst.
        destruct acc as [[ms0 sk0]| |]; simpl in Hst; try discriminate.
        specialize (Hacc ms0 sk0 eq_refl).
        destruct (skipped name sk0).
        + inversion Hst; subst. exact Hacc.
        + destruct (sf name) as [[v|]| |]; simpl in Hst; try discriminate.
          * match type of Hst with (if ?c then _ else _) = _ => destruct c end; [discriminate|].
            inversion Hst; subst. intros m Hm. apply in_app_or in Hm. destruct Hm as [Hm|[<-|[]]].
            -- apply filter_In in Hm. apply Hacc. tauto.
            -- reflexivity.
          * inversion Hst; subst. exact Hacc. }
    intros EF. eapply Hgen; [exact EF|]. intros ms0 sk0 E. inversion E; subst. intros m []. }
  destruct (has_dup (List.map snd maps0)); [discriminate|]. inversion H; subst. exact Hinv.
Qed.

Theorem import_tar_frame : forall o sch ms d0, import_frame d0 (io_dst (import_tar o sch ms d0)).
Proof.
  intros o sch ms d0. unfold import_tar.
  match goal with |- context [analyse ?a ?b ?c ?d ?e ?f] => destruct (analyse a b c d e f) as [maps| |] eqn:Ea end;
    simpl; try apply import_frame_refl.
  destruct (tar_extract ms) as [tmp| |]; simpl; try apply import_frame_refl.
  apply (fold_partial2_inv _ _ (fun d => import_frame d0 d)).
  - apply import_frame_refl.
  - intros d [[path sp] id] d' e Hin Hf Hs.
    destruct (resolve_comps [] (split 47 path)) as [p|]; [|discriminate].
    destruct (negb (fs_isdir p tmp)); [discriminate|].
    eapply import_frame_step; [|exact Hf|exact Hs].
    pose proof (analyse_ids _ _ _ _ _ _ _ Ea _ Hin) as Hid. simpl in Hid. rewrite Hid. apply job_id_shape.
Qed.

(* ---- directory origin: the crawl only collects, the copies follow *)
Theorem import_dir_frame : forall o sch src d0, import_frame d0 (io_dst (import_dir o sch src d0)).
Proof.
  intros o sch src d0. unfold import_dir.
  destruct (negb (fs_isdir TARGET src)); [apply import_frame_refl|].
  match goal with |- context [dir_crawl ?a ?b ?c ?d ?e ?f] => generalize (dir_crawl a b c d e f) end.
  intro r. destruct (p_exn r); [apply import_frame_refl|]. destruct (p_ood r); [apply import_frame_refl|].
  simpl. apply (fold_partial2_inv _ _ (fun d => import_frame d0 d)).
  - apply import_frame_refl.
  - intros d it d' e _ Hf Hs. unfold dir_copy in Hs.
    eapply import_frame_step; [apply job_id_shape|exact Hf|exact Hs].
Qed.

(* ------------------------------------------------------------------ the two import theorems, for
   directory and tar origins and EVERY schema, destination state and archive content *)
Theorem import_never_overwrites_dir_tar : forall o sch a d0,
  (match a with AZip _ => False | _ => True end) ->
  forall id q, fs_exists (job_dir id) d0 = true -> is_prefix (job_dir id) q = true ->
  fs_get q (io_dst (import_model o sch a d0)) = fs_get q d0.
Proof.
  intros o sch a d0 Ha id q Hex Hq. destruct a as [f|ms|ms]; simpl in *; [|tauto|].
  - destruct (import_dir_frame o sch f d0) as [H _]. apply H with id; auto.
  - destruct (import_tar_frame o sch ms d0) as [H _]. apply H with id; auto.
Qed.

Theorem import_contained_dir_tar : forall o sch a d0,
  (match a with AZip _ => False | _ => True end) ->
  forall q, fs_get q (io_dst (import_model o sch a d0)) <> fs_get q d0 ->
  (q = WS /\ fs_get q d0 = None) \/ exists id, is_job_id id = true /\ is_prefix (job_dir id) q = true.
Proof.
  intros o sch a d0 Ha q Hq. destruct a as [f|ms|ms]; simpl in *; [|tauto|].
  - destruct (import_dir_frame o sch f d0) as [_ H]. apply H. exact Hq.
  - destruct (import_tar_frame o sch ms d0) as [_ H]. apply H. exact Hq.
Qed.

(* ================================================================== export_to_directory: containment *)
(* the zone export may touch: below the target, or a (missing) parent directory of the target *)
Definition in_zone (q : fpath) : bool := is_prefix TARGET q || is_prefix q TARGET.

(* a destination is safe if every path os.makedirs / copytree will visit for it lies in the zone and
   the job directory itself lies below the target *)
Definition dst_safe (dst : str) : bool :=
  let full := pjoin2 TARGET_STR dst in
  let comps := filter (fun c => negb (is_empty c || str_eqb c dot)) (split 47 full) in
  negb (starts_slash full)
  && match resolve [] (dirname (normpath full)) with Some par => in_zone par | None => false end
  && forallb (fun cs => match resolve_comps [] cs with Some q => in_zone q | None => false end) (lex_prefixes [] comps)
  && match resolve_comps [] comps with Some p => is_prefix TARGET p | None => false end.

(* outside the target: unchanged, or a missing parent of the target that has been created *)
Definition export_frame (f g : fs) : Prop :=
  forall q, is_prefix TARGET q = false ->
            fs_get q g = fs_get q f \/ (is_prefix q TARGET = true /\ fs_get q f = None).

Lemma export_frame_refl : forall f, export_frame f f.
Proof. intros f q _. left. reflexivity. Qed.

Lemma export_frame_trans : forall a b c, export_frame a b -> export_frame b c -> export_frame a c.
Proof.
  intros a b c H1 H2 q Hq. destruct (H1 q Hq) as [E1|[P1 E1]]; destruct (H2 q Hq) as [E2|[P2 E2]].
  - left. congruence.
  - right. split; auto. congruence.
  - right. auto.
  - right. auto.
Qed.

Lemma prefix_of_app_cases : forall (q a r : fpath), is_prefix q (a ++ r) = true ->
  is_prefix q a = true \/ is_prefix a q = true.
Proof.
  induction q as [|x q IH]; intros a r H; [left; reflexivity|].
  destruct a as [|y a]; [right; reflexivity|].
  unfold is_prefix in *. simpl in *. destruct (str_eqb x y) eqn:E; [|discriminate].
  rewrite (proj1 (str_eqb_eq x y) E), str_eqb_refl.
  assert (Hxy : str_eqb y x = true) by (apply str_eqb_eq; symmetry; apply str_eqb_eq; exact E).
  apply (IH a r). exact H.
Qed.

Lemma zone_prefix_closed : forall x q, in_zone x = true -> is_prefix q x = true ->
  is_prefix TARGET q = false -> is_prefix q TARGET = true.
Proof.
  intros x q Hz Hq Hn. unfold in_zone in Hz. apply orb_true_iff in Hz. destruct Hz as [Hz|Hz].
  - apply is_prefix_spec in Hz. destruct Hz as [r ->].
    destruct (prefix_of_app_cases _ _ _ Hq) as [H|H]; [exact H|congruence].
  - eapply is_prefix_trans; eauto.
Qed.

Lemma mkdir_p_export_frame : forall x f g, fs_mkdir_p x f = ROk g -> in_zone x = true -> export_frame f g.
Proof.
  intros x f g H Hz q Hq. destruct (fs_mkdir_p_spec _ _ _ H) as [Hadd Hoth].
  destruct (in_dec fpath_eq_dec q (prefixes x)) as [Hin|Hnin].
  - destruct (fs_get q f) as [n|] eqn:E; [left; apply Hadd; exact E|].
    right. split; auto. apply in_prefixes in Hin. eapply zone_prefix_closed; eauto. tauto.
  - left. apply Hoth. exact Hnin.
Qed.

Lemma lex_mkdirs_export_frame : forall l f g,
  fold_left (fun acc cs => do g <- acc;
               match resolve_comps (rev []) cs with
               | None => ROod
               | Some q => fs_mkdir_p q g
               end) l (ROk f) = ROk g ->
  forallb (fun cs => match resolve_comps [] cs with Some q => in_zone q | None => false end) l = true ->
  export_frame f g.
Proof.
  induction l as [|cs l IH]; simpl; intros f g H Hs.
  - inversion H. apply export_frame_refl.
  - apply andb_true_iff in Hs. destruct Hs as [Hs1 Hs2].
    destruct (resolve_comps [] cs) as [q|]; [|discriminate].
    destruct (fs_mkdir_p q f) as [g1| |] eqn:Em.
    + eapply export_frame_trans; [eapply mkdir_p_export_frame; eauto|]. apply IH; auto.
    + rewrite fold_res_exn in H by reflexivity. discriminate.
    + rewrite fold_res_ood in H by reflexivity. discriminate.
Qed.

Lemma forallb_removelast : forall A (p : A -> bool) l, forallb p l = true -> forallb p (removelast l) = true.
Proof.
  induction l as [|x l IH]; simpl; auto. intro H. apply andb_true_iff in H. destruct H as [H1 H2].
  destruct l; simpl in *; auto. rewrite H1. simpl. apply IH. exact H2.
Qed.

Lemma export_dir_step_frame : forall rel f j dst g e,
  export_dir_step rel f (j, dst) = ROk (g, e) -> dst_safe dst = true -> export_frame f g.
Proof.
  intros rel f j dst g e H Hs. unfold export_dir_step in H. unfold dst_safe in Hs.
  destruct (rel && is_empty (dirname (normpath (pjoin2 REL_TARGET dst)))).
  { inversion H; subst. apply export_frame_refl. }
  set (full := pjoin2 TARGET_STR dst) in *.
  repeat (apply andb_true_iff in Hs; destruct Hs as [Hs ?]).
  rename H0 into Hp, H1 into Hlex, H2 into Hpar. apply negb_true_iff in Hs.
  destruct (resolve [] (dirname (normpath full))) as [par|]; [|discriminate].
  destruct (fs_mkdir_p par f) as [g1| |] eqn:Em; cbn [rbind] in H; try discriminate.
  eapply export_frame_trans; [eapply mkdir_p_export_frame; eauto|].
  unfold fs_copytree_lex in H. rewrite Hs in H.
  set (comps := filter (fun c => negb (is_empty c || str_eqb c dot)) (split 47 full)) in *.
  change (rev []) with (@nil str) in H.
  destruct (resolve_comps [] comps) as [p|]; [|discriminate].
  match type of H with (do g <- ?F; _) = _ => destruct F as [g2| |] eqn:EF end; cbn [rbind] in H; try discriminate.
  assert (F2 : export_frame g1 g2).
  { eapply lex_mkdirs_export_frame; [exact EF|]. apply forallb_removelast. exact Hlex. }
  eapply export_frame_trans; [exact F2|].
  destruct (fs_exists p g2).
  - inversion H; subst. apply export_frame_refl.
  - destruct (fs_mkdir_p p g2) as [h| |] eqn:Eh; cbn [rbind] in H; try discriminate.
    inversion H; subst. clear H.
    assert (Hz : in_zone p = true) by (unfold in_zone; rewrite Hp; reflexivity).
    eapply export_frame_trans; [eapply mkdir_p_export_frame; eauto|].
    intros q Hq. left. apply fold_set_other. intros e0 _ E. subst q.
    assert (is_prefix TARGET (p ++ fst e0) = true).
    { eapply is_prefix_trans; [exact Hp|apply is_prefix_app]. }
    congruence.
Qed.

(* export_to_directory on an arbitrary initial file system [f] (which may contain the source project):
   if every destination is safe, nothing outside the target changes - the target's missing parent
   directories are created, that is all.  This gives export_contained and export_src_unchanged. *)
Theorem export_dir_contained : forall rel jds f,
  forallb (fun jd => dst_safe (snd jd)) jds = true ->
  export_frame f (p_val (fold_partial2 (export_dir_step rel) jds f)).
Proof.
  intros rel jds f Hs.
  apply (fold_partial2_inv _ _ (fun g => export_frame f g)).
  - apply export_frame_refl.
  - intros a [j dst] a' e Hin Ha Hstep. eapply export_frame_trans; [exact Ha|].
    eapply export_dir_step_frame; eauto. rewrite forallb_forall in Hs. apply (Hs (j, dst) Hin).
Qed.

Corollary export_src_unchanged : forall rel jds f q n,
  forallb (fun jd => dst_safe (snd jd)) jds = true ->
  is_prefix TARGET q = false -> fs_get q f = Some n ->
  fs_get q (p_val (fold_partial2 (export_dir_step rel) jds f)) = Some n.
Proof.
  intros rel jds f q n Hs Hq Hn. destruct (export_dir_contained rel jds f Hs q Hq) as [E|[_ E]]; congruence.
Qed.
