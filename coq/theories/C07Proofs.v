(* C07Proofs.v — equivalences of query spellings, command-line round trip, cursor and groupby facts. *)
From SV Require Import Base Json PyVal PyValProofs Query QueryProofs Canon Front.
From Coq Require Import DecimalN DecimalPos Permutation.

(* ---------- nested mapping = dotted key; operator as nested mapping = key suffix ---------- *)
Lemma flatten_nested : forall f a b v,
  flatten (Datatypes.S (Datatypes.S f)) None (JObj [(a, JObj [(b, v)])]) =
  flatten f (Some (a ++ dot :: b)) v.
Proof. intros. cbn [flatten flat_map fst snd]. rewrite !List.app_nil_r. reflexivity. Qed.

Lemma flatten_dotted : forall f k v,
  flatten (Datatypes.S f) None (JObj [(k, v)]) = flatten f (Some k) v.
Proof. intros. cbn [flatten flat_map fst snd]. rewrite List.app_nil_r. reflexivity. Qed.

(* fuel only matters up to the nesting depth: one more unit does not change the flattening of a
   value that needed no more than f *)
Definition shallow (v : json) : bool :=
  match v with JObj (_ :: _) => false | _ => true end.

Lemma flatten_shallow : forall f g k v, shallow v = true ->
  flatten (Datatypes.S f) (Some k) v = flatten (Datatypes.S g) (Some k) v.
Proof. intros f g k v H. destruct v as [| | | | | |[|kv kvs]]; try reflexivity. discriminate. Qed.

Theorem nested_eq_dotted_flatten : forall f a b v, shallow v = true ->
  flatten (Datatypes.S (Datatypes.S (Datatypes.S f))) None (JObj [(a, JObj [(b, v)])]) =
  flatten (Datatypes.S (Datatypes.S (Datatypes.S f))) None (JObj [(a ++ dot :: b, v)]).
Proof.
  intros f a b v Hs. rewrite flatten_nested, flatten_dotted. apply flatten_shallow. exact Hs.
Qed.

(* find_result sees a filter only through its flattened leaf expressions and its logical parts *)
Lemma find_result_ext : forall rs ic f c kv kvs kv' kvs',
  flatten (Datatypes.S f) None (JObj (strip_logical (kv :: kvs))) =
  flatten (Datatypes.S f) None (JObj (strip_logical (kv' :: kvs'))) ->
  alookup s_or (kv :: kvs) = alookup s_or (kv' :: kvs') ->
  alookup s_and (kv :: kvs) = alookup s_and (kv' :: kvs') ->
  alookup s_not (kv :: kvs) = alookup s_not (kv' :: kvs') ->
  find_result rs ic (Datatypes.S f) c (JObj (kv :: kvs)) = find_result rs ic (Datatypes.S f) c (JObj (kv' :: kvs')).
Proof.
  intros rs ic f c kv kvs kv' kvs' Hf Ho Ha Hn.
  cbn [find_result]. rewrite Hf, Ho, Ha, Hn. reflexivity.
Qed.

Definition plain_key (k : str) : bool :=
  negb (str_eqb s_or k) && negb (str_eqb s_and k) && negb (str_eqb s_not k).

Lemma plain_key_inv : forall k, plain_key k = true ->
  str_eqb s_or k = false /\ str_eqb s_and k = false /\ str_eqb s_not k = false.
Proof.
  intros k H. unfold plain_key in H. apply andb_true_iff in H. destruct H as [H Hn].
  apply andb_true_iff in H. destruct H as [Ho Ha].
  apply negb_true_iff in Ho, Ha, Hn. auto.
Qed.

Lemma strip_logical_plain : forall k (v : json), plain_key k = true -> strip_logical [(k, v)] = [(k, v)].
Proof.
  intros k v H. destruct (plain_key_inv k H) as [Ho [Ha Hn]].
  unfold strip_logical. cbn [aremove]. rewrite Ho. cbn [aremove]. rewrite Ha. cbn [aremove]. rewrite Hn.
  reflexivity.
Qed.

Lemma alookup_plain : forall k (v : json), plain_key k = true ->
  alookup s_or [(k, v)] = None /\ alookup s_and [(k, v)] = None /\ alookup s_not [(k, v)] = None.
Proof.
  intros k v H. destruct (plain_key_inv k H) as [Ho [Ha Hn]].
  cbn [alookup]. rewrite Ho, Ha, Hn. auto.
Qed.

(* {a: {b: v}} and {"a.b": v} select the same jobs; with b = "$op" this is also
   {k: {"$op": v}} = {"k.$op": v} *)
Theorem nested_eq_dotted : forall rs ic f c a b v,
  plain_key a = true -> plain_key (a ++ dot :: b) = true -> shallow v = true ->
  find_result rs ic (Datatypes.S (Datatypes.S (Datatypes.S f))) c (JObj [(a, JObj [(b, v)])]) =
  find_result rs ic (Datatypes.S (Datatypes.S (Datatypes.S f))) c (JObj [(a ++ dot :: b, v)]).
Proof.
  intros rs ic f c a b v Ha Hab Hs.
  destruct (alookup_plain a (JObj [(b, v)]) Ha) as [H1 [H2 H3]].
  destruct (alookup_plain (a ++ dot :: b) v Hab) as [H1' [H2' H3']].
  apply find_result_ext;
    [|transitivity (@None json); [exact H1|symmetry; exact H1']
     |transitivity (@None json); [exact H2|symmetry; exact H2']
     |transitivity (@None json); [exact H3|symmetry; exact H3']].
  rewrite !strip_logical_plain by assumption. apply nested_eq_dotted_flatten. exact Hs.
Qed.

(* ---------- the default namespace: k and sp.k ---------- *)
Definition unprefixed (k : str) : bool :=
  negb (str_eqb k s_sp) && negb (str_eqb k s_doc) &&
  negb (contains_char dot k && (str_eqb (head_before dot k) s_sp || str_eqb (head_before dot k) s_doc)).

Theorem prefix_default_sp : forall k, unprefixed k = true ->
  prefix_key k = s_sp ++ dot :: k /\ prefix_key (s_sp ++ dot :: k) = s_sp ++ dot :: k.
Proof.
  intros k H. unfold unprefixed in H. apply andb_true_iff in H. destruct H as [H H3].
  apply andb_true_iff in H. destruct H as [H1 H2]. apply negb_true_iff in H1, H2, H3.
  split.
  - unfold prefix_key. rewrite H3. rewrite H1, H2. reflexivity.
  - reflexivity.
Qed.

Theorem prefix_key_idempotent : forall k, prefix_key (prefix_key k) = prefix_key k.
Proof.
  intro k.
  assert (H : prefix_key k = k \/ prefix_key k = s_sp ++ dot :: k).
  { unfold prefix_key.
    destruct (contains_char dot k && (str_eqb (head_before dot k) s_sp || str_eqb (head_before dot k) s_doc)); auto.
    destruct (str_eqb k s_sp || str_eqb k s_doc); auto. }
  destruct H as [H|H]; rewrite H; [exact H|reflexivity].
Qed.

(* ---------- command-line tokens: printing then casting is the identity ---------- *)
Lemma uint_of_chars_chars : forall u, uint_of_chars (uint_chars u) = Some u.
Proof. induction u; simpl; try rewrite IHu; reflexivity. Qed.

Lemma dec_N_nonempty : forall n, dec_N n <> [].
Proof.
  intros n H. unfold dec_N in H. destruct n as [|p]; [discriminate|].
  simpl in H. pose proof (Unsigned.to_uint_nonnil p) as Hn.
  destruct (Pos.to_uint p); simpl in H; try discriminate. contradiction.
Qed.

Lemma parse_nat_dec : forall n, parse_nat_lexeme (dec_N n) = Some n.
Proof.
  intro n. unfold parse_nat_lexeme. pose proof (dec_N_nonempty n) as Hne.
  destruct (dec_N n) eqn:E; [contradiction|]. rewrite <- E. unfold dec_N.
  rewrite uint_of_chars_chars. rewrite DecimalN.Unsigned.of_to. reflexivity.
Qed.

Lemma dec_N_first_digit : forall n, exists c r, dec_N n = c :: r /\ (48 <= c <= 57)%N.
Proof.
  intro n. pose proof (dec_N_nonempty n) as Hne. pose proof (uint_chars_digits (N.to_uint n)) as Hd.
  unfold dec_N in *. destruct (uint_chars (N.to_uint n)) as [|c r]; [contradiction|].
  inversion Hd; subst. eauto.
Qed.

Lemma parse_int_default : forall c r, c <> 45%N -> c <> 43%N ->
  parse_int (c :: r) = match parse_nat_lexeme (c :: r) with Some n => Some (Z.of_N n) | None => None end.
Proof.
  intros c r H45 H43. unfold parse_int. destruct c as [|p]; [reflexivity|].
  do 7 (destruct p as [p|p|]; try reflexivity;
        try (exfalso; apply H45; reflexivity); try (exfalso; apply H43; reflexivity)).
Qed.

Lemma parse_int_dec : forall z, parse_int (dec_Z z) = Some z.
Proof.
  intros [|p|p]; simpl.
  - reflexivity.
  - destruct (dec_N_first_digit (Npos p)) as [c [r [E Hc]]].
    rewrite E. rewrite parse_int_default by lia. rewrite <- E. rewrite parse_nat_dec. reflexivity.
  - unfold parse_int. rewrite parse_nat_dec. reflexivity.
Qed.

Section Cast.
  Variable float_of : str -> option fl.

  Theorem cast_int_roundtrip : forall z, cast float_of (dec_Z z) = JInt z.
  Proof.
    intro z. unfold cast.
    assert (Hne : forall t, (exists c r, t = c :: r /\ (97 <= c)%N) -> str_eqb (dec_Z z) t = false).
    { intros t [c [r [-> Hc]]]. apply str_eqb_neq. intro H.
      destruct z as [|p|p]; simpl in H.
      - inversion H. subst. lia.
      - destruct (dec_N_first_digit (Npos p)) as [c' [r' [E Hc']]]. rewrite E in H. inversion H. subst. lia.
      - inversion H. subst. lia. }
    rewrite (Hne t_true), (Hne t_false), (Hne t_nullw); try (eexists; eexists; split; [reflexivity|lia]).
    rewrite parse_int_dec. reflexivity.
  Qed.

  Theorem cast_consts : cast float_of t_true = JBool true /\ cast float_of t_false = JBool false /\
                        cast float_of t_nullw = JNull.
  Proof. repeat split; reflexivity. Qed.

  (* a string survives the round trip iff it does not lex as a constant, an int or a float *)
  Theorem cast_str_roundtrip : forall s,
    str_eqb s t_true = false -> str_eqb s t_false = false -> str_eqb s t_nullw = false ->
    parse_int s = None -> float_of s = None -> cast float_of s = JStr s.
  Proof. intros s H1 H2 H3 H4 H5. unfold cast. rewrite H1, H2, H3, H4, H5. reflexivity. Qed.

  (* floats: given that float() inverts repr() and a float lexeme is no int lexeme *)
  Theorem cast_float_roundtrip : forall (frepr : fl -> str) f,
    float_of (frepr f) = Some f -> parse_int (frepr f) = None ->
    str_eqb (frepr f) t_true = false -> str_eqb (frepr f) t_false = false -> str_eqb (frepr f) t_nullw = false ->
    cast float_of (frepr f) = JFloat f.
  Proof. intros frepr f H1 H2 H3 H4 H5. unfold cast. rewrite H3, H4, H5, H2, H1. reflexivity. Qed.
End Cast.

(* ---------- cursor ---------- *)
Theorem cursor_consistent : forall ids,
  cursor_len ids = length ids /\
  (forall i, i < length ids -> exists j, cursor_getitem ids i = Some j /\ In j ids) /\
  (forall j, cursor_contains ids j = true <-> In j ids).
Proof.
  intro ids. split; [reflexivity|]. split.
  - intros i Hi. unfold cursor_getitem. destruct (nth_error ids i) as [j|] eqn:E.
    + exists j. split; auto. eapply nth_error_In; eauto.
    + apply nth_error_None in E. lia.
  - intro j. unfold cursor_contains. apply mem_In.
Qed.

(* ---------- groupby: sorting and adjacent grouping keep exactly the selected jobs ---------- *)
Lemma insert_sorted_perm : forall x l, Permutation (x :: l) (insert_sorted x l).
Proof.
  induction l as [|y l IH]; simpl; auto.
  destruct (py_order (fst x) (fst y)) as [[| |]|]; auto;
    (eapply perm_trans; [apply perm_swap|]; constructor; exact IH).
Qed.

Lemma sort_labeled_perm_gen : forall l acc,
  Permutation (acc ++ l) (fold_left (fun acc x => insert_sorted x acc) l acc).
Proof.
  induction l as [|x l IH]; intro acc; simpl.
  - rewrite List.app_nil_r. apply Permutation_refl.
  - eapply perm_trans; [|apply IH].
    eapply perm_trans; [apply Permutation_sym, Permutation_middle|].
    change (x :: acc ++ l) with ((x :: acc) ++ l).
    apply Permutation_app_tail. apply insert_sorted_perm.
Qed.

Lemma sort_labeled_perm : forall l, Permutation l (sort_labeled l).
Proof. intro l. apply (sort_labeled_perm_gen l []). Qed.

Lemma group_adjacent_members : forall l cur,
  flat_map snd (group_adjacent l cur) =
  match cur with Some g => snd g | None => [] end ++ map snd l.
Proof.
  induction l as [|[lab i] l IH]; intro cur; simpl.
  - destruct cur as [[cl ids]|]; simpl; rewrite ?List.app_nil_r; reflexivity.
  - destruct cur as [[cl ids]|].
    + destruct (py_eq cl lab).
      * rewrite IH. simpl. rewrite <- List.app_assoc. reflexivity.
      * simpl. rewrite IH. reflexivity.
    + rewrite IH. reflexivity.
Qed.

(* the groups contain exactly the labelled jobs, each exactly as often as it was selected *)
Theorem groupby_members_exact : forall ls,
  Permutation (map snd ls) (flat_map snd (group_adjacent (sort_labeled ls) None)).
Proof.
  intro ls. rewrite group_adjacent_members. simpl.
  apply Permutation_map. apply sort_labeled_perm.
Qed.

(* every member's own label is the group's label or equals it under Python == *)
Definition agrees (g : json) (lab : json) : Prop := lab = g \/ py_eq g lab = true.

Lemma group_adjacent_labels : forall l cur g i,
  In g (group_adjacent l cur) -> In i (snd g) ->
  (exists lab, In (lab, i) l /\ agrees (fst g) lab) \/
  (exists g0, cur = Some g0 /\ fst g0 = fst g /\ In i (snd g0)).
Proof.
  induction l as [|[lab i0] l IH]; intros cur g i Hg Hi; simpl in Hg.
  - destruct cur as [g0|]; [|inversion Hg]. destruct Hg as [<-|[]]. right. exists g0. auto.
  - destruct cur as [[cl ids]|].
    + destruct (py_eq cl lab) eqn:E.
      * destruct (IH _ _ _ Hg Hi) as [[lab' [Hin Hp]]|[g0 [Hg0 [Hf Hin]]]].
        -- left. exists lab'. split; [right; exact Hin|exact Hp].
        -- inversion Hg0; subst. simpl in *. apply in_app_or in Hin. destruct Hin as [Hin|[<-|[]]].
           ++ right. exists (cl, ids). auto.
           ++ left. exists lab. split; [left; reflexivity|]. right. rewrite <- Hf. exact E.
      * destruct Hg as [<-|Hg].
        -- right. exists (cl, ids). auto.
        -- destruct (IH _ _ _ Hg Hi) as [[lab' [Hin Hp]]|[g0 [Hg0 [Hf Hin]]]].
           ++ left. exists lab'. split; [right; exact Hin|exact Hp].
           ++ inversion Hg0; subst. simpl in *. destruct Hin as [<-|[]].
              left. exists lab. split; [left; reflexivity|]. left. exact Hf.
    + destruct (IH _ _ _ Hg Hi) as [[lab' [Hin Hp]]|[g0 [Hg0 [Hf Hin]]]].
      * left. exists lab'. split; [right; exact Hin|exact Hp].
      * inversion Hg0; subst. simpl in *. destruct Hin as [<-|[]].
        left. exists lab. split; [left; reflexivity|]. left. exact Hf.
Qed.

Theorem groupby_label_is_members_value : forall ls g i,
  In g (group_adjacent (sort_labeled ls) None) -> In i (snd g) ->
  exists lab, In (lab, i) ls /\ agrees (fst g) lab.
Proof.
  intros ls g i Hg Hi.
  destruct (group_adjacent_labels _ _ _ _ Hg Hi) as [[lab [Hin Hp]]|[g0 [Hc _]]]; [|discriminate].
  exists lab. split; auto.
  eapply Permutation_in; [apply Permutation_sym, sort_labeled_perm|exact Hin].
Qed.
