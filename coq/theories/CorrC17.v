(* CorrC17.v — observational form of C17 used by the correspondence check. *)
From SV Require Import Base Json View.
Require SV.Export.

(* The job -> path map.  The selected jobs' state points, the path specification and the tables of the
   library functions str()/format()/repr() are the input; the paths are computed IN COQ with the model of
   signac.import_export._make_path_function that the export property owns (SV.Export.path_function, exclusion of
   the keys named in the spec by exact membership).  Only where that model is out of its domain (a brace in a
   value or literal, a mapping as index key) the value reported by the real function is used ([k_call] as
   emitted); the harness counts these cases. *)
Record case_C17 := {
  k_xjobs : list SV.Export.job;     (* selected jobs in iteration order: (abbreviated) id and state point *)
  k_xoracle : SV.Export.oracle;     (* repr(float), str(tuple), format(list, '') tables                  *)
  k_spec : option SV.Export.pathspec;  (* None: the argument is not None / False / a string -> ValueError *)
  k_pre : node;                     (* the world before the call                                   *)
  k_call : call;                    (* prefix, cwd, selected jobs, path-function oracle             *)
  k_hint : list path;               (* order of the attempted unlink/rmdir/symlink calls (tie-break) *)
  k_res : result links;             (* returned dict in insertion order, or the exception class     *)
  k_post : node;                    (* the world after the call                                     *)
  k_hint2 : list path;              (* the same call once more                                      *)
  k_res2 : option exn;
  k_ops2 : N;                       (* successful mkdir/symlink/unlink/rmdir calls of the re-run    *)
  k_post2 : node;
  k_sprefix : path;                 (* from-scratch build: the same call with a fresh sibling prefix *)
  k_hint3 : list path;
  k_res3 : option exn;
  k_post3 : node
}.

Definition has_job_key (sp : json) : bool :=
  match sp with JObj kvs => existsb (fun kv => str_eqb (fst kv) s_job) kvs | _ => false end.
Definition is_skey (s : SV.Export.seg) : bool := match s with SV.Export.SKey _ => true | _ => false end.

(* None = outside the domain of the path-function model *)
Definition derive_pf (k : case_C17) : option (option exn * list (result str)) :=
  match k_spec k with
  | None => Some (Some EValueError, [])
  | Some p =>
      (* path.format(job=job, **statepoint) with a state point key 'job': TypeError, retried without the
         state point, so every plain {key} field raises KeyError -> _SchemaPathEvaluationError *)
      if match p with SV.Export.PFmt segs => existsb is_skey segs | _ => false end
         && existsb (fun j => has_job_key (SV.Export.j_sp j)) (k_xjobs k)
      then Some (Some ERuntimeError, [])
      else match SV.Export.path_function (k_xoracle k) (k_xjobs k) p with
           | SV.Export.ROk ds => Some (None, map (fun d => Ok d) ds)
           | SV.Export.RExn e => Some (Some e, [])
           | SV.Export.ROod => None
           end
  end.

(* The items the separator clause speaks about, computed from the state point: every dotted key and the
   SPELLING of every leaf value — a string as it is, any other value through str() (ints, None, booleans
   directly; floats and lists through the repr / str(tuple) tables).  "Inputs it cannot represent" = an
   item whose spelling contains the separator; this follows the property text (and, since f6f949e, the
   implementation), it is no longer the scope of the implementation's guard handed over by the harness. *)
Definition spelled (o : SV.Export.oracle) (v : json) : str :=
  match SV.Export.py_text o true v with SV.Export.ROk s => s | _ => [] end.
Definition sp_items (o : SV.Export.oracle) (sp : json) : list str :=
  flat_map (fun ks => SV.Export.key_str ks ::
                      match SV.Export.get_path sp ks with Some v => [spelled o v] | None => [] end)
           (filter (fun ks => negb (is_nil ks)) (SV.Export.dkeys sp [])).

Fixpoint set_items (o : SV.Export.oracle) (js : list job) (xs : list SV.Export.job) : list job :=
  match js with
  | [] => []
  | j :: js' =>
      {| j_dir := j_dir j;
         j_items := match xs with x :: _ => sp_items o (SV.Export.j_sp x) | [] => j_items j end;
         j_pf := j_pf j |}
      :: set_items o js' (match xs with _ :: t => t | [] => [] end)
  end.

Fixpoint set_pfs (js : list job) (pfs : list (result str)) : list job :=
  match js with
  | [] => []
  | j :: js' =>
      {| j_dir := j_dir j; j_items := j_items j;
         j_pf := match pfs with r :: _ => r | [] => Err EOther end |}
      :: set_pfs js' (match pfs with _ :: t => t | [] => [] end)
  end.

(* "The selected jobs" are the SET of jobs the job_ids iterable names: an id that occurs twice selects its job once
   (first occurrences, in order).  Since the repair "a job id named twice in job_ids selects its job once" this is what
   create_linked_view does with the list (dict.fromkeys), so model and oracle both work on [selected_set]. *)
Fixpoint dedup_jobs (seen : list path) (js : list job) (xs : list SV.Export.job) : list job * list SV.Export.job :=
  match js, xs with
  | j :: js', x :: xs' =>
      if path_mem (j_dir j) seen then dedup_jobs seen js' xs'
      else let '(a, b) := dedup_jobs (j_dir j :: seen) js' xs' in (j :: a, x :: b)
  | _, _ => (js, xs)
  end.

Definition selected_set (k : case_C17) : case_C17 :=
  let c := k_call k in
  let d := dedup_jobs [] (c_jobs c) (k_xjobs k) in
  {| k_xjobs := snd d; k_xoracle := k_xoracle k; k_spec := k_spec k; k_pre := k_pre k;
     k_call := {| c_cwd := c_cwd c; c_prefix := c_prefix c; c_jobs := fst d; c_pfmake := c_pfmake c; c_all := c_all c |};
     k_hint := k_hint k; k_res := k_res k; k_post := k_post k; k_hint2 := k_hint2 k; k_res2 := k_res2 k;
     k_ops2 := k_ops2 k; k_post2 := k_post2 k; k_sprefix := k_sprefix k; k_hint3 := k_hint3 k; k_res3 := k_res3 k;
     k_post3 := k_post3 k |}.

Definition fill_raw (k : case_C17) : call :=
  let c := k_call k in
  let js := set_items (k_xoracle k) (c_jobs c) (k_xjobs k) in
  match derive_pf k with
  | None => {| c_cwd := c_cwd c; c_prefix := c_prefix c; c_jobs := js; c_pfmake := c_pfmake c; c_all := c_all c |}
  | Some (pm, pfs) =>
      {| c_cwd := c_cwd c; c_prefix := c_prefix c; c_jobs := set_pfs js pfs;
         c_pfmake := pm; c_all := c_all c |}
  end.

Definition fill_call (k : case_C17) : call := fill_raw (selected_set k).

Definition res_exn {A} (r : result A) : option exn := match r with Ok _ => None | Err e => Some e end.
Definition oexn_eqb (a b : option exn) : bool :=
  match a, b with None, None => true | Some x, Some y => exn_eqb x y | _, _ => false end.
Definition links_eqb (a b : links) : bool :=
  list_eqb (fun x y => str_eqb (fst x) (fst y) && path_eqb (snd x) (snd y)) a b.
Definition res_eqb (a b : result links) : bool :=
  match a, b with
  | Ok x, Ok y => links_eqb x y
  | Err x, Err y => exn_eqb x y
  | _, _ => false
  end.

Definition with_prefix (c : call) (p : path) : call :=
  {| c_cwd := c_cwd c; c_prefix := p; c_jobs := c_jobs c; c_pfmake := c_pfmake c; c_all := c_all c |}.

(* ---------------------------------------------------------------- model vs implementation *)
Definition mismatch_C17 (k : case_C17) : bool :=
  let '(r1, (w1, _)) := create_linked_view (k_hint k) (k_pre k, 0%N) (fill_call k) in
  let '(r2, (w2, n2)) := create_linked_view (k_hint2 k) (k_post k, 0%N) (fill_call k) in
  let '(r3, (w3, _)) := create_linked_view (k_hint3 k) (k_post2 k, 0%N) (with_prefix (fill_call k) (k_sprefix k)) in
  negb (res_eqb r1 (k_res k) && node_eqb w1 (k_post k)
        && oexn_eqb (res_exn r2) (k_res2 k) && node_eqb w2 (k_post2 k)
        && Bool.eqb (N.eqb n2 0) (N.eqb (k_ops2 k) 0)
        && oexn_eqb (res_exn r3) (k_res3 k) && node_eqb w3 (k_post3 k)).

(* ---------------------------------------------------------------- the oracle *)
Definition vprefix (c : call) (p : path) : path := lexnorm (absolutize (c_cwd c) p).

(* the physical location of an absolute component list in the tree [w] (os.path.realpath, non strict).  The
   clauses of the property speak about directories, not about spellings of their names: "the view directory" is
   the directory the prefix denotes (a component of the prefix may be a symbolic link), "that job's directory" is
   the directory job.path denotes (the project may have been opened through a symbolic link). *)
Definition phys (w : node) (p : path) : path := realpath w [] (([] : str) :: p).

(* a previous view: directories and links only *)
Fixpoint is_view_tree (n : node) : bool :=
  match n with
  | Dir es =>
      (fix go (es : list (str * node)) : bool :=
         match es with
         | [] => true
         | (_, x) :: es' => match x with File _ => false | Lnk _ => true | Dir _ => is_view_tree x end && go es'
         end) es
  | _ => false
  end.

Definition pre_ok (w : node) (vp : path) : bool :=
  match get w vp with None => true | Some n => is_view_tree n end.

(* below the root of a view: only links and non-empty directories *)
Fixpoint no_empty_dirs (n : node) : bool :=
  match n with
  | Dir es =>
      negb (is_nil es) &&
      (fix go (es : list (str * node)) : bool :=
         match es with
         | [] => true
         | (_, x) :: es' => match x with File _ => false | Lnk _ => true | Dir _ => no_empty_dirs x end && go es'
         end) es
  | _ => false
  end.

Definition view_shape (v : option node) : bool :=
  match v with
  | None | Some (Dir []) => true
  | Some n => no_empty_dirs n
  end.

Fixpoint links_in (n : node) (rel : path) : list path :=
  match n with
  | Lnk _ => [rel]
  | File _ => []
  | Dir es =>
      (fix go (es : list (str * node)) : list path :=
         match es with
         | [] => []
         | (c, x) :: es' => links_in x (rel ++ [c]) ++ go es'
         end) es
  end.

(* normal form of a relative path; None when it climbs out of its base *)
Fixpoint relnorm_aux (acc cs : path) : option path :=
  match cs with
  | [] => Some (rev acc)
  | c :: cs' =>
      if skipc c then relnorm_aux acc cs'
      else if updir c then match acc with [] => None | _ :: acc' => relnorm_aux acc' cs' end
      else relnorm_aux (c :: acc) cs'
  end.
Definition relnorm (cs : path) : option path := if is_abs cs then None else relnorm_aux [] cs.

(* where each selected job must appear: (relative link path, job directory) *)
Fixpoint intended (js : list job) : option (list (path * path)) :=
  match js with
  | [] => Some []
  | j :: js' =>
      match j_pf j, intended js' with
      | Ok p, Some r => match relnorm (split_sep (join_leaf p)) with
                        | Some q => Some ((q, j_dir j) :: r)
                        | None => None
                        end
      | _, _ => None
      end
  end.

Fixpoint pnodupb (l : list path) : bool :=
  match l with [] => true | p :: l' => negb (path_mem p l') && pnodupb l' end.

Fixpoint is_prefix (a b : path) : bool :=
  match a, b with
  | [], _ => true
  | x :: a', y :: b' => str_eqb x y && is_prefix a' b'
  | _, _ => false
  end.
Definition proper_prefix (a b : path) : bool := is_prefix a b && negb (path_eqb a b).

Definition prefix_free (l : list path) : bool :=
  forallb (fun a => forallb (fun b => negb (proper_prefix a b)) l) l.

Definition representable (c : call) : bool :=
  negb (existsb (fun j => existsb has_sep (j_items j)) (c_jobs c))
  && match c_pfmake c with None => true | Some _ => false end
  && match intended (c_jobs c) with
     | Some i => pnodupb (map fst i) && prefix_free (map fst i)
     | None => false
     end.

Definition onode_eqb (a b : option node) : bool :=
  let nz x := match x with None => Dir [] | Some n => n end in node_eqb (nz a) (nz b).

Definition exact_view (w : node) (vp : path) (c : call) : bool :=
  match intended (c_jobs c) with
  | None => false
  | Some i =>
      let v := get w vp in
      let ls := match v with Some n => links_in n [] | None => [] end in
      view_shape v
      && Nat.eqb (length ls) (length i)
      && pnodupb (map fst i)
      && forallb (fun e => path_mem (fst e) ls
                           && path_eqb (realpath w [] (([] : str) :: vp ++ fst e)) (phys w (snd e))
                           && match get w (phys w (snd e)) with Some (Dir _) => true | _ => false end) i
  end.

(* the oracle proper, on the components of an observation *)
Definition holds_core (pre : node) (c : call) (sprefix : path) (accepted : bool) (post : node)
           (res2 : option exn) (ops2_zero : bool) (post2 : node) (res3 : option exn) (post3 : node) : bool :=
  let vp := phys pre (vprefix c (c_prefix c)) in
  let sp := phys pre (vprefix c sprefix) in
  if negb (pre_ok pre vp) then true else
  if accepted then
      negb (existsb (fun j => existsb has_sep (j_items j)) (c_jobs c))     (* separators must be rejected *)
      && exact_view post vp c
      && node_eqb (upd pre vp None) (upd post vp None)                     (* nothing else touched   *)
      && oexn_eqb res2 None && ops2_zero && node_eqb post2 post            (* running twice: a no-op *)
      && oexn_eqb res3 None                                                (* = from scratch         *)
      && onode_eqb (get post3 sp) (get post vp)
      && node_eqb (upd post3 sp None) (upd post2 sp None)
  else
      (* rejected: nothing may have changed, and the input must really be unrepresentable *)
      node_eqb pre post && negb (representable c)
      && match res3 with Some _ => true | None => false end.

Definition is_ok {A} (r : result A) : bool := match r with Ok _ => true | Err _ => false end.

Definition holds_C17 (k : case_C17) : bool :=
  holds_core (k_pre k) (fill_call k) (k_sprefix k) (is_ok (k_res k)) (k_post k)
             (k_res2 k) (N.eqb (k_ops2 k) 0) (k_post2 k) (k_res3 k) (k_post3 k).

Definition violation_C17 (k : case_C17) : bool := negb (holds_C17 k).

(* ---------------------------------------------------------------- known-finding classifiers (over the input) *)
Definition nonfinal_has_job (k : path) : bool := existsb (str_eqb s_job) (removelast k).

Fixpoint has_job_dir (n : node) : bool :=
  match n with
  | Dir es =>
      (fix go (es : list (str * node)) : bool :=
         match es with
         | [] => false
         | (c, x) :: es' =>
             match x with Dir _ => str_eqb c s_job || has_job_dir x | _ => false end || go es'
         end) es
  | _ => false
  end.

(* open finding only: 5 = the leaf name used as a token *)
Definition classify_C17 (k : case_C17) : N :=
  let c := fill_call k in
  let vp := phys (k_pre k) (vprefix c (c_prefix c)) in
  match make_links c with
  | Err _ => 0
  | Ok lk =>
      let ks := keys_of lk in
      if existsb nonfinal_has_job ks
              || match get (k_pre k) vp with Some n => has_job_dir n | None => false end then 5
      else 0
  end.

Definition mismatches_C17 (cs : list case_C17) : list N := indices_where mismatch_C17 cs.
Definition violations_C17 (cs : list case_C17) : list N := indices_where violation_C17 cs.

Fixpoint known_aux (cs : list case_C17) (i : N) : list N :=
  match cs with
  | [] => []
  | k :: cs' => match classify_C17 k with
                | 0%N => known_aux cs' (N.succ i)
                | t => (i * 100 + t)%N :: known_aux cs' (N.succ i)
                end
  end.
Definition known_C17 (cs : list case_C17) : list N := known_aux cs 0%N.
