(* C18Proofs.v — schema detection reports exactly the keys and (under NoSlotMerge) values present. *)
From SV Require Import Base Json PyVal Query QueryProofs C06Proofs Schema.

(* ---------- flattening with a prefix ---------- *)
Definition add_pfx (p : str) (kv : str * json) : str * json := (p ++ dot :: fst kv, snd kv).

Lemma flatten_prefix : forall fuel p k d,
  flatten fuel (Some (p ++ dot :: k)) d = map (add_pfx p) (flatten fuel (Some k) d).
Proof.
  induction fuel as [|fuel IH]; intros p k d; [reflexivity|].
  destruct d as [| | | | | |kvs]; try reflexivity.
  destruct kvs as [|kv kvs]; [reflexivity|].
  cbn [flatten]. rewrite !flat_map_concat_map, concat_map, map_map.
  f_equal. apply map_ext. intros [kk x]. cbn [fst snd].
  rewrite <- IH. f_equal. f_equal. rewrite <- app_assoc. reflexivity.
Qed.

Lemma flatten_root : forall fuel p d, (exists kv kvs, d = JObj (kv :: kvs)) ->
  flatten fuel (Some p) d = map (add_pfx p) (flatten fuel None d).
Proof.
  intros fuel p d [kv [kvs ->]]. destruct fuel as [|fuel]; [reflexivity|].
  cbn [flatten]. rewrite !flat_map_concat_map, concat_map, map_map.
  f_equal. apply map_ext. intros [kk x]. cbn [fst snd]. apply flatten_prefix.
Qed.

(* split_on on a key prefixed with the state point namespace *)
Lemma split_sp : forall k, split_on dot (s_sp ++ dot :: k) = s_sp :: split_on dot k.
Proof. intro k. reflexivity. Qed.

Lemma own_value_sp : forall sp k, own_value (sp_doc sp) (s_sp ++ dot :: k) = sp_value sp k.
Proof. intros. unfold own_value, sp_value. rewrite split_sp. reflexivity. Qed.

Lemma strip_sp : forall k, strip_prefix (s_sp ++ dot :: k) = k.
Proof. reflexivity. Qed.

(* ---------- entries of the reported schema ---------- *)
Lemma detect_schema_entry : forall excl jobs sk vals,
  In (sk, vals) (detect_schema excl jobs) ->
  exists k, In k (dotted_keys (sp_corpus jobs)) /\ str_prefix (s_sp ++ [dot]) k = true /\
            sk = strip_prefix k /\
            vals = filter (fun v => negb (is_placeholder v)) (map fst (build_index (sp_corpus jobs) k)).
Proof.
  intros excl jobs sk vals H. unfold detect_schema in H. apply in_flat_map in H.
  destruct H as [k [Hk H]]. exists k. split; auto.
  destruct (str_prefix (s_sp ++ [dot]) k) eqn:Ep; [|inversion H].
  destruct (excl && _) in H; [inversion H|].
  destruct H as [H|[]]. inversion H; subst. auto.
Qed.

Lemma index_keys_are_values : forall c key v,
  SlotInj (map snd (kvals c key)) ->
  (In v (map fst (build_index c key)) <-> In v (map snd (kvals c key))).
Proof.
  intros c key v Hs. destruct (build_index_inv c key Hs) as [I1 [I2 I3]]. split; intro H.
  - apply in_map_iff in H. destruct H as [[k ids] [Hk Hin]]. simpl in Hk. subst k. eapply I3; eauto.
  - apply in_map_iff in H. destruct H as [[i w] [Hw Hin]]. simpl in Hw. subst w.
    destruct (I2 _ _ Hin) as [ids [Ha _]]. apply in_map_iff. exists (v, ids). auto.
Qed.

Lemma kvals_sp_corpus : forall jobs k v,
  In v (map snd (kvals (sp_corpus jobs) (s_sp ++ dot :: k))) <->
  exists i sp x, In (i, sp) jobs /\ sp_value sp k = Some x /\ v = as_key x.
Proof.
  intros jobs k v. split.
  - intro H. apply in_map_iff in H. destruct H as [[i w] [Hw Hin]]. simpl in Hw. subst w.
    unfold kvals in Hin. apply in_flat_map in Hin. destruct Hin as [[i' d] [Hd Hx]].
    unfold sp_corpus in Hd. apply in_map_iff in Hd. destruct Hd as [[i'' sp] [Heq Hj]].
    inversion Heq; subst. cbn [fst snd] in Hx.
    change (lookup_path (sp_doc sp) (split_on dot (s_sp ++ dot :: k))) with (own_value (sp_doc sp) (s_sp ++ dot :: k)) in Hx.
    rewrite own_value_sp in Hx. destruct (sp_value sp k) as [x|] eqn:Ex; simpl in Hx; [|tauto].
    destruct Hx as [Hx|[]]. inversion Hx; subst. exists i, sp, x. auto.
  - intros [i [sp [x [Hj [Hx ->]]]]]. apply in_map_iff. exists (i, as_key x). split; auto.
    apply (own_kvals (sp_corpus jobs) (s_sp ++ dot :: k) i (sp_doc sp) x).
    + unfold sp_corpus. apply in_map_iff. exists (i, sp). auto.
    + rewrite own_value_sp. exact Hx.
Qed.

(* values reported under a key = the (non-mapping) values the selected jobs hold under it *)
Theorem schema_values_exact_partial : forall excl jobs k vals,
  (forall key, SlotInj (map snd (kvals (sp_corpus jobs) key))) ->
  In (k, vals) (detect_schema excl jobs) ->
  exists k', k = strip_prefix k' /\
    forall v, In v vals <->
      (is_obj v = false /\ In v (map snd (kvals (sp_corpus jobs) k'))).
Proof.
  intros excl jobs k vals Hs H.
  destruct (detect_schema_entry _ _ _ _ H) as [k' [Hk [Hp [-> ->]]]].
  exists k'. split; auto. intro v. rewrite filter_In, index_keys_are_values by auto.
  unfold is_placeholder. rewrite negb_true_iff. tauto.
Qed.

(* ---------- keys ---------- *)
Lemma dedupe_str_In : forall x l, In x (dedupe_str l) <-> In x l.
Proof.
  intros x l. induction l as [|y l IH]; simpl; [tauto|].
  rewrite filter_In, IH. split.
  - intros [H|[H _]]; auto.
  - intros [H|H]; auto. destruct (str_eq_dec y x) as [E|E]; [left; auto|].
    right. split; auto. apply negb_true_iff. apply str_eqb_neq. exact E.
Qed.

Lemma flatten_sp_doc : forall sp,
  flatten SFUEL None (sp_doc sp) = flatten (pred SFUEL) (Some s_sp) sp.
Proof. intro sp. cbn. rewrite app_nil_r. reflexivity. Qed.

Lemma sp_prefix_add : forall k, str_prefix (s_sp ++ [dot]) (s_sp ++ dot :: k) = true.
Proof. intro k. reflexivity. Qed.

Theorem schema_keys_exact : forall jobs,
  (forall i sp, In (i, sp) jobs -> exists kvs, sp = JObj kvs) ->
  forall sk, In sk (map fst (detect_schema false jobs)) <-> In sk (ref_keys jobs).
Proof.
  intros jobs Hobj sk. split.
  - intro H. apply in_map_iff in H. destruct H as [[sk' vals] [Hsk H]]. simpl in Hsk. subst sk'.
    destruct (detect_schema_entry _ _ _ _ H) as [k [Hk [Hp [-> _]]]].
    unfold dotted_keys in Hk. apply (proj1 (dedupe_str_In _ _)) in Hk. apply in_flat_map in Hk.
    destruct Hk as [[i d] [Hd Hk]]. unfold sp_corpus in Hd. apply in_map_iff in Hd.
    destruct Hd as [[i' sp] [Heq Hj]]. inversion Heq; subst. cbn [snd] in Hk.
    rewrite flatten_sp_doc in Hk. destruct (Hobj _ _ Hj) as [kvs ->].
    destruct kvs as [|kv kvs].
    + simpl in Hk. destruct Hk as [<-|[]]. discriminate.
    + rewrite flatten_root in Hk by eauto. rewrite map_map in Hk. apply in_map_iff in Hk.
      destruct Hk as [[k0 v0] [Hk0 Hin]]. cbn [add_pfx fst snd] in Hk0. subst k.
      rewrite strip_sp. unfold ref_keys. apply dedupe_str_In. apply in_flat_map.
      exists (i, JObj (kv :: kvs)). split; auto. cbn [snd]. unfold leaf_pairs.
      change k0 with (fst (k0, v0)). apply in_map. exact Hin.
  - intro H. unfold ref_keys in H. apply (proj1 (dedupe_str_In _ _)) in H. apply in_flat_map in H.
    destruct H as [[i sp] [Hj Hk]]. cbn [snd] in Hk. apply in_map_iff in Hk.
    destruct Hk as [[k0 v0] [Hk0 Hin]]. cbn [fst] in Hk0. subst k0.
    destruct (Hobj _ _ Hj) as [kvs ->]. destruct kvs as [|kv kvs]; [inversion Hin|].
    assert (Hdk : In (s_sp ++ dot :: sk) (dotted_keys (sp_corpus jobs))).
    { unfold dotted_keys. apply dedupe_str_In. apply in_flat_map.
      exists (i, sp_doc (JObj (kv :: kvs))). split.
      - unfold sp_corpus. apply in_map_iff. exists (i, JObj (kv :: kvs)). auto.
      - cbn [snd]. rewrite flatten_sp_doc, flatten_root by eauto. rewrite map_map.
        apply in_map_iff. exists (sk, v0). auto. }
    apply in_map_iff.
    exists (sk, filter (fun v => negb (is_placeholder v)) (map fst (build_index (sp_corpus jobs) (s_sp ++ dot :: sk)))).
    split; auto. unfold detect_schema. apply in_flat_map. exists (s_sp ++ dot :: sk). split; auto.
    rewrite sp_prefix_add. cbn [andb]. rewrite strip_sp. left. reflexivity.
Qed.

(* ---------- diffs ---------- *)
(* every own pair is either in the job's diff or shared (under Python ==) by all jobs; never both *)
Theorem diff_partition : forall jobs sp pr, In pr (leaf_pairs sp) ->
  (In pr (diff_pairs jobs sp) /\ shared_by_all jobs pr = false) \/
  (~ In pr (diff_pairs jobs sp) /\ shared_by_all jobs pr = true).
Proof.
  intros jobs sp pr Hin. unfold diff_pairs. destruct (shared_by_all jobs pr) eqn:E.
  - right. split; auto. intro H. apply filter_In in H. destruct H as [_ H]. rewrite E in H. discriminate.
  - left. split; auto. apply filter_In. split; auto. rewrite E. reflexivity.
Qed.

Theorem diff_only_own_pairs : forall jobs sp pr, In pr (diff_pairs jobs sp) -> In pr (leaf_pairs sp).
Proof. intros jobs sp pr H. unfold diff_pairs in H. apply filter_In in H. tauto. Qed.

(* a pair in a job's diff is missing (under Python ==) from at least one of the given jobs *)
Theorem diff_pair_not_shared : forall jobs sp pr, In pr (diff_pairs jobs sp) ->
  exists j, In j jobs /\ existsb (pair_eq pr) (leaf_pairs (snd j)) = false.
Proof.
  intros jobs sp pr H. unfold diff_pairs in H. apply filter_In in H. destruct H as [_ H].
  apply negb_true_iff in H. unfold shared_by_all in H.
  induction jobs as [|j jobs IH]; simpl in H; [discriminate|].
  apply andb_false_iff in H. destruct H as [H|H].
  - exists j. split; simpl; auto.
  - destruct (IH H) as [j' [Hj Hf]]. exists j'. split; simpl; auto.
Qed.

(* one job alone, or the same job repeated: empty diff *)
Lemma pair_eq_refl_in : forall l pr, In pr l -> wf (snd pr) = true -> existsb (pair_eq pr) l = true.
Proof.
  intros l pr Hin Hw. apply existsb_exists. exists pr. split; auto.
  unfold pair_eq. rewrite str_eqb_refl. simpl. apply PyValProofs.py_eq_refl. exact Hw.
Qed.

(* ---------- refutation witnesses for the value clause (same root cause as C06) ---------- *)
Definition key_a18 : str := [97%N].
Definition job18 (i : N) (v : json) : str * json := ([i], JObj [(key_a18, v)]).

Lemma schema_refuted_bool_int :
  let jobs := [job18 1 (JBool true); job18 2 (JInt 1)] in
  detect_schema false jobs = [(key_a18, [JBool true])] /\
  schema_exact false jobs (detect_schema false jobs) = false /\
  detect_schema true jobs = [].
Proof. vm_compute. repeat split; reflexivity. Qed.

Lemma schema_refuted_minus_one :
  let jobs := [job18 1 (JInt (-1)); job18 2 (JFloat ((-1)%Z, 0%Z))] in
  detect_schema false jobs = [(key_a18, [JInt (-1)])] /\
  schema_exact false jobs (detect_schema false jobs) = false.
Proof. vm_compute. repeat split; reflexivity. Qed.

Example schema_example_exact :
  let jobs := [job18 1 (JInt 1); job18 2 (JFloat (1%Z, 0%Z)); job18 3 (JStr [120%N])] in
  schema_exact false jobs (detect_schema false jobs) = true /\
  schema_exact true jobs (detect_schema true jobs) = true.
Proof. vm_compute. split; reflexivity. Qed.

(* ---------- exclude_const ---------- *)
Definition total_ids (idx : index) : nat := fold_right (fun e acc => length (snd e) + acc) 0 idx.

Lemma index_add_total : forall idx v i, total_ids (index_add idx v i) = Datatypes.S (total_ids idx).
Proof.
  induction idx as [|[k ids] idx IH]; intros v i; simpl; auto.
  destruct (slot_eq k v); simpl.
  - rewrite app_length. simpl. lia.
  - rewrite IH. lia.
Qed.

Lemma fold_add_total : forall L idx,
  total_ids (fold_left (fun idx iv => index_add idx (snd iv) (fst iv)) L idx) = length L + total_ids idx.
Proof.
  induction L as [|[i v] L IH]; intros idx; simpl; auto.
  rewrite IH, index_add_total. lia.
Qed.

Lemma fold_add_same_value : forall L v ids,
  slot_eq v v = true -> (forall p, In p L -> snd p = v) ->
  fold_left (fun idx iv => index_add idx (snd iv) (fst iv)) L [(v, ids)] = [(v, ids ++ map fst L)].
Proof.
  induction L as [|[i w] L IH]; intros v ids Hr Hall; simpl.
  - rewrite app_nil_r. reflexivity.
  - assert (w = v) by (apply (Hall (i, w)); simpl; auto). subst w. rewrite Hr.
    rewrite IH; auto.
    + rewrite <- app_assoc. reflexivity.
    + intros p Hp. apply Hall. simpl. auto.
Qed.

Definition is_const_index (idx : index) (n : nat) : bool :=
  match idx with
  | [(_, ids)] => Nat.eqb (length ids) n
  | _ => false
  end.

Theorem exclude_const_exact_partial : forall (c : corpus) key,
  SlotInj (map snd (kvals c key)) ->
  (forall v, In v (map snd (kvals c key)) -> slot_eq v v = true) ->
  (is_const_index (build_index c key) (length c) = true <->
   (kvals c key <> [] /\ length (kvals c key) = length c /\
    exists v, forall p, In p (kvals c key) -> snd p = v)).
Proof.
  intros c key Hs Hr.
  pose proof (fold_add_total (kvals c key) []) as Htot. rewrite <- build_index_kvals in Htot. simpl in Htot.
  destruct (build_index_inv c key Hs) as [I1 [I2 I3]].
  set (L := kvals c key) in *.
  split.
  - intro H. unfold is_const_index in H.
    destruct (build_index c key) as [|[v ids] [|e idx]] eqn:Ei; try discriminate.
    apply Nat.eqb_eq in H. simpl in Htot.
    assert (Hlen : length L = length c) by lia.
    split; [|split; [exact Hlen|]].
    + intro HL. rewrite HL in Hlen. simpl in Hlen.
      destruct ids; simpl in H; [|lia].
      (* n = 0 and ids = []: but an entry always comes from a value of L *)
      specialize (I3 v [] (or_introl eq_refl)). rewrite HL in I3. inversion I3.
    + exists v. intros [j w] Hp. destruct (I2 _ _ Hp) as [ids' [Ha _]].
      destruct Ha as [Ha|[]]. inversion Ha. reflexivity.
  - intros [Hne [Hlen [v Hall]]]. rewrite build_index_kvals. fold L.
    destruct L as [|[i w] L'] eqn:EL; [contradiction|].
    assert (w = v) by (apply (Hall (i, w)); simpl; auto). subst w.
    simpl. rewrite fold_add_same_value.
    + unfold is_const_index. cbn [app length]. rewrite map_length. simpl in Hlen. rewrite <- Hlen.
      apply Nat.eqb_refl.
    + apply Hr. simpl. auto.
    + intros p Hp. apply Hall. simpl. auto.
Qed.

Lemma kvals_length_le : forall c key, length (kvals c key) <= length c.
Proof.
  induction c as [|[i d] c IH]; intro key; simpl; auto.
  unfold kvals in *. simpl. rewrite app_length.
  destruct (lookup_path d (split_on dot key)); simpl; specialize (IH key); lia.
Qed.

Lemma kvals_full_all_have : forall c key, length (kvals c key) = length c ->
  forall i d, In (i, d) c -> own_value d key <> None.
Proof.
  induction c as [|[i0 d0] c IH]; intros key Hlen i d Hin; [inversion Hin|].
  unfold kvals in Hlen. simpl in Hlen. rewrite app_length in Hlen.
  fold (kvals c key) in Hlen. pose proof (kvals_length_le c key) as Hle.
  unfold own_value. destruct Hin as [Hin|Hin].
  - inversion Hin; subst. destruct (lookup_path d (split_on dot key)); simpl in Hlen; [discriminate|lia].
  - apply (IH key) with (i := i); auto. destruct (lookup_path d0 (split_on dot key)); simpl in Hlen; lia.
Qed.
