(* ViewTrie.v — the tree colouring of _analyze_view: which branches are reported dead. *)
From SV Require Import Base View CorrC17 C17Proofs.
From Coq Require Import Lia.

Fixpoint trie_ind' (Q : trie -> Prop)
  (H : forall v ch, (forall c t, In (c, t) ch -> Q t) -> Q (Tr v ch)) (t : trie) {struct t} : Q t :=
  match t with
  | Tr v ch =>
      H v ch
        ((fix go (ch : list (str * trie)) : forall c t, In (c, t) ch -> Q t :=
            match ch as ch0 return forall c t, In (c, t) ch0 -> Q t with
            | [] => fun c t F => False_ind (Q t) F
            | (c0, t0) :: ch' =>
                fun c t Hin =>
                  match (Hin : (c0, t0) = (c, t) \/ In (c, t) ch') return Q t with
                  | or_introl E => eq_ind t0 Q (trie_ind' Q H t0) t (f_equal snd E)
                  | or_intror I => go ch' c t I
                  end
            end) ch)
  end.

Inductive twf : trie -> Prop :=
| twf_intro : forall v ch, NoDup (map fst ch) -> (forall c t, In (c, t) ch -> twf t) -> twf (Tr v ch).

(* ------------------------------------------------------------------ aupd *)
Definition odefault {X} (d : X) (o : option X) : X := match o with Some x => x | None => d end.

Lemma alookup_aupd_same : forall X k (f : X -> X) d l,
  alookup k (aupd k f d l) = Some (f (odefault d (alookup k l))).
Proof.
  induction l as [|[k' v] l IH]; simpl.
  - rewrite str_eqb_refl. reflexivity.
  - destruct (str_eqb k k') eqn:E; simpl; rewrite E; auto.
Qed.

Lemma alookup_aupd_other : forall X k k' (f : X -> X) d l,
  k <> k' -> alookup k' (aupd k f d l) = alookup k' l.
Proof.
  induction l as [|[k0 v] l IH]; intro Hne; simpl.
  - assert (str_eqb k' k = false) as -> by (apply str_eqb_neq; congruence). reflexivity.
  - destruct (str_eqb k k0) eqn:E; simpl.
    + apply str_eqb_eq in E. subst k0.
      assert (str_eqb k' k = false) as -> by (apply str_eqb_neq; congruence). reflexivity.
    + destruct (str_eqb k' k0); auto.
Qed.

Lemma aupd_keys : forall X k (f : X -> X) d l,
  map fst (aupd k f d l) = if str_mem k (map fst l) then map fst l else map fst l ++ [k].
Proof.
  induction l as [|[k0 v] l IH]; simpl; [reflexivity|].
  destruct (str_eqb k k0) eqn:E; simpl; [reflexivity|].
  rewrite IH. destruct (str_mem k (map fst l)); reflexivity.
Qed.

Lemma aupd_NoDup : forall X k (f : X -> X) d l, NoDup (map fst l) -> NoDup (map fst (aupd k f d l)).
Proof.
  intros X k f d l H. rewrite aupd_keys. destruct (str_mem k (map fst l)) eqn:M; [exact H|].
  apply NoDup_rev in H. rewrite <- (rev_involutive (map fst l ++ [k])). apply NoDup_rev.
  rewrite rev_app_distr. simpl. constructor; [|exact H].
  intro Hin. apply in_rev in Hin. apply str_mem_In in Hin. congruence.
Qed.

Lemma aupd_In : forall X k (f : X -> X) d l c t,
  NoDup (map fst l) -> In (c, t) (aupd k f d l) ->
  (c <> k /\ In (c, t) l) \/ (c = k /\ t = f (odefault d (alookup k l))).
Proof.
  induction l as [|[k0 v] l IH]; intros c t Hnd Hin; simpl in *.
  - destruct Hin as [E|[]]. inversion E; subst. right. auto.
  - inversion Hnd as [|? ? Hn1 Hn2]; subst.
    destruct (str_eqb k k0) eqn:E.
    + apply str_eqb_eq in E. subst k0. simpl in Hin. destruct Hin as [E'|Hin].
      * inversion E'; subst. right. auto.
      * left. split; [|right; exact Hin]. intros ->. apply Hn1. apply (in_map fst) in Hin. exact Hin.
    + simpl in Hin. destruct Hin as [E'|Hin].
      * inversion E'; subst. left. split; [|left; reflexivity]. intros ->. rewrite str_eqb_refl in E. discriminate.
      * destruct (IH c t Hn2 Hin) as [[H1 H2]|[H1 H2]]; [left; auto|right; auto].
Qed.

(* ------------------------------------------------------------------ observations on tries *)
Fixpoint t_sub (t : trie) (p : path) : option trie :=
  match p with
  | [] => Some t
  | c :: p' => match t with Tr _ ch => match alookup c ch with Some t' => t_sub t' p' | None => None end end
  end.

Definition t_has (t : trie) (p : path) : bool := match t_sub t p with Some _ => true | None => false end.
Definition t_col (t : trie) (p : path) : bool := match t_sub t p with Some (Tr v _) => v | None => false end.

Lemma t_has_leaf : forall q, t_has t_leaf q = is_nil q.
Proof. destruct q; reflexivity. Qed.
Lemma t_col_leaf : forall q, t_col t_leaf q = false.
Proof. destruct q; reflexivity. Qed.

Lemma t_has_cons : forall v ch c q,
  t_has (Tr v ch) (c :: q) = match alookup c ch with Some t' => t_has t' q | None => false end.
Proof. intros. unfold t_has. simpl. destruct (alookup c ch); reflexivity. Qed.
Lemma t_col_cons : forall v ch c q,
  t_col (Tr v ch) (c :: q) = match alookup c ch with Some t' => t_col t' q | None => false end.
Proof. intros. unfold t_col. simpl. destruct (alookup c ch); reflexivity. Qed.

Lemma has_insert : forall p t q, t_has (t_insert p t) q = t_has t q || is_prefix q p.
Proof.
  induction p as [|c p IH]; intros t q.
  - simpl. destruct q; simpl; [reflexivity|]. rewrite Bool.orb_false_r. reflexivity.
  - destruct t as [v ch]. simpl t_insert. destruct q as [|c1 q]; [reflexivity|].
    rewrite !t_has_cons. simpl is_prefix.
    destruct (str_eqb c1 c) eqn:E.
    + apply str_eqb_eq in E. subst c1. rewrite alookup_aupd_same. rewrite IH. simpl.
      destruct (alookup c ch) as [t'|]; simpl; [reflexivity|].
      rewrite t_has_leaf. destruct q; simpl; reflexivity.
    + rewrite alookup_aupd_other by (intros ->; rewrite str_eqb_refl in E; discriminate).
      simpl. rewrite Bool.orb_false_r. reflexivity.
Qed.

Lemma col_insert : forall p t q, t_col (t_insert p t) q = t_col t q.
Proof.
  induction p as [|c p IH]; intros t q; [reflexivity|].
  destruct t as [v ch]. simpl t_insert. destruct q as [|c1 q]; [reflexivity|].
  rewrite !t_col_cons.
  destruct (str_eqb c1 c) eqn:E.
  - apply str_eqb_eq in E. subst c1. rewrite alookup_aupd_same. rewrite IH.
    destruct (alookup c ch) as [t'|]; simpl; [reflexivity|]. apply t_col_leaf.
  - rewrite alookup_aupd_other by (intros ->; rewrite str_eqb_refl in E; discriminate). reflexivity.
Qed.

Lemma color_path_eq : forall p v ch,
  color_path p (Tr v ch) = match p with [] => Tr true ch | c :: p' => Tr true (aupd c (color_path p') t_leaf ch) end.
Proof. destruct p; reflexivity. Qed.

Lemma has_color : forall p t q, t_has (color_path p t) q = t_has t q || is_prefix q p.
Proof.
  induction p as [|c p IH]; intros t q; destruct t as [v ch]; rewrite color_path_eq.
  - destruct q; simpl; [reflexivity|]. rewrite !t_has_cons. rewrite Bool.orb_false_r. reflexivity.
  - destruct q as [|c1 q]; [reflexivity|].
    rewrite !t_has_cons. simpl is_prefix.
    destruct (str_eqb c1 c) eqn:E.
    + apply str_eqb_eq in E. subst c1. rewrite alookup_aupd_same. rewrite IH. simpl.
      destruct (alookup c ch) as [t'|]; simpl; [reflexivity|].
      rewrite t_has_leaf. destruct q; simpl; reflexivity.
    + rewrite alookup_aupd_other by (intros ->; rewrite str_eqb_refl in E; discriminate).
      simpl. rewrite Bool.orb_false_r. reflexivity.
Qed.

Lemma col_color : forall p t q, t_col (color_path p t) q = t_col t q || is_prefix q p.
Proof.
  induction p as [|c p IH]; intros t q; destruct t as [v ch]; rewrite color_path_eq.
  - destruct q; simpl; [unfold t_col; simpl; rewrite Bool.orb_true_r; reflexivity|].
    rewrite !t_col_cons. rewrite Bool.orb_false_r. reflexivity.
  - destruct q as [|c1 q]; [unfold t_col; simpl; rewrite Bool.orb_true_r; reflexivity|].
    rewrite !t_col_cons. simpl is_prefix.
    destruct (str_eqb c1 c) eqn:E.
    + apply str_eqb_eq in E. subst c1. rewrite alookup_aupd_same. rewrite IH. simpl.
      destruct (alookup c ch) as [t'|]; simpl; [reflexivity|].
      rewrite t_col_leaf. reflexivity.
    + rewrite alookup_aupd_other by (intros ->; rewrite str_eqb_refl in E; discriminate).
      simpl. rewrite Bool.orb_false_r. reflexivity.
Qed.

(* well-formedness is preserved *)
Lemma twf_leaf : twf t_leaf.
Proof. constructor; [constructor|intros c t []]. Qed.

Lemma twf_insert : forall p t, twf t -> twf (t_insert p t).
Proof.
  induction p as [|c p IH]; intros t H; [exact H|].
  destruct t as [v ch]. inversion H as [? ? Hnd Hch]; subst. simpl. constructor.
  - apply aupd_NoDup. exact Hnd.
  - intros c' t' Hin. apply aupd_In in Hin; [|exact Hnd].
    destruct Hin as [[_ Hin]|[_ ->]]; [eapply Hch; eauto|].
    apply IH. destruct (alookup c ch) as [t0|] eqn:L; simpl; [|apply twf_leaf].
    apply alookup_In in L. eapply Hch; eauto.
Qed.

Lemma twf_color : forall p t, twf t -> twf (color_path p t).
Proof.
  induction p as [|c p IH]; intros t H; destruct t as [v ch]; inversion H as [? ? Hnd Hch]; subst;
    rewrite color_path_eq.
  - constructor; auto.
  - constructor.
    + apply aupd_NoDup. exact Hnd.
    + intros c' t' Hin. apply aupd_In in Hin; [|exact Hnd].
      destruct Hin as [[_ Hin]|[_ ->]]; [eapply Hch; eauto|].
      apply IH. destruct (alookup c ch) as [t0|] eqn:L; simpl; [|apply twf_leaf].
      apply alookup_In in L. eapply Hch; eauto.
Qed.
