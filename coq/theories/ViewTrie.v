(* ViewTrie.v — the tree colouring of _analyze_view: which branches are reported dead. *)
From SV Require Import Base View CorrC17 C17Proofs.
From Coq Require Import Lia.

Fixpoint trie_ind' (Q : trie -> Prop)
  (H : forall v ch, (forall c t, In (c, t) ch -> Q t) -> Q (Tr v ch)) (t : trie) {struct t} : Q t :=
  match t with
  | Tr v ch =>
      H v ch
        ((fix go (ch : list (str * trie)) : forall c t, In (c, t) ch -> Q t :=
            match ch as ch0 return forall c t, In (c, t) ch0 -> Q t with
            | [] => fun c t F => False_ind (Q t) F
            | p :: ch' =>
                fun c t Hin =>
                  match (Hin : p = (c, t) \/ In (c, t) ch') return Q t with
                  | or_introl E => eq_ind (snd p) Q (trie_ind' Q H (snd p)) t (f_equal snd E)
                  | or_intror Hi => go ch' c t Hi
                  end
            end) ch)
  end.

Inductive twf : trie -> Prop :=
| twf_intro : forall v ch, NoDup (map fst ch) -> (forall c t, In (c, t) ch -> twf t) -> twf (Tr v ch).

(* ------------------------------------------------------------------ aupd *)
Definition odefault {X} (d : X) (o : option X) : X := match o with Some x => x | None => d end.

Lemma alookup_aupd_same : forall X k (f : X -> X) d l,
  alookup k (aupd k f d l) = Some (f (odefault d (alookup k l))).
Proof.
  induction l as [|[k' v] l IH]; simpl.
  - rewrite str_eqb_refl. reflexivity.
  - destruct (str_eqb k k') eqn:E; simpl; rewrite E; auto.
Qed.

Lemma alookup_aupd_other : forall X k k' (f : X -> X) d l,
  k <> k' -> alookup k' (aupd k f d l) = alookup k' l.
Proof.
  induction l as [|[k0 v] l IH]; intro Hne; simpl.
  - assert (str_eqb k' k = false) as -> by (apply str_eqb_neq; congruence). reflexivity.
  - destruct (str_eqb k k0) eqn:E; simpl.
    + apply str_eqb_eq in E. subst k0.
      assert (str_eqb k' k = false) as -> by (apply str_eqb_neq; congruence). reflexivity.
    + destruct (str_eqb k' k0); auto.
Qed.

Lemma aupd_keys : forall X k (f : X -> X) d l,
  map fst (aupd k f d l) = if str_mem k (map fst l) then map fst l else map fst l ++ [k].
Proof.
  induction l as [|[k0 v] l IH]; simpl; [reflexivity|].
  destruct (str_eqb k k0) eqn:E; simpl; [reflexivity|].
  rewrite IH. destruct (str_mem k (map fst l)); reflexivity.
Qed.

Lemma aupd_NoDup : forall X k (f : X -> X) d l, NoDup (map fst l) -> NoDup (map fst (aupd k f d l)).
Proof.
  intros X k f d l H. rewrite aupd_keys. destruct (str_mem k (map fst l)) eqn:M; [exact H|].
  apply NoDup_rev in H. rewrite <- (rev_involutive (map fst l ++ [k])). apply NoDup_rev.
  rewrite rev_app_distr. simpl. constructor; [|exact H].
  intro Hin. apply in_rev in Hin. apply str_mem_In in Hin. congruence.
Qed.

Lemma aupd_In : forall X k (f : X -> X) d l c t,
  NoDup (map fst l) -> In (c, t) (aupd k f d l) ->
  (c <> k /\ In (c, t) l) \/ (c = k /\ t = f (odefault d (alookup k l))).
Proof.
  induction l as [|[k0 v] l IH]; intros c t Hnd Hin; simpl in *.
  - destruct Hin as [E|[]]. inversion E; subst. right. auto.
  - inversion Hnd as [|? ? Hn1 Hn2]; subst.
    destruct (str_eqb k k0) eqn:E.
    + apply str_eqb_eq in E. subst k0. simpl in Hin. destruct Hin as [E'|Hin].
      * inversion E'; subst. right. auto.
      * left. split; [|right; exact Hin]. intros ->. apply Hn1. apply (in_map fst) in Hin. exact Hin.
    + simpl in Hin. destruct Hin as [E'|Hin].
      * inversion E'; subst. left. split; [|left; reflexivity]. intros ->. rewrite str_eqb_refl in E. discriminate.
      * destruct (IH c t Hn2 Hin) as [[H1 H2]|[H1 H2]]; [left; auto|right; auto].
Qed.

(* ------------------------------------------------------------------ observations on tries *)
Fixpoint t_sub (t : trie) (p : path) : option trie :=
  match p with
  | [] => Some t
  | c :: p' => match t with Tr _ ch => match alookup c ch with Some t' => t_sub t' p' | None => None end end
  end.

Definition t_has (t : trie) (p : path) : bool := match t_sub t p with Some _ => true | None => false end.
Definition t_col (t : trie) (p : path) : bool := match t_sub t p with Some (Tr v _) => v | None => false end.

Lemma t_has_leaf : forall q, t_has t_leaf q = is_nil q.
Proof. destruct q; reflexivity. Qed.
Lemma t_col_leaf : forall q, t_col t_leaf q = false.
Proof. destruct q; reflexivity. Qed.

Lemma t_has_cons : forall v ch c q,
  t_has (Tr v ch) (c :: q) = match alookup c ch with Some t' => t_has t' q | None => false end.
Proof. intros. unfold t_has. simpl. destruct (alookup c ch); reflexivity. Qed.
Lemma t_col_cons : forall v ch c q,
  t_col (Tr v ch) (c :: q) = match alookup c ch with Some t' => t_col t' q | None => false end.
Proof. intros. unfold t_col. simpl. destruct (alookup c ch); reflexivity. Qed.

Lemma has_insert : forall p t q, t_has (t_insert p t) q = t_has t q || is_prefix q p.
Proof.
  induction p as [|c p IH]; intros t q.
  - simpl. destruct q; simpl; [reflexivity|]. rewrite Bool.orb_false_r. reflexivity.
  - destruct t as [v ch]. simpl t_insert. destruct q as [|c1 q]; [reflexivity|].
    rewrite !t_has_cons. simpl is_prefix.
    destruct (str_eqb c1 c) eqn:E.
    + apply str_eqb_eq in E. subst c1. rewrite alookup_aupd_same. rewrite IH. simpl.
      destruct (alookup c ch) as [t'|]; simpl; [reflexivity|].
      rewrite t_has_leaf. destruct q; simpl; reflexivity.
    + rewrite alookup_aupd_other by (intros ->; rewrite str_eqb_refl in E; discriminate).
      simpl. rewrite Bool.orb_false_r. reflexivity.
Qed.

Lemma col_insert : forall p t q, t_col (t_insert p t) q = t_col t q.
Proof.
  induction p as [|c p IH]; intros t q; [reflexivity|].
  destruct t as [v ch]. simpl t_insert. destruct q as [|c1 q]; [reflexivity|].
  rewrite !t_col_cons.
  destruct (str_eqb c1 c) eqn:E.
  - apply str_eqb_eq in E. subst c1. rewrite alookup_aupd_same. rewrite IH.
    destruct (alookup c ch) as [t'|]; simpl; [reflexivity|]. apply t_col_leaf.
  - rewrite alookup_aupd_other by (intros ->; rewrite str_eqb_refl in E; discriminate). reflexivity.
Qed.

Lemma color_path_eq : forall p v ch,
  color_path p (Tr v ch) = match p with [] => Tr true ch | c :: p' => Tr true (aupd c (color_path p') t_leaf ch) end.
Proof. destruct p; reflexivity. Qed.

Lemma has_color : forall p t q, t_has (color_path p t) q = t_has t q || is_prefix q p.
Proof.
  induction p as [|c p IH]; intros t q; destruct t as [v ch]; rewrite color_path_eq.
  - destruct q; simpl; [reflexivity|]. rewrite !t_has_cons. rewrite Bool.orb_false_r. reflexivity.
  - destruct q as [|c1 q]; [reflexivity|].
    rewrite !t_has_cons. simpl is_prefix.
    destruct (str_eqb c1 c) eqn:E.
    + apply str_eqb_eq in E. subst c1. rewrite alookup_aupd_same. rewrite IH. simpl.
      destruct (alookup c ch) as [t'|]; simpl; [reflexivity|].
      rewrite t_has_leaf. destruct q; simpl; reflexivity.
    + rewrite alookup_aupd_other by (intros ->; rewrite str_eqb_refl in E; discriminate).
      simpl. rewrite Bool.orb_false_r. reflexivity.
Qed.

Lemma col_color : forall p t q, t_col (color_path p t) q = t_col t q || is_prefix q p.
Proof.
  induction p as [|c p IH]; intros t q; destruct t as [v ch]; rewrite color_path_eq.
  - destruct q; simpl; [unfold t_col; simpl; rewrite Bool.orb_true_r; reflexivity|].
    rewrite !t_col_cons. rewrite Bool.orb_false_r. reflexivity.
  - destruct q as [|c1 q]; [unfold t_col; simpl; rewrite Bool.orb_true_r; reflexivity|].
    rewrite !t_col_cons. simpl is_prefix.
    destruct (str_eqb c1 c) eqn:E.
    + apply str_eqb_eq in E. subst c1. rewrite alookup_aupd_same. rewrite IH. simpl.
      destruct (alookup c ch) as [t'|]; simpl; [reflexivity|].
      rewrite t_col_leaf. reflexivity.
    + rewrite alookup_aupd_other by (intros ->; rewrite str_eqb_refl in E; discriminate).
      simpl. rewrite Bool.orb_false_r. reflexivity.
Qed.

(* well-formedness is preserved *)
Lemma twf_leaf : twf t_leaf.
Proof. constructor; [constructor|intros c t []]. Qed.

Lemma twf_insert : forall p t, twf t -> twf (t_insert p t).
Proof.
  induction p as [|c p IH]; intros t H; [exact H|].
  destruct t as [v ch]. inversion H as [? ? Hnd Hch]; subst. simpl. constructor.
  - apply aupd_NoDup. exact Hnd.
  - intros c' t' Hin. apply aupd_In in Hin; [|exact Hnd].
    destruct Hin as [[_ Hin]|[_ ->]]; [eapply Hch; eauto|].
    apply IH. destruct (alookup c ch) as [t0|] eqn:L; simpl; [|apply twf_leaf].
    apply alookup_In in L. eapply Hch; eauto.
Qed.

Lemma twf_color : forall p t, twf t -> twf (color_path p t).
Proof.
  induction p as [|c p IH]; intros t H; destruct t as [v ch]; inversion H as [? ? Hnd Hch]; subst;
    rewrite color_path_eq.
  - constructor; auto.
  - constructor.
    + apply aupd_NoDup. exact Hnd.
    + intros c' t' Hin. apply aupd_In in Hin; [|exact Hnd].
      destruct Hin as [[_ Hin]|[_ ->]]; [eapply Hch; eauto|].
      apply IH. destruct (alookup c ch) as [t0|] eqn:L; simpl; [|apply twf_leaf].
      apply alookup_In in L. eapply Hch; eauto.
Qed.

(* ------------------------------------------------------------------ dead branches *)
Definition fdb_children (ch : list (str * trie)) (br : path) : list path :=
  (fix go (ch : list (str * trie)) : list path :=
     match ch with
     | [] => []
     | (c, t') :: ch' => find_dead_branches t' (br ++ [c]) ++ go ch'
     end) ch.

Lemma fdb_eq : forall v ch br,
  find_dead_branches (Tr v ch) br = fdb_children ch br ++ (if v then [] else [br]).
Proof. reflexivity. Qed.

Lemma fdb_children_In : forall ch br b,
  In b (fdb_children ch br) <-> exists c t', In (c, t') ch /\ In b (find_dead_branches t' (br ++ [c])).
Proof.
  induction ch as [|[c0 t0] ch IH]; intros br b.
  - simpl. split; [tauto|]. intros [c [t' [[] _]]].
  - change (fdb_children ((c0, t0) :: ch) br) with (find_dead_branches t0 (br ++ [c0]) ++ fdb_children ch br).
    rewrite in_app_iff, IH. split.
    + intros [H|[c [t' [H1 H2]]]]; [exists c0, t0; split; [left; reflexivity|exact H]|exists c, t'; split; [right; exact H1|exact H2]].
    + intros [c [t' [[E|H1] H2]]]; [inversion E; subst; left; exact H2|right; eauto].
Qed.

Lemma dead_spec : forall t, twf t -> forall br b,
  In b (find_dead_branches t br) <-> exists q, b = br ++ q /\ t_has t q = true /\ t_col t q = false.
Proof.
  intro t. induction t as [v ch IH] using trie_ind'. intros Hwf br b.
  inversion Hwf as [? ? Hnd Hch]; subst.
  rewrite fdb_eq, in_app_iff, fdb_children_In. split.
  - intros [[c [t' [Hin Hb]]]|Hb].
    + apply (IH c t' Hin (Hch c t' Hin)) in Hb. destruct Hb as [q [E [H1 H2]]].
      exists (c :: q). rewrite <- app_assoc in E. split; [exact E|].
      rewrite t_has_cons, t_col_cons. rewrite (NoDup_alookup _ c t' ch Hnd Hin). auto.
    + destruct v; [destruct Hb|]. destruct Hb as [<-|[]]. exists []. rewrite app_nil_r. auto.
  - intros [q [E [H1 H2]]]. destruct q as [|c q].
    + right. rewrite app_nil_r in E. subst b. unfold t_col in H2. simpl in H2. subst v. left. reflexivity.
    + left. rewrite t_has_cons in H1. rewrite t_col_cons in H2.
      destruct (alookup c ch) as [t'|] eqn:L; [|discriminate].
      apply alookup_In in L. exists c, t'. split; [exact L|].
      apply (IH c t' L (Hch c t' L)). exists q. rewrite <- app_assoc. auto.
Qed.

Lemma NoDup_app_disj' : forall X (a b : list X),
  NoDup a -> NoDup b -> (forall x, In x a -> ~ In x b) -> NoDup (a ++ b).
Proof.
  induction a as [|x a IHa]; intros b0 Ha Hb Hd; simpl; [exact Hb|].
  inversion Ha; subst. constructor.
  - intro Hin. apply in_app_or in Hin. destruct Hin as [Hin|Hin]; [contradiction|].
    apply (Hd x); [left; reflexivity|exact Hin].
  - apply IHa; auto. intros y Hy. apply Hd. right. exact Hy.
Qed.

Lemma dead_NoDup : forall t, twf t -> forall br, NoDup (find_dead_branches t br).
Proof.
  intro t. induction t as [v ch IH] using trie_ind'. intros Hwf br.
  inversion Hwf as [? ? Hnd Hch]; subst. rewrite fdb_eq.
  assert (Hlen : forall c t' b, In (c, t') ch -> In b (find_dead_branches t' (br ++ [c])) ->
                 exists q, b = br ++ c :: q).
  { intros c t' b Hin Hb. apply (dead_spec t' (Hch c t' Hin)) in Hb. destruct Hb as [q [E _]].
    exists q. rewrite E, <- app_assoc. reflexivity. }
  assert (Hc : NoDup (fdb_children ch br)).
  { clear Hwf. induction ch as [|[c0 t0] ch IHch]; [constructor|].
    change (fdb_children ((c0, t0) :: ch) br) with (find_dead_branches t0 (br ++ [c0]) ++ fdb_children ch br).
    simpl in Hnd. inversion Hnd as [|? ? Hn1 Hn2]; subst.
    assert (NoDup (find_dead_branches t0 (br ++ [c0]))) by (apply (IH c0 t0); [left; reflexivity|apply (Hch c0 t0); left; reflexivity]).
    assert (NoDup (fdb_children ch br)).
    { apply IHch; auto.
      - intros c t Hin. apply (IH c t). right. exact Hin.
      - intros c t Hin. apply (Hch c t). right. exact Hin.
      - intros c t' b Hin. apply (Hlen c t' b). right. exact Hin. }
    apply NoDup_app_disj'; auto.
    intros b Hb1 Hb2. destruct (Hlen c0 t0 b (or_introl eq_refl) Hb1) as [q1 E1].
    apply fdb_children_In in Hb2. destruct Hb2 as [c [t' [Hin Hb2]]].
    destruct (Hlen c t' b (or_intror Hin) Hb2) as [q2 E2].
    rewrite E1 in E2. apply app_inv_head in E2. inversion E2; subst.
    apply Hn1. apply (in_map fst) in Hin. exact Hin. }
  destruct v; [rewrite app_nil_r; exact Hc|].
  apply NoDup_rev in Hc. rewrite <- (rev_involutive (fdb_children ch br ++ [br])). apply NoDup_rev.
  rewrite rev_app_distr. simpl. constructor; [|exact Hc].
  intro Hin. apply in_rev in Hin. apply fdb_children_In in Hin. destruct Hin as [c [t' [Hin Hb]]].
  destruct (Hlen c t' br Hin Hb) as [q E].
  assert (length br = length (br ++ c :: q)) by (rewrite <- E; reflexivity).
  rewrite app_length in H. simpl in H. lia.
Qed.

(* ------------------------------------------------------------------ build_tree and the colouring *)
Definition any_prefix (q : path) (l : list path) : bool := existsb (is_prefix q) l.

Lemma fold_insert : forall paths t q,
  t_has (fold_left (fun t p => t_insert p t) paths t) q = t_has t q || any_prefix q paths /\
  t_col (fold_left (fun t p => t_insert p t) paths t) q = t_col t q /\
  (twf t -> twf (fold_left (fun t p => t_insert p t) paths t)).
Proof.
  induction paths as [|p paths IH]; intros t q; simpl.
  - rewrite Bool.orb_false_r. auto.
  - destruct (IH (t_insert p t) q) as [H1 [H2 H3]]. rewrite H1, H2, has_insert, col_insert.
    split; [rewrite Bool.orb_assoc; reflexivity|]. split; [reflexivity|]. intro W. apply H3. apply twf_insert. exact W.
Qed.

Lemma fold_color : forall ks t q,
  t_has (fold_left (fun t k => color_path k t) ks t) q = t_has t q || any_prefix q ks /\
  t_col (fold_left (fun t k => color_path k t) ks t) q = t_col t q || any_prefix q ks /\
  (twf t -> twf (fold_left (fun t k => color_path k t) ks t)).
Proof.
  induction ks as [|p ks IH]; intros t q; simpl.
  - rewrite !Bool.orb_false_r. auto.
  - destruct (IH (color_path p t) q) as [H1 [H2 H3]]. rewrite H1, H2, has_color, col_color.
    split; [rewrite Bool.orb_assoc; reflexivity|]. split; [rewrite Bool.orb_assoc; reflexivity|].
    intro W. apply H3. apply twf_color. exact W.
Qed.

(* the dead branches of the analysis: nodes of the existing tree that no key passes through *)
Definition analysis_tree (existing ks : list path) : trie :=
  fold_left (fun t k => color_path k t) ks (build_tree existing).

Lemma analysis_dead : forall existing ks b,
  In b (find_dead_branches (analysis_tree existing ks) []) <->
  (is_nil b || any_prefix b existing) = true /\ any_prefix b ks = false.
Proof.
  intros existing ks b. unfold analysis_tree, build_tree.
  destruct (fold_insert existing t_leaf b) as [I1 [I2 I3]].
  destruct (fold_color ks (fold_left (fun t p => t_insert p t) existing t_leaf) b) as [C1 [C2 C3]].
  rewrite dead_spec by (apply C3, I3, twf_leaf). simpl.
  split.
  - intros [q [<- [H1 H2]]]. rewrite C1, I1, t_has_leaf in H1. rewrite C2, I2, t_col_leaf in H2. simpl in H2.
    split; [|exact H2]. rewrite H2, Bool.orb_false_r in H1. exact H1.
  - intros [H1 H2]. exists b. split; [reflexivity|].
    rewrite C1, C2, I1, I2, t_has_leaf, t_col_leaf, H1, H2. auto.
Qed.

Lemma analysis_dead_NoDup : forall existing ks, NoDup (find_dead_branches (analysis_tree existing ks) []).
Proof.
  intros. apply dead_NoDup. unfold analysis_tree, build_tree.
  destruct (fold_insert existing t_leaf []) as [_ [_ I3]].
  destruct (fold_color ks (fold_left (fun t p => t_insert p t) existing t_leaf) []) as [_ [_ C3]].
  apply C3, I3, twf_leaf.
Qed.
