(* CorrC01.v — observational form of C01 used by the correspondence check. *)
From SV Require Import Base Json MD5 Canon.

(* float lexeme table: the oracle for Python's float.__repr__ on the floats of a shard *)
Fixpoint ftab_lookup (t : list (fl * str)) (f : fl) : str :=
  match t with
  | [] => [63%N]   (* '?' — never a valid lexeme; makes a missing entry visible as a mismatch *)
  | (g, s) :: t' => if fl_eqb f g then s else ftab_lookup t' f
  end.

Record case_C01 := {
  c1_val : json;                       (* the state point as a JSON value (one spelling)        *)
  c1_ftab : list (fl * str);           (* repr() of every float occurring in it                  *)
  c1_ids : list str;                   (* every id the implementation produced: all key orders,
                                          container spellings, sessions, after file round trip   *)
  c1_file : json;                      (* what the state point file parsed to after init()       *)
  c1_others : list (json * str)        (* JSON-different variants of the value with their ids    *)
}.

Definition model_id (c : case_C01) : str := calc_id (ftab_lookup (c1_ftab c)) (c1_val c).

Definition id_shape (s : str) : bool := Nat.eqb (length s) 32 && forallb lower_hex s.

(* model and implementation disagree *)
Definition mismatch_C01 (c : case_C01) : bool :=
  negb (forallb (str_eqb (model_id c)) (c1_ids c))
  || negb (forallb (fun o => str_eqb (calc_id (ftab_lookup (c1_ftab c)) (fst o)) (snd o)) (c1_others c)).

(* the property, as a decidable predicate on what the implementation did *)
Definition holds_C01 (c : case_C01) : bool :=
  match c1_ids c with
  | [] => false
  | i0 :: _ =>
      forallb (str_eqb i0) (c1_ids c)
      && id_shape i0
      && json_eqb (norm (c1_file c)) (norm (c1_val c))
      && forallb (fun o => json_eqb (norm (fst o)) (norm (c1_val c)) || negb (str_eqb (snd o) i0)) (c1_others c)
      (* among the further (value, observed id) pairs: ids are well-formed, the same value always got the same id
         and different values different ids *)
      && forallb (fun o => id_shape (snd o)) (c1_others c)
      && forallb (fun o1 => forallb (fun o2 =>
                    Bool.eqb (json_eqb (norm (fst o1)) (norm (fst o2))) (str_eqb (snd o1) (snd o2)))
                  (c1_others c)) (c1_others c)
  end.

Definition violation_C01 (c : case_C01) : bool := negb (holds_C01 c).

Definition mismatches_C01 (cs : list case_C01) : list N := indices_where mismatch_C01 cs.
Definition violations_C01 (cs : list case_C01) : list N := indices_where violation_C01 cs.
