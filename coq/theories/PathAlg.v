(* PathAlg.v — algebra of the posixpath string functions of Discover.v on normalised absolute
   paths "/c1/c2/…/cn" (abs_of comps, comps clean: non-empty, slash-free, not "." or ".."):
     split_sl / join_sl inverse, normpath and abspath are the identity, dirname removes the last
     component, _get_project_config_fn appends .signac/config. *)
From SV Require Import Base Json Discover CorrC19.
From Coq Require Import Arith.

Lemma cleanb_inv : forall c, cleanb c = true ->
  slashfree c = true /\ str_eqb c [] = false /\ str_eqb c s_dot = false /\ str_eqb c s_dotdot = false.
Proof.
  unfold cleanb. intros c H. repeat (apply andb_true_iff in H; destruct H as [H ?]).
  repeat split; auto; apply negb_true_iff; assumption.
Qed.

(* ------------------------------------------------------------------ split / join *)
Lemma split_sl_nonnil : forall s, split_sl s <> [].
Proof.
  destruct s as [|c s]; simpl; [discriminate|].
  destruct (is_sl c); [discriminate|]. destruct (split_sl s); discriminate.
Qed.

Lemma split_sl_app : forall a b, split_sl (a ++ SL :: b) = split_sl a ++ split_sl b.
Proof.
  induction a as [|c a IH]; intro b; simpl; [reflexivity|].
  destruct (is_sl c); [rewrite IH; reflexivity|].
  rewrite IH. destruct (split_sl a) eqn:E; [exfalso; eapply split_sl_nonnil; eauto|]. reflexivity.
Qed.

Lemma split_sl_slashfree : forall c, slashfree c = true -> split_sl c = [c].
Proof.
  induction c as [|x c IH]; simpl; intro H; [reflexivity|].
  apply andb_true_iff in H. destruct H as [Hx Hc]. apply negb_true_iff in Hx. rewrite Hx.
  rewrite (IH Hc). reflexivity.
Qed.

Lemma join_sl_cons : forall c cs, cs <> [] -> join_sl (c :: cs) = c ++ SL :: join_sl cs.
Proof. intros c cs H. destruct cs; [congruence|reflexivity]. Qed.

Lemma split_join : forall cs, cs <> [] -> forallb slashfree cs = true -> split_sl (join_sl cs) = cs.
Proof.
  induction cs as [|c cs IH]; intros N H; [congruence|].
  simpl in H. apply andb_true_iff in H. destruct H as [Hc Hcs].
  destruct cs as [|c2 cs'].
  - simpl. apply split_sl_slashfree. exact Hc.
  - rewrite join_sl_cons by discriminate. rewrite split_sl_app, (split_sl_slashfree c Hc).
    rewrite IH; [reflexivity|discriminate|exact Hcs].
Qed.

Lemma join_sl_snoc : forall cs c, cs <> [] -> join_sl (cs ++ [c]) = join_sl cs ++ SL :: c.
Proof.
  induction cs as [|x cs IH]; intros c N; [congruence|].
  destruct cs as [|y cs'].
  - reflexivity.
  - change ((x :: y :: cs') ++ [c]) with (x :: ((y :: cs') ++ [c])).
    rewrite (join_sl_cons x ((y :: cs') ++ [c])) by discriminate.
    rewrite IH by discriminate. rewrite (join_sl_cons x (y :: cs')) by discriminate.
    rewrite <- app_assoc. reflexivity.
Qed.

Lemma join_sl_app : forall a b, a <> [] -> b <> [] -> join_sl (a ++ b) = join_sl a ++ SL :: join_sl b.
Proof.
  induction a as [|x a IH]; intros b Na Nb; [congruence|].
  destruct a as [|y a'].
  - simpl. destruct b; [congruence|reflexivity].
  - change ((x :: y :: a') ++ b) with (x :: ((y :: a') ++ b)).
    rewrite (join_sl_cons x ((y :: a') ++ b)) by discriminate.
    rewrite IH by (auto; discriminate). rewrite (join_sl_cons x (y :: a')) by discriminate.
    rewrite <- app_assoc. reflexivity.
Qed.

Lemma abs_of_snoc : forall cs c, cs <> [] -> abs_of (cs ++ [c]) = abs_of cs ++ SL :: c.
Proof. intros. unfold abs_of. rewrite join_sl_snoc by assumption. reflexivity. Qed.

Lemma abs_of_app : forall a b, a <> [] -> b <> [] -> abs_of (a ++ b) = abs_of a ++ abs_of b.
Proof. intros. unfold abs_of. rewrite join_sl_app by assumption. reflexivity. Qed.

Lemma cleanb_slashfree_all : forall cs, forallb cleanb cs = true -> forallb slashfree cs = true.
Proof.
  induction cs as [|c cs IH]; simpl; intro H; [reflexivity|].
  apply andb_true_iff in H. destruct H as [Hc Hcs]. rewrite (IH Hcs).
  destruct (cleanb_inv c Hc) as [-> _]. reflexivity.
Qed.

Lemma split_abs_of : forall cs, cs <> [] -> forallb cleanb cs = true -> split_sl (abs_of cs) = [] :: cs.
Proof.
  intros cs N H. unfold abs_of. change (SL :: join_sl cs) with ([] ++ SL :: join_sl cs).
  rewrite split_sl_app. simpl. f_equal. apply split_join; auto. apply cleanb_slashfree_all; auto.
Qed.

(* ------------------------------------------------------------------ normpath on clean paths *)
Lemma norm_fold_clean : forall cs acc isabs, forallb cleanb cs = true ->
  fold_left (norm_step isabs) cs acc = rev cs ++ acc.
Proof.
  induction cs as [|c cs IH]; intros acc isabs H; simpl; [reflexivity|].
  simpl in H. apply andb_true_iff in H. destruct H as [Hc Hcs].
  destruct (cleanb_inv c Hc) as [_ [E1 [E2 E3]]].
  unfold norm_step at 2. rewrite E1, E2, E3. simpl.
  rewrite IH by assumption. rewrite <- app_assoc. reflexivity.
Qed.

Lemma norm_comps_clean : forall cs isabs, forallb cleanb cs = true -> norm_comps isabs ([] :: cs) = cs.
Proof.
  intros cs isabs H. unfold norm_comps. simpl. unfold norm_step at 2. simpl.
  rewrite norm_fold_clean by assumption. rewrite app_nil_r. apply rev_involutive.
Qed.

Lemma first_char_clean : forall c, cleanb c = true -> exists x r, c = x :: r /\ is_sl x = false.
Proof.
  intros c H. destruct (cleanb_inv c H) as [Hs [E _]]. destruct c as [|x r]; [discriminate|].
  exists x, r. split; auto. simpl in Hs. apply andb_true_iff in Hs. destruct Hs as [Hx _].
  apply negb_true_iff in Hx. exact Hx.
Qed.

Lemma initial_slashes_abs_of : forall c cs, cleanb c = true -> initial_slashes (abs_of (c :: cs)) = 1%nat.
Proof.
  intros c cs H. destruct (first_char_clean c H) as [x [r [-> Hx]]].
  unfold abs_of. destruct cs; simpl; rewrite Hx; reflexivity.
Qed.

Lemma normpath_abs_of : forall cs, forallb cleanb cs = true -> normpath (abs_of cs) = abs_of cs.
Proof.
  intros cs H. destruct cs as [|c cs]; [reflexivity|].
  assert (Hc : cleanb c = true) by (simpl in H; apply andb_true_iff in H; tauto).
  unfold normpath. remember (abs_of (c :: cs)) as p eqn:Ep.
  destruct p as [|a p']; [discriminate|]. rewrite Ep.
  rewrite (initial_slashes_abs_of c cs Hc). simpl Nat.eqb. simpl negb.
  rewrite split_abs_of by (auto; discriminate).
  rewrite norm_comps_clean by assumption. reflexivity.
Qed.

Lemma abspath_abs_of : forall cwd cs, forallb cleanb cs = true -> abspath cwd (abs_of cs) = abs_of cs.
Proof. intros cwd cs H. unfold abspath. simpl. apply normpath_abs_of. exact H. Qed.

(* ------------------------------------------------------------------ last character *)
Lemma last_char_join : forall cs, cs <> [] -> forallb cleanb cs = true ->
  exists pre x, join_sl cs = pre ++ [x] /\ is_sl x = false.
Proof.
  induction cs as [|c cs IH]; intros N H; [congruence|].
  simpl in H. apply andb_true_iff in H. destruct H as [Hc Hcs].
  destruct cs as [|c2 cs'].
  - simpl. destruct (cleanb_inv c Hc) as [Hs [E _]].
    destruct (exists_last (l := c)) as [pre [x Ex]]; [intro Z; subst; discriminate|].
    exists pre, x. split; auto. subst c. unfold slashfree in Hs. rewrite forallb_app in Hs.
    apply andb_true_iff in Hs. destruct Hs as [_ Hx]. simpl in Hx. rewrite andb_true_r in Hx.
    apply negb_true_iff in Hx. exact Hx.
  - destruct IH as [pre [x [E Hx]]]; [discriminate|exact Hcs|].
    rewrite join_sl_cons by discriminate. rewrite E.
    exists (c ++ SL :: pre), x. split; auto. rewrite <- app_assoc. reflexivity.
Qed.

Lemma ends_sl_abs_of : forall cs, cs <> [] -> forallb cleanb cs = true -> ends_sl (abs_of cs) = false.
Proof.
  intros cs N H. destruct (last_char_join cs N H) as [pre [x [E Hx]]].
  unfold ends_sl, abs_of. rewrite E. change (SL :: pre ++ [x]) with ((SL :: pre) ++ [x]).
  rewrite rev_app_distr. simpl. exact Hx.
Qed.

(* ------------------------------------------------------------------ _get_project_config_fn *)
Lemma cfgfn_abs_of : forall cwd cs, forallb cleanb cs = true ->
  cfgfn cwd (abs_of cs) = abs_of (cs ++ [s_dotsignac; s_config]).
Proof.
  intros cwd cs H. unfold cfgfn.
  assert (J : path_join (abs_of cs) s_cfg_rel = abs_of (cs ++ [s_dotsignac; s_config])).
  { destruct cs as [|c cs]; [reflexivity|].
    unfold path_join. change (starts_sl s_cfg_rel) with false. cbv iota.
    rewrite ends_sl_abs_of by (auto; discriminate).
    rewrite abs_of_app by discriminate.
    remember (abs_of (c :: cs)) as p. destruct p; [discriminate|]. reflexivity. }
  rewrite J. apply abspath_abs_of. rewrite forallb_app, H. reflexivity.
Qed.

(* ------------------------------------------------------------------ dirname *)
Lemma upto_last_slashfree : forall c, slashfree c = true -> upto_last_sl c = [].
Proof.
  induction c as [|x c IH]; simpl; intro H; [reflexivity|].
  apply andb_true_iff in H. destruct H as [Hx Hc]. apply negb_true_iff in Hx. rewrite Hx.
  rewrite (IH Hc). reflexivity.
Qed.

Lemma upto_last_app : forall a c, slashfree c = true -> upto_last_sl (a ++ SL :: c) = a ++ [SL].
Proof.
  induction a as [|x a IH]; intros c H; simpl.
  - rewrite (upto_last_slashfree c H). reflexivity.
  - rewrite (IH c H). destruct (is_sl x); [reflexivity|].
    destruct (a ++ [SL]) eqn:E; [destruct a; discriminate|reflexivity].
Qed.

Lemma dirname_abs_of_single : forall c, cleanb c = true -> dirname (abs_of [c]) = abs_of [].
Proof.
  intros c H. destruct (cleanb_inv c H) as [Hs _]. unfold dirname, abs_of. simpl join_sl.
  change (SL :: c) with ([] ++ SL :: c). rewrite (upto_last_app [] c Hs). reflexivity.
Qed.

Lemma dirname_abs_of_snoc : forall cs c, cs <> [] -> forallb cleanb cs = true -> cleanb c = true ->
  dirname (abs_of (cs ++ [c])) = abs_of cs.
Proof.
  intros cs c N H Hc. destruct (cleanb_inv c Hc) as [Hs _].
  unfold dirname. rewrite abs_of_snoc by assumption. rewrite (upto_last_app _ c Hs).
  destruct (last_char_join cs N H) as [pre [x [E Hx]]].
  assert (A : abs_of cs = (SL :: pre) ++ [x]) by (unfold abs_of; rewrite E; reflexivity).
  assert (F : forallb is_sl (abs_of cs ++ [SL]) = false).
  { rewrite A. rewrite !forallb_app. simpl. rewrite Hx. rewrite andb_false_r. reflexivity. }
  rewrite F. unfold rstrip_sl. rewrite rev_app_distr. simpl.
  rewrite E. rewrite rev_app_distr. simpl. rewrite Hx.
  rewrite A. simpl. rewrite rev_app_distr. simpl. rewrite rev_involutive. reflexivity.
Qed.

Lemma dirname_root : dirname (abs_of []) = abs_of [].
Proof. reflexivity. Qed.

Lemma abs_of_length_snoc : forall cs c, (length (abs_of cs) <= length (abs_of (cs ++ [c])))%nat.
Proof.
  intros cs c. destruct cs as [|x cs].
  - simpl. lia.
  - rewrite abs_of_snoc by discriminate. rewrite app_length. lia.
Qed.

Lemma abs_of_snoc_neq : forall cs c, cleanb c = true -> abs_of (cs ++ [c]) <> abs_of cs.
Proof.
  intros cs c Hc E. destruct (cleanb_inv c Hc) as [_ [N _]].
  destruct cs as [|x cs].
  - unfold abs_of in E. simpl in E. inversion E. subst. discriminate.
  - rewrite abs_of_snoc in E by discriminate.
    assert (L : length (abs_of (x :: cs) ++ SL :: c) = length (abs_of (x :: cs))) by (rewrite E; reflexivity).
    rewrite app_length in L. simpl in L. lia.
Qed.

(* ------------------------------------------------------------------ "/…/c/.." is the lexical parent *)
Lemma clean_not_dotdot : forall c, cleanb c = true -> str_eqb c s_dotdot = false.
Proof. intros c H. destruct (cleanb_inv c H) as [_ [_ [_ E]]]. exact E. Qed.

Lemma path_join_pardir : forall cs c, forallb cleanb cs = true -> cleanb c = true ->
  path_join (abs_of (cs ++ [c])) s_dotdot = abs_of (cs ++ [c]) ++ SL :: s_dotdot.
Proof.
  intros cs c H Hc. unfold path_join. change (starts_sl s_dotdot) with false. cbv iota.
  rewrite ends_sl_abs_of; [| destruct cs; discriminate | rewrite forallb_app, H; simpl; rewrite Hc; reflexivity].
  remember (abs_of (cs ++ [c])) as p. destruct p; [destruct cs; discriminate|]. reflexivity.
Qed.

Lemma fold_left_norm_app : forall isabs l1 l2 acc,
  fold_left (norm_step isabs) (l1 ++ l2) acc = fold_left (norm_step isabs) l2 (fold_left (norm_step isabs) l1 acc).
Proof. intros. apply fold_left_app. Qed.

Lemma norm_step_pardir : forall c acc, cleanb c = true -> norm_step true (c :: acc) s_dotdot = acc.
Proof.
  intros c acc Hc. unfold norm_step. change (str_eqb s_dotdot []) with false.
  change (str_eqb s_dotdot s_dot) with false. simpl orb. cbv iota. rewrite str_eqb_refl.
  rewrite (clean_not_dotdot c Hc). reflexivity.
Qed.

Lemma norm_comps_pardir : forall cs c, forallb cleanb cs = true -> cleanb c = true ->
  norm_comps true (([] :: cs ++ [c]) ++ [s_dotdot]) = cs.
Proof.
  intros cs c H Hc. unfold norm_comps. rewrite fold_left_app.
  assert (Hall : forallb cleanb (cs ++ [c]) = true) by (rewrite forallb_app, H; simpl; rewrite Hc; reflexivity).
  assert (F : fold_left (norm_step true) ([] :: cs ++ [c]) [] = c :: rev cs).
  { simpl. change (norm_step true [] []) with (@nil str).
    rewrite (norm_fold_clean _ [] true Hall), app_nil_r, rev_app_distr. reflexivity. }
  unfold str in *. rewrite F. change (fold_left (norm_step true) [s_dotdot] (c :: rev cs)) with (norm_step true (c :: rev cs) s_dotdot).
  pose proof (norm_step_pardir c (rev cs) Hc) as Z. unfold str in Z. rewrite Z. apply rev_involutive.
Qed.

Lemma abspath_pardir : forall cwd cs c, forallb cleanb cs = true -> cleanb c = true ->
  abspath cwd (path_join (abs_of (cs ++ [c])) s_dotdot) = abs_of cs.
Proof.
  intros cwd cs c H Hc. rewrite (path_join_pardir cs c H Hc).
  assert (Hall : forallb cleanb (cs ++ [c]) = true) by (rewrite forallb_app, H; simpl; rewrite Hc; reflexivity).
  assert (Hne : cs ++ [c] <> []) by (destruct cs; discriminate).
  unfold abspath.
  assert (St : starts_sl (abs_of (cs ++ [c]) ++ SL :: s_dotdot) = true) by reflexivity.
  rewrite St. unfold normpath.
  remember (abs_of (cs ++ [c]) ++ SL :: s_dotdot) as p eqn:Ep.
  destruct p as [|a p']; [discriminate|]. rewrite Ep.
  assert (IS : initial_slashes (abs_of (cs ++ [c]) ++ SL :: s_dotdot) = 1%nat).
  { destruct cs as [|x cs'].
    - simpl app. destruct (first_char_clean c Hc) as [y [r [-> Hy]]]. unfold abs_of. simpl. rewrite Hy. reflexivity.
    - assert (Hx : cleanb x = true) by (simpl in H; apply andb_true_iff in H; tauto).
      destruct (first_char_clean x Hx) as [y [r [-> Hy]]]. unfold abs_of.
      change (((y :: r) :: cs') ++ [c]) with ((y :: r) :: (cs' ++ [c])).
      destruct (cs' ++ [c]) eqn:E; [destruct cs'; discriminate|]. simpl. rewrite Hy. reflexivity. }
  rewrite IS. simpl Nat.eqb. simpl negb.
  rewrite split_sl_app, (split_abs_of _ Hne Hall).
  change (split_sl s_dotdot) with [s_dotdot].
  pose proof (norm_comps_pardir cs c H Hc) as Z. unfold str in *. rewrite Z. reflexivity.
Qed.

Lemma norm_split_abs_of : forall cs, forallb cleanb cs = true -> norm_comps true (split_sl (abs_of cs)) = cs.
Proof.
  intros cs H. destruct cs as [|c cs]; [reflexivity|].
  rewrite split_abs_of by (auto; discriminate). apply norm_comps_clean. exact H.
Qed.

(* resolving "/" *)
Lemma walk_root_slash : forall root, walk FUEL root [] [[]; []] = Some [].
Proof. reflexivity. Qed.
Lemma walk_root_empty : forall root, walk FUEL root [] [[]] = Some [].
Proof. reflexivity. Qed.
