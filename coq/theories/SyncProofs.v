(* SyncProofs.v — lemmas about the sync model (Sync.v) shared by the theorems of C13, C14, C15. *)
From SV Require Import Base Json Canon Sync SyncObs.

(* ------------------------------------------------------------------ association lists *)
Lemma aset_same : forall A k (v : A) l, alookup k l = Some v -> aset k v l = l.
Proof.
  induction l as [|[k' v'] l IH]; simpl; [discriminate|].
  destruct (str_eqb k k') eqn:E; intro H.
  - apply str_eqb_eq in E. subst k'. inversion H. reflexivity.
  - rewrite IH; auto.
Qed.

Lemma aset_aset : forall A k (v w : A) l, aset k w (aset k v l) = aset k w l.
Proof.
  induction l as [|[k' v'] l IH]; simpl.
  - rewrite str_eqb_refl. reflexivity.
  - destruct (str_eqb k k') eqn:E; simpl; rewrite E; [reflexivity|]. rewrite IH. reflexivity.
Qed.

Lemma aset_absent : forall A k (v : A) l, alookup k l = None -> aset k v l = l ++ [(k, v)].
Proof.
  induction l as [|[k' v'] l IH]; simpl; auto.
  destruct (str_eqb k k'); [discriminate|]. intro H. rewrite IH; auto.
Qed.

Lemma aset_app_in : forall A k (v : A) l r, alookup k l <> None -> aset k v (l ++ r) = aset k v l ++ r.
Proof.
  induction l as [|[k' v'] l IH]; simpl; intros r H; [congruence|].
  destruct (str_eqb k k'); [reflexivity|]. rewrite IH; auto.
Qed.

Lemma alookup_app : forall A k (l r : list (str * A)),
  alookup k (l ++ r) = match alookup k l with Some v => Some v | None => alookup k r end.
Proof.
  induction l as [|[k' v'] l IH]; simpl; auto. intro r. destruct (str_eqb k k'); auto.
Qed.

Lemma aremove_absent : forall A k (l : list (str * A)), alookup k l = None -> aremove k l = l.
Proof.
  induction l as [|[k' v'] l IH]; simpl; auto.
  destruct (str_eqb k k'); [discriminate|]. intro H. rewrite IH; auto.
Qed.

Lemma aremove_app : forall A k (l r : list (str * A)), aremove k (l ++ r) = aremove k l ++ aremove k r.
Proof.
  induction l as [|[k' v'] l IH]; simpl; auto. intro r.
  destruct (str_eqb k k'); simpl; rewrite IH; reflexivity.
Qed.

Lemma aremove_snoc_absent : forall A k (v : A) l, alookup k l = None -> aremove k (l ++ [(k, v)]) = l.
Proof.
  intros. rewrite aremove_app, aremove_absent by assumption. simpl. rewrite str_eqb_refl.
  apply app_nil_r.
Qed.

Lemma alookup_aset : forall A k k' (v : A) l,
  alookup k' (aset k v l) = if str_eqb k' k then Some v else alookup k' l.
Proof.
  intros. destruct (str_eqb k' k) eqn:E.
  - apply str_eqb_eq in E. subst. apply alookup_aset_same.
  - apply alookup_aset_other. apply str_eqb_neq in E. congruence.
Qed.

Lemma str_eqb_sym : forall a b, str_eqb a b = str_eqb b a.
Proof.
  intros. destruct (str_eqb a b) eqn:E.
  - apply str_eqb_eq in E. subst. symmetry. apply str_eqb_refl.
  - symmetry. apply str_eqb_neq. apply str_eqb_neq in E. congruence.
Qed.

Lemma map_fst_aset_in : forall A k (v : A) l, alookup k l <> None -> map fst (aset k v l) = map fst l.
Proof.
  induction l as [|[k' v'] l IH]; simpl; intro H; [congruence|].
  destruct (str_eqb k k') eqn:E; simpl; [apply str_eqb_eq in E; subst; reflexivity|].
  rewrite IH; auto.
Qed.

(* ------------------------------------------------------------------ loops *)
Definition frame_step {A} (key : A -> str) (f : A -> dir -> wstate) : Prop :=
  forall x d k, k <> key x -> alookup k (fst (f x d)) = alookup k d.

Lemma run_steps_frame : forall A (key : A -> str) f, frame_step key f ->
  forall l d k, ~ In k (map key l) -> alookup k (fst (run_steps f l d)) = alookup k d.
Proof.
  intros A key f Hf. induction l as [|x l IH]; simpl; intros d k Hk; auto.
  assert (Hx : k <> key x) by (intro Heq; apply Hk; left; auto).
  assert (Hl : ~ In k (map key l)) by (intro Hin; apply Hk; right; auto).
  destruct (f x d) as [d' [e|]] eqn:E.
  - simpl. replace d' with (fst (f x d)) by (rewrite E; reflexivity). apply Hf. exact Hx.
  - rewrite IH by exact Hl. replace d' with (fst (f x d)) by (rewrite E; reflexivity). apply Hf. exact Hx.
Qed.

(* a step whose effect at its own key depends only on the entry at that key *)
Definition local_step {A} (key : A -> str) (f : A -> dir -> wstate) : Prop :=
  forall x d d', alookup (key x) d = alookup (key x) d' ->
                 alookup (key x) (fst (f x d)) = alookup (key x) (fst (f x d')) /\ snd (f x d) = snd (f x d').

Lemma run_steps_ok_at : forall A (key : A -> str) f, frame_step key f -> local_step key f ->
  forall l d x, NoDup (map key l) -> In x l -> snd (run_steps f l d) = None ->
    alookup (key x) (fst (run_steps f l d)) = alookup (key x) (fst (f x d)) /\ snd (f x d) = None.
Proof.
  intros A key f Hf Hl. induction l as [|y l IH]; simpl; intros d x Hnd Hin He; [tauto|].
  inversion Hnd as [|? ? Hny Hnd']; subst.
  destruct (f y d) as [d' [e|]] eqn:E; [simpl in He; discriminate|].
  destruct Hin as [->|Hin].
  - rewrite (run_steps_frame _ key f Hf) by assumption. rewrite E. simpl. auto.
  - destruct (IH d' x Hnd' Hin He) as [H1 H2].
    assert (Hne : key x <> key y) by (intro Heq; apply Hny; rewrite <- Heq; apply in_map; exact Hin).
    assert (Hd : alookup (key x) d' = alookup (key x) d).
    { replace d' with (fst (f y d)) by (rewrite E; reflexivity). apply Hf. exact Hne. }
    destruct (Hl x d' d Hd) as [H3 H4]. rewrite H1, H3, <- H4. auto.
Qed.

Lemma run_steps_all_ok : forall A (f : A -> dir -> wstate) l d,
  snd (run_steps f l d) = None -> forall x, In x l -> exists d0, snd (f x d0) = None.
Proof.
  induction l as [|y l IH]; simpl; intros d He x Hin; [tauto|].
  destruct (f y d) as [d' [e|]] eqn:E; [simpl in He; discriminate|].
  destruct Hin as [->|Hin]; [exists d; rewrite E; reflexivity|eauto].
Qed.

(* an error leaves the state of the failing step *)
Lemma run_steps_preserve : forall A (P : dir -> Prop) (f : A -> dir -> wstate),
  (forall x d, P d -> P (fst (f x d))) -> forall l d, P d -> P (fst (run_steps f l d)).
Proof.
  intros A P f Hf. induction l as [|x l IH]; simpl; intros d Hd; auto.
  destruct (f x d) as [d' [e|]] eqn:E; simpl.
  - replace d' with (fst (f x d)) by (rewrite E; reflexivity). auto.
  - apply IH. replace d' with (fst (f x d)) by (rewrite E; reflexivity). auto.
Qed.

Lemma run_steps_id : forall A (f : A -> dir -> wstate) l d,
  (forall x d, In x l -> fst (f x d) = d) -> fst (run_steps f l d) = d.
Proof.
  induction l as [|x l IH]; simpl; intros d H; auto.
  destruct (f x d) as [d' [e|]] eqn:E; simpl.
  - replace d' with (fst (f x d)) by (rewrite E; reflexivity). auto.
  - rewrite IH by auto. replace d' with (fst (f x d)) by (rewrite E; reflexivity). auto.
Qed.

(* ------------------------------------------------------------------ sorting of names *)
Lemma insert_str_In : forall s x l, In x (insert_str s l) <-> x = s \/ In x l.
Proof.
  induction l as [|y l IH]; simpl; [intuition|].
  destruct (str_leb s y); simpl; [intuition|]. rewrite IH. intuition.
Qed.

Lemma sort_strs_In : forall x l, In x (sort_strs l) <-> In x l.
Proof.
  induction l as [|y l IH]; simpl; [tauto|].
  rewrite insert_str_In, IH. intuition.
Qed.

Lemma insert_str_NoDup : forall s l, NoDup l -> ~ In s l -> NoDup (insert_str s l).
Proof.
  induction l as [|y l IH]; simpl; intros Hnd Hn.
  - constructor; auto.
  - destruct (str_leb s y).
    + constructor; auto.
    + inversion Hnd; subst. constructor.
      * rewrite insert_str_In. intros [->|H]; [apply Hn; auto|contradiction].
      * apply IH; auto.
Qed.

Lemma sort_strs_NoDup : forall l, NoDup l -> NoDup (sort_strs l).
Proof.
  induction l as [|y l IH]; simpl; intro H; [constructor|].
  inversion H; subst. apply insert_str_NoDup; auto. rewrite sort_strs_In. assumption.
Qed.

Lemma alookup_Some_In_fst : forall A k (v : A) l, alookup k l = Some v -> In k (map fst l).
Proof.
  intros A k v l H. destruct (in_dec str_eq_dec k (map fst l)) as [Hi|Hn]; auto.
  apply alookup_None_notin in Hn. congruence.
Qed.

Section Walk.
  Variable frepr : fl -> str.
  Variable cf : cfg.

  Notation names := (names cf).
  Notation classify := (classify frepr).
  Notation excluded := (excluded cf).

  Lemma names_NoDup : forall d, NoDup (map fst d) -> NoDup (names d).
  Proof. intros. unfold Sync.names. apply sort_strs_NoDup. apply NoDup_filter. assumption. Qed.

  Lemma names_In : forall n d, In n (names d) <-> In n (map fst d) /\ ignored cf n = false.
  Proof.
    intros. unfold Sync.names. rewrite sort_strs_In, filter_In, negb_true_iff. tauto.
  Qed.

  Definition of_cls (deep : bool) (sdir ddir : dir) (c : cls) : list str :=
    filter (fun n => is_cls (classify deep n sdir ddir) c) (names sdir).

  Lemma is_cls_eq : forall a b, is_cls a b = true <-> a = b.
  Proof. destruct a, b; simpl; split; congruence. Qed.

  Lemma of_cls_In : forall deep sdir ddir c n,
    In n (of_cls deep sdir ddir c) <-> In n (names sdir) /\ classify deep n sdir ddir = c.
  Proof. intros. unfold of_cls. rewrite filter_In, is_cls_eq. tauto. Qed.

  Lemma of_cls_NoDup : forall deep sdir ddir c, NoDup (map fst sdir) -> NoDup (of_cls deep sdir ddir c).
  Proof. intros. unfold of_cls. apply NoDup_filter. apply names_NoDup. assumption. Qed.

  (* the three loop bodies of _sync_job_workspaces *)
  Definition step1 (o : opts) (sdir : dir) (n : str) (d : dir) : wstate :=
    if excluded o n then (d, None)
    else match alookup n sdir with
         | Some (File c _) => copy_file cf (o_dry_run o) n c d
         | Some (Dir es) =>
             if o_recursive o then copy_tree cf (tree_excl cf o) (o_dry_run o) n (Dir es) d else (d, None)
         | None => (d, None)
         end.

  Definition step2 (o : opts) (sdir : dir) (subdir : str) (n : str) (d : dir) : wstate :=
    if excluded o n then (d, None)
    else match o_strategy o with
         | None => (d, Some EFileSyncConflict)
         | Some s =>
             match alookup n sdir, alookup n d with
             | Some (File c1 m1), Some (File _ m2) =>
                 if verdict s (join subdir n) m1 m2 then copy_file cf (o_dry_run o) n c1 d else (d, None)
             | _, _ => (d, None)
             end
         end.

  Definition step3 (rec : dir -> dir -> str -> wstate) (o : opts) (sdir : dir) (subdir : str)
             (n : str) (d : dir) : wstate :=
    if o_recursive o then
      match alookup n sdir, alookup n d with
      | Some (Dir ses), Some (Dir des) =>
          let '(des', e) := rec ses des (join subdir n) in (aset n (Dir des') d, e)
      | _, _ => (d, None)
      end
    else (d, None).

  Definition funny_err (o : opts) (deep : bool) (sdir ddir : dir) : bool :=
    fix_funny cf && existsb (fun n => negb (excluded o n)) (of_cls deep sdir ddir Funny).

  Lemma sync_ws_S : forall fuel o deep sdir ddir subdir,
    sync_ws frepr cf (S fuel) o deep sdir ddir subdir =
    match run_steps (step1 o sdir) (of_cls deep sdir ddir LeftOnly) ddir with
    | (d1, None) =>
        match run_steps (step2 o sdir subdir) (of_cls deep sdir ddir Diff) d1 with
        | (d2, None) =>
            if funny_err o deep sdir ddir then (d2, Some EFileSyncConflict)
            else run_steps (step3 (sync_ws frepr cf fuel (set_top o false) deep) o sdir subdir) (of_cls deep sdir ddir SubDir) d2
        | r => r
        end
    | r => r
    end.
  Proof. reflexivity. Qed.

  (* ---------------------------------------------------------------- frames *)
  Lemma copy_file_frame : forall dry n c d k, k <> n -> alookup k (fst (copy_file cf dry n c d)) = alookup k d.
  Proof.
    intros. unfold copy_file. destruct dry; [destruct (fix_F3 cf); reflexivity|].
    simpl. apply alookup_aset_other. congruence.
  Qed.

  Lemma alookup_snoc_other : forall A k n (v : A) d, k <> n -> alookup k (d ++ [(n, v)]) = alookup k d.
  Proof.
    intros. rewrite alookup_app. destruct (alookup k d); auto. simpl.
    assert (E : str_eqb k n = false) by (apply str_eqb_neq; assumption). rewrite E. reflexivity.
  Qed.

  Lemma copy_tree_gen_frame : forall pr dry n x d k, k <> n -> alookup k (fst (copy_tree_gen cf pr dry n x d)) = alookup k d.
  Proof.
    intros. unfold copy_tree_gen. destruct dry.
    - destruct (fix_F4 cf); [reflexivity|].
      destruct (skel_node cf (if fix_excl cf then pr x else x)) as [s r]. simpl.
      apply alookup_snoc_other. assumption.
    - simpl. apply alookup_snoc_other. assumption.
  Qed.

  Lemma copy_tree_frame : forall ex dry n x d k, k <> n -> alookup k (fst (copy_tree cf ex dry n x d)) = alookup k d.
  Proof. intros. apply copy_tree_gen_frame. assumption. Qed.

  Lemma step1_frame : forall o sdir, frame_step (fun n => n) (step1 o sdir).
  Proof.
    intros o sdir n d k Hk. unfold step1. destruct (excluded o n); [reflexivity|].
    destruct (alookup n sdir) as [[c m|es]|]; try reflexivity.
    - apply copy_file_frame. assumption.
    - destruct (o_recursive o); [|reflexivity]. apply copy_tree_frame. assumption.
  Qed.

  Lemma step2_frame : forall o sdir subdir, frame_step (fun n => n) (step2 o sdir subdir).
  Proof.
    intros o sdir subdir n d k Hk. unfold step2. destruct (excluded o n); [reflexivity|].
    destruct (o_strategy o) as [s|]; [|reflexivity].
    destruct (alookup n sdir) as [[c m|es]|]; try reflexivity.
    destruct (alookup n d) as [[c2 m2|es]|]; try reflexivity.
    destruct (verdict s (join subdir n) m m2); [|reflexivity].
    apply copy_file_frame. assumption.
  Qed.

  Lemma step3_frame : forall rec o sdir subdir, frame_step (fun n => n) (step3 rec o sdir subdir).
  Proof.
    intros rec o sdir subdir n d k Hk. unfold step3. destruct (o_recursive o); [|reflexivity].
    destruct (alookup n sdir) as [[c m|ses]|]; try reflexivity.
    destruct (alookup n d) as [[c2 m2|des]|]; try reflexivity.
    destruct (rec ses des (join subdir n)) as [des' e]. simpl.
    apply alookup_aset_other. congruence.
  Qed.
End Walk.

Section Walk2.
  Variable frepr : fl -> str.
  Variable cf : cfg.
  Notation excluded := (excluded cf).

  (* ---------------------------------------------------------------- dry run: the file walk writes nothing
     once copytree() no longer creates directories (F4) — or when it is never called (not recursive).
     copy() under dry_run never writes, it only raises (F3). *)
  Lemma sync_ws_dry_id : forall fuel o deep sdir ddir subdir,
    o_dry_run o = true -> fix_F4 cf = true \/ o_recursive o = false ->
    fst (sync_ws frepr cf fuel o deep sdir ddir subdir) = ddir.
  Proof.
    induction fuel as [|fuel IH]; intros o deep sdir ddir subdir Hdry H4; [reflexivity|].
    rewrite sync_ws_S.
    assert (CF : forall n c d, fst (copy_file cf true n c d) = d)
      by (intros; unfold copy_file; destruct (fix_F3 cf); reflexivity).
    assert (S1 : forall n d, fst (step1 cf o sdir n d) = d).
    { intros n d. unfold step1. destruct (excluded o n); [reflexivity|].
      destruct (alookup n sdir) as [[c m|es]|]; try reflexivity.
      - rewrite Hdry. apply CF.
      - destruct (o_recursive o) eqn:Er; [|reflexivity].
        destruct H4 as [H4|H4]; [|discriminate]. unfold copy_tree, copy_tree_gen. rewrite Hdry, H4. reflexivity. }
    assert (S2 : forall n d, fst (step2 cf o sdir subdir n d) = d).
    { intros n d. unfold step2. destruct (excluded o n); [reflexivity|].
      destruct (o_strategy o) as [s|]; [|reflexivity].
      destruct (alookup n sdir) as [[c m|es]|]; try reflexivity.
      destruct (alookup n d) as [[c2 m2|es]|]; try reflexivity.
      destruct (verdict s (join subdir n) m m2); [|reflexivity].
      rewrite Hdry. apply CF. }
    assert (S3 : forall n d, fst (step3 (sync_ws frepr cf fuel (set_top o false) deep) o sdir subdir n d) = d).
    { intros n d. unfold step3. destruct (o_recursive o) eqn:Er; [|reflexivity].
      destruct (alookup n sdir) as [[c m|ses]|]; try reflexivity.
      destruct (alookup n d) as [[c2 m2|des]|] eqn:El; try reflexivity.
      assert (H4' : fix_F4 cf = true \/ o_recursive (set_top o false) = false) by (destruct H4; [left; assumption|discriminate]).
      specialize (IH (set_top o false) deep ses des (join subdir n) Hdry H4').
      destruct (sync_ws frepr cf fuel (set_top o false) deep ses des (join subdir n)) as [des' e]. simpl in *. subst des'.
      apply aset_same. assumption. }
    destruct (run_steps (step1 cf o sdir) (of_cls frepr cf deep sdir ddir LeftOnly) ddir) as [d1 e1] eqn:E1.
    assert (D1 : d1 = ddir).
    { replace d1 with (fst (run_steps (step1 cf o sdir) (of_cls frepr cf deep sdir ddir LeftOnly) ddir))
        by (rewrite E1; reflexivity). apply run_steps_id. intros; apply S1. }
    destruct e1; [simpl; assumption|].
    destruct (run_steps (step2 cf o sdir subdir) (of_cls frepr cf deep sdir ddir Diff) d1) as [d2 e2] eqn:E2.
    assert (D2 : d2 = d1).
    { replace d2 with (fst (run_steps (step2 cf o sdir subdir) (of_cls frepr cf deep sdir ddir Diff) d1))
        by (rewrite E2; reflexivity). apply run_steps_id. intros; apply S2. }
    destruct e2; [simpl; congruence|].
    destruct (funny_err frepr cf o deep sdir ddir); [simpl; congruence|].
    rewrite run_steps_id by (intros; apply S3). congruence.
  Qed.

  (* ---------------------------------------------------------------- names the walk never touches:
     names without a source entry, and excluded names unless they are directories on both sides (the walk
     recurses into common sub-directories without consulting the exclude list) *)
  Lemma sync_ws_untouched : forall fuel o deep sdir ddir subdir k,
    alookup k sdir = None \/ (excluded o k = true /\ forall es, alookup k ddir <> Some (Dir es)) ->
    alookup k (fst (sync_ws frepr cf fuel o deep sdir ddir subdir)) = alookup k ddir.
  Proof.
    destruct fuel as [|fuel]; intros o deep sdir ddir subdir k Hk; [reflexivity|].
    rewrite sync_ws_S.
    set (P := fun d : dir => alookup k d = alookup k ddir).
    assert (S1 : forall n d, P d -> P (fst (step1 cf o sdir n d))).
    { intros n d Hd. unfold P in *. rewrite <- Hd.
      destruct (str_eq_dec k n) as [->|Hne]; [|apply step1_frame; assumption].
      unfold step1. destruct Hk as [Hk|[Hk _]]; [|rewrite Hk; reflexivity].
      destruct (excluded o n); [reflexivity|]. rewrite Hk. reflexivity. }
    assert (S2 : forall n d, P d -> P (fst (step2 cf o sdir subdir n d))).
    { intros n d Hd. unfold P in *. rewrite <- Hd.
      destruct (str_eq_dec k n) as [->|Hne]; [|apply step2_frame; assumption].
      unfold step2. destruct Hk as [Hk|[Hk _]]; [|rewrite Hk; reflexivity].
      destruct (excluded o n); [reflexivity|]. rewrite Hk.
      destruct (o_strategy o); reflexivity. }
    assert (S3 : forall n d, P d -> P (fst (step3 (sync_ws frepr cf fuel (set_top o false) deep) o sdir subdir n d))).
    { intros n d Hd. unfold P in *. rewrite <- Hd.
      destruct (str_eq_dec k n) as [->|Hne]; [|apply step3_frame; assumption].
      unfold step3. destruct (o_recursive o); [|reflexivity].
      destruct Hk as [Hk|[_ Hk]]; [rewrite Hk; reflexivity|].
      destruct (alookup n sdir) as [[c m|ses]|]; try reflexivity.
      destruct (alookup n d) as [[c2 m2|des]|] eqn:El; try (simpl; congruence). }
    destruct (run_steps (step1 cf o sdir) (of_cls frepr cf deep sdir ddir LeftOnly) ddir) as [d1 e1] eqn:E1.
    assert (P1 : P d1).
    { replace d1 with (fst (run_steps (step1 cf o sdir) (of_cls frepr cf deep sdir ddir LeftOnly) ddir))
        by (rewrite E1; reflexivity). apply run_steps_preserve; [assumption|reflexivity]. }
    destruct e1; [exact P1|].
    destruct (run_steps (step2 cf o sdir subdir) (of_cls frepr cf deep sdir ddir Diff) d1) as [d2 e2] eqn:E2.
    assert (P2 : P d2).
    { replace d2 with (fst (run_steps (step2 cf o sdir subdir) (of_cls frepr cf deep sdir ddir Diff) d1))
        by (rewrite E2; reflexivity). apply run_steps_preserve; assumption. }
    destruct e2; [exact P2|].
    destruct (funny_err frepr cf o deep sdir ddir); [exact P2|].
    apply run_steps_preserve; assumption.
  Qed.

  (* the same with the side condition on the source entry *)
  Lemma sync_ws_untouched_src : forall fuel o deep sdir ddir subdir k,
    alookup k sdir = None \/ (excluded o k = true /\ forall es, alookup k sdir <> Some (Dir es)) ->
    alookup k (fst (sync_ws frepr cf fuel o deep sdir ddir subdir)) = alookup k ddir.
  Proof.
    destruct fuel as [|fuel]; intros o deep sdir ddir subdir k Hk; [reflexivity|].
    rewrite sync_ws_S.
    set (P := fun d : dir => alookup k d = alookup k ddir).
    assert (S1 : forall n d, P d -> P (fst (step1 cf o sdir n d))).
    { intros n d Hd. unfold P in *. rewrite <- Hd.
      destruct (str_eq_dec k n) as [->|Hne]; [|apply step1_frame; assumption].
      unfold step1. destruct Hk as [Hk|[Hk _]]; [|rewrite Hk; reflexivity].
      destruct (excluded o n); [reflexivity|]. rewrite Hk. reflexivity. }
    assert (S2 : forall n d, P d -> P (fst (step2 cf o sdir subdir n d))).
    { intros n d Hd. unfold P in *. rewrite <- Hd.
      destruct (str_eq_dec k n) as [->|Hne]; [|apply step2_frame; assumption].
      unfold step2. destruct Hk as [Hk|[Hk _]]; [|rewrite Hk; reflexivity].
      destruct (excluded o n); [reflexivity|]. rewrite Hk.
      destruct (o_strategy o); reflexivity. }
    assert (S3 : forall n d, P d -> P (fst (step3 (sync_ws frepr cf fuel (set_top o false) deep) o sdir subdir n d))).
    { intros n d Hd. unfold P in *. rewrite <- Hd.
      destruct (str_eq_dec k n) as [->|Hne]; [|apply step3_frame; assumption].
      unfold step3. destruct (o_recursive o); [|reflexivity].
      destruct Hk as [Hk|[_ Hk]]; [rewrite Hk; reflexivity|].
      destruct (alookup n sdir) as [[c m|ses]|] eqn:Es; try reflexivity.
      exfalso. apply (Hk ses). reflexivity. }
    destruct (run_steps (step1 cf o sdir) (of_cls frepr cf deep sdir ddir LeftOnly) ddir) as [d1 e1] eqn:E1.
    assert (P1 : P d1).
    { replace d1 with (fst (run_steps (step1 cf o sdir) (of_cls frepr cf deep sdir ddir LeftOnly) ddir))
        by (rewrite E1; reflexivity). apply run_steps_preserve; [assumption|reflexivity]. }
    destruct e1; [exact P1|].
    destruct (run_steps (step2 cf o sdir subdir) (of_cls frepr cf deep sdir ddir Diff) d1) as [d2 e2] eqn:E2.
    assert (P2 : P d2).
    { replace d2 with (fst (run_steps (step2 cf o sdir subdir) (of_cls frepr cf deep sdir ddir Diff) d1))
        by (rewrite E2; reflexivity). apply run_steps_preserve; assumption. }
    destruct e2; [exact P2|].
    destruct (funny_err frepr cf o deep sdir ddir); [exact P2|].
    apply run_steps_preserve; assumption.
  Qed.
End Walk2.

Section Walk3.
  Variable frepr : fl -> str.
  Variable cf : cfg.
  Notation excluded := (excluded cf).

  Lemma copy_file_local : forall dry n c d d', alookup n d = alookup n d' ->
    alookup n (fst (copy_file cf dry n c d)) = alookup n (fst (copy_file cf dry n c d'))
    /\ snd (copy_file cf dry n c d) = snd (copy_file cf dry n c d').
  Proof.
    intros. unfold copy_file. destruct dry; [destruct (fix_F3 cf); simpl; auto|].
    simpl. rewrite !alookup_aset_same. auto.
  Qed.

  Lemma copy_tree_gen_local : forall pr dry n x d d', alookup n d = alookup n d' ->
    alookup n (fst (copy_tree_gen cf pr dry n x d)) = alookup n (fst (copy_tree_gen cf pr dry n x d'))
    /\ snd (copy_tree_gen cf pr dry n x d) = snd (copy_tree_gen cf pr dry n x d').
  Proof.
    intros. unfold copy_tree_gen. destruct dry.
    - destruct (fix_F4 cf); [simpl; auto|].
      destruct (skel_node cf (if fix_excl cf then pr x else x)) as [s r]. simpl.
      rewrite !alookup_app, H. auto.
    - simpl. rewrite !alookup_app, H. auto.
  Qed.

  Lemma copy_tree_local : forall ex dry n x d d', alookup n d = alookup n d' ->
    alookup n (fst (copy_tree cf ex dry n x d)) = alookup n (fst (copy_tree cf ex dry n x d'))
    /\ snd (copy_tree cf ex dry n x d) = snd (copy_tree cf ex dry n x d').
  Proof. intros. apply copy_tree_gen_local. assumption. Qed.

  Lemma step1_local : forall o sdir, local_step (fun n => n) (step1 cf o sdir).
  Proof.
    intros o sdir n d d' H. unfold step1. destruct (excluded o n); [simpl; auto|].
    destruct (alookup n sdir) as [[c m|es]|]; simpl; auto.
    - apply copy_file_local. assumption.
    - destruct (o_recursive o); [|simpl; auto]. apply copy_tree_local. assumption.
  Qed.

  Lemma step2_local : forall o sdir subdir, local_step (fun n => n) (step2 cf o sdir subdir).
  Proof.
    intros o sdir subdir n d d' H. unfold step2. destruct (excluded o n); [simpl; auto|].
    destruct (o_strategy o) as [s|]; [|simpl; auto].
    destruct (alookup n sdir) as [[c m|es]|]; simpl; auto.
    rewrite <- H.
    destruct (alookup n d) as [[c2 m2|es]|] eqn:E; simpl; try (split; congruence).
    destruct (verdict s (join subdir n) m m2); [|simpl; split; congruence].
    apply copy_file_local. congruence.
  Qed.

  Lemma step3_local : forall rec o sdir subdir, local_step (fun n => n) (step3 rec o sdir subdir).
  Proof.
    intros rec o sdir subdir n d d' H. unfold step3. destruct (o_recursive o); [|simpl; auto].
    destruct (alookup n sdir) as [[c m|ses]|]; simpl; auto.
    rewrite <- H.
    destruct (alookup n d) as [[c2 m2|des]|] eqn:E; simpl; try (split; congruence).
    destruct (rec ses des (join subdir n)) as [des' e]. simpl. rewrite !alookup_aset_same. auto.
  Qed.

  (* the entry of a name after a successful walk of one directory level is what the loop body of its class
     makes of the entry before the walk *)
  Definition class_step (fuel : nat) (o : opts) (deep : bool) (sdir ddir : dir) (subdir n : str) : wstate :=
    match classify frepr deep n sdir ddir with
    | LeftOnly => step1 cf o sdir n ddir
    | Diff => step2 cf o sdir subdir n ddir
    | SubDir => step3 (sync_ws frepr cf fuel (set_top o false) deep) o sdir subdir n ddir
    | _ => (ddir, None)
    end.

  Lemma cls_neq_notin : forall deep sdir ddir c n,
    classify frepr deep n sdir ddir <> c -> ~ In n (map (fun x : str => x) (of_cls frepr cf deep sdir ddir c)).
  Proof. intros. rewrite map_id. rewrite of_cls_In. tauto. Qed.

  Lemma sync_ws_at : forall fuel o deep sdir ddir subdir d' n,
    NoDup (map fst sdir) -> In n (names cf sdir) ->
    sync_ws frepr cf (S fuel) o deep sdir ddir subdir = (d', None) ->
    alookup n d' = alookup n (fst (class_step fuel o deep sdir ddir subdir n))
    /\ snd (class_step fuel o deep sdir ddir subdir n) = None.
  Proof.
    intros fuel o deep sdir ddir subdir d' n Hnd Hin Hrun. rewrite sync_ws_S in Hrun.
    set (L1 := of_cls frepr cf deep sdir ddir LeftOnly) in *.
    set (L2 := of_cls frepr cf deep sdir ddir Diff) in *.
    set (L3 := of_cls frepr cf deep sdir ddir SubDir) in *.
    set (rec := sync_ws frepr cf fuel (set_top o false) deep) in *.
    destruct (run_steps (step1 cf o sdir) L1 ddir) as [d1 e1] eqn:E1.
    destruct e1 as [x|]; [discriminate|].
    destruct (run_steps (step2 cf o sdir subdir) L2 d1) as [d2 e2] eqn:E2.
    destruct e2 as [x|]; [discriminate|].
    destruct (funny_err frepr cf o deep sdir ddir) eqn:Efun; [discriminate|].
    assert (N1 : NoDup (map (fun x : str => x) L1)) by (rewrite map_id; apply of_cls_NoDup; assumption).
    assert (N2 : NoDup (map (fun x : str => x) L2)) by (rewrite map_id; apply of_cls_NoDup; assumption).
    assert (N3 : NoDup (map (fun x : str => x) L3)) by (rewrite map_id; apply of_cls_NoDup; assumption).
    assert (F1 : forall k, ~ In k (map (fun x : str => x) L1) -> alookup k d1 = alookup k ddir).
    { intros k Hk. replace d1 with (fst (run_steps (step1 cf o sdir) L1 ddir)) by (rewrite E1; reflexivity).
      apply (run_steps_frame _ (fun x => x)); [apply step1_frame|assumption]. }
    assert (F2 : forall k, ~ In k (map (fun x : str => x) L2) -> alookup k d2 = alookup k d1).
    { intros k Hk. replace d2 with (fst (run_steps (step2 cf o sdir subdir) L2 d1)) by (rewrite E2; reflexivity).
      apply (run_steps_frame _ (fun x => x)); [apply step2_frame|assumption]. }
    assert (F3 : forall k, ~ In k (map (fun x : str => x) L3) -> alookup k d' = alookup k d2).
    { intros k Hk. replace d' with (fst (run_steps (step3 rec o sdir subdir) L3 d2)) by (rewrite Hrun; reflexivity).
      apply (run_steps_frame _ (fun x => x)); [apply step3_frame|assumption]. }
    unfold class_step. fold rec.
    destruct (classify frepr deep n sdir ddir) eqn:Ec.
    - (* LeftOnly *)
      assert (Hi : In n L1) by (apply of_cls_In; auto).
      destruct (run_steps_ok_at _ (fun x => x) _ (step1_frame cf o sdir) (step1_local o sdir) L1 ddir n N1 Hi)
        as [H1 H2]; [rewrite E1; reflexivity|].
      rewrite E1 in H1. simpl in H1.
      rewrite F3, F2, H1 by (apply cls_neq_notin; congruence). auto.
    - rewrite F3, F2, F1 by (apply cls_neq_notin; congruence). auto.
    - (* Diff *)
      assert (Hi : In n L2) by (apply of_cls_In; auto).
      destruct (run_steps_ok_at _ (fun x => x) _ (step2_frame cf o sdir subdir) (step2_local o sdir subdir) L2 d1 n N2 Hi)
        as [H1 H2]; [rewrite E2; reflexivity|].
      rewrite E2 in H1. simpl in H1.
      assert (Hd : alookup n d1 = alookup n ddir) by (apply F1; apply cls_neq_notin; congruence).
      destruct (step2_local o sdir subdir n d1 ddir Hd) as [H3 H4].
      rewrite F3, H1, H3 by (apply cls_neq_notin; congruence). rewrite <- H4. auto.
    - (* SubDir *)
      assert (Hi : In n L3) by (apply of_cls_In; auto).
      destruct (run_steps_ok_at _ (fun x => x) _ (step3_frame rec o sdir subdir) (step3_local rec o sdir subdir) L3 d2 n N3 Hi)
        as [H1 H2]; [rewrite Hrun; reflexivity|].
      rewrite Hrun in H1. simpl in H1.
      assert (Hd : alookup n d2 = alookup n ddir).
      { rewrite F2, F1 by (apply cls_neq_notin; congruence). reflexivity. }
      destruct (step3_local rec o sdir subdir n d2 ddir Hd) as [H3 H4].
      rewrite H1, H3. rewrite <- H4. auto.
    - rewrite F3, F2, F1 by (apply cls_neq_notin; congruence). auto.
  Qed.
End Walk3.

Lemma run_steps_at_or : forall (f : str -> dir -> wstate),
  frame_step (fun n => n) f -> local_step (fun n => n) f ->
  forall l d k, NoDup l ->
    alookup k (fst (run_steps f l d)) = alookup k d
    \/ (In k l /\ alookup k (fst (run_steps f l d)) = alookup k (fst (f k d))).
Proof.
  intros f Hf Hl. induction l as [|y l IH]; simpl; intros d k Hnd; [auto|].
  inversion Hnd as [|? ? Hny Hnd']; subst.
  destruct (f y d) as [d' [e|]] eqn:E.
  - simpl. destruct (str_eq_dec k y) as [->|Hne].
    + right. rewrite E. auto.
    + left. replace d' with (fst (f y d)) by (rewrite E; reflexivity). apply Hf. assumption.
  - destruct (str_eq_dec k y) as [->|Hne].
    + right. split; [auto|]. rewrite (run_steps_frame _ (fun n => n) f Hf) by (rewrite map_id; assumption).
      rewrite E. reflexivity.
    + assert (Hd : alookup k d' = alookup k d).
      { replace d' with (fst (f y d)) by (rewrite E; reflexivity). apply Hf. assumption. }
      destruct (IH d' k Hnd') as [H|[Hin H]].
      * left. congruence.
      * right. split; [auto|]. rewrite H. apply (Hl k d' d Hd).
Qed.

Section Walk4.
  Variable frepr : fl -> str.
  Variable cf : cfg.
  Notation excluded := (excluded cf).

  (* whatever the outcome (also when an exception stops the walk half-way), the entry of a name is either
     what it was or what the loop body of its class makes of it *)
  Lemma sync_ws_at_any : forall fuel o deep sdir ddir subdir n,
    NoDup (map fst sdir) ->
    let d' := fst (sync_ws frepr cf (S fuel) o deep sdir ddir subdir) in
    alookup n d' = alookup n ddir
    \/ (In n (names cf sdir) /\ alookup n d' = alookup n (fst (class_step frepr cf fuel o deep sdir ddir subdir n))).
  Proof.
    intros fuel o deep sdir ddir subdir n Hnd. cbv zeta. rewrite sync_ws_S.
    set (L1 := of_cls frepr cf deep sdir ddir LeftOnly) in *.
    set (L2 := of_cls frepr cf deep sdir ddir Diff) in *.
    set (L3 := of_cls frepr cf deep sdir ddir SubDir) in *.
    set (rec := sync_ws frepr cf fuel (set_top o false) deep) in *.
    assert (N1 : NoDup L1) by (apply of_cls_NoDup; assumption).
    assert (N2 : NoDup L2) by (apply of_cls_NoDup; assumption).
    assert (N3 : NoDup L3) by (apply of_cls_NoDup; assumption).
    pose proof (run_steps_at_or _ (step1_frame cf o sdir) (step1_local cf o sdir) L1 ddir n N1) as A1.
    destruct (run_steps (step1 cf o sdir) L1 ddir) as [d1 e1] eqn:E1. simpl in A1.
    assert (B1 : alookup n d1 = alookup n ddir
                 \/ (In n (names cf sdir) /\ alookup n d1 = alookup n (fst (class_step frepr cf fuel o deep sdir ddir subdir n)))).
    { destruct A1 as [A1|[Hin A1]]; [auto|]. right. apply of_cls_In in Hin. destruct Hin as [Hin Hc].
      split; [assumption|]. unfold class_step. rewrite Hc. assumption. }
    destruct e1 as [x|]; [exact B1|].
    pose proof (run_steps_at_or _ (step2_frame cf o sdir subdir) (step2_local cf o sdir subdir) L2 d1 n N2) as A2.
    destruct (run_steps (step2 cf o sdir subdir) L2 d1) as [d2 e2] eqn:E2. simpl in A2.
    assert (B2 : alookup n d2 = alookup n ddir
                 \/ (In n (names cf sdir) /\ alookup n d2 = alookup n (fst (class_step frepr cf fuel o deep sdir ddir subdir n)))).
    { destruct A2 as [A2|[Hin A2]]; [rewrite A2; exact B1|].
      apply of_cls_In in Hin. destruct Hin as [Hin Hc].
      assert (Hd : alookup n d1 = alookup n ddir).
      { replace d1 with (fst (run_steps (step1 cf o sdir) L1 ddir)) by (rewrite E1; reflexivity).
        apply (run_steps_frame _ (fun x => x)); [apply step1_frame|]. apply cls_neq_notin. congruence. }
      right. split; [assumption|]. unfold class_step. rewrite Hc, A2.
      apply (step2_local cf o sdir subdir n d1 ddir Hd). }
    destruct e2 as [x|]; [exact B2|].
    destruct (funny_err frepr cf o deep sdir ddir); [exact B2|].
    pose proof (run_steps_at_or _ (step3_frame rec o sdir subdir) (step3_local rec o sdir subdir) L3 d2 n N3) as A3.
    destruct A3 as [A3|[Hin A3]]; [rewrite A3; exact B2|].
    apply of_cls_In in Hin. destruct Hin as [Hin Hc].
    assert (Hd : alookup n d2 = alookup n ddir).
    { replace d2 with (fst (run_steps (step2 cf o sdir subdir) L2 d1)) by (rewrite E2; reflexivity).
      rewrite (run_steps_frame _ (fun x => x)); [|apply step2_frame|apply cls_neq_notin; congruence].
      replace d1 with (fst (run_steps (step1 cf o sdir) L1 ddir)) by (rewrite E1; reflexivity).
      apply (run_steps_frame _ (fun x => x)); [apply step1_frame|]. apply cls_neq_notin. congruence. }
    right. split; [assumption|]. unfold class_step. fold rec. rewrite Hc, A3.
    apply (step3_local rec o sdir subdir n d2 ddir Hd).
  Qed.
End Walk4.

(* ------------------------------------------------------------------ well-formed trees, touch, prune *)
Fixpoint wf_node (n : node) : bool :=
  match n with
  | File _ _ => true
  | Dir es => keys_distinct (map fst es)
              && (fix go (l : list (str * node)) : bool :=
                    match l with [] => true | (_, x) :: l' => wf_node x && go l' end) es
  end.

Lemma wf_dir_inv : forall es, wf_node (Dir es) = true ->
  NoDup (map fst es) /\ forall k x, alookup k es = Some x -> wf_node x = true.
Proof.
  intros es H. simpl in H. apply andb_true_iff in H. destruct H as [H1 H2].
  split; [apply keys_distinct_NoDup; assumption|].
  clear H1. induction es as [|[k' x'] es IH]; simpl; intros k x Hk; [discriminate|].
  apply andb_true_iff in H2. destruct H2 as [Hx Hes].
  destruct (str_eqb k k'); [inversion Hk; subst; assumption|]. eapply IH; eauto.
Qed.

Definition touch_list := (fix go (l : list (str * node)) : list (str * node) :=
                            match l with [] => [] | (k, x) :: l' => (k, touch x) :: go l' end).

Lemma touch_Dir : forall es, touch (Dir es) = Dir (touch_list es).
Proof. reflexivity. Qed.

Lemma alookup_touch_list : forall k es,
  alookup k (touch_list es) = match alookup k es with Some x => Some (touch x) | None => None end.
Proof.
  induction es as [|[k' x'] es IH]; simpl; auto. destruct (str_eqb k k'); auto.
Qed.

Lemma lookup_path_touch : forall p x,
  lookup_path p (touch x) = match lookup_path p x with Some y => Some (touch y) | None => None end.
Proof.
  induction p as [|k p IH]; intros x; simpl; auto.
  destruct x as [c m|es]; simpl; auto.
  change ((fix go (l : list (str * node)) : list (str * node) :=
             match l with [] => [] | (k, x) :: l' => (k, touch x) :: go l' end) es) with (touch_list es).
  rewrite alookup_touch_list. destruct (alookup k es); auto.
Qed.

Definition prune_list (ex : str -> bool) :=
  (fix go (l : list (str * node)) : list (str * node) :=
     match l with [] => [] | (k, x) :: l' => if ex k then go l' else (k, prune ex x) :: go l' end).

Lemma alookup_prune_list : forall ex k es,
  alookup k (prune_list ex es) =
  if ex k then None else match alookup k es with Some x => Some (prune ex x) | None => None end.
Proof.
  induction es as [|[k' x'] es IH]; simpl; [destruct (ex k); reflexivity|].
  destruct (ex k') eqn:Ek'.
  - rewrite IH. destruct (str_eqb k k') eqn:E; [|reflexivity].
    apply str_eqb_eq in E. subst. rewrite Ek'. reflexivity.
  - simpl. destruct (str_eqb k k') eqn:E; [|apply IH].
    apply str_eqb_eq in E. subst. rewrite Ek'. reflexivity.
Qed.

(* a path all of whose components survive the pruning *)
Lemma lookup_path_prune_keep : forall ex p x,
  forallb (fun k => negb (ex k)) p = true ->
  lookup_path p (prune ex x) = match lookup_path p x with Some y => Some (prune ex y) | None => None end.
Proof.
  induction p as [|k p IH]; intros x Hp; simpl; auto.
  simpl in Hp. apply andb_true_iff in Hp. destruct Hp as [Hk Hp]. apply negb_true_iff in Hk.
  destruct x as [c m|es]; simpl; auto.
  change ((fix go (l : list (str * node)) : list (str * node) :=
             match l with [] => [] | (k, x) :: l' => if ex k then go l' else (k, prune ex x) :: go l' end) es)
    with (prune_list ex es).
  rewrite alookup_prune_list, Hk. destruct (alookup k es); auto.
Qed.

(* nothing with an excluded name survives it *)
Lemma lookup_path_prune_excl : forall ex p x, p <> [] -> ex (last p []) = true -> lookup_path p (prune ex x) = None.
Proof.
  induction p as [|k p IH]; intros x Hne Hl; [congruence|].
  simpl. destruct x as [c m|es]; simpl; auto.
  change ((fix go (l : list (str * node)) : list (str * node) :=
             match l with [] => [] | (k, x) :: l' => if ex k then go l' else (k, prune ex x) :: go l' end) es)
    with (prune_list ex es).
  rewrite alookup_prune_list. destruct (ex k) eqn:Ek; auto.
  destruct (alookup k es) as [y|]; auto.
  destruct p as [|k2 p]; [simpl in Hl; congruence|].
  apply IH; [discriminate|]. exact Hl.
Qed.

Lemma lookup_path_file_below : forall p c m, p <> [] -> lookup_path p (File c m) = None.
Proof. destruct p; [congruence|reflexivity]. Qed.

Lemma lookup_path_cons : forall k p es,
  lookup_path (k :: p) (Dir es) = match alookup k es with Some x => lookup_path p x | None => None end.
Proof. reflexivity. Qed.

Section Walk5.
  Variable frepr : fl -> str.
  Variable cf : cfg.
  Notation excluded := (excluded cf).
  Notation sync_ws := (sync_ws frepr cf).

  Lemma classify_LeftOnly : forall deep n sdir ddir,
    classify frepr deep n sdir ddir = LeftOnly -> alookup n ddir = None.
  Proof.
    intros deep n sdir ddir. unfold classify.
    destruct (alookup n sdir) as [[c1 m1|ses]|]; destruct (alookup n ddir) as [[c2 m2|des]|]; try congruence.
    destruct (file_same frepr deep c1 m1 c2 m2); congruence.
  Qed.

  Lemma classify_Diff : forall deep n sdir ddir,
    classify frepr deep n sdir ddir = Diff ->
    exists c1 m1 c2 m2, alookup n sdir = Some (File c1 m1) /\ alookup n ddir = Some (File c2 m2)
                        /\ file_same frepr deep c1 m1 c2 m2 = false.
  Proof.
    intros deep n sdir ddir. unfold classify.
    destruct (alookup n sdir) as [[c1 m1|ses]|]; destruct (alookup n ddir) as [[c2 m2|des]|]; try congruence.
    destruct (file_same frepr deep c1 m1 c2 m2) eqn:E; try congruence. intros _. eauto 10.
  Qed.

  Lemma classify_SubDir : forall deep n sdir ddir,
    classify frepr deep n sdir ddir = SubDir ->
    exists ses des, alookup n sdir = Some (Dir ses) /\ alookup n ddir = Some (Dir des).
  Proof.
    intros deep n sdir ddir. unfold classify.
    destruct (alookup n sdir) as [[c1 m1|ses]|]; destruct (alookup n ddir) as [[c2 m2|des]|]; try congruence.
    - destruct (file_same frepr deep c1 m1 c2 m2); congruence.
    - eauto.
  Qed.

  Lemma step3_SubDir : forall rec o sdir subdir n d ses des,
    alookup n sdir = Some (Dir ses) -> alookup n d = Some (Dir des) ->
    step3 rec o sdir subdir n d =
    if o_recursive o then (aset n (Dir (fst (rec ses des (join subdir n)))) d, snd (rec ses des (join subdir n)))
    else (d, None).
  Proof.
    intros. unfold step3. rewrite H, H0. destruct (o_recursive o); [|reflexivity].
    destruct (rec ses des (join subdir n)); reflexivity.
  Qed.

  (* C13: whatever exists only in the destination is left alone — also when the call ends in an exception *)
  Theorem ws_dst_only : forall p fuel o deep sdir ddir subdir,
    wf_node (Dir sdir) = true ->
    lookup_path p (Dir sdir) = None -> lookup_path p (Dir ddir) <> None ->
    lookup_path p (Dir (fst (sync_ws fuel o deep sdir ddir subdir))) = lookup_path p (Dir ddir).
  Proof.
    induction p as [|n p IH]; intros fuel o deep sdir ddir subdir Hwf Hs Hd; [simpl in Hs; discriminate|].
    destruct (wf_dir_inv _ Hwf) as [Hnd Hsub].
    destruct fuel as [|fuel]; [reflexivity|].
    rewrite !lookup_path_cons in *.
    destruct (sync_ws_at_any frepr cf fuel o deep sdir ddir subdir n Hnd) as [H|[Hin H]]; rewrite H; [reflexivity|].
    unfold class_step.
    destruct (classify frepr deep n sdir ddir) eqn:Ec; try reflexivity.
    - apply classify_LeftOnly in Ec. rewrite Ec in Hd. congruence.
    - apply classify_Diff in Ec. destruct Ec as (c1 & m1 & c2 & m2 & E1 & E2 & _).
      rewrite E1 in Hs. rewrite E2 in Hd.
      destruct p as [|k p]; [simpl in Hs; discriminate|]. simpl in Hd. congruence.
    - apply classify_SubDir in Ec. destruct Ec as (ses & des & E1 & E2).
      rewrite (step3_SubDir _ _ _ _ _ _ ses des E1 E2). rewrite E1 in Hs. rewrite E2 in *.
      destruct (o_recursive o); simpl; [|rewrite E2; reflexivity].
      rewrite alookup_aset_same.
      destruct p as [|k p]; [simpl in Hs; discriminate|].
      apply IH; auto. eapply Hsub; eauto.
  Qed.

  (* C14: without a strategy no file of the destination is modified, whatever the outcome *)
  Theorem ws_no_strategy_files_kept : forall p fuel o deep sdir ddir subdir c m,
    wf_node (Dir sdir) = true -> o_strategy o = None ->
    lookup_path p (Dir ddir) = Some (File c m) ->
    lookup_path p (Dir (fst (sync_ws fuel o deep sdir ddir subdir))) = Some (File c m).
  Proof.
    induction p as [|n p IH]; intros fuel o deep sdir ddir subdir c m Hwf Hs Hd; [simpl in Hd; discriminate|].
    destruct (wf_dir_inv _ Hwf) as [Hnd Hsub].
    destruct fuel as [|fuel]; [assumption|].
    rewrite !lookup_path_cons in *.
    destruct (sync_ws_at_any frepr cf fuel o deep sdir ddir subdir n Hnd) as [H|[Hin H]]; rewrite H; [assumption|].
    unfold class_step.
    destruct (classify frepr deep n sdir ddir) eqn:Ec; try assumption.
    - apply classify_LeftOnly in Ec. rewrite Ec in Hd. discriminate.
    - unfold step2. rewrite Hs. destruct (excluded o n); assumption.
    - apply classify_SubDir in Ec. destruct Ec as (ses & des & E1 & E2).
      rewrite (step3_SubDir _ _ _ _ _ _ ses des E1 E2). rewrite E2 in *.
      destruct (o_recursive o); simpl; [|rewrite E2; assumption].
      rewrite alookup_aset_same. apply IH; auto. eapply Hsub; eauto.
  Qed.
End Walk5.

(* the path, relative to the job, that the strategy is called with *)
Fixpoint rel (subdir : str) (p : path) : str :=
  match p with [] => subdir | n :: p' => rel (join subdir n) p' end.

(* the options as the walk sees them at path p: below the top level the job's own names are ordinary names *)
Definition at_path (o : opts) (p : path) : opts :=
  match p with [_] => o | _ => set_top o false end.

Lemma at_path_cons : forall o k p, at_path (set_top o false) (k :: p) = set_top o false.
Proof. intros. destruct p; reflexivity. Qed.

Section Walk6.
  Variable frepr : fl -> str.
  Variable cf : cfg.
  Notation excluded := (excluded cf).
  Notation sync_ws := (sync_ws frepr cf).

  Lemma classify_files : forall deep n sdir ddir c1 m1 c2 m2,
    alookup n sdir = Some (File c1 m1) -> alookup n ddir = Some (File c2 m2) ->
    classify frepr deep n sdir ddir = if file_same frepr deep c1 m1 c2 m2 then Same else Diff.
  Proof. intros. unfold classify. rewrite H, H0. reflexivity. Qed.

  Lemma classify_dirs : forall deep n sdir ddir ses des,
    alookup n sdir = Some (Dir ses) -> alookup n ddir = Some (Dir des) ->
    classify frepr deep n sdir ddir = SubDir.
  Proof. intros. unfold classify. rewrite H, H0. reflexivity. Qed.

  Lemma in_names : forall n sdir x, alookup n sdir = Some x -> ignored cf n = false -> In n (names cf sdir).
  Proof. intros. apply names_In. split; [eapply alookup_Some_In_fst; eauto|assumption]. Qed.

  Lemma lookup_below : forall k p x y, lookup_path (k :: p) x = Some y -> exists es, x = Dir es.
  Proof. intros k p [c m|es] y H; [simpl in H; discriminate|eauto]. Qed.

  (* C14: after a successful real run a differing file has the source content iff the strategy said so *)
  Theorem ws_overwrite_iff : forall p fuel o deep sdir ddir subdir d' s c1 m1 c2 m2,
    wf_node (Dir sdir) = true -> o_dry_run o = false -> o_strategy o = Some s ->
    sync_ws fuel o deep sdir ddir subdir = (d', None) ->
    lookup_path p (Dir sdir) = Some (File c1 m1) -> lookup_path p (Dir ddir) = Some (File c2 m2) ->
    (o_recursive o = true \/ length p = 1%nat) ->
    forallb (fun k => negb (ignored cf k)) p = true -> excluded (at_path o p) (last p []) = false ->
    file_same frepr deep c1 m1 c2 m2 = false ->
    lookup_path p (Dir d') = Some (if verdict s (rel subdir p) m1 m2 then File c1 NOW else File c2 m2).
  Proof.
    induction p as [|n p IH]; intros fuel o deep sdir ddir subdir d' s c1 m1 c2 m2
                                      Hwf Hdry Hs Hrun Hps Hpd Hreach Hign Hex Hdiff; [simpl in Hps; discriminate|].
    destruct (wf_dir_inv _ Hwf) as [Hnd Hsub].
    destruct fuel as [|fuel]; [simpl in Hrun; discriminate|].
    simpl in Hign. apply andb_true_iff in Hign. destruct Hign as [Hn Hign]. apply negb_true_iff in Hn.
    rewrite !lookup_path_cons in *.
    destruct (alookup n sdir) as [xs|] eqn:Es; [|discriminate].
    destruct (alookup n ddir) as [xd|] eqn:Ed; [|discriminate].
    destruct (sync_ws_at frepr cf fuel o deep sdir ddir subdir d' n Hnd (in_names _ _ _ Es Hn) Hrun) as [H1 H2].
    rewrite H1. unfold class_step in *.
    destruct p as [|k p].
    - simpl in Hps, Hpd, Hex. inversion Hps; inversion Hpd; subst. clear Hps Hpd.
      rewrite (classify_files deep n sdir ddir c1 m1 c2 m2 Es Ed), Hdiff in *.
      unfold step2 in *. rewrite Hex, Hs, Es, Ed in *. simpl.
      destruct (verdict s (join subdir n) m1 m2).
      + unfold copy_file. rewrite Hdry. simpl. rewrite alookup_aset_same. reflexivity.
      + simpl. rewrite Ed. reflexivity.
    - destruct (lookup_below _ _ _ _ Hps) as [ses ->]. destruct (lookup_below _ _ _ _ Hpd) as [des ->].
      rewrite (classify_dirs deep n sdir ddir ses des Es Ed) in *.
      rewrite (step3_SubDir _ _ _ _ _ _ ses des Es Ed) in *.
      assert (Hrec : o_recursive o = true) by (destruct Hreach as [?|Hl]; [assumption|simpl in Hl; discriminate]).
      rewrite Hrec in *. simpl in H2. simpl. rewrite alookup_aset_same.
      destruct (sync_ws fuel (set_top o false) deep ses des (join subdir n)) as [des' e'] eqn:Er. simpl in H2. subst e'. simpl.
      apply (IH fuel (set_top o false) deep ses des (join subdir n) des' s c1 m1 c2 m2); auto.
      + eapply Hsub; eauto.
      + rewrite at_path_cons. exact Hex.
  Qed.

  (* C14: without a strategy a differing, non-excluded file at the top level makes the real run raise
     FileSyncConflict (copying the left-only entries never fails in a real run) *)
  Lemma run_steps_err : forall A (f : A -> dir -> wstate) e l d x,
    In x l -> (forall d0, snd (f x d0) = Some e) ->
    (forall y d0, snd (f y d0) = None \/ snd (f y d0) = Some e) ->
    snd (run_steps f l d) = Some e.
  Proof.
    induction l as [|y l IH]; simpl; intros d x Hin Hx Hall; [tauto|].
    destruct (f y d) as [d' [e'|]] eqn:E.
    - destruct (Hall y d) as [H|H]; rewrite E in H; simpl in H; [discriminate|]. simpl. assumption.
    - destruct Hin as [->|Hin]; [specialize (Hx d); rewrite E in Hx; discriminate|]. eapply IH; eauto.
  Qed.

  Lemma step1_real_ok : forall o sdir n d, o_dry_run o = false -> snd (step1 cf o sdir n d) = None.
  Proof.
    intros. unfold step1. destruct (excluded o n); [reflexivity|].
    destruct (alookup n sdir) as [[c m|es]|]; try reflexivity.
    - unfold copy_file. rewrite H. reflexivity.
    - destruct (o_recursive o); [|reflexivity]. unfold copy_tree, copy_tree_gen. rewrite H. reflexivity.
  Qed.

  Lemma run_steps_all_none : forall A (f : A -> dir -> wstate) l d,
    (forall x d0, snd (f x d0) = None) -> snd (run_steps f l d) = None.
  Proof.
    induction l as [|y l IH]; simpl; intros d H; [reflexivity|].
    destruct (f y d) as [d' [e'|]] eqn:E; [specialize (H y d); rewrite E in H; discriminate|]. apply IH; auto.
  Qed.

  Theorem ws_no_strategy_raises : forall fuel o deep sdir ddir subdir n c1 m1 c2 m2,
    o_dry_run o = false -> o_strategy o = None ->
    alookup n sdir = Some (File c1 m1) -> alookup n ddir = Some (File c2 m2) ->
    ignored cf n = false -> excluded o n = false -> file_same frepr deep c1 m1 c2 m2 = false ->
    snd (sync_ws (S fuel) o deep sdir ddir subdir) = Some EFileSyncConflict.
  Proof.
    intros fuel o deep sdir ddir subdir n c1 m1 c2 m2 Hdry Hs Es Ed Hn Hex Hdiff.
    rewrite sync_ws_S.
    destruct (run_steps (step1 cf o sdir) (of_cls frepr cf deep sdir ddir LeftOnly) ddir) as [d1 e1] eqn:E1.
    assert (He1 : e1 = None).
    { replace e1 with (snd (run_steps (step1 cf o sdir) (of_cls frepr cf deep sdir ddir LeftOnly) ddir))
        by (rewrite E1; reflexivity). apply run_steps_all_none. intros. apply step1_real_ok. assumption. }
    subst e1.
    assert (He2 : snd (run_steps (step2 cf o sdir subdir) (of_cls frepr cf deep sdir ddir Diff) d1) = Some EFileSyncConflict).
    { apply (run_steps_err _ _ _ _ _ n).
      - apply of_cls_In. split; [eapply in_names; eauto|].
        rewrite (classify_files deep n sdir ddir c1 m1 c2 m2 Es Ed), Hdiff. reflexivity.
      - intro d0. unfold step2. rewrite Hex, Hs. reflexivity.
      - intros y d0. unfold step2. rewrite Hs. destruct (excluded o y); auto. }
    destruct (run_steps (step2 cf o sdir subdir) (of_cls frepr cf deep sdir ddir Diff) d1) as [d2 e2].
    simpl in He2. subst e2. reflexivity.
  Qed.
End Walk6.

Section Walk7.
  Variable frepr : fl -> str.
  Variable cf : cfg.
  Notation excluded := (excluded cf).
  Notation sync_ws := (sync_ws frepr cf).

  (* below the top level the walk skips exactly what copytree's ignore function skips *)
  Lemma excluded_below : forall o n, excluded (set_top o false) n = tree_excl cf o n.
  Proof.
    intros. unfold Sync.excluded, tree_excl. destruct (fix_own cf); [|reflexivity].
    cbn [o_top set_top o_exclude]. rewrite orb_false_r. reflexivity.
  Qed.

  Lemma lookup_snoc_new : forall n (x : node) d p, alookup n d = None ->
    lookup_path (n :: p) (Dir (d ++ [(n, x)])) = lookup_path p x.
  Proof.
    intros. rewrite lookup_path_cons, alookup_app, H. simpl. rewrite str_eqb_refl. reflexivity.
  Qed.

  (* C15: a file whose name matches an exclude pattern (user pattern or the two implicit ones) is neither
     created nor modified by the file walk of a real run — provided copytree honours the patterns
     (fix_excl); in /repo it does not, see C15_exclude_never_touched_refuted *)
  Theorem ws_exclude_never_touched :
    forall p fuel o deep sdir ddir subdir,
    fix_excl cf = true \/ o_recursive o = false ->
    wf_node (Dir sdir) = true -> o_dry_run o = false ->
    p <> [] -> excluded (at_path o p) (last p []) = true ->
    (forall es, lookup_path p (Dir ddir) <> Some (Dir es)) ->
    lookup_path p (Dir (fst (sync_ws fuel o deep sdir ddir subdir))) = lookup_path p (Dir ddir).
  Proof.
    induction p as [|n p IH]; intros fuel o deep sdir ddir subdir Hfx Hwf Hdry Hne Hex Hd; [congruence|].
    destruct (wf_dir_inv _ Hwf) as [Hnd Hsub].
    destruct fuel as [|fuel]; [reflexivity|].
    destruct p as [|k p].
    - simpl in Hex. rewrite !lookup_path_cons.
      rewrite sync_ws_untouched; [reflexivity|]. right. split; [assumption|].
      intros es He. apply (Hd es). rewrite lookup_path_cons, He. reflexivity.
    - rewrite !lookup_path_cons in *.
      destruct (sync_ws_at_any frepr cf fuel o deep sdir ddir subdir n Hnd) as [H|[Hin H]]; rewrite H; [reflexivity|].
      unfold class_step.
      destruct (classify frepr deep n sdir ddir) eqn:Ec; try reflexivity.
      + (* LeftOnly *)
        apply classify_LeftOnly in Ec. rewrite Ec. unfold step1.
        destruct (excluded o n); [simpl; rewrite Ec; reflexivity|].
        destruct (alookup n sdir) as [[c m|es]|]; try (simpl; rewrite Ec; reflexivity).
        * unfold copy_file. rewrite Hdry. simpl. rewrite alookup_aset_same. reflexivity.
        * destruct (o_recursive o); [|simpl; rewrite Ec; reflexivity].
          destruct Hfx as [Hfx|Hfx]; [|discriminate].
          unfold copy_tree, copy_tree_gen. rewrite Hdry, Hfx. cbn [fst].
          rewrite alookup_app, Ec. cbn [alookup]. rewrite str_eqb_refl.
          rewrite lookup_path_touch, lookup_path_prune_excl; [reflexivity|discriminate|].
          rewrite <- excluded_below. exact Hex.
      + (* Diff: files on both sides, nothing below them *)
        apply classify_Diff in Ec. destruct Ec as (c1 & m1 & c2 & m2 & E1 & E2 & _).
        unfold step2. rewrite E1, E2.
        assert (Hb : forall d0, alookup n d0 = Some (File c2 m2) \/ alookup n d0 = Some (File c1 NOW) ->
                                match alookup n d0 with Some x => lookup_path (k :: p) x | None => None end = None).
        { intros d0 [->| ->]; reflexivity. }
        destruct (excluded o n); [simpl; rewrite E2; reflexivity|].
        destruct (o_strategy o) as [s|]; [|simpl; rewrite E2; reflexivity].
        destruct (verdict s (join subdir n) m1 m2); [|simpl; rewrite E2; reflexivity].
        unfold copy_file. rewrite Hdry. simpl. rewrite alookup_aset_same. reflexivity.
      + (* SubDir *)
        apply classify_SubDir in Ec. destruct Ec as (ses & des & E1 & E2).
        rewrite (step3_SubDir _ _ _ _ _ _ ses des E1 E2). rewrite E2 in *.
        destruct (o_recursive o) eqn:Er; simpl; [|rewrite E2; reflexivity].
        assert (Hfx' : fix_excl cf = true \/ o_recursive o = false) by (destruct Hfx; [left; assumption|discriminate]).
        rewrite alookup_aset_same. apply IH; auto; [eapply Hsub; eauto|discriminate|rewrite at_path_cons; exact Hex].
  Qed.

  (* no path component is excluded: the first with the options of the level the walk starts at, the others
     with those below the top level *)
  Definition clear_path (o : opts) (p : path) : bool :=
    match p with
    | [] => true
    | n :: q => negb (excluded o n) && forallb (fun k => negb (excluded (set_top o false) k)) q
    end.

  Lemma sync_ws_ok_no_funny : forall fuel o deep sdir ddir subdir d',
    sync_ws (S fuel) o deep sdir ddir subdir = (d', None) -> funny_err frepr cf o deep sdir ddir = false.
  Proof.
    intros fuel o deep sdir ddir subdir d' H. rewrite sync_ws_S in H.
    destruct (run_steps (step1 cf o sdir) (of_cls frepr cf deep sdir ddir LeftOnly) ddir) as [d1 [x|]]; [discriminate|].
    destruct (run_steps (step2 cf o sdir subdir) (of_cls frepr cf deep sdir ddir Diff) d1) as [d2 [x|]]; [discriminate|].
    destruct (funny_err frepr cf o deep sdir ddir); [discriminate|reflexivity].
  Qed.

  (* a successful walk met no kind clash that was not excluded *)
  Lemma ok_funny_excluded : forall fuel o deep sdir ddir subdir d' n,
    fix_funny cf = true -> sync_ws (S fuel) o deep sdir ddir subdir = (d', None) ->
    In n (names cf sdir) -> classify frepr deep n sdir ddir = Funny -> excluded o n = true.
  Proof.
    intros fuel o deep sdir ddir subdir d' n Hf Hrun Hin Hc.
    pose proof (sync_ws_ok_no_funny _ _ _ _ _ _ _ Hrun) as Hno. unfold funny_err in Hno. rewrite Hf in Hno. simpl in Hno.
    destruct (excluded o n) eqn:Ex; [reflexivity|].
    assert (Hex : existsb (fun n0 => negb (excluded o n0)) (of_cls frepr cf deep sdir ddir Funny) = true).
    { apply existsb_exists. exists n. split; [apply of_cls_In; auto|rewrite Ex; reflexivity]. }
    congruence.
  Qed.

  (* C13: after a successful real run every reachable source file, on a path without excluded or
     ignored names, that was absent from the destination — nothing there, or something of the other kind at
     the path or on the way to it — is present with the same content (since 4239e5d a kind clash is a
     FileSyncConflict, so a successful run met none) *)
  Theorem ws_superset : forall p fuel o deep sdir ddir subdir d' c m,
    fix_funny cf = true ->
    wf_node (Dir sdir) = true -> o_dry_run o = false ->
    sync_ws fuel o deep sdir ddir subdir = (d', None) ->
    lookup_path p (Dir sdir) = Some (File c m) -> absent_in false p ddir = true ->
    (o_recursive o = true \/ length p = 1%nat) ->
    forallb (fun k => negb (ignored cf k)) p = true ->
    clear_path o p = true ->
    lookup_path p (Dir d') = Some (File c NOW).
  Proof.
    induction p as [|n p IH]; intros fuel o deep sdir ddir subdir d' c m
                                      Hfun Hwf Hdry Hrun Hps Habs Hreach Hign Hclr; [simpl in Hps; discriminate|].
    destruct (wf_dir_inv _ Hwf) as [Hnd Hsub].
    destruct fuel as [|fuel]; [simpl in Hrun; discriminate|].
    simpl in Hign. apply andb_true_iff in Hign. destruct Hign as [Hn Hign]. apply negb_true_iff in Hn.
    unfold clear_path in Hclr. apply andb_true_iff in Hclr. destruct Hclr as [Hcn Hclr].
    apply negb_true_iff in Hcn.
    rewrite !lookup_path_cons in *.
    destruct (alookup n sdir) as [xs|] eqn:Es; [|discriminate].
    pose proof (in_names _ _ _ _ Es Hn) as Hin.
    destruct (sync_ws_at frepr cf fuel o deep sdir ddir subdir d' n Hnd Hin Hrun) as [H1 H2].
    rewrite H1. unfold class_step in *.
    assert (NoFunny : classify frepr deep n sdir ddir <> Funny).
    { intro Hc. pose proof (ok_funny_excluded _ _ _ _ _ _ _ n Hfun Hrun Hin Hc). congruence. }
    destruct p as [|k p].
    - (* the file itself *)
      simpl in Hps. inversion Hps; subst xs. simpl in Habs.
      destruct (alookup n ddir) as [[c2 m2|des]|] eqn:Ed; [discriminate| |].
      + exfalso. apply NoFunny. unfold classify. rewrite Es, Ed. reflexivity.
      + assert (Ec : classify frepr deep n sdir ddir = LeftOnly) by (unfold classify; rewrite Es, Ed; reflexivity).
        rewrite Ec in *. unfold step1 in *. rewrite Hcn, Es in *.
        unfold copy_file. rewrite Hdry. cbn [fst]. rewrite alookup_aset_same. reflexivity.
    - destruct (lookup_below _ _ _ _ Hps) as [ses ->].
      assert (Hrec : o_recursive o = true) by (destruct Hreach as [?|Hl]; [assumption|simpl in Hl; discriminate]).
      change (absent_in false (n :: k :: p) ddir) with
        (match alookup n ddir with
         | None => true | Some (Dir d0) => absent_in false (k :: p) d0 | Some (File _ _) => true end) in Habs.
      destruct (alookup n ddir) as [[c2 m2|des]|] eqn:Ed.
      + exfalso. apply NoFunny. unfold classify. rewrite Es, Ed. reflexivity.
      + (* common directory *)
        rewrite (classify_dirs frepr deep n sdir ddir ses des Es Ed) in *.
        rewrite (step3_SubDir _ _ _ _ _ _ ses des Es Ed) in *.
        rewrite Hrec in *. cbn [fst snd] in *. rewrite alookup_aset_same.
        destruct (sync_ws fuel (set_top o false) deep ses des (join subdir n)) as [des' e'] eqn:Er. cbn [fst snd] in *. subst e'.
        apply (IH fuel (set_top o false) deep ses des (join subdir n) des' c m); auto;
          try (eapply Hsub; eauto); try (unfold clear_path; simpl in Hclr; exact Hclr).
      + (* left only: copied as a whole *)
        assert (Ec : classify frepr deep n sdir ddir = LeftOnly) by (unfold classify; rewrite Es, Ed; reflexivity).
        rewrite Ec in *. unfold step1 in *. rewrite Hcn, Es in *.
        rewrite Hrec in *. unfold copy_tree, copy_tree_gen. rewrite Hdry. cbn [fst].
        rewrite alookup_app, Ed. cbn [alookup]. rewrite str_eqb_refl.
        rewrite lookup_path_touch.
        destruct (fix_excl cf).
        * rewrite lookup_path_prune_keep; [rewrite Hps; reflexivity|].
          rewrite forallb_forall in Hclr. apply forallb_forall. intros x Hx.
          rewrite <- excluded_below. apply Hclr. exact Hx.
        * rewrite Hps. reflexivity.
  Qed.
End Walk7.
