(* C07OrderGen.v — Python's order on orderable labels of any shape (scalars, tuples of scalars for a
   multi-key groupby, list values, nested lists): the three facts the groupby proof needs
   (== is order-equality, the order flips, <= is transitive with a strict part), by induction on the value. *)
From SV Require Import Base Json PyVal PyValProofs PyEqEquiv Query Front C07Proofs C07Order.
From Coq Require Import Sorted.
Local Open Scope Z_scope.

(* labels: numbers, booleans, strings and (nested) lists of them; None and mappings are not orderable *)
Fixpoint ordv (v : json) : bool :=
  match v with
  | JArr l => forallb ordv l
  | JObj _ | JNull => false
  | _ => true
  end.

Lemma ordv_flatv : forall v, ordv v = true -> flatv v = true.
Proof.
  induction v using json_ind'; simpl; auto.
  intro Hl. rewrite forallb_forall in *. intros x Hx. rewrite Forall_forall in H. apply H; auto.
Qed.

Lemma scalar_ordv : forall v, scalar v = true -> ordv v = true.
Proof. destruct v; simpl; intro H; try discriminate; auto. Qed.

Lemma ordv_nonarr_scalar : forall v, ordv v = true -> (forall l, v <> JArr l) -> scalar v = true.
Proof. destruct v; simpl; intros H N; try discriminate; auto. exfalso. apply (N l). reflexivity. Qed.

(* the two list recursions of PyVal, as standalone functions *)
Fixpoint lex (x y : list json) : option comparison :=
  match x, y with
  | [], [] => Some Eq
  | [], _ :: _ => Some Lt
  | _ :: _, [] => Some Gt
  | p :: x', q :: y' => if py_eq p q then lex x' y' else py_order p q
  end.

Fixpoint eql (x y : list json) : bool :=
  match x, y with
  | [], [] => true
  | p :: x', q :: y' => py_eq p q && eql x' y'
  | _, _ => false
  end.

Lemma py_order_arr : forall x y, py_order (JArr x) (JArr y) = lex x y.
Proof. induction x as [|p x IH]; destruct y as [|q y]; simpl; auto; destruct (py_eq p q); auto. Qed.

Lemma py_eq_arr : forall x y, py_eq (JArr x) (JArr y) = eql x y.
Proof. induction x as [|p x IH]; destruct y as [|q y]; simpl; auto; f_equal; apply IH. Qed.

Lemma py_order_arr_l : forall x b c, py_order (JArr x) b = Some c -> exists y, b = JArr y.
Proof. intros x b c H. destruct b; simpl in H; try discriminate. eauto. Qed.

(* ---------- L2: order-equality is == ---------- *)
Lemma ord_eq_iff : forall a, ordv a = true -> forall b, ordv b = true ->
  (py_order a b = Some Eq <-> py_eq a b = true).
Proof.
  induction a using json_ind'; intros Oa v Ob; try discriminate.
  1-4: (destruct v; try discriminate;
        try (apply py_order_eq_py_eq; reflexivity);
        split; intro Hx; repeat match goal with x : fl |- _ => destruct x end; cbn in Hx; discriminate).
  (* a = JArr l *)
  destruct v as [| | | | |y|]; try discriminate;
    try (split; intro Hx; repeat match goal with x : fl |- _ => destruct x end; cbn in Hx; discriminate).
  rewrite py_order_arr, py_eq_arr. simpl in Oa, Ob.
  revert y Ob. induction l as [|p x IHx]; intros [|q y] Ob; simpl; try (split; congruence).
  inversion H as [|? ? Hp Hx]; subst.
  simpl in Oa, Ob. apply andb_true_iff in Oa. destruct Oa as [Op Ox].
  apply andb_true_iff in Ob. destruct Ob as [Oq Oy].
  destruct (py_eq p q) eqn:E; simpl.
  - apply IHx; auto.
  - split; [|discriminate]. intro Hc. apply (Hp Op q Oq) in Hc. congruence.
Qed.

(* ---------- L3: the order flips ---------- *)
Lemma ord_flip : forall a, ordv a = true -> forall b c, ordv b = true ->
  py_order a b = Some c -> py_order b a = Some (CompOpp c).
Proof.
  induction a using json_ind'; intros Oa v c Ob Hc; try discriminate.
  1-4: (destruct v; try discriminate; try (repeat match goal with x : fl |- _ => destruct x end; cbn in Hc; discriminate);
        apply py_order_flip; auto).
  destruct (py_order_arr_l _ _ _ Hc) as [y ->].
  rewrite py_order_arr in *. simpl in Oa, Ob.
  revert y c Ob Hc. induction l as [|p x IHx]; intros [|q y] c Ob Hc; simpl in *;
    try (inversion Hc; subst; reflexivity).
  inversion H as [|? ? Hp Hx]; subst.
  apply andb_true_iff in Oa. destruct Oa as [Op Ox].
  apply andb_true_iff in Ob. destruct Ob as [Oq Oy].
  rewrite (py_eq_sym q p (ordv_flatv _ Oq) (ordv_flatv _ Op)).
  destruct (py_eq p q) eqn:E.
  - apply IHx; auto.
  - apply Hp; auto.
Qed.

(* ---------- L1: <= is transitive, with the strict part ---------- *)
Definition trans_at (a : json) : Prop :=
  forall b c, ordv b = true -> ordv c = true -> le_lab a b -> le_lab b c ->
    (exists k, py_order a c = Some k) ->
    le_lab a c /\ (py_order a c = Some Eq -> py_order a b = Some Eq /\ py_order b c = Some Eq).

Lemma eq_false_lt : forall a b k, ordv a = true -> ordv b = true ->
  py_eq a b = false -> py_order a b = Some k -> k <> Gt -> k = Lt.
Proof.
  intros a b k Oa Ob E Hk N. destruct k; auto; [|contradiction].
  apply (ord_eq_iff a Oa b Ob) in Hk. congruence.
Qed.

Lemma lex_trans : forall x, Forall (fun p => ordv p = true -> trans_at p) x -> forallb ordv x = true ->
  forall y z, forallb ordv y = true -> forallb ordv z = true ->
  forall c1 c2, lex x y = Some c1 -> c1 <> Gt -> lex y z = Some c2 -> c2 <> Gt ->
  (exists k, lex x z = Some k) ->
  (exists k, lex x z = Some k /\ k <> Gt) /\
  (lex x z = Some Eq -> lex x y = Some Eq /\ lex y z = Some Eq).
Proof.
  induction x as [|p x IHx]; intros HP Ox y z Oy Oz c1 c2 H1 N1 H2 N2 Hex.
  - destruct z as [|r z]; simpl.
    + destruct y as [|q y]; simpl in *; [|inversion H2; subst; contradiction].
      split; [exists Eq; split; [reflexivity|discriminate]|auto].
    + split; [exists Lt; split; [reflexivity|discriminate]|discriminate].
  - destruct y as [|q y]; [simpl in H1; inversion H1; subst; contradiction|].
    destruct z as [|r z]; [simpl in H2; inversion H2; subst; contradiction|].
    inversion HP as [|? ? Hp HPx]; subst.
    simpl in Ox, Oy, Oz.
    apply andb_true_iff in Ox. destruct Ox as [Op Ox].
    apply andb_true_iff in Oy. destruct Oy as [Oq Oy].
    apply andb_true_iff in Oz. destruct Oz as [Or Oz].
    pose proof (ordv_flatv _ Op) as Fp. pose proof (ordv_flatv _ Oq) as Fq. pose proof (ordv_flatv _ Or) as Fr.
    specialize (Hp Op).
    simpl in H1, H2, Hex. simpl.
    destruct (py_eq p q) eqn:Epq; destruct (py_eq q r) eqn:Eqr.
    + (* == , == *)
      rewrite (py_eq_trans p q r Fp Fq Fr Epq Eqr) in *.
      apply (IHx HPx Ox y z Oy Oz c1 c2); auto.
    + (* == , < *)
      assert (Epr : py_eq p r = false).
      { destruct (py_eq p r) eqn:E; auto.
        rewrite (py_eq_sym p q Fp Fq) in Epq.
        rewrite (py_eq_trans q p r Fq Fp Fr Epq E) in Eqr. discriminate. }
      rewrite Epr in *. destruct Hex as [k Hk].
      assert (c2 = Lt) by (apply (eq_false_lt q r); auto). subst c2.
      destruct (Hp q r Oq Or) as [[k' [Hk' Nk']] HE].
      * exists Eq. split; [apply (ord_eq_iff p Op q Oq); exact Epq|discriminate].
      * exists Lt. split; [exact H2|discriminate].
      * eauto.
      * rewrite Hk in Hk'. inversion Hk'; subst k'.
        assert (k = Lt).
        { destruct k; auto; [|contradiction]. destruct (HE Hk) as [_ X]. congruence. }
        subst k. split; [exists Lt; split; [exact Hk|discriminate]|rewrite Hk; discriminate].
    + (* < , == *)
      assert (Epr : py_eq p r = false).
      { destruct (py_eq p r) eqn:E; auto.
        rewrite (py_eq_sym q r Fq Fr) in Eqr.
        rewrite (py_eq_trans p r q Fp Fr Fq E Eqr) in Epq. discriminate. }
      rewrite Epr in *. destruct Hex as [k Hk].
      assert (c1 = Lt) by (apply (eq_false_lt p q); auto). subst c1.
      destruct (Hp q r Oq Or) as [[k' [Hk' Nk']] HE].
      * exists Lt. split; [exact H1|discriminate].
      * exists Eq. split; [apply (ord_eq_iff q Oq r Or); exact Eqr|discriminate].
      * eauto.
      * rewrite Hk in Hk'. inversion Hk'; subst k'.
        assert (k = Lt).
        { destruct k; auto; [|contradiction]. destruct (HE Hk) as [X _]. congruence. }
        subst k. split; [exists Lt; split; [exact Hk|discriminate]|rewrite Hk; discriminate].
    + (* < , < *)
      assert (c1 = Lt) by (apply (eq_false_lt p q); auto). subst c1.
      assert (c2 = Lt) by (apply (eq_false_lt q r); auto). subst c2.
      assert (Hle1 : le_lab p q) by (exists Lt; split; [exact H1|discriminate]).
      assert (Hle2 : le_lab q r) by (exists Lt; split; [exact H2|discriminate]).
      assert (Epr : py_eq p r = false).
      { destruct (py_eq p r) eqn:E; auto.
        apply (ord_eq_iff p Op r Or) in E.
        destruct (Hp q r Oq Or Hle1 Hle2) as [_ HE]; [eauto|].
        destruct (HE E) as [X _]. congruence. }
      rewrite Epr in *. destruct Hex as [k Hk].
      destruct (Hp q r Oq Or Hle1 Hle2) as [[k' [Hk' Nk']] HE]; [eauto|].
      rewrite Hk in Hk'. inversion Hk'; subst k'.
      assert (k = Lt).
      { destruct k; auto; [|contradiction]. destruct (HE Hk) as [X _]. congruence. }
      subst k. split; [exists Lt; split; [exact Hk|discriminate]|rewrite Hk; discriminate].
Qed.

Lemma ord_trans : forall a, ordv a = true -> trans_at a.
Proof.
  induction a using json_ind'; intros Oa; try discriminate.
  1-4: (intros v w Ob Oc Hab Hbc _;
    assert (Sb : scalar v = true)
      by (apply ordv_nonarr_scalar; [exact Ob|]; intros l0 ->; destruct Hab as [k [Hk _]]; repeat match goal with x : fl |- _ => destruct x end; cbn in Hk; discriminate);
    assert (Sc : scalar w = true)
      by (apply ordv_nonarr_scalar; [exact Oc|]; intros l0 ->; destruct Hbc as [k [Hk _]];
          destruct v; repeat match goal with x : fl |- _ => destruct x end; cbn in Hk; discriminate);
    apply le_lab_trans; auto).
  (* JArr *)
  intros v w Ob Oc [c1 [H1 N1]] [c2 [H2 N2]] Hex.
  destruct (py_order_arr_l _ _ _ H1) as [y ->].
  destruct (py_order_arr_l _ _ _ H2) as [z ->].
  rewrite py_order_arr in *. simpl in Oa, Ob, Oc.
  destruct (lex_trans l H Oa y z Ob Oc c1 c2 H1 N1 H2 N2 Hex) as [[k [Hk Nk]] HE].
  split.
  - exists k. rewrite py_order_arr. auto.
  - exact HE.
Qed.

Theorem ord_le_trans : forall a b c, ordv a = true -> ordv b = true -> ordv c = true ->
  le_lab a b -> le_lab b c -> (exists k, py_order a c = Some k) ->
  le_lab a c /\ (py_order a c = Some Eq -> py_order a b = Some Eq /\ py_order b c = Some Eq).
Proof. intros a b c Oa Ob Oc. apply (ord_trans a Oa b c Ob Oc). Qed.

(* ---------- the groupby argument again, for labels of any orderable shape ---------- *)
Lemma insert_sorted_sorted_g : forall x l,
  (forall y, In y (x :: l) -> ordv (fst y) = true) ->
  orderable (map fst (x :: l)) ->
  StronglySorted lab_le l -> StronglySorted lab_le (insert_sorted x l).
Proof.
  intros x l Hsc Hord Hs. induction Hs as [|z l Hs IH Hall]; simpl.
  - constructor; constructor.
  - assert (Sx : ordv (fst x) = true) by (apply Hsc; simpl; auto).
    assert (Sz : ordv (fst z) = true) by (apply Hsc; simpl; auto).
    destruct (Hord (fst x) (fst z)) as [c Hc]; [simpl; auto|simpl; auto|].
    rewrite Hc. destruct c.
    + constructor.
      * apply IH.
        -- intros y Hy. apply Hsc. simpl in *. tauto.
        -- intros a b Ha Hb. apply Hord; simpl in *; tauto.
      * apply Forall_forall. intros y Hy. apply insert_sorted_In in Hy. destruct Hy as [->|Hy].
        -- exists Eq. split; [|discriminate]. change (Some Eq) with (Some (CompOpp Eq)). apply ord_flip; auto.
        -- rewrite Forall_forall in Hall. apply Hall. exact Hy.
    + constructor; [constructor; auto|].
      constructor.
      * exists Lt. split; [exact Hc|discriminate].
      * apply Forall_forall. intros y Hy. rewrite Forall_forall in Hall.
        assert (Sy : ordv (fst y) = true) by (apply Hsc; simpl; auto).
        destruct (ord_le_trans (fst x) (fst z) (fst y) Sx Sz Sy) as [T _];
          [exists Lt; split; [exact Hc|discriminate]|apply Hall; exact Hy| |exact T].
        apply Hord; simpl; auto. right. right. apply in_map. exact Hy.
    + constructor.
      * apply IH.
        -- intros y Hy. apply Hsc. simpl in *. tauto.
        -- intros a b Ha Hb. apply Hord; simpl in *; tauto.
      * apply Forall_forall. intros y Hy. apply insert_sorted_In in Hy. destruct Hy as [->|Hy].
        -- exists Lt. split; [|discriminate]. change (Some Lt) with (Some (CompOpp Gt)). apply ord_flip; auto.
        -- rewrite Forall_forall in Hall. apply Hall. exact Hy.
Qed.

Lemma sort_labeled_sorted_gen_g : forall l acc,
  (forall y, In y (acc ++ l) -> ordv (fst y) = true) ->
  orderable (map fst (acc ++ l)) ->
  StronglySorted lab_le acc ->
  StronglySorted lab_le (fold_left (fun acc x => insert_sorted x acc) l acc).
Proof.
  induction l as [|x l IH]; intros acc Hsc Hord Hs; simpl; [exact Hs|].
  apply IH.
  - intros y Hy. apply Hsc. apply in_app_or in Hy. apply in_or_app. destruct Hy as [Hy|Hy].
    + apply insert_sorted_In in Hy. destruct Hy as [->|Hy]; [right; simpl; auto|left; auto].
    + right. simpl. auto.
  - intros a b Ha Hb. apply Hord.
    + rewrite map_app in *. apply in_app_or in Ha. apply in_or_app. destruct Ha as [Ha|Ha].
      * apply in_map_iff in Ha. destruct Ha as [y [<- Hy]]. apply insert_sorted_In in Hy. destruct Hy as [->|Hy].
        -- right. simpl. auto.
        -- left. apply in_map. exact Hy.
      * right. simpl. auto.
    + rewrite map_app in *. apply in_app_or in Hb. apply in_or_app. destruct Hb as [Hb|Hb].
      * apply in_map_iff in Hb. destruct Hb as [y [<- Hy]]. apply insert_sorted_In in Hy. destruct Hy as [->|Hy].
        -- right. simpl. auto.
        -- left. apply in_map. exact Hy.
      * right. simpl. auto.
  - apply insert_sorted_sorted_g; auto.
    + intros y Hy. apply Hsc. apply in_or_app. simpl in *. destruct Hy as [->|Hy]; [right; simpl; auto|left; auto].
    + intros a b Ha Hb. apply Hord; rewrite map_app; apply in_or_app; simpl in *.
      * destruct Ha as [<-|Ha]; [right; simpl; auto|left; auto].
      * destruct Hb as [<-|Hb]; [right; simpl; auto|left; auto].
Qed.

Lemma sort_labeled_sorted_g : forall ls,
  (forall y, In y ls -> ordv (fst y) = true) -> orderable (map fst ls) ->
  StronglySorted lab_le (sort_labeled ls).
Proof. intros ls Hsc Hord. apply (sort_labeled_sorted_gen_g ls []); auto. constructor. Qed.

Lemma le_not_eq_lt_g : forall a b, ordv a = true -> ordv b = true -> le_lab a b -> py_eq a b = false -> lt_lab a b.
Proof.
  intros a b Sa Sb [c [Hc Nc]] He. unfold lt_lab. destruct c; [|exact Hc|contradiction].
  apply (ord_eq_iff a Sa b Sb) in Hc. congruence.
Qed.

Lemma lt_le_lt_g : forall a b c, ordv a = true -> ordv b = true -> ordv c = true ->
  (exists k, py_order a c = Some k) ->
  lt_lab a b -> le_lab b c -> lt_lab a c.
Proof.
  intros a b c Sa Sb Sc Hex Hab Hbc.
  destruct (ord_le_trans a b c Sa Sb Sc) as [[k [Hk Nk]] Heq];
    [exists Lt; split; [exact Hab|discriminate]|exact Hbc|exact Hex|].
  unfold lt_lab. destruct k; [|exact Hk|contradiction].
  destruct (Heq Hk) as [X _]. unfold lt_lab in Hab. congruence.
Qed.

Lemma group_adjacent_increasing_g : forall l cur,
  StronglySorted lab_le l ->
  (forall y, In y l -> ordv (fst y) = true) ->
  (forall g0, cur = Some g0 -> ordv (fst g0) = true /\ Forall (fun y => le_lab (fst g0) (fst y)) l) ->
  (forall a b, (In a (map fst l) \/ exists g0, cur = Some g0 /\ a = fst g0) -> In b (map fst l) ->
     exists k, py_order a b = Some k) ->
  StronglySorted grp_lt (group_adjacent l cur).
Proof.
  induction l as [|[lab i] l IH]; intros cur Hs Hsc Hcur Hord; simpl.
  - destruct cur as [g0|]; repeat constructor.
  - inversion Hs as [|? ? Hs' Hall]; subst.
    assert (Slab : ordv lab = true) by (apply (Hsc (lab, i)); simpl; auto).
    assert (Hsc' : forall y, In y l -> ordv (fst y) = true) by (intros y Hy; apply Hsc; simpl; auto).
    destruct cur as [[cl ids]|].
    + destruct (Hcur _ eq_refl) as [Scl Hle]. simpl in Scl, Hle. inversion Hle as [|? ? Hle1 Hle2]; subst. simpl in Hle1.
      destruct (py_eq cl lab) eqn:E.
      * apply IH; auto.
        -- intros g0 Hg0. inversion Hg0; subst. simpl. auto.
        -- intros a b [Ha|[g0 [Hg0 ->]]] Hb.
           ++ apply Hord; [left; simpl; auto|simpl; auto].
           ++ inversion Hg0; subst. simpl. apply Hord; [right; eexists; split; reflexivity|simpl; auto].
      * constructor.
        -- apply IH; auto.
           ++ intros g0 Hg0. inversion Hg0; subst. simpl. split; auto.
           ++ intros a b [Ha|[g0 [Hg0 ->]]] Hb.
              ** apply Hord; [left; simpl; auto|simpl; auto].
              ** inversion Hg0; subst. simpl. apply Hord; [left; simpl; auto|simpl; auto].
        -- apply Forall_forall. intros g Hg. unfold grp_lt. simpl.
           assert (Hlt : lt_lab cl lab) by (apply le_not_eq_lt_g; auto).
           destruct (group_labels_subset _ _ _ Hg) as [[g0 [E0 F]]|Hin].
           ++ inversion E0; subst. rewrite F. exact Hlt.
           ++ pose proof Hin as Hin'. apply in_map_iff in Hin. destruct Hin as [y [Fy Hy]]. rewrite <- Fy.
              apply (lt_le_lt_g cl lab (fst y)); auto.
              ** apply Hord; [right; eexists; split; reflexivity|]. simpl. right. rewrite Fy. exact Hin'.
              ** rewrite Forall_forall in Hall. apply (Hall y Hy).
    + apply IH; auto.
      * intros g0 Hg0. inversion Hg0; subst. simpl. split; auto.
      * intros a b [Ha|[g0 [Hg0 ->]]] Hb.
        -- apply Hord; [left; simpl; auto|simpl; auto].
        -- inversion Hg0; subst. simpl. apply Hord; [left; simpl; auto|simpl; auto].
Qed.

(* the theorem, for scalar, tuple (multi-key) and list labels alike: the groups' labels strictly increase *)
Theorem groupby_labels_increasing_g : forall ls,
  (forall y, In y ls -> ordv (fst y) = true) -> orderable (map fst ls) ->
  StronglySorted grp_lt (group_adjacent (sort_labeled ls) None).
Proof.
  intros ls Hsc Hord.
  assert (Hperm : forall y, In y (sort_labeled ls) -> In y ls).
  { intros y Hy. eapply Permutation.Permutation_in; [apply Permutation.Permutation_sym, sort_labeled_perm|exact Hy]. }
  apply group_adjacent_increasing_g.
  - apply sort_labeled_sorted_g; auto.
  - intros y Hy. apply Hsc. auto.
  - intros g0 H. discriminate.
  - intros a b [Ha|[g0 [Hg0 _]]] Hb; [|discriminate].
    apply in_map_iff in Ha. destruct Ha as [ya [<- Hya]].
    apply in_map_iff in Hb. destruct Hb as [yb [<- Hyb]].
    apply Hord; apply in_map; auto.
Qed.

Corollary groupby_labels_distinct_g : forall ls g h pre mid post,
  (forall y, In y ls -> ordv (fst y) = true) -> orderable (map fst ls) ->
  group_adjacent (sort_labeled ls) None = pre ++ g :: mid ++ h :: post ->
  py_eq (fst g) (fst h) = false.
Proof.
  intros ls g h pre mid post Hsc Hord E.
  pose proof (groupby_labels_increasing_g ls Hsc Hord) as Hs. rewrite E in Hs.
  assert (Hgh : grp_lt g h).
  { clear E. induction pre as [|x pre IH]; simpl in Hs.
    - inversion Hs as [|? ? _ Hall]; subst. rewrite Forall_forall in Hall. apply Hall.
      apply in_or_app. right. simpl. auto.
    - inversion Hs; subst. auto. }
  unfold grp_lt, lt_lab in Hgh.
  destruct (py_eq (fst g) (fst h)) eqn:Ee; auto.
  assert (Sg : ordv (fst g) = true /\ ordv (fst h) = true).
  { assert (Hin : forall x, In x (group_adjacent (sort_labeled ls) None) -> ordv (fst x) = true).
    { intros x Hx. destruct (group_labels_subset _ _ _ Hx) as [[g0 [E0 _]]|Hin]; [discriminate|].
      apply in_map_iff in Hin. destruct Hin as [y [Fy Hy]]. rewrite <- Fy. apply Hsc.
      eapply Permutation.Permutation_in; [apply Permutation.Permutation_sym, sort_labeled_perm|exact Hy]. }
    split; apply Hin; rewrite E; apply in_or_app; right; simpl; auto.
    right. apply in_or_app. right. simpl. auto. }
  destruct Sg as [Sg Sh]. apply (ord_eq_iff _ Sg _ Sh) in Ee. congruence.
Qed.

(* non-vacuity: tuple labels of a two-key groupby, and list-valued labels *)
Example ordv_examples :
  ordv (JArr [JInt 1; JStr [97%N]]) = true /\ ordv (JArr [JArr [JInt 1; JFloat (3, -1)]; JBool true]) = true /\
  py_order (JArr [JInt 1; JStr [97%N]]) (JArr [JFloat (1, 0); JStr [98%N]]) = Some Lt /\
  py_order (JArr [JInt 1; JStr [97%N]]) (JArr [JInt 2; JInt 5]) = Some Lt.
Proof. vm_compute. repeat split; reflexivity. Qed.
