(* ViewThm3.v — the scan of an existing plain view and the second run (idempotence). *)
From SV Require Import Base View CorrC17 C17Proofs ViewFS ViewThm ViewTrie ViewThm2.
From Coq Require Import Lia.

(* real trees have one entry per name *)
Inductive nwf : node -> Prop :=
| nwf_file : forall h, nwf (File h)
| nwf_lnk : forall t, nwf (Lnk t)
| nwf_dir : forall es, NoDup (map fst es) -> (forall c n, In (c, n) es -> nwf n) -> nwf (Dir es).

Lemma nwf_get : forall p w n, nwf w -> get w p = Some n -> nwf n.
Proof.
  induction p as [|c p IH]; intros w n Hw G; simpl in G.
  - inversion G; subst. exact Hw.
  - destruct w as [h|t|es]; try discriminate.
    destruct (alookup c es) as [x|] eqn:L; [|discriminate].
    inversion Hw as [| |? Hnd Hch]; subst. apply alookup_In in L. eapply IH; [eapply Hch; eauto|exact G].
Qed.

Lemma existsb_job_alookup : forall (es : list (str * node)),
  existsb (fun e => str_eqb (fst e) s_job) es = true <-> alookup s_job es <> None.
Proof.
  induction es as [|[k x] es IH]; [simpl; split; [discriminate|congruence]|].
  cbn [existsb alookup fst].
  destruct (str_eqb k s_job) eqn:E.
  - apply str_eqb_eq in E. rewrite E. rewrite str_eqb_refl. simpl. split; [discriminate|reflexivity].
  - assert (str_eqb s_job k = false) as ->.
    { apply str_eqb_neq. intros E'. rewrite <- E', str_eqb_refl in E. discriminate. }
    simpl. exact IH.
Qed.

Definition fli_children (es : list (str * node)) (rel : path) : list path :=
  (fix go (es : list (str * node)) : list path :=
     match es with
     | [] => []
     | (c, x) :: es' => find_links_in x (rel ++ [c]) ++ go es'
     end) es.

Lemma fli_dir : forall es rel,
  find_links_in (Dir es) rel =
  (if existsb (fun e => str_eqb (fst e) s_job) es then [rel] else []) ++ fli_children es rel.
Proof. reflexivity. Qed.

Lemma fli_children_In : forall es rel r,
  In r (fli_children es rel) <-> exists c x, In (c, x) es /\ In r (find_links_in x (rel ++ [c])).
Proof.
  induction es as [|[c0 x0] es IH]; intros rel r.
  - simpl. split; [tauto|]. intros [c [x [[] _]]].
  - change (fli_children ((c0, x0) :: es) rel) with (find_links_in x0 (rel ++ [c0]) ++ fli_children es rel).
    rewrite in_app_iff, IH. split.
    + intros [H|[c [x [H1 H2]]]]; [exists c0, x0; split; [left; reflexivity|exact H]|exists c, x; split; [right; exact H1|exact H2]].
    + intros [c [x [[E|H1] H2]]]; [inversion E; subst; left; exact H2|right; eauto].
Qed.

(* the scan: directories that hold an entry named job *)
Lemma find_links_in_spec : forall n, nwf n -> forall rel r,
  In r (find_links_in n rel) <->
  exists T, r = rel ++ T /\ kind_at n T = Some KDir /\ get n (T ++ [s_job]) <> None.
Proof.
  intro n. induction n as [h|t|es IH] using node_ind'; intros Hw rel r.
  - simpl. split; [tauto|]. intros [T [_ [K _]]]. destruct T; discriminate.
  - simpl. split; [tauto|]. intros [T [_ [K _]]]. destruct T; discriminate.
  - inversion Hw as [| |? Hnd Hch]; subst. rewrite fli_dir, in_app_iff, fli_children_In. split.
    + intros [H|[c [x [Hin Hr]]]].
      * destruct (existsb _ es) eqn:Ex; [|destruct H]. destruct H as [<-|[]].
        exists []. rewrite app_nil_r. split; [reflexivity|]. split; [reflexivity|].
        simpl. apply existsb_job_alookup in Ex. destruct (alookup s_job es); congruence.
      * apply (IH c x Hin (Hch c x Hin)) in Hr. destruct Hr as [T [E [K G]]].
        exists (c :: T). rewrite <- app_assoc in E. split; [exact E|].
        unfold kind_at in *. simpl. rewrite (NoDup_alookup _ c x es Hnd Hin). auto.
    + intros [T [E [K G]]]. destruct T as [|c T].
      * left. rewrite app_nil_r in E. subst r. simpl in G.
        assert (Ex : existsb (fun e : str * node => str_eqb (fst e) s_job) es = true).
        { apply existsb_job_alookup. destruct (alookup s_job es); congruence. }
        rewrite Ex. left. reflexivity.
      * right. unfold kind_at in K. simpl in K, G.
        destruct (alookup c es) as [x|] eqn:L; [|discriminate].
        apply alookup_In in L. exists c, x. split; [exact L|].
        apply (IH c x L (Hch c x L)). exists T. rewrite <- app_assoc. auto.
Qed.
