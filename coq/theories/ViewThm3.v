(* ViewThm3.v — the scan of an existing plain view and the second run (idempotence). *)
From SV Require Import Base View CorrC17 C17Proofs ViewFS ViewThm ViewTrie ViewThm2.
From Coq Require Import Lia.

(* real trees have one entry per name *)
Inductive nwf : node -> Prop :=
| nwf_file : forall h, nwf (File h)
| nwf_lnk : forall t, nwf (Lnk t)
| nwf_dir : forall es, NoDup (map fst es) -> (forall c n, In (c, n) es -> nwf n) -> nwf (Dir es).

Lemma nwf_get : forall p w n, nwf w -> get w p = Some n -> nwf n.
Proof.
  induction p as [|c p IH]; intros w n Hw G; simpl in G.
  - inversion G; subst. exact Hw.
  - destruct w as [h|t|es]; try discriminate.
    destruct (alookup c es) as [x|] eqn:L; [|discriminate].
    inversion Hw as [| |? Hnd Hch]; subst. apply alookup_In in L. eapply IH; [eapply Hch; eauto|exact G].
Qed.

Lemma existsb_job_alookup : forall (es : list (str * node)),
  existsb (fun e => str_eqb (fst e) s_job) es = true <-> alookup s_job es <> None.
Proof.
  induction es as [|[k x] es IH]; [simpl; split; [discriminate|congruence]|].
  cbn [existsb alookup fst].
  destruct (str_eqb k s_job) eqn:E.
  - apply str_eqb_eq in E. rewrite E. rewrite str_eqb_refl. simpl. split; [discriminate|reflexivity].
  - assert (str_eqb s_job k = false) as ->.
    { apply str_eqb_neq. intros E'. rewrite <- E', str_eqb_refl in E. discriminate. }
    simpl. exact IH.
Qed.

Definition fli_children (es : list (str * node)) (rel : path) : list path :=
  (fix go (es : list (str * node)) : list path :=
     match es with
     | [] => []
     | (c, x) :: es' => find_links_in x (rel ++ [c]) ++ go es'
     end) es.

Lemma fli_dir : forall es rel,
  find_links_in (Dir es) rel =
  (if existsb (fun e => str_eqb (fst e) s_job) es then [rel] else []) ++ fli_children es rel.
Proof. reflexivity. Qed.

Lemma fli_children_In : forall es rel r,
  In r (fli_children es rel) <-> exists c x, In (c, x) es /\ In r (find_links_in x (rel ++ [c])).
Proof.
  induction es as [|[c0 x0] es IH]; intros rel r.
  - simpl. split; [tauto|]. intros [c [x [[] _]]].
  - change (fli_children ((c0, x0) :: es) rel) with (find_links_in x0 (rel ++ [c0]) ++ fli_children es rel).
    rewrite in_app_iff, IH. split.
    + intros [H|[c [x [H1 H2]]]]; [exists c0, x0; split; [left; reflexivity|exact H]|exists c, x; split; [right; exact H1|exact H2]].
    + intros [c [x [[E|H1] H2]]]; [inversion E; subst; left; exact H2|right; eauto].
Qed.

(* the scan: directories that hold an entry named job *)
Lemma find_links_in_spec : forall n, nwf n -> forall rel r,
  In r (find_links_in n rel) <->
  exists T, r = rel ++ T /\ kind_at n T = Some KDir /\ get n (T ++ [s_job]) <> None.
Proof.
  intro n. induction n as [h|t|es IH] using node_ind'; intros Hw rel r.
  - simpl. split; [tauto|]. intros [T [_ [K _]]]. destruct T; discriminate.
  - simpl. split; [tauto|]. intros [T [_ [K _]]]. destruct T; discriminate.
  - inversion Hw as [| |? Hnd Hch]; subst. rewrite fli_dir, in_app_iff, fli_children_In. split.
    + intros [H|[c [x [Hin Hr]]]].
      * destruct (existsb _ es) eqn:Ex; [|destruct H]. destruct H as [<-|[]].
        exists []. rewrite app_nil_r. split; [reflexivity|]. split; [reflexivity|].
        simpl. apply existsb_job_alookup in Ex. destruct (alookup s_job es); congruence.
      * apply (IH c x Hin (Hch c x Hin)) in Hr. destruct Hr as [T [E [K G]]].
        exists (c :: T). rewrite <- app_assoc in E. split; [exact E|].
        unfold kind_at in *. simpl. rewrite (NoDup_alookup _ c x es Hnd Hin). auto.
    + intros [T [E [K G]]]. destruct T as [|c T].
      * left. rewrite app_nil_r in E. subst r. simpl in G.
        assert (Ex : existsb (fun e : str * node => str_eqb (fst e) s_job) es = true).
        { apply existsb_job_alookup. destruct (alookup s_job es); congruence. }
        rewrite Ex. left. reflexivity.
      * right. unfold kind_at in K. simpl in K, G.
        destruct (alookup c es) as [x|] eqn:L; [|discriminate].
        apply alookup_In in L. exists c, x. split; [exact L|].
        apply (IH c x L (Hch c x L)). exists T. rewrite <- app_assoc. auto.
Qed.

Section Second.
Variable P : path.
Hypothesis P_ne : P <> [].
Hypothesis P_plain : Forall plain P.

Lemma inv_dirs_P : forall w cur, Inv P w true cur -> dirs_to w P.
Proof.
  intros w cur I d1 d2 E. symmetry in E.
  destruct (snoc_cases _ d2) as [->|[d2' [z ->]]].
  - rewrite app_nil_r in E. subst d1. rewrite <- (app_nil_r P). rewrite (inv_kinds _ _ _ _ I). reflexivity.
  - assert (E' : removelast P = d1 ++ d2').
    { rewrite <- E. rewrite app_assoc. rewrite removelast_last. reflexivity. }
    apply (inv_parent _ _ _ _ I d1 d2' E').
Qed.

Lemma vk_nonnil : forall ex cur q, q <> [] ->
  vk ex cur q = match find (fun e : path * str => path_eqb q (fst e ++ [s_job])) cur with
                | Some e => Some (KLnk (snd e))
                | None => if existsb (fun e : path * str => is_prefix q (fst e)) cur then Some KDir else None
                end.
Proof. intros ex cur q H. destruct q; [congruence|reflexivity]. Qed.

Lemma vk_key_in : forall cur T, toks cur -> vk true cur (T ++ [s_job]) <> None -> In T (map fst cur).
Proof.
  intros cur T Ht H. unfold vk in H.
  destruct (T ++ [s_job]) as [|x l] eqn:El; [destruct T; discriminate|]. rewrite <- El in H. clear El x l.
  match type of H with context [find ?f cur] => destruct (find f cur) as [e|] eqn:F end.
  - apply find_some in F. destruct F as [F1 F2]. apply path_eqb_eq in F2. apply app_inj_tail in F2.
    destruct F2 as [-> _]. apply in_map. exact F1.
  - match type of H with (if ?b then _ else _) <> _ => destruct b eqn:Ex end; [|congruence].
    apply existsb_exists in Ex. destruct Ex as [e [Hin Hp]]. exfalso.
    eapply (toks_no_job_last (fst e) (T ++ [s_job])); eauto.
Qed.

Lemma vk_key_of_in : forall cur T, toks cur -> In T (map fst cur) -> T <> [] ->
  vk true cur (T ++ [s_job]) <> None /\ vk true cur T = Some KDir.
Proof.
  intros cur T Ht Hin Hne. apply in_map_iff in Hin. destruct Hin as [e [<- He]]. split.
  - unfold vk. destruct (fst e ++ [s_job]) as [|x l] eqn:El; [destruct (fst e); discriminate|]. rewrite <- El. clear El x l.
    match goal with |- context [find ?f cur] => destruct (find f cur) as [e'|] eqn:F end; [discriminate|].
    exfalso. apply (find_none _ _ F e) in He. rewrite path_eqb_refl in He. discriminate.
  - rewrite vk_nonnil by exact Hne.
    rewrite find_none_ext.
    + assert (Ex : existsb (fun e0 : path * str => is_prefix (fst e) (fst e0)) cur = true).
      { apply existsb_exists. exists e. split; [exact He|apply is_prefix_refl]. }
      match goal with |- (if ?b then _ else _) = _ => replace b with true by (symmetry; exact Ex) end. reflexivity.
    + intros e' _. apply path_eqb_false. eapply toks_no_job_last; [apply (Ht e He)|apply is_prefix_refl].
Qed.

Definition rootdot (T : path) : path := match T with [] => [s_dot] | _ => T end.

Lemma scan_of_inv : forall w cwd cur,
  Inv P w true cur -> nwf w ->
  forall d, In d (find_all_links w cwd (A P)) <-> exists T, In T (map fst cur) /\ d = rootdot T.
Proof.
  intros w cwd cur I Hw d. unfold find_all_links.
  rewrite absolutize_A by exact P_ne. rewrite walk_A by (auto; eapply inv_dirs_P; eauto).
  destruct (kind_dir_get w P) as [es G].
  { rewrite <- (app_nil_r P). rewrite (inv_kinds _ _ _ _ I). reflexivity. }
  rewrite G.
  assert (Hn : nwf (Dir es)) by (eapply nwf_get; eauto).
  assert (Hk : forall q, kind_at (Dir es) q = vk true cur q).
  { intro q. rewrite <- (inv_kinds _ _ _ _ I). unfold kind_at. rewrite get_app, G. reflexivity. }
  assert (Hg : forall q, get (Dir es) q <> None <-> vk true cur q <> None).
  { intro q. rewrite <- Hk. unfold kind_at. destruct (get (Dir es) q); simpl; split; congruence. }
  split.
  - intro H0. apply in_map_iff in H0. destruct H0 as [r [E Hr]]. apply (find_links_in_spec (Dir es) Hn [] r) in Hr.
    destruct Hr as [T [-> [K Gj]]]. simpl in E. apply Hg in Gj.
    apply (vk_key_in cur T (inv_tok _ _ _ _ I)) in Gj. exists T. split; [exact Gj|]. symmetry. exact E.
  - intros [T [Hin ->]]. apply in_map_iff. exists T. split; [reflexivity|].
    apply (find_links_in_spec (Dir es) Hn [] T). exists T. split; [reflexivity|].
    split.
    + rewrite Hk. destruct T as [|x T']; [reflexivity|].
      apply (proj2 (vk_key_of_in cur (x :: T') (inv_tok _ _ _ _ I) Hin ltac:(discriminate))).
    + apply Hg. apply in_map_iff in Hin. destruct Hin as [e [<- He]].
      rewrite vk_nonnil by (destruct (fst e); discriminate).
      match goal with |- context [find ?f cur] => destruct (find f cur) as [e'|] eqn:F end; [discriminate|].
      exfalso. apply (find_none _ _ F e) in He. rewrite path_eqb_refl in He. discriminate.
Qed.
End Second.

(* ------------------------------------------------------------------ the normalised existing paths *)
Lemma normrel_aux_plain : forall q acc, Forall plain q -> normrel_aux acc q = rev acc ++ q.
Proof.
  induction q as [|c q IH]; intros acc H; simpl; [rewrite app_nil_r; reflexivity|].
  inversion H as [|? ? [H1 H2] Hq]; subst. rewrite H1, H2. rewrite IH by exact Hq. simpl.
  rewrite <- app_assoc. reflexivity.
Qed.

Lemma normrel_key : forall T, Forall plain T -> normrel (rootdot T ++ [s_job]) = T ++ [s_job].
Proof.
  intros T H. destruct T as [|c T]; [reflexivity|].
  unfold rootdot, normrel. rewrite normrel_aux_plain.
  - simpl. reflexivity.
  - apply Forall_app. split; [exact H|]. constructor; [split; reflexivity|constructor].
Qed.

Definition existing_of (w : node) (cwd prefix : path) : list path :=
  rev (pnodup (rev (map (fun d => normrel (d ++ [s_job])) (find_all_links w cwd prefix)))).

Definition no_root (sp : spec) : Prop := forall e, In e sp -> fst e <> [].

Lemma existing_of_inv : forall P, P <> [] -> Forall plain P ->
  forall w cwd (so : spec),
  good_spec so -> nwf w -> Inv P w true (map (placed P cwd) so) ->
  forall x, In x (existing_of w cwd (A P)) <-> In x (map key_of so).
Proof.
  intros P Pne Ppl w cwd so [Nd Tk] Hw I x.
  unfold existing_of. rewrite <- in_rev, pnodup_In, <- in_rev, !in_map_iff. split.
  - intros [d [<- Hd]]. apply (scan_of_inv P Pne Ppl w cwd _ I Hw) in Hd. destruct Hd as [T [HT ->]].
    rewrite map_map in HT. simpl in HT. apply in_map_iff in HT. destruct HT as [e [<- He]].
    exists e. split; [|exact He]. unfold key_of. symmetry. apply normrel_key.
    eapply Forall_impl; [|apply (Tk e He)]. intros a [Ha _]. exact Ha.
  - intros [e [<- He]]. exists (rootdot (fst e)). split.
    + unfold key_of. apply normrel_key. eapply Forall_impl; [|apply (Tk e He)]. intros a [Ha _]. exact Ha.
    + apply (scan_of_inv P Pne Ppl w cwd _ I Hw). exists (fst e). split; [|reflexivity].
      rewrite map_map. simpl. apply in_map. exact He.
Qed.

(* ------------------------------------------------------------------ the second run *)
Theorem second_run_noop : forall P (sp : spec) hint w n cwd,
  P <> [] -> Forall plain P -> good_spec sp -> nwf w ->
  Inv P w true (map (placed P cwd) sp) ->
  (forall e, In e sp -> realpath w cwd (pjoin (A P) (key_of e)) = snd e) ->
  update_view hint (w, n) cwd (A P) (lk_of sp) = ok (w, n).
Proof.
  intros P sp hint w n cwd Pne Ppl Hg Hw I Hres. destruct Hg as [Hnd Ht].
  unfold update_view. simpl fst.
  assert (Han : analyze_view hint w cwd (A P) (lk_of sp) = {| a_obsolete := []; a_update := []; a_new := [] |}).
  { unfold analyze_view. rewrite keys_of_lk by exact Ht.
    fold (existing_of w cwd (A P)).
    set (existing := existing_of w cwd (A P)).
    assert (Hex : forall x, In x existing <-> In x (map key_of sp))
      by (apply (existing_of_inv P Pne Ppl w cwd sp (conj Hnd Ht) Hw I)).
    assert (Hexk : forall x, In x existing -> exists e, In e sp /\ x = key_of e).
    { intros x Hx. apply Hex in Hx. apply in_map_iff in Hx. destruct Hx as [e [<- He]]. eauto. }
    f_equal.
    - match goal with |- remove_first _ (sort_len_desc (order_by hint ?l)) = [] => assert (E : l = []) end.
      { apply nil_of_no_elements. intros b Hb. apply filter_In in Hb. destruct Hb as [Hb Hn].
        apply (analysis_dead existing (map key_of sp) b) in Hb. destruct Hb as [H1 H2].
        destruct b as [|x b']; [discriminate|]. simpl in H1.
        unfold any_prefix in H1, H2. apply existsb_exists in H1. destruct H1 as [y [Hy Hp]].
        assert (existsb (is_prefix (x :: b')) (map key_of sp) = true); [|congruence].
        apply existsb_exists. exists y. split; [apply Hex; exact Hy|exact Hp]. }
      rewrite E, order_by_nil. reflexivity.
    - match goal with |- order_by hint ?l = [] => assert (E : l = []) end.
      { apply nil_of_no_elements. intros x Hx. apply filter_In in Hx. destruct Hx as [Hx Hf].
        apply filter_In in Hx. destruct Hx as [Hx _].
        destruct (Hexk x Hx) as [e [He ->]].
        rewrite (lk_lookup sp e (conj Hnd Ht) He) in Hf.
        rewrite (Hres e He), path_eqb_refl in Hf. discriminate. }
      rewrite E. apply order_by_nil.
    - match goal with |- order_by hint ?l = [] => assert (E : l = []) end.
      { apply nil_of_no_elements. intros x Hx. apply filter_In in Hx. destruct Hx as [Hx Hf].
        apply negb_true_iff in Hf. apply path_mem_false in Hf. apply Hf.
        apply filter_In. split; [apply Hex; exact Hx|apply path_mem_In; exact Hx]. }
      rewrite E. apply order_by_nil. }
  rewrite Han. reflexivity.
Qed.
