(* ViewInc.v — the incremental update of an existing plain view, phase by phase, on pointwise states. *)
From SV Require Import Base View CorrC17 C17Proofs ViewFS ViewThm ViewTrie ViewThm2 ViewThm3.
From Coq Require Import Lia.

Definition kfun := path -> option kind.

Definition Kadd (K : kfun) (T : path) (src : str) : kfun :=
  fun q => if path_eqb q (T ++ [s_job]) then Some (KLnk src)
           else if is_prefix q T then Some KDir else K q.

Definition Kdel (K : kfun) (b : path) : kfun :=
  fun q => if is_prefix b q then None else K q.

From Coq Require Import Sorting.Sorted.

Definition Rlen (a b : path) : Prop := length b <= length a.

Lemma ins_len_In : forall p l x, In x (ins_len p l) <-> x = p \/ In x l.
Proof.
  induction l as [|q l IH]; intro x; simpl.
  - split; [intros [H|[]]; auto|intros [H|[]]; auto].
  - destruct (Nat.leb (length q) (length p)); simpl.
    + split; [intros [H|H]; auto|intros [H|H]; auto].
    + rewrite IH. split; [intros [H|[H|H]]; auto|intros [H|[H|H]]; auto].
Qed.

Lemma sort_len_In : forall l x, In x (sort_len_desc l) <-> In x l.
Proof.
  induction l as [|p l IH]; intro x; simpl; [tauto|].
  unfold sort_len_desc in *. simpl. rewrite ins_len_In, IH. split; intros [H|H]; auto.
Qed.

Lemma ins_len_NoDup : forall p l, NoDup l -> ~ In p l -> NoDup (ins_len p l).
Proof.
  induction l as [|q l IH]; intros Hn Hp; simpl.
  - constructor; [intros []|constructor].
  - destruct (Nat.leb (length q) (length p)).
    + constructor; auto.
    + inversion Hn; subst. constructor.
      * rewrite ins_len_In. intros [->|H]; [apply Hp; left; reflexivity|contradiction].
      * apply IH; auto. intro H. apply Hp. right. exact H.
Qed.

Lemma sort_len_NoDup : forall l, NoDup l -> NoDup (sort_len_desc l).
Proof.
  induction l as [|p l IH]; intro H; [constructor|].
  inversion H; subst. unfold sort_len_desc in *. simpl. apply ins_len_NoDup; auto.
  intro Hin. apply (sort_len_In l p) in Hin. contradiction.
Qed.

Lemma ins_len_sorted : forall p l, StronglySorted Rlen l -> StronglySorted Rlen (ins_len p l).
Proof.
  induction l as [|q l IH]; intro H; simpl.
  - constructor; constructor.
  - destruct (Nat.leb (length q) (length p)) eqn:E.
    + apply Nat.leb_le in E. constructor; [exact H|].
      inversion H; subst. constructor; [exact E|].
      eapply Forall_impl; [|eassumption]. intros a Ha. unfold Rlen in *. lia.
    + apply Nat.leb_gt in E. inversion H; subst. constructor; [apply IH; assumption|].
      apply Forall_forall. intros x Hx. apply ins_len_In in Hx. destruct Hx as [->|Hx].
      * unfold Rlen. lia.
      * eapply Forall_forall in H3; eauto.
Qed.

Lemma sort_len_sorted : forall l, StronglySorted Rlen (sort_len_desc l).
Proof.
  induction l as [|p l IH]; [constructor|]. unfold sort_len_desc in *. simpl. apply ins_len_sorted. exact IH.
Qed.

Lemma remove_first_notin : forall p l, ~ In p l -> remove_first p l = l.
Proof.
  induction l as [|q l IH]; intro H; simpl; [reflexivity|].
  assert (path_eqb p q = false) as ->.
  { apply path_eqb_false. intros ->. apply H. left. reflexivity. }
  f_equal. apply IH. intro Hin. apply H. right. exact Hin.
Qed.

Lemma kind_lnk_get' : forall w p t, kind_at w p = Some (KLnk t) -> get w p = Some (Lnk t).
Proof.
  unfold kind_at. intros w p t H. destruct (get w p) as [[h|t'|es]|]; simpl in H; try discriminate.
  inversion H. reflexivity.
Qed.

Section Inc.
Variable P : path.
Hypothesis P_ne : P <> [].
Hypothesis P_plain : Forall plain P.

Definition St (w : node) (K : kfun) : Prop :=
  dirs_to w (removelast P) /\ forall q, kind_at w (P ++ q) = K q.

Lemma St_root : forall w K, St w K -> dirs_to w [].
Proof.
  intros w K [H _] d1 d2 E. symmetry in E. apply app_eq_nil in E. destruct E as [-> _].
  apply (H [] (removelast P)). reflexivity.
Qed.

(* one more link, on any pointwise state *)
Lemma link_stepK : forall w K T src n cwd,
  St w K -> Forall tok T ->
  (forall q, is_prefix q T = true -> K q = Some KDir \/ K q = None) ->
  K (T ++ [s_job]) = None ->
  exists w' k,
    make_link (w, n) cwd src (A ((P ++ T) ++ [s_job])) = ok (w', N.succ (n + k)) /\
    St w' (Kadd K T src) /\ frame P w w'.
Proof.
  intros w K T src n cwd [Spar Sk] HT Hpre Hfree0.
  assert (HTp : Forall plain T) by (eapply Forall_impl; [|exact HT]; intros a [Ha _]; exact Ha).
  assert (Hplain : Forall plain (P ++ T)) by (apply Forall_app; auto).
  assert (Hk : forall q1 q2, P ++ T = q1 ++ q2 -> kind_at w ([] ++ q1) = Some KDir \/ kind_at w ([] ++ q1) = None).
  { intros q1 q2 E. simpl. symmetry in E. destruct (prefix_cases P q1 q2 T E) as [[r Er]|[q' [E1 E2]]].
    - left. apply (Spar q1 r Er).
    - subst q1. rewrite Sk. apply Hpre. apply is_prefix_spec. eauto. }
  destruct (frontier w (P ++ T) [] (St_root w K (conj Spar Sk)) Hk) as [e [m [E [He Hm]]]]. simpl in E.
  assert (Hfree : get w ((P ++ T) ++ [s_job]) = None).
  { apply omap_none. change (option_map kind_of (get w ((P ++ T) ++ [s_job]))) with (kind_at w ((P ++ T) ++ [s_job])).
    rewrite <- app_assoc. rewrite Sk. exact Hfree0. }
  exists (linked w e m s_job src), (N.of_nat (length m)).
  rewrite E in *.
  split; [|split].
  - apply make_link_plain; auto.
    + rewrite <- E. destruct P; [congruence|discriminate].
    + apply plain_job.
  - split.
    + intros d1 d2 Ed. rewrite kind_linked by auto.
      assert (Pr : is_prefix d1 (e ++ m) = true).
      { rewrite <- E. apply is_prefix_spec. exists (d2 ++ [last P []] ++ T).
        transitivity ((removelast P ++ [last P []]) ++ T); [rewrite <- (P_split P P_ne); reflexivity|].
        rewrite Ed. rewrite <- !app_assoc. reflexivity. }
      rewrite Pr.
      destruct (path_eqb d1 ((e ++ m) ++ [s_job])) eqn:Eq; [|reflexivity].
      apply path_eqb_eq in Eq. apply is_prefix_length in Pr. rewrite Eq, app_length in Pr. simpl in Pr. lia.
    + intro q. rewrite kind_linked by auto. rewrite <- E.
      rewrite <- (app_assoc P T). rewrite path_eqb_app_l, is_prefix_app_l. rewrite Sk. reflexivity.
  - intros r Hr. rewrite kind_linked by auto. rewrite <- E.
    destruct (path_eqb r ((P ++ T) ++ [s_job])) eqn:Eq.
    + apply path_eqb_eq in Eq. subst r. rewrite <- app_assoc, is_prefix_app in Hr. discriminate.
    + destruct (is_prefix r (P ++ T)) eqn:Pr; [|reflexivity].
      apply is_prefix_spec in Pr. destruct Pr as [u Eu]. symmetry in Eu.
      destruct (prefix_cases P r u T Eu) as [[r' Er]|[q' [E1 _]]].
      * symmetry. apply (Spar r r' Er).
      * subst r. rewrite is_prefix_app in Hr. discriminate.
Qed.

Lemma dir_empty : forall w p,
  kind_at w p = Some KDir -> (forall c, kind_at w (p ++ [c]) = None) -> get w p = Some (Dir []).
Proof.
  intros w p K Hc. destruct (kind_dir_get w p K) as [es G]. rewrite G. f_equal. f_equal.
  destruct es as [|[k v] es]; [reflexivity|]. exfalso.
  specialize (Hc k). unfold kind_at in Hc. rewrite get_app, G in Hc. simpl in Hc.
  rewrite str_eqb_refl in Hc. discriminate.
Qed.

Lemma is_prefix_trans_app : forall a b r, is_prefix (a ++ b) r = true -> is_prefix a r = true.
Proof.
  intros a b r H. apply is_prefix_spec in H. destruct H as [u ->]. apply is_prefix_spec.
  exists (b ++ u). rewrite app_assoc. reflexivity.
Qed.

Lemma plain_not_abs : forall b, b <> [] -> Forall plain b -> is_abs b = false.
Proof.
  intros b Hne Hp. destruct b as [|c b]; [congruence|]. inversion Hp as [|? ? Hc _]; subst.
  simpl. destruct c; [exfalso; eapply plain_nonempty; eauto|]. destruct b; reflexivity.
Qed.

(* removal of one entry (a link, or a directory all of whose entries are gone) *)
Lemma remove_stepK : forall w K b n cwd,
  St w K -> b <> [] -> Forall plain b ->
  (forall b0 b1, b = b0 ++ b1 -> b1 <> [] -> K b0 = Some KDir) ->
  ((exists t, K b = Some (KLnk t)) \/ (K b = Some KDir /\ forall c, K (b ++ [c]) = None)) ->
  exists w',
    (unlink (w, n) cwd (pjoin (A P) b) = ok (w', N.succ n) \/
     (exists e, unlink (w, n) cwd (pjoin (A P) b) = fail (w, n) e) /\
     rmdir (w, n) cwd (pjoin (A P) b) = ok (w', N.succ n)) /\
    ((exists t, K b = Some (KLnk t)) -> unlink (w, n) cwd (pjoin (A P) b) = ok (w', N.succ n)) /\
    St w' (Kdel K b) /\ frame P w w'.
Proof.
  intros w K b n cwd [Spar Sk] Hne Hp Hpre Hb.
  destruct (snoc_cases _ b) as [->|[d0 [c Eb]]]; [congruence|].
  assert (Hp' := Hp). rewrite Eb in Hp'. apply Forall_app in Hp'. destruct Hp' as [Hpd Hpc].
  inversion Hpc as [|? ? Hc _]; subst.
  set (b := d0 ++ [c]) in *.
  assert (Epj : pjoin (A P) b = A ((P ++ d0) ++ [c])).
  { unfold pjoin. rewrite plain_not_abs by auto. unfold A, b. simpl. rewrite <- app_assoc. reflexivity. }
  assert (Hd : dirs_to w (P ++ d0)).
  { intros d1 d2 E. symmetry in E. destruct (prefix_cases P d1 d2 d0 E) as [[r Er]|[q' [E1 E2]]].
    - apply (Spar d1 r Er).
    - subst d1. rewrite Sk. apply (Hpre q' (d2 ++ [c])).
      + unfold b. rewrite E2, <- app_assoc. reflexivity.
      + destruct d2; discriminate. }
  assert (Hpl : Forall plain (P ++ d0)) by (apply Forall_app; auto).
  destruct (kind_dir_get w (P ++ d0)) as [es Ges]; [apply (Hd (P ++ d0) []); rewrite app_nil_r; reflexivity|].
  assert (Kb : kind_at w ((P ++ d0) ++ [c]) = K b) by (rewrite <- app_assoc; apply Sk).
  assert (Hnew : forall w', w' = upd w ((P ++ d0) ++ [c]) None -> St w' (Kdel K b) /\ frame P w w').
  { intros w' ->. split; [split|].
    - intros d1 d2 E. rewrite (kind_upd (P ++ d0) w c None d1 es Ges).
      assert (is_prefix ((P ++ d0) ++ [c]) d1 = false) as ->; [|apply (Spar d1 d2 E)].
      destruct (is_prefix ((P ++ d0) ++ [c]) d1) eqn:Pr; [|reflexivity].
      apply is_prefix_length in Pr. rewrite !app_length in Pr. simpl in Pr.
      assert (length d1 <= length (removelast P)) by (rewrite E, app_length; lia).
      assert (length (removelast P) < length P).
      { rewrite (P_split P P_ne) at 2. rewrite app_length. simpl. lia. }
      lia.
    - intro q. rewrite (kind_upd (P ++ d0) w c None (P ++ q) es Ges).
      rewrite <- app_assoc. rewrite is_prefix_app_l. unfold Kdel. fold b.
      destruct (is_prefix b q); [reflexivity|apply Sk].
    - intros r Hr. rewrite (kind_upd (P ++ d0) w c None r es Ges).
      assert (is_prefix ((P ++ d0) ++ [c]) r = false) as ->; [|reflexivity].
      destruct (is_prefix ((P ++ d0) ++ [c]) r) eqn:Pr; [|reflexivity].
      rewrite <- app_assoc in Pr. apply is_prefix_trans_app in Pr. congruence. }
  rewrite Epj.
  destruct Hb as [[t Ht]|[Hdir Hch]].
  - (* a link: unlink succeeds *)
    assert (Hu : unlink (w, n) cwd (A ((P ++ d0) ++ [c])) = ok (upd w ((P ++ d0) ++ [c]) None, N.succ n)).
    { rewrite unlink_plain by auto. simpl fst.
      rewrite Ht in Kb. apply kind_lnk_get' in Kb. rewrite Kb. reflexivity. }
    exists (upd w ((P ++ d0) ++ [c]) None). split; [left; exact Hu|]. split; [intros _; exact Hu|apply Hnew; reflexivity].
  - exists (upd w ((P ++ d0) ++ [c]) None). split; [|split; [intros [t Ht]; rewrite Hdir in Ht; discriminate|apply Hnew; reflexivity]].
    right. rewrite Hdir in Kb.
    assert (Ge : get w ((P ++ d0) ++ [c]) = Some (Dir [])).
    { apply dir_empty; [exact Kb|]. intro c'. rewrite <- !app_assoc. rewrite Sk. rewrite app_assoc. apply Hch. }
    split.
    + exists EOS. rewrite unlink_plain by auto. simpl fst. rewrite Ge. reflexivity.
    + rewrite rmdir_plain by auto. simpl fst. rewrite Ge. reflexivity.
Qed.

Definition Kdel_all (K : kfun) (O : list path) : kfun :=
  fun q => if existsb (fun b => is_prefix b q) O then None else K q.

Lemma St_ext : forall w K K', (forall q, K q = K' q) -> St w K -> St w K'.
Proof. intros w K K' E [H1 H2]. split; [exact H1|]. intro q. rewrite H2. apply E. Qed.

Lemma frame_trans : forall w1 w2 w3, frame P w1 w2 -> frame P w2 w3 -> frame P w1 w3.
Proof. intros w1 w2 w3 F1 F2 r Hr. rewrite (F2 r Hr). apply (F1 r Hr). Qed.

Lemma prefix_same_length : forall a b : path, is_prefix a b = true -> length b <= length a -> a = b.
Proof.
  intros a b H L. apply is_prefix_spec in H. destruct H as [r ->].
  rewrite app_length in L. destruct r; [rewrite app_nil_r; reflexivity|simpl in L; lia].
Qed.

Lemma remove_allK : forall O w K n cwd,
  St w K -> NoDup O -> StronglySorted Rlen O ->
  (forall b, In b O -> b <> [] /\ Forall plain b) ->
  (forall b, In b O -> forall b0 b1, b = b0 ++ b1 -> b1 <> [] -> K b0 = Some KDir) ->
  (forall b, In b O -> (exists t, K b = Some (KLnk t)) \/
                       (K b = Some KDir /\ forall c, K (b ++ [c]) = None \/ In (b ++ [c]) O)) ->
  exists w' k,
    remove_obsolete (w, n) cwd (A P) O = ok (w', (n + k)%N) /\
    St w' (Kdel_all K O) /\ frame P w w'.
Proof.
  induction O as [|b O IH]; intros w K n cwd S Hnd Hso Hpl Hpre Hkind.
  - exists w, 0%N. simpl. rewrite N.add_0_r. split; [reflexivity|]. split; [|intros r _; reflexivity].
    eapply St_ext; [|exact S]. intro q. reflexivity.
  - inversion Hnd as [|? ? Hn1 Hn2]; subst. inversion Hso as [|? ? Hs1 Hs2]; subst.
    destruct (Hpl b (or_introl eq_refl)) as [Hbne Hbpl].
    (* the head can be removed now *)
    assert (Hhead : (exists t, K b = Some (KLnk t)) \/ (K b = Some KDir /\ forall c, K (b ++ [c]) = None)).
    { destruct (Hkind b (or_introl eq_refl)) as [H|[H1 H2]]; [left; exact H|right]. split; [exact H1|].
      intro c. destruct (H2 c) as [H|[H|H]]; [exact H| |].
      - exfalso. assert (length (b ++ [c]) = length b) by (rewrite <- H; reflexivity).
        rewrite app_length in H0. simpl in H0. lia.
      - exfalso. eapply Forall_forall in Hs2; [|exact H]. unfold Rlen in Hs2. rewrite app_length in Hs2. simpl in Hs2. lia. }
    destruct (remove_stepK w K b n cwd S Hbne Hbpl (Hpre b (or_introl eq_refl)) Hhead) as [w1 [Hrun [_ [S1 F1]]]].
    (* the rest, on the updated state *)
    destruct (IH w1 (Kdel K b) (N.succ n) cwd S1 Hn2 Hs1) as [w2 [k [Hrun2 [S2 F2]]]].
    + intros b' Hb'. apply Hpl. right. exact Hb'.
    + intros b' Hb' b0 b1 E Hb1. unfold Kdel.
      assert (is_prefix b b0 = false) as ->; [|apply (Hpre b' (or_intror Hb') b0 b1 E Hb1)].
      destruct (is_prefix b b0) eqn:Pr; [|reflexivity]. exfalso.
      apply is_prefix_length in Pr.
      eapply Forall_forall in Hs2; [|exact Hb']. unfold Rlen in Hs2.
      assert (length b' = length b0 + length b1) by (rewrite E, app_length; reflexivity).
      destruct b1; [congruence|simpl in H; lia].
    + intros b' Hb'.
      assert (Hnp : is_prefix b b' = false).
      { destruct (is_prefix b b') eqn:Pr; [|reflexivity]. exfalso.
        eapply Forall_forall in Hs2; [|exact Hb']. unfold Rlen in Hs2.
        apply (prefix_same_length b b' Pr) in Hs2. subst b'. contradiction. }
      unfold Kdel. rewrite Hnp.
      destruct (Hkind b' (or_intror Hb')) as [H|[H1 H2]]; [left; exact H|right]. split; [exact H1|].
      intro c. destruct (is_prefix b (b' ++ [c])) eqn:Pr; [left; reflexivity|].
      destruct (H2 c) as [H|[H|H]]; [left; exact H| |right; exact H].
      rewrite H, is_prefix_refl in Pr. discriminate.
    + exists w2, (1 + k)%N.
      split; [|split].
      * simpl remove_obsolete.
        destruct Hrun as [Hu|[[e Hu] Hr]].
        -- rewrite Hu. unfold ok at 1. rewrite Hrun2. f_equal. f_equal. lia.
        -- rewrite Hu. unfold fail at 1. rewrite Hr. unfold ok at 1. rewrite Hrun2. f_equal. f_equal. lia.
      * eapply St_ext; [|exact S2]. intro q. unfold Kdel_all, Kdel. simpl existsb.
        destruct (is_prefix b q); simpl; [destruct (existsb _ O); reflexivity|reflexivity].
      * eapply frame_trans; eauto.
Qed.

Lemma unlink_allK : forall U w K n cwd,
  St w K -> NoDup U ->
  (forall u u', In u U -> In u' U -> is_prefix u u' = true -> u = u') ->
  (forall u, In u U -> u <> [] /\ Forall plain u) ->
  (forall u, In u U -> forall b0 b1, u = b0 ++ b1 -> b1 <> [] -> K b0 = Some KDir) ->
  (forall u, In u U -> exists t, K u = Some (KLnk t)) ->
  exists w' k,
    unlink_all (w, n) cwd (A P) U = ok (w', (n + k)%N) /\
    St w' (Kdel_all K U) /\ frame P w w'.
Proof.
  induction U as [|u U IH]; intros w K n cwd S Hnd Hpf Hpl Hpre Hk.
  - exists w, 0%N. simpl. rewrite N.add_0_r. split; [reflexivity|]. split; [|intros r _; reflexivity].
    eapply St_ext; [|exact S]. intro q. reflexivity.
  - inversion Hnd as [|? ? Hn1 Hn2]; subst.
    destruct (Hpl u (or_introl eq_refl)) as [Hune Hupl].
    destruct (remove_stepK w K u n cwd S Hune Hupl (Hpre u (or_introl eq_refl)) (or_introl (Hk u (or_introl eq_refl))))
      as [w1 [_ [Hun [S1 F1]]]].
    specialize (Hun (Hk u (or_introl eq_refl))).
    assert (Hnp : forall u' b0, In u' U -> is_prefix b0 u' = true -> is_prefix u b0 = false).
    { intros u' b0 Hu' Hb0. destruct (is_prefix u b0) eqn:Pr; [|reflexivity]. exfalso.
      apply is_prefix_spec in Pr. destruct Pr as [r1 ->]. apply is_prefix_spec in Hb0. destruct Hb0 as [r2 ->].
      assert (u = (u ++ r1) ++ r2).
      { apply Hpf; [left; reflexivity|right; exact Hu'|]. apply is_prefix_spec. exists (r1 ++ r2). rewrite app_assoc. reflexivity. }
      rewrite <- H in Hu'. contradiction. }
    destruct (IH w1 (Kdel K u) (N.succ n) cwd S1 Hn2) as [w2 [k [Hrun2 [S2 F2]]]].
    + intros a a' Ha Ha'. apply Hpf; right; assumption.
    + intros a Ha. apply Hpl. right. exact Ha.
    + intros a Ha b0 b1 E Hb1. unfold Kdel. rewrite (Hnp a b0 Ha) by (apply is_prefix_spec; eauto).
      apply (Hpre a (or_intror Ha) b0 b1 E Hb1).
    + intros a Ha. unfold Kdel. rewrite (Hnp a a Ha (is_prefix_refl a)). apply Hk. right. exact Ha.
    + exists w2, (1 + k)%N. split; [|split].
      * simpl unlink_all. rewrite Hun. unfold ok at 1. rewrite Hrun2. f_equal. f_equal. lia.
      * eapply St_ext; [|exact S2]. intro q. unfold Kdel_all, Kdel. simpl existsb.
        destruct (is_prefix u q); simpl; [destruct (existsb _ U); reflexivity|reflexivity].
      * eapply frame_trans; eauto.
Qed.

(* phase 3 on pointwise states *)
Definition Kadd_all (cwd : path) (K : kfun) (L : list (path * path)) : kfun :=
  fold_left (fun K e => Kadd K (fst e) (link_target cwd (A P) (key_of e) (snd e))) L K.

Lemma link_allK : forall L w K n cwd lk,
  St w K ->
  (forall e, In e L -> Forall tok (fst e)) -> NoDup (map fst L) ->
  (forall e q, In e L -> is_prefix q (fst e) = true -> K q = Some KDir \/ K q = None) ->
  (forall e, In e L -> K (key_of e) = None) ->
  (forall e, In e L -> alookup (join_sep (key_of e)) lk = Some (snd e)) ->
  exists w' k,
    link_all (w, n) cwd (A P) lk (map key_of L) = ok (w', (n + k)%N) /\
    St w' (Kadd_all cwd K L) /\ frame P w w'.
Proof.
  induction L as [|e L IH]; intros w K n cwd lk S Ht Hnd Hpre Hfree Hlk.
  - exists w, 0%N. simpl. rewrite N.add_0_r. split; [reflexivity|]. split; [exact S|intros r _; reflexivity].
  - inversion Hnd as [|? ? Hn1 Hn2]; subst.
    assert (He : Forall tok (fst e)) by (apply Ht; left; reflexivity).
    destruct (link_stepK w K (fst e) (link_target cwd (A P) (key_of e) (snd e)) n cwd S He) as [w1 [k1 [M [S1 F1]]]].
    { intros q Hq. apply (Hpre e q (or_introl eq_refl) Hq). }
    { apply (Hfree e). left. reflexivity. }
    destruct (IH w1 (Kadd K (fst e) (link_target cwd (A P) (key_of e) (snd e))) (N.succ (n + k1)) cwd lk S1) as [w2 [k2 [M2 [S2 F2]]]].
    + intros e' He'. apply Ht. right. exact He'.
    + exact Hn2.
    + intros e' q He' Hq. unfold Kadd.
      match goal with |- (if ?c then _ else _) = _ \/ _ => assert (c = false) as -> end.
      { apply path_eqb_false. eapply toks_no_job_last; [apply (Ht e' (or_intror He'))|exact Hq]. }
      destruct (is_prefix q (fst e)); [left; reflexivity|apply (Hpre e' q (or_intror He') Hq)].
    + intros e' He'. unfold Kadd, key_of.
      match goal with |- (if ?c then _ else _) = _ => assert (c = false) as -> end.
      { apply path_eqb_false. intro E. apply app_inj_tail in E. destruct E as [E _].
        apply Hn1. rewrite <- E. apply in_map. exact He'. }
      match goal with |- (if ?c then _ else _) = _ => assert (c = false) as -> end.
      { apply not_true_is_false. intro Pr. eapply (toks_no_job_last (fst e) (fst e' ++ [s_job])); eauto. }
      apply (Hfree e'). right. exact He'.
    + intros e' He'. apply Hlk. right. exact He'.
    + exists w2, (N.succ k1 + k2)%N. split; [|split].
      * simpl map. simpl link_all. rewrite (Hlk e) by (left; reflexivity).
        match goal with |- context [make_link ?a ?b ?c ?d] =>
          replace (make_link a b c d) with (ok (w1, N.succ (n + k1)))
            by (symmetry; etransitivity; [|exact M]; f_equal; apply (pjoin_key P (fst e) He)) end.
        unfold ok at 1. rewrite M2. f_equal. f_equal. lia.
      * exact S2.
      * eapply frame_trans; eauto.
Qed.
End Inc.
