(* ViewInc.v — the incremental update of an existing plain view, phase by phase, on pointwise states. *)
From SV Require Import Base View CorrC17 C17Proofs ViewFS ViewThm ViewTrie ViewThm2 ViewThm3.
From Coq Require Import Lia.

Definition kfun := path -> option kind.

Definition Kadd (K : kfun) (T : path) (src : str) : kfun :=
  fun q => if path_eqb q (T ++ [s_job]) then Some (KLnk src)
           else if is_prefix q T then Some KDir else K q.

Definition Kdel (K : kfun) (b : path) : kfun :=
  fun q => if is_prefix b q then None else K q.

From Coq Require Import Sorting.Sorted.

Definition Rlen (a b : path) : Prop := length b <= length a.

Lemma ins_len_In : forall p l x, In x (ins_len p l) <-> x = p \/ In x l.
Proof.
  induction l as [|q l IH]; intro x; simpl.
  - split; [intros [H|[]]; auto|intros [H|[]]; auto].
  - destruct (Nat.leb (length q) (length p)); simpl.
    + split; [intros [H|H]; auto|intros [H|H]; auto].
    + rewrite IH. split; [intros [H|[H|H]]; auto|intros [H|[H|H]]; auto].
Qed.

Lemma sort_len_In : forall l x, In x (sort_len_desc l) <-> In x l.
Proof.
  induction l as [|p l IH]; intro x; simpl; [tauto|].
  unfold sort_len_desc in *. simpl. rewrite ins_len_In, IH. split; intros [H|H]; auto.
Qed.

Lemma ins_len_NoDup : forall p l, NoDup l -> ~ In p l -> NoDup (ins_len p l).
Proof.
  induction l as [|q l IH]; intros Hn Hp; simpl.
  - constructor; [intros []|constructor].
  - destruct (Nat.leb (length q) (length p)).
    + constructor; auto.
    + inversion Hn; subst. constructor.
      * rewrite ins_len_In. intros [->|H]; [apply Hp; left; reflexivity|contradiction].
      * apply IH; auto. intro H. apply Hp. right. exact H.
Qed.

Lemma sort_len_NoDup : forall l, NoDup l -> NoDup (sort_len_desc l).
Proof.
  induction l as [|p l IH]; intro H; [constructor|].
  inversion H; subst. unfold sort_len_desc in *. simpl. apply ins_len_NoDup; auto.
  intro Hin. apply (sort_len_In l p) in Hin. contradiction.
Qed.

Lemma ins_len_sorted : forall p l, StronglySorted Rlen l -> StronglySorted Rlen (ins_len p l).
Proof.
  induction l as [|q l IH]; intro H; simpl.
  - constructor; constructor.
  - destruct (Nat.leb (length q) (length p)) eqn:E.
    + apply Nat.leb_le in E. constructor; [exact H|].
      inversion H; subst. constructor; [exact E|].
      eapply Forall_impl; [|eassumption]. intros a Ha. unfold Rlen in *. lia.
    + apply Nat.leb_gt in E. inversion H; subst. constructor; [apply IH; assumption|].
      apply Forall_forall. intros x Hx. apply ins_len_In in Hx. destruct Hx as [->|Hx].
      * unfold Rlen. lia.
      * eapply Forall_forall in H3; eauto.
Qed.

Lemma sort_len_sorted : forall l, StronglySorted Rlen (sort_len_desc l).
Proof.
  induction l as [|p l IH]; [constructor|]. unfold sort_len_desc in *. simpl. apply ins_len_sorted. exact IH.
Qed.

Lemma remove_first_notin : forall p l, ~ In p l -> remove_first p l = l.
Proof.
  induction l as [|q l IH]; intro H; simpl; [reflexivity|].
  assert (path_eqb p q = false) as ->.
  { apply path_eqb_false. intros ->. apply H. left. reflexivity. }
  f_equal. apply IH. intro Hin. apply H. right. exact Hin.
Qed.

Lemma kind_lnk_get' : forall w p t, kind_at w p = Some (KLnk t) -> get w p = Some (Lnk t).
Proof.
  unfold kind_at. intros w p t H. destruct (get w p) as [[h|t'|es]|]; simpl in H; try discriminate.
  inversion H. reflexivity.
Qed.

Section Inc.
Variable P : path.
Hypothesis P_ne : P <> [].
Hypothesis P_plain : Forall plain P.

Definition St (w : node) (K : kfun) : Prop :=
  dirs_to w (removelast P) /\ forall q, kind_at w (P ++ q) = K q.

Lemma St_root : forall w K, St w K -> dirs_to w [].
Proof.
  intros w K [H _] d1 d2 E. symmetry in E. apply app_eq_nil in E. destruct E as [-> _].
  apply (H [] (removelast P)). reflexivity.
Qed.

(* one more link, on any pointwise state *)
Lemma link_stepK : forall w K T src n cwd,
  St w K -> Forall tok T ->
  (forall q, is_prefix q T = true -> K q = Some KDir \/ K q = None) ->
  K (T ++ [s_job]) = None ->
  exists w' k,
    make_link (w, n) cwd src (A ((P ++ T) ++ [s_job])) = ok (w', N.succ (n + k)) /\
    St w' (Kadd K T src) /\ frame P w w'.
Proof.
  intros w K T src n cwd [Spar Sk] HT Hpre Hfree0.
  assert (HTp : Forall plain T) by (eapply Forall_impl; [|exact HT]; intros a [Ha _]; exact Ha).
  assert (Hplain : Forall plain (P ++ T)) by (apply Forall_app; auto).
  assert (Hk : forall q1 q2, P ++ T = q1 ++ q2 -> kind_at w ([] ++ q1) = Some KDir \/ kind_at w ([] ++ q1) = None).
  { intros q1 q2 E. simpl. symmetry in E. destruct (prefix_cases P q1 q2 T E) as [[r Er]|[q' [E1 E2]]].
    - left. apply (Spar q1 r Er).
    - subst q1. rewrite Sk. apply Hpre. apply is_prefix_spec. eauto. }
  destruct (frontier w (P ++ T) [] (St_root w K (conj Spar Sk)) Hk) as [e [m [E [He Hm]]]]. simpl in E.
  assert (Hfree : get w ((P ++ T) ++ [s_job]) = None).
  { apply omap_none. change (option_map kind_of (get w ((P ++ T) ++ [s_job]))) with (kind_at w ((P ++ T) ++ [s_job])).
    rewrite <- app_assoc. rewrite Sk. exact Hfree0. }
  exists (linked w e m s_job src), (N.of_nat (length m)).
  rewrite E in *.
  split; [|split].
  - apply make_link_plain; auto.
    + rewrite <- E. destruct P; [congruence|discriminate].
    + apply plain_job.
  - split.
    + intros d1 d2 Ed. rewrite kind_linked by auto.
      assert (Pr : is_prefix d1 (e ++ m) = true).
      { rewrite <- E. apply is_prefix_spec. exists (d2 ++ [last P []] ++ T).
        transitivity ((removelast P ++ [last P []]) ++ T); [rewrite <- (P_split P P_ne); reflexivity|].
        rewrite Ed. rewrite <- !app_assoc. reflexivity. }
      rewrite Pr.
      destruct (path_eqb d1 ((e ++ m) ++ [s_job])) eqn:Eq; [|reflexivity].
      apply path_eqb_eq in Eq. apply is_prefix_length in Pr. rewrite Eq, app_length in Pr. simpl in Pr. lia.
    + intro q. rewrite kind_linked by auto. rewrite <- E.
      rewrite <- (app_assoc P T). rewrite path_eqb_app_l, is_prefix_app_l. rewrite Sk. reflexivity.
  - intros r Hr. rewrite kind_linked by auto. rewrite <- E.
    destruct (path_eqb r ((P ++ T) ++ [s_job])) eqn:Eq.
    + apply path_eqb_eq in Eq. subst r. rewrite <- app_assoc, is_prefix_app in Hr. discriminate.
    + destruct (is_prefix r (P ++ T)) eqn:Pr; [|reflexivity].
      apply is_prefix_spec in Pr. destruct Pr as [u Eu]. symmetry in Eu.
      destruct (prefix_cases P r u T Eu) as [[r' Er]|[q' [E1 _]]].
      * symmetry. apply (Spar r r' Er).
      * subst r. rewrite is_prefix_app in Hr. discriminate.
Qed.

Lemma dir_empty : forall w p,
  kind_at w p = Some KDir -> (forall c, kind_at w (p ++ [c]) = None) -> get w p = Some (Dir []).
Proof.
  intros w p K Hc. destruct (kind_dir_get w p K) as [es G]. rewrite G. f_equal. f_equal.
  destruct es as [|[k v] es]; [reflexivity|]. exfalso.
  specialize (Hc k). unfold kind_at in Hc. rewrite get_app, G in Hc. simpl in Hc.
  rewrite str_eqb_refl in Hc. discriminate.
Qed.

Lemma is_prefix_trans_app : forall a b r, is_prefix (a ++ b) r = true -> is_prefix a r = true.
Proof.
  intros a b r H. apply is_prefix_spec in H. destruct H as [u ->]. apply is_prefix_spec.
  exists (b ++ u). rewrite app_assoc. reflexivity.
Qed.

Lemma plain_not_abs : forall b, b <> [] -> Forall plain b -> is_abs b = false.
Proof.
  intros b Hne Hp. destruct b as [|c b]; [congruence|]. inversion Hp as [|? ? Hc _]; subst.
  simpl. destruct c; [exfalso; eapply plain_nonempty; eauto|]. destruct b; reflexivity.
Qed.

(* removal of one entry (a link, or a directory all of whose entries are gone) *)
Lemma remove_stepK : forall w K b n cwd,
  St w K -> b <> [] -> Forall plain b ->
  (forall b0 b1, b = b0 ++ b1 -> b1 <> [] -> K b0 = Some KDir) ->
  ((exists t, K b = Some (KLnk t)) \/ (K b = Some KDir /\ forall c, K (b ++ [c]) = None)) ->
  exists w',
    (unlink (w, n) cwd (pjoin (A P) b) = ok (w', N.succ n) \/
     (exists e, unlink (w, n) cwd (pjoin (A P) b) = fail (w, n) e) /\
     rmdir (w, n) cwd (pjoin (A P) b) = ok (w', N.succ n)) /\
    St w' (Kdel K b) /\ frame P w w'.
Proof.
  intros w K b n cwd [Spar Sk] Hne Hp Hpre Hb.
  destruct (snoc_cases _ b) as [->|[d0 [c Eb]]]; [congruence|].
  assert (Hp' := Hp). rewrite Eb in Hp'. apply Forall_app in Hp'. destruct Hp' as [Hpd Hpc].
  inversion Hpc as [|? ? Hc _]; subst.
  set (b := d0 ++ [c]) in *.
  assert (Epj : pjoin (A P) b = A ((P ++ d0) ++ [c])).
  { unfold pjoin. rewrite plain_not_abs by auto. unfold A, b. simpl. rewrite <- app_assoc. reflexivity. }
  assert (Hd : dirs_to w (P ++ d0)).
  { intros d1 d2 E. symmetry in E. destruct (prefix_cases P d1 d2 d0 E) as [[r Er]|[q' [E1 E2]]].
    - apply (Spar d1 r Er).
    - subst d1. rewrite Sk. apply (Hpre q' (d2 ++ [c])).
      + unfold b. rewrite E2, <- app_assoc. reflexivity.
      + destruct d2; discriminate. }
  assert (Hpl : Forall plain (P ++ d0)) by (apply Forall_app; auto).
  destruct (kind_dir_get w (P ++ d0)) as [es Ges]; [apply (Hd (P ++ d0) []); rewrite app_nil_r; reflexivity|].
  assert (Kb : kind_at w ((P ++ d0) ++ [c]) = K b) by (rewrite <- app_assoc; apply Sk).
  assert (Hnew : forall w', w' = upd w ((P ++ d0) ++ [c]) None -> St w' (Kdel K b) /\ frame P w w').
  { intros w' ->. split; [split|].
    - intros d1 d2 E. rewrite (kind_upd (P ++ d0) w c None d1 es Ges).
      assert (is_prefix ((P ++ d0) ++ [c]) d1 = false) as ->; [|apply (Spar d1 d2 E)].
      destruct (is_prefix ((P ++ d0) ++ [c]) d1) eqn:Pr; [|reflexivity].
      apply is_prefix_length in Pr. rewrite !app_length in Pr. simpl in Pr.
      assert (length d1 <= length (removelast P)) by (rewrite E, app_length; lia).
      assert (length (removelast P) < length P).
      { rewrite (P_split P P_ne) at 2. rewrite app_length. simpl. lia. }
      lia.
    - intro q. rewrite (kind_upd (P ++ d0) w c None (P ++ q) es Ges).
      rewrite <- app_assoc. rewrite is_prefix_app_l. unfold Kdel. fold b.
      destruct (is_prefix b q); [reflexivity|apply Sk].
    - intros r Hr. rewrite (kind_upd (P ++ d0) w c None r es Ges).
      assert (is_prefix ((P ++ d0) ++ [c]) r = false) as ->; [|reflexivity].
      destruct (is_prefix ((P ++ d0) ++ [c]) r) eqn:Pr; [|reflexivity].
      rewrite <- app_assoc in Pr. apply is_prefix_trans_app in Pr. congruence. }
  rewrite Epj.
  destruct Hb as [[t Ht]|[Hdir Hch]].
  - (* a link: unlink succeeds *)
    exists (upd w ((P ++ d0) ++ [c]) None). split; [|apply Hnew; reflexivity].
    left. rewrite unlink_plain by auto. simpl fst.
    rewrite Ht in Kb. apply kind_lnk_get' in Kb. rewrite Kb. reflexivity.
  - exists (upd w ((P ++ d0) ++ [c]) None). split; [|apply Hnew; reflexivity].
    right. rewrite Hdir in Kb.
    assert (Ge : get w ((P ++ d0) ++ [c]) = Some (Dir [])).
    { apply dir_empty; [exact Kb|]. intro c'. rewrite <- !app_assoc. rewrite Sk. rewrite app_assoc. apply Hch. }
    split.
    + exists EOS. rewrite unlink_plain by auto. simpl fst. rewrite Ge. reflexivity.
    + rewrite rmdir_plain by auto. simpl fst. rewrite Ge. reflexivity.
Qed.
End Inc.
