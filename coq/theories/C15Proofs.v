(* C15Proofs.v — lemmas about the sync model used by props/C15.v *)
From SV Require Import Base Json Canon Sync SyncObs CorrC13 CorrC14 CorrC15 C13Proofs.
