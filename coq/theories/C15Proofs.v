(* C15Proofs.v — lemmas for props/C15.v. *)
From SV Require Export C14Proofs CorrC15.

(* with deep=True "differing" means "different bytes" *)
Lemma deep_diff_is_bytes : forall frepr c1 m1 c2 m2,
  file_same frepr true c1 m1 c2 m2 = false <-> bytes_eqb (content_bytes frepr c1) (content_bytes frepr c2) = false.
Proof. intros. rewrite file_same_deep. tauto. Qed.

(* job-level entry points hand deep to the walk; the project-level one does iff F5 is repaired *)
Lemma job_level_deep : forall frepr cf o sid did dsp src dst,
  run_sync frepr cf o (E_job sid did dsp) src dst =
  let '(d', e) := sync_jobs_m frepr cf o (o_deep o) false (job_dir sid (p_ws src)) (job_dir did (p_ws dst)) dsp in
  ({| p_top := p_top dst;
      p_ws := match d' with Some x => aset did (Dir x) (p_ws dst) | None => p_ws dst end |}, e).
Proof. reflexivity. Qed.

Lemma proj_deep_fixed : forall cf o, fix_F5 cf = true -> proj_deep cf o = o_deep o.
Proof. intros. unfold proj_deep. rewrite H. reflexivity. Qed.

Lemma proj_deep_current : forall o, proj_deep cfg_current o = false.
Proof. reflexivity. Qed.

(* the tree part of the dry-run clause of the oracle holds for the model once F4 and F16 are repaired *)
Lemma model_holds_C15 : forall frepr cf i,
  i_entry i = E_project -> o_dry_run (i_opts i) = true -> fix_F4 cf = true -> fix_F16 cf = true ->
  docs_wf (i_src i) -> wf_project (i_src i) = true -> wf_project (i_dst i) = true ->
  let c := model_case frepr cf i in
  proj_eqb frepr (i_dst i) (ob_dst (c_obs c)) = true /\ proj_eqb frepr (i_src i) (ob_src (c_obs c)) = true
  /\ ob_rest_ok (c_obs c) = true.
Proof.
  intros frepr cf i He Hdry H4 H16 Hdocs Hws Hwd. cbv zeta.
  destruct (model_holds_C13 frepr cf i Hws) as [R S]. split; [|split; assumption].
  unfold model_case, model_case_gen, model_call_gen. cbn [c_obs]. rewrite He. unfold run_sync_gen.
  pose proof (sync_projects_dry_id frepr cf false (i_opts i) (i_src i) (i_dst i) Hdry H4 H16 Hdocs) as D.
  destruct (sync_projects_m frepr cf false (i_opts i) (i_src i) (i_dst i)) as [dst' e]. cbn [fst ob_dst] in *.
  subst dst'. apply proj_eqb_refl. assumption.
Qed.
