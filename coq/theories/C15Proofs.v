(* C15Proofs.v — lemmas for props/C15.v. *)
From SV Require Export C14Proofs CorrC15.

(* with deep=True "differing" means "different bytes" *)
Lemma deep_diff_is_bytes : forall frepr c1 m1 c2 m2,
  file_same frepr true c1 m1 c2 m2 = false <-> bytes_eqb (content_bytes frepr c1) (content_bytes frepr c2) = false.
Proof. intros. rewrite file_same_deep. tauto. Qed.

(* job-level entry points hand deep to the walk; the project-level one does iff F5 is repaired *)
Lemma job_level_deep : forall frepr cf o sid did dsp src dst,
  run_sync frepr cf o (E_job sid did dsp) src dst =
  let '(d', e) := sync_jobs_m frepr cf o (o_deep o) false (job_dir sid (p_ws src)) (job_dir did (p_ws dst)) dsp in
  ({| p_top := p_top dst;
      p_ws := match d' with Some x => aset did (Dir x) (p_ws dst) | None => p_ws dst end |}, e).
Proof. reflexivity. Qed.

Lemma proj_deep_fixed : forall cf o, fix_F5 cf = true -> proj_deep cf o = o_deep o.
Proof. intros. unfold proj_deep. rewrite H. reflexivity. Qed.

Lemma proj_deep_current : forall o, proj_deep cfg_current o = o_deep o.
Proof. reflexivity. Qed.

(* the tree part of the dry-run clause of the oracle holds for the model once F4 and F16 are repaired *)
Lemma model_holds_C15 : forall frepr cf i,
  i_entry i = E_project -> o_dry_run (i_opts i) = true -> fix_F4 cf = true -> fix_F16 cf = true ->
  docs_wf (i_src i) -> wf_project (i_src i) = true -> wf_project (i_dst i) = true ->
  let c := model_case frepr cf i in
  proj_eqb frepr (i_dst i) (ob_dst (c_obs c)) = true /\ proj_eqb frepr (i_src i) (ob_src (c_obs c)) = true
  /\ ob_rest_ok (c_obs c) = true.
Proof.
  intros frepr cf i He Hdry H4 H16 Hdocs Hws Hwd. cbv zeta.
  destruct (model_holds_C13 frepr cf i Hws) as [R S]. split; [|split; assumption].
  unfold model_case, model_case_gen, model_call_gen. cbn [c_obs]. rewrite He. unfold run_sync_gen.
  pose proof (sync_projects_dry_id frepr cf false (i_opts i) (i_src i) (i_dst i) Hdry H4 H16 Hdocs) as D.
  destruct (sync_projects_m frepr cf false (i_opts i) (i_src i) (i_dst i)) as [dst' e]. cbn [fst ob_dst] in *.
  subst dst'. apply proj_eqb_refl. assumption.
Qed.

From SV Require Export SyncDryProofs.

(* dry_run_no_change for the repaired code (F3, F4, F16), project level: nothing changes and the exception
   class is that of the real run *)
Lemma dry_run_no_change_fixed : forall frepr cf, fix_F3 cf = true -> fix_F4 cf = true -> fix_F16 cf = true ->
  forall o src dst,
  NoDup (map fst (p_ws src)) -> (forall kn, In kn (p_ws src) -> job_ok (snd kn)) ->
  wf (JObj (read_doc FN_PDOC (p_top src))) = true ->
  fst (sync_projects_m frepr cf false (set_dry o true) src dst) = dst
  /\ snd (sync_projects_m frepr cf false (set_dry o true) src dst)
     = snd (sync_projects_m frepr cf false (set_dry o false) src dst).
Proof.
  intros frepr cf H3 H4 H16 o src dst Hnd Hok Hp. split.
  - apply sync_projects_dry_id; try assumption; [reflexivity|].
    split; [apply (wf_obj_inv _ Hp)|].
    intros id sd Hin. destruct (Hok (id, Dir sd) Hin) as (_ & W & _). apply (wf_obj_inv _ W).
  - apply sync_projects_dry_same_exception; assumption.
Qed.

(* ... and job level, for an existing destination job *)
Lemma dry_run_no_change_fixed_job : forall frepr cf, fix_F3 cf = true -> fix_F4 cf = true -> fix_F16 cf = true ->
  forall o deep fp sdir ddir dsp, job_ok (Dir sdir) ->
  fst (sync_jobs_m frepr cf (set_dry o true) deep fp (Some sdir) (Some ddir) dsp) = Some ddir
  /\ snd (sync_jobs_m frepr cf (set_dry o true) deep fp (Some sdir) (Some ddir) dsp)
     = snd (sync_jobs_m frepr cf (set_dry o false) deep fp (Some sdir) (Some ddir) dsp).
Proof.
  intros frepr cf H3 H4 H16 o deep fp sdir ddir dsp (W1 & W2 & W3 & W4). split.
  - apply sync_jobs_dry_id; [reflexivity|left; assumption|].
    intros sd Hsd. inversion Hsd; subst. split; [left; assumption|apply (wf_obj_inv _ W2)].
  - apply sync_jobs_dry_same_exception; assumption.
Qed.

(* ------------------------------------------------------------------ /repo as it is (cfg_current) *)
Lemma dry_run_no_change_current : forall frepr o src dst,
  NoDup (map fst (p_ws src)) -> (forall kn, In kn (p_ws src) -> job_ok (snd kn)) ->
  wf (JObj (read_doc FN_PDOC (p_top src))) = true ->
  fst (sync_projects_m frepr cfg_current false (set_dry o true) src dst) = dst
  /\ snd (sync_projects_m frepr cfg_current false (set_dry o true) src dst)
     = snd (sync_projects_m frepr cfg_current false (set_dry o false) src dst).
Proof. intros frepr. apply (dry_run_no_change_fixed frepr cfg_current); reflexivity. Qed.

Lemma dry_run_no_change_job_current : forall frepr o deep fp sdir ddir dsp, job_ok (Dir sdir) ->
  fst (sync_jobs_m frepr cfg_current (set_dry o true) deep fp (Some sdir) (Some ddir) dsp) = Some ddir
  /\ snd (sync_jobs_m frepr cfg_current (set_dry o true) deep fp (Some sdir) (Some ddir) dsp)
     = snd (sync_jobs_m frepr cfg_current (set_dry o false) deep fp (Some sdir) (Some ddir) dsp).
Proof. intros frepr. apply (dry_run_no_change_fixed_job frepr cfg_current); reflexivity. Qed.

Lemma dry_run_pooled_current : forall frepr all o src dst,
  o_dry_run o = true -> docs_wf src -> fst (sync_projects_m frepr cfg_current all o src dst) = dst.
Proof. intros. apply sync_projects_dry_id; auto. Qed.

(* a dry run into an uninitialised destination job returns, creating nothing *)
Lemma dry_run_uninitialised_current : forall frepr o deep sdir dsp,
  sync_jobs_m frepr cfg_current (set_dry o true) deep false (Some sdir) None dsp = (None, None).
Proof. reflexivity. Qed.

Lemma exclude_never_touched_current : forall frepr p fuel o deep sdir ddir subdir,
  wf_node (Dir sdir) = true ->
  p <> [] -> excluded cfg_current (at_path o p) (last p []) = true ->
  (forall es, lookup_path p (Dir ddir) <> Some (Dir es)) ->
  lookup_path p (Dir (fst (sync_ws frepr cfg_current fuel o deep sdir ddir subdir))) = lookup_path p (Dir ddir).
Proof.
  intros frepr p fuel o deep sdir ddir subdir Hwf Hp Hex Hd.
  destruct (o_dry_run o) eqn:Edry.
  - rewrite (sync_ws_dry_id frepr cfg_current fuel o deep sdir ddir subdir Edry (or_introl eq_refl)). reflexivity.
  - apply ws_exclude_never_touched; auto.
Qed.

(* what the patterns exclude at path p (relative to the job directory) of a job that is cloned: directly in the job
   directory a user pattern that is not one of the job's own two files, below it any user pattern *)
Definition clone_excl_at (o : opts) (p : path) : bool :=
  match p with
  | [k] => clone_excl o k
  | _ => o_exclude o (last p [])
  end.

(* a cloned job contains nothing — file or directory, at any depth — that the patterns exclude *)
Lemma clone_excluded_absent : forall frepr o id sd ws p,
  o_dry_run o = false -> alookup id ws = None -> p <> [] -> clone_excl_at o p = true ->
  lookup_path (id :: p) (Dir (fst (clone_or_sync frepr cfg_current o (id, Dir sd) ws))) = None.
Proof.
  intros frepr o id sd ws p Hdry Hn Hp Hex.
  rewrite (clone_exact frepr cfg_current o id sd ws Hdry Hn). cbn [fst fix_excl cfg_current].
  rewrite lookup_snoc_new by assumption. rewrite lookup_path_touch.
  destruct p as [|k q]; [congruence|].
  unfold clone_prune. cbn [fix_keep cfg_current]. rewrite lookup_prune_top. fold (clone_excl o k).
  destruct q as [|k2 q].
  - simpl in Hex. rewrite Hex. reflexivity.
  - destruct (clone_excl o k); [reflexivity|].
    destruct (alookup k sd) as [x|]; [|reflexivity].
    rewrite lookup_path_prune_excl; [reflexivity|discriminate|exact Hex].
Qed.

(* ... and a dry-run clone creates nothing at all *)
Lemma clone_dry_nothing : forall frepr o id sd ws,
  o_dry_run o = true -> alookup id ws = None -> clone_or_sync frepr cfg_current o (id, Dir sd) ws = (ws, None).
Proof. intros frepr o id sd ws Hdry Hn. unfold clone_or_sync, copy_tree_gen. rewrite Hn, Hdry. reflexivity. Qed.

Lemma deep_by_content_job_level : forall frepr cf o sid did dsp src dst c1 m1 c2 m2,
  run_sync frepr cf o (E_job sid did dsp) src dst =
    (let '(d', e) := sync_jobs_m frepr cf o (o_deep o) false (job_dir sid (p_ws src)) (job_dir did (p_ws dst)) dsp in
     ({| p_top := p_top dst;
         p_ws := match d' with Some x => aset did (Dir x) (p_ws dst) | None => p_ws dst end |}, e))
  /\ (file_same frepr true c1 m1 c2 m2 = false
      <-> bytes_eqb (content_bytes frepr c1) (content_bytes frepr c2) = false).
Proof. intros. split; [apply job_level_deep|apply deep_diff_is_bytes]. Qed.

Lemma job_step_is_local : forall frepr cf o,
  frame_step (fun kn : str * node => fst kn) (clone_or_sync frepr cf o)
  /\ local_step (fun kn : str * node => fst kn) (clone_or_sync frepr cf o).
Proof. intros. split; [apply clone_or_sync_frame|apply clone_or_sync_local]. Qed.

Lemma model_holds_C15_current : forall frepr i,
  i_entry i = E_project -> o_dry_run (i_opts i) = true ->
  docs_wf (i_src i) -> wf_project (i_src i) = true -> wf_project (i_dst i) = true ->
  let c := model_case frepr cfg_current i in
  proj_eqb frepr (i_dst i) (ob_dst (c_obs c)) = true /\ proj_eqb frepr (i_src i) (ob_src (c_obs c)) = true
  /\ ob_rest_ok (c_obs c) = true.
Proof. intros frepr i He Hd. apply (model_holds_C15 frepr cfg_current i He Hd); reflexivity. Qed.

(* ------------------------------------------------------------------ permission bits (SyncObs.perm_row) *)
(* In a dry run the model of the permission bits predicts "unchanged" for every row: the tree model leaves the
   destination as it is (dry_run_pooled_current), so no file carries the mtime NOW that marks a written file. *)
Lemma perm_predicted_dry : forall i rows m r,
  o_dry_run (i_opts i) = true -> ob_dst m = i_dst i ->
  (pr_dst r = true -> forall c mt, file_at (pr_path r) (p_ws (i_dst i)) = Some (c, mt) -> mt <> NOW) ->
  (pr_dst r = true -> file_at (pr_path r) (p_ws (i_dst i)) = None -> pr_before r = PERM_DEFAULT) ->
  perm_predicted i rows m r = pr_before r.
Proof.
  intros i rows m r Hdry Hm Hnow Habs. unfold perm_predicted.
  destruct (pr_dst r); [|reflexivity].
  specialize (Hnow eq_refl). specialize (Habs eq_refl).
  rewrite Hdry. cbn [negb]. rewrite andb_false_r. rewrite Hm.
  destruct (file_at (pr_path r) (p_ws (i_dst i))) as [[c mt]|] eqn:E.
  - destruct (Z.eqb mt NOW) eqn:EZ; [|reflexivity].
    apply Z.eqb_eq in EZ. exfalso. exact (Hnow c mt eq_refl EZ).
  - symmetry. apply Habs. reflexivity.
Qed.

Definition perm_rows_wf (c : case_sync) : Prop :=
  forall r, In r (cs_perm c) -> pr_dst r = true ->
    (forall c0 mt, file_at (pr_path r) (p_ws (i_dst (c_in (cs_case c)))) = Some (c0, mt) -> mt <> NOW)
    /\ (file_at (pr_path r) (p_ws (i_dst (c_in (cs_case c)))) = None -> pr_before r = PERM_DEFAULT).

(* licence for the correspondence, permission bits: when the implementation's bits agree with the model's on a
   project-level dry run, the dry-run clause about the bits holds on the implementation's observation *)
Lemma perm_model_holds_dry : forall c,
  i_entry (c_in (cs_case c)) = E_project -> o_dry_run (i_opts (c_in (cs_case c))) = true ->
  i_unmodelled (c_in (cs_case c)) = false -> i_parallel (c_in (cs_case c)) = false ->
  docs_wf (i_src (c_in (cs_case c))) -> perm_rows_wf c ->
  perm_mismatch c = false -> perm_dry_ok c = true.
Proof.
  intros c He Hdry Hun Hpar Hdocs Hwf Hmm.
  unfold perm_dry_ok. rewrite Hdry. cbn [negb orb].
  unfold perm_all_unchanged. apply forallb_forall. intros r Hin.
  unfold perm_mismatch in Hmm. rewrite Hun, Hpar in Hmm. cbn [negb andb] in Hmm.
  assert (Hr : negb (N.eqb (perm_predicted (c_in (cs_case c)) (cs_perm c)
                   (model_call (cs_frepr c) cfg_current (i_opts (c_in (cs_case c))) (i_entry (c_in (cs_case c)))
                               (i_src (c_in (cs_case c))) (i_dst (c_in (cs_case c)))) r) (pr_after r)) = false).
  { destruct (negb (N.eqb _ (pr_after r))) eqn:E; [|reflexivity].
    rewrite <- Hmm. symmetry. apply existsb_exists. exists r. split; [exact Hin|exact E]. }
  apply negb_false_iff in Hr. apply N.eqb_eq in Hr. rewrite <- Hr.
  rewrite (perm_predicted_dry _ _ _ r Hdry);
    [apply N.eqb_refl| |intro Hd; exact (proj1 (Hwf r Hin Hd))|intro Hd; exact (proj2 (Hwf r Hin Hd))].
  rewrite He. unfold model_call, model_call_gen, run_sync_gen.
  pose proof (dry_run_pooled_current (cs_frepr c) false (i_opts (c_in (cs_case c))) (i_src (c_in (cs_case c)))
                (i_dst (c_in (cs_case c))) Hdry Hdocs) as D.
  destruct (sync_projects_m (cs_frepr c) cfg_current false (i_opts (c_in (cs_case c))) (i_src (c_in (cs_case c)))
              (i_dst (c_in (cs_case c)))) as [d' e].
  cbn [fst] in D. cbn [ob_dst]. exact D.
Qed.
