(* ViewThm.v — the view-level theorems of C17 on the plain ("job-free") fragment:
   tokens are plain file names different from the leaf name, the prefix is a plain absolute path. *)
From SV Require Import Base View CorrC17 C17Proofs ViewFS.
From Coq Require Import Lia.

(* ------------------------------------------------------------------ list helpers *)
Lemma pnodup_In : forall x l, In x (pnodup l) <-> In x l.
Proof.
  induction l as [|p l IH]; simpl; [tauto|].
  destruct (path_mem p l) eqn:M.
  - rewrite IH. split; [auto|]. intros [->|H]; auto. apply path_mem_In. exact M.
  - simpl. rewrite IH. tauto.
Qed.

Lemma pnodup_NoDup : forall l, NoDup (pnodup l).
Proof.
  induction l as [|p l IH]; simpl; [constructor|].
  destruct (path_mem p l) eqn:M; [exact IH|].
  constructor; [|exact IH]. rewrite pnodup_In. apply path_mem_false. exact M.
Qed.

Lemma NoDup_app_disj : forall X (a b : list X),
  NoDup a -> NoDup b -> (forall x, In x a -> ~ In x b) -> NoDup (a ++ b).
Proof.
  induction a as [|x a IH]; intros b Ha Hb Hd; simpl; [exact Hb|].
  inversion Ha; subst. constructor.
  - intro Hin. apply in_app_or in Hin. destruct Hin as [Hin|Hin]; [contradiction|].
    apply (Hd x); [left; reflexivity|exact Hin].
  - apply IH; auto. intros y Hy. apply Hd. right. exact Hy.
Qed.

Lemma order_by_In : forall hint l x, In x (order_by hint l) <-> In x l.
Proof.
  intros hint l x. unfold order_by. rewrite in_app_iff, !filter_In.
  split.
  - intros [[_ H]|[H _]]; [apply path_mem_In; exact H|exact H].
  - intro H. destruct (path_mem x hint) eqn:M.
    + left. split; [|apply path_mem_In; exact H].
      apply -> in_rev. apply pnodup_In. apply -> in_rev. apply path_mem_In. exact M.
    + right. split; [exact H|reflexivity].
Qed.

Lemma order_by_NoDup : forall hint l, NoDup l -> NoDup (order_by hint l).
Proof.
  intros hint l H. unfold order_by. apply NoDup_app_disj.
  - apply NoDup_filter. apply NoDup_rev. apply pnodup_NoDup.
  - apply NoDup_filter. exact H.
  - intros x Hx Hy. apply filter_In in Hx. apply filter_In in Hy.
    destruct Hx as [Hx _]. destruct Hy as [_ Hy].
    apply <- in_rev in Hx. apply (proj1 (pnodup_In _ _)) in Hx. apply <- in_rev in Hx.
    apply path_mem_In in Hx. rewrite Hx in Hy. discriminate.
Qed.

Lemma snoc_cases : forall X (l : list X), l = [] \/ exists l' a, l = l' ++ [a].
Proof.
  intros X l. destruct l as [|x l]; [left; reflexivity|right].
  destruct (@exists_last _ (x :: l)) as [l' [a E]]; [discriminate|]. eauto.
Qed.

(* ------------------------------------------------------------------ tokens, specifications, the shape of a view *)
Definition tok (c : str) : Prop := plain c /\ nosep c /\ c <> s_job.

Lemma plain_job : plain s_job.
Proof. split; reflexivity. Qed.

Lemma is_prefix_app_l : forall p a b, is_prefix (p ++ a) (p ++ b) = is_prefix a b.
Proof. induction p; intros; simpl; auto. rewrite str_eqb_refl. simpl. auto. Qed.

Lemma path_eqb_app_l : forall p a b, path_eqb (p ++ a) (p ++ b) = path_eqb a b.
Proof. induction p; intros; simpl; auto. unfold path_eqb in *. simpl. rewrite str_eqb_refl. simpl. auto. Qed.

Lemma path_eqb_false : forall a b, path_eqb a b = false <-> a <> b.
Proof. intros. rewrite <- path_eqb_eq. destruct (path_eqb a b); split; congruence. Qed.

(* the kinds below the prefix of a view holding the links [cur] (tokens, raw target) *)
Definition vk (ex : bool) (cur : list (path * str)) (q : path) : option kind :=
  match q with
  | [] => if ex then Some KDir else None
  | _ => match find (fun e => path_eqb q (fst e ++ [s_job])) cur with
         | Some e => Some (KLnk (snd e))
         | None => if existsb (fun e => is_prefix q (fst e)) cur then Some KDir else None
         end
  end.

Definition toks (cur : list (path * str)) : Prop := forall e, In e cur -> Forall tok (fst e).

Lemma toks_no_job_last : forall T q, Forall tok T -> is_prefix q T = true -> forall T', q <> T' ++ [s_job].
Proof.
  intros T q HT Hp T' E. apply is_prefix_spec in Hp. destruct Hp as [r Er]. subst q T.
  rewrite <- app_assoc in HT. apply Forall_app in HT. destruct HT as [_ HT].
  simpl in HT. inversion HT as [|? ? [_ [_ Hj]] _]; subst. congruence.
Qed.

Lemma find_none_ext : forall X (f : X -> bool) l, (forall x, In x l -> f x = false) -> find f l = None.
Proof.
  induction l as [|y l IH]; intro H; simpl; [reflexivity|].
  rewrite (H y) by (left; reflexivity). apply IH. intros x Hx. apply H. right. exact Hx.
Qed.

Lemma find_app : forall X (f : X -> bool) a b,
  find f (a ++ b) = match find f a with Some x => Some x | None => find f b end.
Proof. induction a as [|x a IH]; intros; simpl; auto. destruct (f x); auto. Qed.

Lemma find_some_in : forall (cur : list (path * str)) q e,
  find (fun e : path * str => path_eqb q (fst e ++ [s_job])) cur = Some e -> In e cur /\ q = fst e ++ [s_job].
Proof.
  intros cur q e H. apply find_some in H. destruct H as [H1 H2]. apply path_eqb_eq in H2. auto.
Qed.

Lemma vk_dir_or_none : forall ex cur q T,
  Forall tok T -> is_prefix q T = true -> vk ex cur q = Some KDir \/ vk ex cur q = None.
Proof.
  intros ex cur q T HT Hp. unfold vk. destruct q as [|x q']; [destruct ex; auto|].
  rewrite find_none_ext.
  2: { intros e _. apply path_eqb_false. eapply toks_no_job_last; eauto. }
  destruct (existsb _ cur); auto.
Qed.

Lemma vk_free : forall ex cur T,
  Forall tok T -> toks cur -> ~ In T (map fst cur) -> vk ex cur (T ++ [s_job]) = None.
Proof.
  intros ex cur T HT Hc Hnew. unfold vk.
  destruct (T ++ [s_job]) as [|x l] eqn:El; [destruct T; discriminate|]. rewrite <- El. clear El x l.
  match goal with |- context [find ?f cur] => destruct (find f cur) as [e0|] eqn:F end.
  - exfalso. apply find_some in F. destruct F as [F1 F2]. apply path_eqb_eq in F2. apply app_inj_tail in F2. destruct F2 as [F2 _].
    apply Hnew. rewrite F2. apply in_map. exact F1.
  - match goal with |- (if ?b then _ else _) = _ => assert (b = false) as ->; [|reflexivity] end.
    apply not_true_is_false. intro Ex. apply existsb_exists in Ex. destruct Ex as [e0 [Hin Hp]].
    eapply (toks_no_job_last (fst e0) (T ++ [s_job])); eauto.
Qed.

Lemma vk_snoc : forall ex cur T src q,
  Forall tok T -> ~ In T (map fst cur) -> (q = [] -> True) ->
  vk true (cur ++ [(T, src)]) q =
  if path_eqb q (T ++ [s_job]) then Some (KLnk src)
  else if is_prefix q T then Some KDir
  else vk ex cur q.
Proof.
  intros ex cur T src q HT Hnew _.
  destruct q as [|x q'].
  - simpl. destruct T; reflexivity.
  - unfold vk. rewrite find_app. simpl find.
    match goal with |- context [find ?f cur] => destruct (find f cur) as [e0|] eqn:F end.
    + apply find_some in F. destruct F as [F1 F2]. apply path_eqb_eq in F2.
      assert (path_eqb (x :: q') (T ++ [s_job]) = false) as ->.
      { apply path_eqb_false. intro Eq. rewrite F2 in Eq. apply app_inj_tail in Eq. destruct Eq as [Eq _].
        apply Hnew. rewrite <- Eq. apply in_map. exact F1. }
      assert (is_prefix (x :: q') T = false) as ->; [|reflexivity].
      apply not_true_is_false. intro Pr. eapply (toks_no_job_last T (x :: q')); eauto.
    + destruct (path_eqb (x :: q') (T ++ [s_job])) eqn:Eq; [reflexivity|].
      rewrite existsb_app. cbn [existsb fst]. rewrite Bool.orb_false_r.
      destruct (is_prefix (x :: q') T) eqn:Pr.
      * rewrite Bool.orb_true_r. reflexivity.
      * rewrite Bool.orb_false_r. reflexivity.
Qed.

Section View.
Variable P : path.                       (* the prefix, a plain absolute path below the root *)
Hypothesis P_ne : P <> [].
Hypothesis P_plain : Forall plain P.

Record Inv (w : node) (ex : bool) (cur : list (path * str)) : Prop := {
  inv_parent : dirs_to w (removelast P);
  inv_kinds : forall q, kind_at w (P ++ q) = vk ex cur q;
  inv_ex : ex = false -> cur = [];
  inv_tok : toks cur
}.



Lemma removelast_app_last : forall X (l : list X) d, l <> [] -> removelast l ++ [last l d] = l.
Proof. intros. symmetry. apply app_removelast_last. exact H. Qed.

(* every prefix of P ++ T is a directory or missing: there is a frontier *)
Lemma frontier : forall w d e0,
  dirs_to w e0 ->
  (forall q1 q2, d = q1 ++ q2 -> kind_at w (e0 ++ q1) = Some KDir \/ kind_at w (e0 ++ q1) = None) ->
  exists e m, e0 ++ d = e ++ m /\ dirs_to w e /\ (m <> [] -> get w (e ++ [hd [] m]) = None).
Proof.
  intros w d. induction d as [|c d IH]; intros e0 Hd Hk.
  - exists e0, []. repeat split; auto. congruence.
  - change str in c. destruct (Hk [c] d eq_refl) as [K|K].
    + assert (Hd' : dirs_to w (e0 ++ [c])).
      { intros d1 d2 E. destruct (snoc_cases _ d2) as [->|[d2' [z ->]]].
        { rewrite app_nil_r in E. subst d1. exact K. } rewrite app_assoc in E. apply app_inj_tail in E. destruct E as [E _].
        apply (Hd d1 d2' E). }
      destruct (IH (e0 ++ [c]) Hd') as [e [m [E [He Hm]]]].
      * intros q1 q2 Eq. rewrite <- app_assoc. apply (Hk (c :: q1) q2). simpl. rewrite Eq. reflexivity.
      * exists e, m. rewrite <- app_assoc in E. auto.
    + exists e0, (c :: d). repeat split; auto. intros _. simpl. apply omap_none. exact K.
Qed.



Lemma prefix_cases : forall (q1 q2 T : path),
  q1 ++ q2 = P ++ T ->
  (exists r, removelast P = q1 ++ r) \/ (exists q', q1 = P ++ q' /\ T = q' ++ q2).
Proof.
  intros q1 q2 T E. apply app_eq_app in E. destruct E as [l [[E1 E2]|[E1 E2]]].
  - right. eauto.
  - destruct (snoc_cases _ l) as [->|[l' [a ->]]].
    + right. exists []. rewrite app_nil_r in E1. simpl in E2. split; [rewrite app_nil_r; symmetry; exact E1|simpl; symmetry; exact E2].
    + left. exists l'. rewrite E1. rewrite app_assoc. rewrite removelast_last. reflexivity.
Qed.

Lemma root_dir : forall w ex cur, Inv w ex cur -> dirs_to w [].
Proof.
  intros w ex cur I d1 d2 E. symmetry in E. apply app_eq_nil in E. destruct E as [-> _].
  apply (inv_parent _ _ _ I [] (removelast P)). reflexivity.
Qed.

Lemma P_split : P = removelast P ++ [last P []].
Proof. apply app_removelast_last. exact P_ne. Qed.

Lemma link_step : forall w ex cur T src n cwd,
  Inv w ex cur -> Forall tok T -> ~ In T (map fst cur) ->
  exists w' k,
    make_link (w, n) cwd src (A ((P ++ T) ++ [s_job])) = ok (w', N.succ (n + k)) /\
    Inv w' true (cur ++ [(T, src)]) /\
    (forall r, is_prefix P r = false -> kind_at w' r = kind_at w r).
Proof.
  intros w ex cur T src n cwd I HT Hnew.
  assert (HTp : Forall plain T) by (eapply Forall_impl; [|exact HT]; intros a [Ha _]; exact Ha).
  assert (Hplain : Forall plain (P ++ T)) by (apply Forall_app; auto).
  assert (Hk : forall q1 q2, P ++ T = q1 ++ q2 -> kind_at w ([] ++ q1) = Some KDir \/ kind_at w ([] ++ q1) = None).
  { intros q1 q2 E. simpl. symmetry in E. destruct (prefix_cases q1 q2 T E) as [[r Er]|[q' [E1 E2]]].
    - left. apply (inv_parent _ _ _ I q1 r Er).
    - subst q1. rewrite (inv_kinds _ _ _ I). apply (vk_dir_or_none ex cur q' T HT).
      apply is_prefix_spec. eauto. }
  destruct (frontier w (P ++ T) [] (root_dir _ _ _ I) Hk) as [e [m [E [He Hm]]]]. simpl in E.
  assert (Hfree : get w ((P ++ T) ++ [s_job]) = None).
  { apply omap_none. change (option_map kind_of (get w ((P ++ T) ++ [s_job]))) with (kind_at w ((P ++ T) ++ [s_job])).
    rewrite <- app_assoc. rewrite (inv_kinds _ _ _ I). apply vk_free; auto. apply (inv_tok _ _ _ I). }
  exists (linked w e m s_job src), (N.of_nat (length m)).
  rewrite E in *.
  split; [|split].
  - apply make_link_plain; auto.
    + rewrite <- E. destruct P; [congruence|discriminate].
    + apply plain_job.
  - constructor.
    + intros d1 d2 Ed. rewrite kind_linked by auto.
      assert (Pr : is_prefix d1 (e ++ m) = true).
      { rewrite <- E. apply is_prefix_spec. exists (d2 ++ [last P []] ++ T).
        transitivity ((removelast P ++ [last P []]) ++ T); [rewrite <- P_split; reflexivity|].
        rewrite Ed. rewrite <- !app_assoc. reflexivity. }
      rewrite Pr.
      destruct (path_eqb d1 ((e ++ m) ++ [s_job])) eqn:Eq; [|reflexivity].
      apply path_eqb_eq in Eq. apply is_prefix_length in Pr. rewrite Eq, app_length in Pr. simpl in Pr. lia.
    + intro q. rewrite kind_linked by auto. rewrite <- E.
      rewrite <- (app_assoc P T). rewrite path_eqb_app_l, is_prefix_app_l.
      rewrite (inv_kinds _ _ _ I). symmetry. apply vk_snoc; auto.
    + discriminate.
    + intros e0 Hin. apply in_app_or in Hin. destruct Hin as [Hin|[<-|[]]]; [apply (inv_tok _ _ _ I); exact Hin|exact HT].
  - intros r Hr. rewrite kind_linked by auto. rewrite <- E.
    destruct (path_eqb r ((P ++ T) ++ [s_job])) eqn:Eq.
    + apply path_eqb_eq in Eq. subst r. rewrite <- app_assoc, is_prefix_app in Hr. discriminate.
    + destruct (is_prefix r (P ++ T)) eqn:Pr; [|reflexivity].
      apply is_prefix_spec in Pr. destruct Pr as [u Eu]. symmetry in Eu.
      destruct (prefix_cases r u T Eu) as [[r' Er]|[q' [E1 _]]].
      * symmetry. apply (inv_parent _ _ _ I r r' Er).
      * subst r. rewrite is_prefix_app in Hr. discriminate.
Qed.

Definition key_of (e : path * path) : path := fst e ++ [s_job].

Lemma tok_key_not_abs : forall T, Forall tok T -> is_abs (T ++ [s_job]) = false.
Proof.
  intros T HT. destruct T as [|c T]; [reflexivity|]. simpl.
  inversion HT as [|? ? [Hc _] _]; subst. destruct c; [exfalso; eapply plain_nonempty; eauto|].
  destruct (T ++ [s_job]); reflexivity.
Qed.

Lemma pjoin_key : forall T, Forall tok T -> pjoin (A P) (T ++ [s_job]) = A ((P ++ T) ++ [s_job]).
Proof.
  intros T HT. unfold pjoin. rewrite tok_key_not_abs by exact HT. unfold A. simpl. rewrite <- app_assoc. reflexivity.
Qed.

Definition placed (cwd : path) (e : path * path) : path * str :=
  (fst e, link_target cwd (A P) (key_of e) (snd e)).

Definition frame (w w' : node) : Prop := forall r, is_prefix P r = false -> kind_at w' r = kind_at w r.

Lemma link_all_spec : forall L w ex cur n cwd lk,
  Inv w ex cur ->
  (forall e, In e L -> Forall tok (fst e)) -> NoDup (map fst L) ->
  (forall e, In e L -> ~ In (fst e) (map fst cur)) ->
  (forall e, In e L -> alookup (join_sep (key_of e)) lk = Some (snd e)) ->
  exists w' k,
    link_all (w, n) cwd (A P) lk (map key_of L) = ok (w', (n + k)%N) /\
    (L <> [] -> (0 < k)%N) /\
    Inv w' (ex || negb (is_nil L)) (cur ++ map (placed cwd) L) /\ frame w w'.
Proof.
  induction L as [|e L IH]; intros w ex cur n cwd lk I Ht Hnd Hnew Hlk.
  - exists w, 0%N. simpl. rewrite app_nil_r, Bool.orb_false_r, N.add_0_r.
    split; [reflexivity|]. split; [congruence|]. split; [exact I|]. intros r Hr. reflexivity.
  - simpl map. simpl link_all. rewrite (Hlk e) by (left; reflexivity).
    unfold key_of at 2. rewrite pjoin_key by (apply Ht; left; reflexivity).
    destruct (link_step w ex cur (fst e) (link_target cwd (A P) (key_of e) (snd e)) n cwd I) as [w1 [k1 [M [I1 F1]]]].
    { apply Ht. left. reflexivity. }
    { apply Hnew. left. reflexivity. }
    match goal with |- context [make_link ?a ?b ?c ?d] =>
      replace (make_link a b c d) with (ok (w1, N.succ (n + k1))) by (symmetry; exact M) end.
    unfold ok at 1.
    inversion Hnd as [|? ? Hn1 Hn2]; subst.
    destruct (IH w1 true (cur ++ [placed cwd e]) (N.succ (n + k1)) cwd lk) as [w2 [k2 [M2 [_ [I2 F2]]]]]; auto.
    + intros e' He'. apply Ht. right. exact He'.
    + intros e' He' Hin. rewrite map_app in Hin. apply in_app_or in Hin. destruct Hin as [Hin|[Hin|[]]].
      * apply (Hnew e'); [right; exact He'|exact Hin].
      * apply Hn1. change (fst e) with (fst (placed cwd e)). rewrite Hin. apply in_map. exact He'.
    + intros e' He'. apply Hlk. right. exact He'.
    + exists w2, (N.succ k1 + k2)%N. rewrite M2.
      split; [f_equal; f_equal; lia|]. split; [intros _; lia|]. split.
      * simpl is_nil. simpl negb. rewrite Bool.orb_true_r. simpl in I2. rewrite <- app_assoc in I2. exact I2.
      * intros r Hr. rewrite (F2 r Hr). apply (F1 r Hr).
Qed.
End View.
