(* Crash.v — the lifecycle operations of signac as step programs (Proc.v) written after
   /repo/signac/job.py (_StatePointDict._save / save / load, Job.init / move / remove / clear),
   project.py (Project.__init__, clone, check, _job_dirs), _utility.py (_mkdir_p), the JSON backend of
   synced_collections 1.0.1 (_save_to_resource: temp file + os.replace when write_concern or thread
   support is active, else truncate + write in place) and CPython 3.12 os.makedirs / shutil.copytree /
   shutil.rmtree; and the crash invariant CInv with its executable form.

   Ws.v's programs are big-step functions over a world; the crash / fault / interleaving semantics need
   one atomic call per step, hence the programs are re-stated here call by call.  Python-side state of a
   handle (its id, its cached state point, _directory_known) lives in the continuation closures.

   [atomic]: JSON thread support is active (the default) — state points are written through a temp file;
   documents always are (write_concern=True).  [tag] distinguishes the temp files of different processes
   (the uuid part of "._<uuid>_<name>"), [] for a single process. *)
From SV Require Export Proc Json MD5 Canon WsNames.
Import ListNotations.

(* directory names that Project._job_dirs yields: JOB_ID_REGEX.fullmatch, exactly 32 lower-case hex characters *)
Definition id_match (n : str) : bool :=
  Nat.eqb (length n) 32 && forallb lower_hex n.

Definition job_dirs (f : fs) (wsd : path) : list str :=
  match listdir f wsd with
  | FOk names => filter id_match names
  | FErr _ => []
  end.

Definition is_jnull (v : json) : bool := match v with JNull => true | _ => false end.

Definition json_same (a b : json) : bool := json_eqb (norm a) (norm b).

(* entries below <project>/workspace *)
Definition deep (p : path) : bool := Nat.leb 3 (length p).

Definition is_dir_r (r : fres val) : bool := match r with FOk (RKind KDir) => true | _ => false end.
Definition is_file_r (r : fres val) : bool := match r with FOk (RKind KFile) => true | _ => false end.
Definition exists_r (r : fres val) : bool :=
  match r with FOk (RKind KNone) => false | FOk (RKind _) => true | _ => false end.

Definition dest_exists_e (e : errno) : bool :=
  match e with EEXIST | ENOTEMPTY | EACCES => true | _ => false end.

(* what the caller sees *)
Definition exn_of_perr (e : perr) : exn := match e with PExn x => x | POs _ => EOSError end.

Section PROGS.
  Variable frepr : fl -> str.
  Variable atomic : bool.
  Variable tag : str.

  Definition tmpname (file : path) : path := parent file ++ [TMPPFX ++ tag ++ last file []].

  Definition jcontent (v : json) : content := mkContent (dumps frepr v) (Some v).

  (* JSONCollection._save_to_resource *)
  Definition json_save {A} (at_ : bool) (file : path) (v : json) (k : fres unit -> prog A) : prog A :=
    let target := if at_ then tmpname file else file in
    Do (COpenW target) (fun r =>
      match r with
      | FErr e => k (FErr e)
      | FOk _ =>
          Do (CWrite target (jcontent v)) (fun rw =>
            Do (CClose target) (fun rc =>     (* the with-block closes the file also after a failed write *)
              match rw, rc with
              | _, FErr e => k (FErr e)            (* a failing close wins over a failed flush (chained) *)
              | FErr e, FOk _ => k (FErr e)
              | FOk _, FOk _ =>
                  if at_ then
                    Do (CRename target file) (fun rr =>
                      match rr with FErr e => k (FErr e) | FOk _ => k (FOk tt) end)
                  else k (FOk tt)
              end))
      end).

  (* _StatePointDict.load(job_id): _load_from_resource (ENOENT -> None), JSONDecodeError and a hash
     mismatch -> JobsCorruptedError, other OSErrors propagate *)
  Definition sp_load {A} (file : path) (i : str) (k : json + perr -> prog A) : prog A :=
    Do (CRead file) (fun r =>
      match r with
      | FErr ENOENT => k (inr (PExn EJobsCorrupted))
      | FErr e => k (inr (POs e))
      | FOk (RData d) =>
          match c_json d with
          | None => k (inr (PExn EJobsCorrupted))
          | Some v =>
              (* "data is None or calc_id(data) != job_id": a file holding JSON null never validates *)
              if is_jnull v then k (inr (PExn EJobsCorrupted))
              else if str_eqb (calc_id frepr v) i then k (inl v) else k (inr (PExn EJobsCorrupted))
          end
      | FOk _ => k (inr (PExn EOther))
      end).

  (* os.makedirs(p, exist_ok) *)
  Fixpoint makedirs_p {A} (fuel : nat) (exist_ok : bool) (p : path) (k : fres unit -> prog A) : prog A :=
    let leaf :=
      Do (CMkdir p) (fun r =>
        match r with
        | FOk _ => k (FOk tt)
        | FErr e =>
            if exist_ok then Do (CStat p) (fun r2 => if is_dir_r r2 then k (FOk tt) else k (FErr e))
            else k (FErr e)
        end) in
    match fuel with
    | O => leaf
    | S fuel' =>
        match parent p with
        | [] | [_] => leaf              (* the project directory itself exists (nothing modelled removes it) *)
        | hd =>
            Do (CStat hd) (fun rh =>
              if exists_r rh then leaf
              else makedirs_p fuel' exist_ok hd (fun r =>
                     match r with
                     | FOk _ | FErr EEXIST => leaf          (* except FileExistsError: pass *)
                     | FErr e => k (FErr e)
                     end))
        end
    end.

  (* signac._utility._mkdir_p *)
  Definition mkdir_p {A} (p : path) (k : fres unit -> prog A) : prog A :=
    Do (CStat p) (fun r => if is_dir_r r then k (FOk tt) else makedirs_p 3 true p k).

  (* _StatePointDict.save(force): an OSError with errno EEXIST / EACCES is SWALLOWED (the except block
     re-raises only in the other cases, after trying to delete the file) *)
  Definition sp_save {A} (file : path) (v : json) (force : bool) (k : unit + perr -> prog A) : prog A :=
    let handler (r : fres unit) : prog A :=
      match r with
      | FOk _ => k (inl tt)
      | FErr e =>
          if errno_eqb e EEXIST || errno_eqb e EACCES then k (inl tt)
          else Do (CUnlink file) (fun _ => k (inr (POs e)))
      end in
    if force then json_save atomic file v handler
    else Do (CStat file) (fun r => if is_file_r r then handler (FOk tt) else json_save atomic file v handler).

  (* Job.init(force, validate_statepoint=True) for a handle that knows its state point *)
  Definition job_init {A} (ws : path) (sp : json) (force : bool) (k : unit + perr -> prog A) : prog A :=
    let i := calc_id frepr sp in
    let dir := ws ++ [i] in
    let file := dir ++ [SPF] in
    sp_load file i (fun r =>
      match r with
      | inl _ => k (inl tt)
      | inr _ =>
          mkdir_p dir (fun r1 =>
            match r1 with
            | FErr e => k (inr (POs e))
            | FOk _ =>
                sp_save file sp force (fun r2 =>
                  match r2 with
                  | inr e => k (inr e)
                  | inl _ => sp_load file i (fun r3 => match r3 with inl _ => k (inl tt) | inr e => k (inr e) end)
                  end)
            end)
      end).

  (* _StatePointDict._save: the re-key protocol (ids of the handles updated in memory) *)
  Definition rekey {A} (ws : path) (old_id : str) (new_sp : json) (k : unit + perr -> prog A) : prog A :=
    let new_id := calc_id frepr new_sp in
    if str_eqb old_id new_id then k (inl tt)
    else
      let odir := ws ++ [old_id] in
      let ndir := ws ++ [new_id] in
      let fname := odir ++ [SPF] in
      let bak := odir ++ [SPT] in
      let phase2 (should_init : bool) : prog A :=
        Do (CUnlink (ndir ++ [SPT])) (fun r =>
          match r with
          | FOk _ | FErr ENOENT => if should_init then job_init ws new_sp false k else k (inl tt)
          | FErr e => k (inr (POs e))
          end) in
      (* the outer [except OSError] for an errno other than ENOENT (8529336): the state point file is read
         again (_load_from_resource; a missing file gives None), the in-memory data restored, the error re-raised *)
      let oexit (x : perr) : prog A :=
        Do (CRead fname) (fun r =>
          match r with
          | FErr ENOENT => k (inr x)
          | FErr e3 => k (inr (POs e3))
          | FOk (RData d) => match c_json d with Some _ => k (inr x) | None => k (inr (PExn EValueError)) end
          | FOk _ => k (inr (PExn EOther))
          end) in
      Do (CRename fname bak) (fun r =>
        match r with
        | FErr ENOENT => phase2 false
        | FErr e => oexit (POs e)
        | FOk _ =>
            Do (CRename odir ndir) (fun r1 =>
              match r1 with
              | FOk _ => phase2 true
              | FErr e =>
                  Do (CRename bak fname) (fun r2 =>          (* rollback *)
                    match r2 with
                    | FErr ENOENT => phase2 false
                    | FErr e2 => oexit (POs e2)
                    | FOk _ =>
                        (* the in-memory data is restored from the restored file (_load_from_resource) *)
                        Do (CRead fname) (fun r3 =>
                          let continue_ : prog A :=
                            if dest_exists_e e then k (inr (PExn EDestinationExists))
                            else match e with ENOENT => phase2 false | _ => oexit (POs e) end in
                          match r3 with
                          | FErr ENOENT => continue_
                          | FErr e3 => oexit (POs e3)
                          | FOk (RData d) =>
                              match c_json d with Some _ => continue_ | None => k (inr (PExn EValueError)) end
                          | FOk _ => k (inr (PExn EOther))
                          end)
                    end)
              end)
        end).

  (* The same protocol with the HANDLE's in-memory state at every exit: (id, in-memory state point data).
     The data was modified BEFORE _save runs; it is restored from the file by the re-read after a successful
     rollback and by the re-read of the outer handler ([oexit]); a file holding `null` or a missing file leave
     the memory alone (_update(None)).  [rekey_h_forget] below: forgetting the handle state gives [rekey]. *)
  Definition rekey_h {A} (ws : path) (old_id : str) (new_sp : json)
                     (k : str * json -> unit + perr -> prog A) : prog A :=
    let new_id := calc_id frepr new_sp in
    if str_eqb old_id new_id then k (old_id, new_sp) (inl tt)
    else
      let odir := ws ++ [old_id] in
      let ndir := ws ++ [new_id] in
      let fname := odir ++ [SPF] in
      let bak := odir ++ [SPT] in
      let phase2 (should_init : bool) : prog A :=
        Do (CUnlink (ndir ++ [SPT])) (fun r =>
          match r with
          | FOk _ | FErr ENOENT =>
              if should_init then job_init ws new_sp false (fun r0 => k (new_id, new_sp) r0) else k (new_id, new_sp) (inl tt)
          | FErr e => k (new_id, new_sp) (inr (POs e))
          end) in
      let oexit (hd : json) (x : perr) : prog A :=
        Do (CRead fname) (fun r =>
          match r with
          | FErr ENOENT => k (old_id, hd) (inr x)
          | FErr e3 => k (old_id, hd) (inr (POs e3))
          | FOk (RData d) =>
              match c_json d with
              | Some v => k (old_id, if is_jnull v then hd else v) (inr x)
              | None => k (old_id, hd) (inr (PExn EValueError))
              end
          | FOk _ => k (old_id, hd) (inr (PExn EOther))
          end) in
      Do (CRename fname bak) (fun r =>
        match r with
        | FErr ENOENT => phase2 false
        | FErr e => oexit new_sp (POs e)
        | FOk _ =>
            Do (CRename odir ndir) (fun r1 =>
              match r1 with
              | FOk _ => phase2 true
              | FErr e =>
                  Do (CRename bak fname) (fun r2 =>
                    match r2 with
                    | FErr ENOENT => phase2 false
                    | FErr e2 => oexit new_sp (POs e2)
                    | FOk _ =>
                        Do (CRead fname) (fun r3 =>
                          let continue_ (d : json) : prog A :=
                            if dest_exists_e e then k (old_id, d) (inr (PExn EDestinationExists))
                            else match e with ENOENT => phase2 false | _ => oexit d (POs e) end in
                          match r3 with
                          | FErr ENOENT => continue_ new_sp
                          | FErr e3 => oexit new_sp (POs e3)
                          | FOk (RData d) =>
                              match c_json d with
                              | Some v => continue_ (if is_jnull v then new_sp else v)   (* self._update(file content) *)
                              | None => k (old_id, new_sp) (inr (PExn EValueError))
                              end
                          | FOk _ => k (old_id, new_sp) (inr (PExn EOther))
                          end)
                    end)
              end)
        end).

  (* a handle opened by id: Job.statepoint loads and validates the file on first access *)
  Definition with_sp {A} (ws : path) (i : str) (k : json -> prog A) (fail : perr -> prog A) : prog A :=
    sp_load (ws ++ [i; SPF]) i (fun r => match r with inl v => k v | inr e => fail e end).

  (* job.sp[k] = v / job.update_statepoint(...) on a handle opened by id *)
  Definition rekey_by_id {A} (ws : path) (old_id : str) (new_sp : json) (k : unit + perr -> prog A) : prog A :=
    with_sp ws old_id (fun _ => rekey ws old_id new_sp k) (fun e => k (inr e)).

  (* Job.move(project) *)
  Definition job_move {A} (ws : path) (i : str) (dst_ws : path) (k : unit + perr -> prog A) : prog A :=
    with_sp ws i (fun sp =>
      let did := calc_id frepr sp in
      mkdir_p dst_ws (fun r =>
        match r with
        | FErr e => k (inr (POs e))
        | FOk _ =>
            Do (CRename (ws ++ [i]) (dst_ws ++ [did])) (fun r1 =>
              match r1 with
              | FOk _ => k (inl tt)
              | FErr ENOENT => k (inr (PExn ERuntimeError))
              | FErr EXDEV => k (inr (PExn ERuntimeError))
              | FErr e => if dest_exists_e e then k (inr (PExn EDestinationExists)) else k (inr (POs e))
              end)
        end)) (fun e => k (inr e)).

  (* shutil.copy2: three stat calls of the destination whose errors are swallowed (os.path.isdir(dst);
     _samefile -> os.stat(dst); the special-file test of copyfile), then open source, open destination, copy,
     close, copystat (utime, chmod).  The source is a DirEntry: its stat is cached, no system call. *)
  Definition copy_file {A} (s d : path) (k : fres unit -> prog A) : prog A :=
    Do (CStat d) (fun _ => Do (CStat d) (fun _ => Do (CStat d) (fun _ =>
    Do (CRead s) (fun r =>
      match r with
      | FOk (RData c) =>
          Do (COpenW d) (fun ro =>
            match ro with
            | FErr e => k (FErr e)
            | FOk _ =>
                let after (rw : fres val) : prog A :=
                  Do (CClose d) (fun rc =>
                    match rw, rc with
                    | _, FErr e => k (FErr e)
                    | FErr e, FOk _ => k (FErr e)
                    | FOk _, FOk _ =>
                        Do (CMeta d) (fun m1 =>
                          match m1 with
                          | FErr e => k (FErr e)
                          | FOk _ => Do (CMeta d) (fun m2 => match m2 with FErr e => k (FErr e) | FOk _ => k (FOk tt) end)
                          end)
                    end) in
                match c_bytes c with
                | [] => after (FOk RUnit)                  (* nothing to write for an empty file *)
                | _ => Do (CWrite d c) after
                end
            end)
      | FOk _ => k (FErr EINVAL)
      | FErr e => k (FErr e)
      end)))).

  (* [top] of a nested copytree call *)
  Definition nested : bool := false.

  (* shutil.copytree(s, d): errors of single entries are collected ([errs]) and raised at the end;
     a failing scandir / makedirs raises at once.  [k] receives (FOk errs) or the immediate error. *)
  Fixpoint copytree_p {A} (fuel : nat) (top : bool) (s d : path) (k : fres bool -> prog A) : prog A :=
    Do (CListdir s) (fun rl =>
      match rl with
      | FOk (RNames names) =>
          makedirs_p 3 false d (fun rm =>
            match rm with
            | FErr e => k (FErr e)
            | FOk _ =>
                (fix entries (ns : list str) (errs : bool) {struct ns} : prog A :=
                   match ns with
                   | [] =>
                       (* copystat(src, dst) of the directory itself; the top-level source is a path (os.stat:
                          a system call whose error is collected), nested sources are DirEntry objects *)
                       let cs : prog A :=
                         Do (CMeta d) (fun m1 =>
                           match m1 with
                           | FErr _ => k (FOk true)
                           | FOk _ => Do (CMeta d) (fun m2 => match m2 with FErr _ => k (FOk true) | FOk _ => k (FOk errs) end)
                           end) in
                       if top then Do (CStat s) (fun rs => match rs with FErr _ => k (FOk true) | FOk _ => cs end) else cs
                   | n :: ns' =>
                       Do (CStat (s ++ [n])) (fun rk =>
                         if is_dir_r rk then
                           match fuel with
                           | O => entries ns' true
                           | S fuel' =>
                               copytree_p fuel' nested (s ++ [n]) (d ++ [n]) (fun rr =>
                                 match rr with
                                 | FOk e1 => entries ns' (errs || e1)
                                 | FErr _ => entries ns' true
                                 end)
                           end
                         else
                           copy_file (s ++ [n]) (d ++ [n]) (fun rc =>
                             match rc with FOk _ => entries ns' errs | FErr _ => entries ns' true end))
                   end) names false
            end)
      | FOk _ => k (FErr EINVAL)
      | FErr e => k (FErr e)
      end).

  (* shutil.rmtree(p, ignore_errors=True): every error is ignored and the walk goes on *)
  Fixpoint rmtree_ign {A} (fuel : nat) (p : path) (k : prog A) : prog A :=
    Do (CStat p) (fun rs =>
      if is_dir_r rs then
        Do (CListdir p) (fun rl =>
          match rl with
          | FOk (RNames names) =>
              (fix entries (ns : list str) {struct ns} : prog A :=
                 match ns with
                 | [] => Do (CRmdir p) (fun _ => k)
                 | n :: ns' =>
                     Do (CStat (p ++ [n])) (fun rk =>
                       if is_dir_r rk then
                         match fuel with
                         | O => entries ns'
                         | S fuel' => rmtree_ign fuel' (p ++ [n]) (entries ns')
                         end
                       else Do (CUnlink (p ++ [n])) (fun _ => entries ns'))
                 end) names
          | _ => k
          end)
      else k).

  (* Project.clone(job): existed = (os.lstat(dst) succeeds); a failed copy
     (other than "destination exists" / "source missing") removes the partial destination — only if this
     call created it — before the error is re-raised *)
  Definition job_clone {A} (ws : path) (i : str) (dst_ws : path) (k : unit + perr -> prog A) : prog A :=
    with_sp ws i (fun sp =>
      let did := calc_id frepr sp in
      Do (CStat (dst_ws ++ [did])) (fun rs =>
        let cleanup (e : perr) : prog A :=
          if exists_r rs then k (inr e) else rmtree_ign 6 (dst_ws ++ [did]) (k (inr e)) in
        let copy : prog A :=
          copytree_p 6 true (ws ++ [i]) (dst_ws ++ [did]) (fun r =>
            match r with
            | FOk false => k (inl tt)
            | FOk true => cleanup (POs EIO)                  (* shutil.Error: an OSError without errno *)
            | FErr EEXIST => k (inr (PExn EDestinationExists))
            | FErr ENOENT => k (inr (PExn EValueError))
            | FErr e => cleanup (POs e)
            end) in
        (* ed42bbc: os.lstat(dst) in a try block: FileNotFoundError means "not there", any other error
           propagates before anything is copied *)
        match rs with
        | FErr ENOENT => copy
        | FErr e => k (inr (POs e))
        | FOk _ => copy
        end)) (fun e => k (inr e)).

  (* shutil.rmtree(p): the first error is raised *)
  Fixpoint rmtree_p {A} (fuel : nat) (p : path) (k : fres unit -> prog A) : prog A :=
    Do (CListdir p) (fun rl =>
      match rl with
      | FOk (RNames names) =>
          (fix entries (ns : list str) {struct ns} : prog A :=
             match ns with
             | [] => Do (CRmdir p) (fun r => match r with FOk _ => k (FOk tt) | FErr e => k (FErr e) end)
             | n :: ns' =>
                 Do (CStat (p ++ [n])) (fun rk =>
                   if is_dir_r rk then
                     match fuel with
                     | O => k (FErr EINVAL)
                     | S fuel' => rmtree_p fuel' (p ++ [n]) (fun r => match r with FOk _ => entries ns' | FErr e => k (FErr e) end)
                     end
                   else Do (CUnlink (p ++ [n])) (fun r => match r with FOk _ => entries ns' | FErr e => k (FErr e) end))
             end) names
      | FOk _ => k (FErr EINVAL)
      | FErr e => k (FErr e)
      end).

  (* shutil.rmtree(p) as called: os.lstat(p) first (its error is raised), then the walk *)
  Definition rmtree_top {A} (p : path) (k : fres unit -> prog A) : prog A :=
    Do (CStat p) (fun rs => match rs with FErr e => k (FErr e) | FOk _ => rmtree_p 6 p k end).

  (* Job.remove(): ENOENT is "nothing to remove" *)
  Definition remove_job {A} (ws : path) (i : str) (k : unit + perr -> prog A) : prog A :=
    rmtree_top (ws ++ [i]) (fun r =>
      match r with
      | FOk _ | FErr ENOENT => k (inl tt)
      | FErr e => k (inr (POs e))
      end).

  (* the document of a job: BufferedJSONAttrDict(filename, write_concern=True) outside buffered mode *)
  Definition doc_load {A} (file : path) (k : json + perr -> prog A) : prog A :=
    Do (CRead file) (fun r =>
      match r with
      | FErr ENOENT => k (inl (JObj []))
      | FErr e => k (inr (POs e))
      | FOk (RData d) => match c_json d with Some v => k (inl v) | None => k (inr (PExn EValueError)) end
      | FOk _ => k (inr (PExn EOther))
      end).

  Definition doc_store {A} (file : path) (v : json) (k : unit + perr -> prog A) : prog A :=
    json_save true file v (fun r => match r with FOk _ => k (inl tt) | FErr e => k (inr (POs e)) end).

  (* Job.clear() on a handle opened by id (_directory_known) *)
  Definition clear_job {A} (ws : path) (i : str) (k : unit + perr -> prog A) : prog A :=
    let dir := ws ++ [i] in
    let fin (r : unit + perr) : prog A :=
      match r with
      | inr (POs ENOENT) => k (inl tt)
      | _ => k r
      end in
    Do (CListdir dir) (fun rl =>
      match rl with
      | FOk (RNames names) =>
          (fix entries (ns : list str) {struct ns} : prog A :=
             match ns with
             | [] =>
                 doc_load (dir ++ [DOCF]) (fun rd =>
                   match rd with
                   | inr e => fin (inr e)
                   | inl _ => doc_store (dir ++ [DOCF]) (JObj []) fin
                   end)
             | n :: ns' =>
                 if str_eqb n SPF || str_eqb n DOCF then entries ns'
                 else
                   (* 187ceef: one os.lstat per entry; its error propagates (ENOENT ends clear() quietly, like
                      every ENOENT in this block); a directory goes through rmtree, anything else through remove *)
                   Do (CStat (dir ++ [n])) (fun rk =>
                     match rk with
                     | FErr e => fin (inr (POs e))
                     | FOk (RKind KDir) =>
                         rmtree_top (dir ++ [n]) (fun r => match r with FOk _ => entries ns' | FErr e => fin (inr (POs e)) end)
                     | FOk (RKind KNone) => fin (inr (POs ENOENT))
                     | FOk _ =>
                         Do (CUnlink (dir ++ [n])) (fun r => match r with FOk _ => entries ns' | FErr e => fin (inr (POs e)) end)
                     end)
             end) names
      | FOk _ => fin (inr (PExn EOther))
      | FErr e => fin (inr (POs e))
      end).

  (* Project(root): prepares the workspace directory *)
  Definition project_open {A} (ws : path) (k : unit + perr -> prog A) : prog A :=
    Do (CStat ws) (fun r =>
      if is_dir_r r then k (inl tt)
      else mkdir_p ws (fun r1 => match r1 with FOk _ => k (inl tt) | FErr e => k (inr (POs e)) end)).

  (* Job.document access on a fresh handle made by open_job(sp): init(validate_statepoint=False) *)
  Definition doc_access {A} (ws : path) (sp : json) (k : unit + perr -> prog A) : prog A :=
    Do (CStat (ws ++ [calc_id frepr sp])) (fun r =>
      if is_dir_r r then k (inl tt) else job_init ws sp false k).

  (* len(project): _job_dirs tolerates a missing workspace *)
  Definition project_len {A} (ws : path) (k : nat + perr -> prog A) : prog A :=
    Do (CListdir ws) (fun r =>
      match r with
      | FOk (RNames names) => k (inl (length (filter id_match names)))
      | FErr ENOENT => Do (CStat ws) (fun _ => k (inl 0%nat))      (* os.path.islink(workspace): not a link *)
      | FErr e => k (inr (PExn EOther))                 (* WorkspaceError *)
      | FOk _ => k (inr (PExn EOther))
      end).

  (* Job.init for a handle whose id and in-memory state point may disagree (after a failed re-key) *)
  Definition job_init_id {A} (ws : path) (i : str) (sp : json) (k : unit + perr -> prog A) : prog A :=
    let dir := ws ++ [i] in
    let file := dir ++ [SPF] in
    sp_load file i (fun r =>
      match r with
      | inl _ => k (inl tt)
      | inr _ =>
          mkdir_p dir (fun r1 =>
            match r1 with
            | FErr e => k (inr (POs e))
            | FOk _ =>
                sp_save file sp false (fun r2 =>
                  match r2 with
                  | inr e => k (inr e)
                  | inl _ => sp_load file i (fun r3 => match r3 with inl _ => k (inl tt) | inr e => k (inr e) end)
                  end)
            end)
      end).

  (* ------------------------------------------------------------------ recovery observations *)
  (* Project._get_statepoint_from_workspace(job_id, validate=True) succeeds *)
  Definition validates (f : fs) (ws : path) (i : str) : bool :=
    match get f (ws ++ [i; SPF]) with
    | Some (File c) => match c_json c with Some v => str_eqb (calc_id frepr v) i | None => false end
    | _ => false
    end.

  Definition sp_value (f : fs) (ws : path) (i : str) : option json :=
    match get f (ws ++ [i; SPF]) with Some (File c) => c_json c | _ => None end.

  (* Project.check(): the ids reported as corrupted; None = another exception escapes (a listed name
     that is not a directory gives KeyError) *)
  Definition check_report (f : fs) (ws : path) : option (list str) :=
    let ids := job_dirs f ws in
    if forallb (fun i => validates f ws i || isdir f (ws ++ [i])) ids
    then Some (filter (fun i => negb (validates f ws i)) ids)
    else None.

End PROGS.

Lemma makedirs_p_unfold : forall A fuel ok p (k : fres unit -> prog A),
  makedirs_p (S fuel) ok p k =
  let leaf :=
    Do (CMkdir p) (fun r =>
      match r with
      | FOk _ => k (FOk tt)
      | FErr e =>
          if ok then Do (CStat p) (fun r2 => if is_dir_r r2 then k (FOk tt) else k (FErr e))
          else k (FErr e)
      end) in
  match parent p with
  | [] | [_] => leaf
  | hd =>
      Do (CStat hd) (fun rh =>
        if exists_r rh then leaf
        else makedirs_p fuel ok hd (fun r =>
               match r with
               | FOk _ | FErr EEXIST => leaf
               | FErr e => k (FErr e)
               end))
  end.
Proof. reflexivity. Qed.


(* ------------------------------------------------------------------ operations of C11 *)
Inductive cop :=
| KInit (ws : path) (sp : json) (force : bool)
| KRekey (ws : path) (old_id : str) (new_sp : json)
| KMove (ws : path) (i : str) (dst_ws : path)
| KClone (ws : path) (i : str) (dst_ws : path)
| KRemove (ws : path) (i : str)
| KClear (ws : path) (i : str).

Definition ores := (unit + perr)%type.
Definition ret_res (r : ores) : prog unit := match r with inl _ => Ret tt | inr e => Raise e end.

Definition op_prog (frepr : fl -> str) (atomic : bool) (o : cop) : prog unit :=
  match o with
  | KInit ws sp force => job_init frepr atomic [] ws sp force ret_res
  | KRekey ws i nsp => rekey_by_id frepr atomic [] ws i nsp ret_res
  | KMove ws i dws => job_move frepr ws i dws ret_res
  | KClone ws i dws => job_clone frepr ws i dws ret_res
  | KRemove ws i => remove_job ws i ret_res
  | KClear ws i => clear_job frepr [] ws i ret_res
  end.

(* `job.statepoint = nsp` through a handle opened BY ID that has not read its state point yet (state point
   cache miss): the setter creates an empty _StatePointDict and resets it - the re-key protocol runs WITHOUT the
   validating read that every other route (sp[k] = v, update_statepoint, attribute edits) performs first.
   [noload] selects that route; the operation (KRekey) and everything CInv / post_ok say about it are the same. *)
Definition op_prog_r (frepr : fl -> str) (atomic : bool) (noload : bool) (o : cop) : prog unit :=
  match o with
  | KRekey ws i nsp => if noload then rekey frepr atomic [] ws i nsp ret_res else op_prog frepr atomic o
  | _ => op_prog frepr atomic o
  end.

(* ------------------------------------------------------------------ the handle across two operations *)
(* in-memory state of a job handle that matters for a later operation: where it points and the state point
   data it holds (None: not loaded yet — the first access reads and validates the file) *)
Record hst := { hs_ws : path; hs_id : str; hs_sp : option json }.

(* follow-up operations through the SAME handle *)
Inductive fop :=
| FSet (k : str) (v : json)        (* job.sp[k] = v      *)
| FDoc (k : str) (v : json)        (* job.doc[k] = v     *)
| FInit.                           (* job.init()         *)

Definition set_key (d : json) (k : str) (v : json) : json :=
  match d with JObj kvs => JObj (aset k v kvs) | _ => d end.

Section HANDLE.
  Variable frepr : fl -> str.
  Variable atomic : bool.

  (* first operation, with the handle state at its exit *)
  Definition op1_h {A} (o : cop) (k : hst -> ores -> prog A) : prog A :=
    match o with
    | KInit ws sp force =>
        let h := {| hs_ws := ws; hs_id := calc_id frepr sp; hs_sp := Some sp |} in
        job_init frepr atomic [] ws sp force (k h)
    | KRekey ws i nsp =>
        with_sp frepr ws i
          (fun _ => rekey_h frepr atomic [] ws i nsp
                      (fun ex r => k {| hs_ws := ws; hs_id := fst ex; hs_sp := Some (snd ex) |} r))
          (fun e => k {| hs_ws := ws; hs_id := i; hs_sp := None |} (inr e))
    | KMove ws i dws =>
        job_move frepr ws i dws (fun r =>
          match r with
          | inl _ => k {| hs_ws := dws; hs_id := i; hs_sp := None |} r
          | inr _ => k {| hs_ws := ws; hs_id := i; hs_sp := None |} r
          end)
    | KClone ws i dws => job_clone frepr ws i dws (k {| hs_ws := ws; hs_id := i; hs_sp := None |})
    | KRemove ws i => remove_job ws i (k {| hs_ws := ws; hs_id := i; hs_sp := None |})
    | KClear ws i => clear_job frepr [] ws i (k {| hs_ws := ws; hs_id := i; hs_sp := None |})
    end.

  (* the follow-up; a handle that has not loaded its state point loads it first ([hs_sp] = None is also used,
     soundly, where the handle has the VALID on-disk value in memory: re-reading it changes nothing but the
     number of reads, and reads are not compared) *)
  Definition fop_prog {A} (h : hst) (fo : fop) (k : ores -> prog A) : prog A :=
    let ws := hs_ws h in
    let i := hs_id h in
    match fo with
    | FSet key v =>
        match hs_sp h with
        | Some d => rekey frepr atomic [] ws i (set_key d key v) k
        | None => with_sp frepr ws i (fun d => rekey frepr atomic [] ws i (set_key d key v) k) (fun e => k (inr e))
        end
    | FDoc key v =>
        doc_load (ws ++ [i; DOCF]) (fun rd =>
          match rd with
          | inr e => k (inr e)
          | inl d => doc_store frepr [] (ws ++ [i; DOCF]) (set_key d key v) k
          end)
    | FInit =>
        match hs_sp h with
        | Some d => job_init_id frepr atomic [] ws i d k
        | None => with_sp frepr ws i (fun d => job_init_id frepr atomic [] ws i d k) (fun e => k (inr e))
        end
    end.

  Definition follow_prog (o : cop) (fo : fop) : prog (ores * ores) :=
    op1_h o (fun h r1 => fop_prog h fo (fun r2 => Ret (r1, r2))).

  (* the same for the whole-assignment route of a handle that never loaded its state point: the handle state at
     the exits of the protocol is the one [rekey_h] carries (the restore re-reads the FILE, so it does not matter
     that the handle had nothing in memory before) *)
  Definition op1_h_r {A} (noload : bool) (o : cop) (k : hst -> ores -> prog A) : prog A :=
    match o with
    | KRekey ws i nsp =>
        if noload then
          rekey_h frepr atomic [] ws i nsp
            (fun ex r => k {| hs_ws := ws; hs_id := fst ex; hs_sp := Some (snd ex) |} r)
        else op1_h o k
    | _ => op1_h o k
    end.

  Definition follow_prog_r (noload : bool) (o : cop) (fo : fop) : prog (ores * ores) :=
    op1_h_r noload o (fun h r1 => fop_prog h fo (fun r2 => Ret (r1, r2))).
End HANDLE.

Definition is_removal (o : cop) : bool := match o with KRemove _ _ | KClear _ _ => true | _ => false end.

Section CINV.
  Variable frepr : fl -> str.

  (* source directory of the affected job and the directory it is headed for *)
  Definition src_dir (o : cop) : path :=
    match o with
    | KInit ws sp _ => ws ++ [calc_id frepr sp]
    | KRekey ws i _ | KMove ws i _ | KClone ws i _ | KRemove ws i | KClear ws i => ws ++ [i]
    end.

  Definition dst_dir (o : cop) (f0 : fs) : path :=
    match o with
    | KRekey ws i nsp => ws ++ [calc_id frepr nsp]
    | KMove ws i dws | KClone ws i dws =>
        match sp_value f0 ws i with Some sp => dws ++ [calc_id frepr sp] | None => dws ++ [i] end
    | _ => src_dir o
    end.

  (* directories whose content the operation may change: the source (not for clone, which only reads
     it) and the destination unless it is occupied beforehand (a collision: then it belongs to another job
     and must stay as it is) *)
  Definition affected (o : cop) (f0 : fs) : list path :=
    let s := src_dir o in
    let d := dst_dir o f0 in
    match o with
    | KClone _ _ _ => if exists_ f0 d then [] else [d]
    | KRekey _ _ _ | KMove _ _ _ =>
        (* os.replace onto an EMPTY directory succeeds: only a non-empty destination is a collision *)
        if path_eqb s d || has_children f0 d || isfile f0 d then [s] else [s; d]
    | _ => [s]
    end.

  (* state points the affected job legitimately has during the operation *)
  Definition history (o : cop) (f0 : fs) : list json :=
    match o with
    | KInit ws sp _ => sp :: match sp_value f0 ws (calc_id frepr sp) with Some v => [v] | None => [] end
    | KRekey ws i nsp => nsp :: match sp_value f0 ws i with Some v => [v] | None => [] end
    | KMove ws i _ | KClone ws i _ | KRemove ws i | KClear ws i =>
        match sp_value f0 ws i with Some v => [v] | None => [] end
    end.

  Definition under_any (ds : list path) (p : path) : bool := existsb (fun d => under d p) ds.

  Definition node_same (a b : option node) : bool :=
    match a, b with
    | None, None => true
    | Some Dir, Some Dir => true
    | Some (File c), Some (File c') => list_eqb N.eqb (c_bytes c) (c_bytes c')
    | _, _ => false
    end.

  (* 1. every entry below a workspace that is not in an affected directory is unchanged *)
  Definition others_same (ds : list path) (f0 f : fs) : bool :=
    let ok (p : path) := negb (deep p) || under_any ds p || node_same (get f0 p) (get f p) in
    forallb (fun e => ok (fst e)) f0 && forallb (fun e => ok (fst e)) f.

  (* payload: every file of the job except the state point file, its backup and temp files *)
  Definition is_tmp_name (n : str) : bool := str_prefix TMPPFX n.
  Definition payload_rel (r : path) : bool :=
    match r with
    | [] => false
    | [n] => negb (str_eqb n SPF || str_eqb n SPT || is_tmp_name n)
    | _ => negb (is_tmp_name (last r []))
    end.

  Definition holds_file (f : fs) (d r : path) (c : content) : bool :=
    match get f (d ++ r) with
    | Some (File c') => list_eqb N.eqb (c_bytes c) (c_bytes c')
    | _ => false
    end.

  (* 2. every data file of the affected job exists under exactly one of the affected directories *)
  Definition data_once (o : cop) (f0 f : fs) : bool :=
    let s := src_dir o in
    let ds := match o with KClone _ _ _ => [s] | _ => affected o f0 end in
    forallb (fun e =>
      match strip s (fst e), snd e with
      | Some r, File c =>
          negb (payload_rel r) || Nat.eqb (length (filter (fun d => holds_file f d r c) ds)) 1
      | _, _ => true
      end) f0.

  (* 3. every listed directory validates or is reported by check() *)
  Definition listed_ok (f : fs) (ws : path) (listed : list str) (reported : option (list str)) : bool :=
    match reported with
    | None => false
    | Some rep => forallb (fun i => validates frepr f ws i || str_mem i rep) listed
    end.

  (* 4. an affected directory that validates does so with a state point of the job's history; any other
        directory that validates held the same state point before *)
  Definition no_forgery (o : cop) (f0 f : fs) (ws : path) (listed : list str) : bool :=
    forallb (fun i =>
      negb (validates frepr f ws i) ||
      match sp_value f ws i with
      | None => false
      | Some v =>
          if under_any (affected o f0) (ws ++ [i])
          then existsb (json_same v) (history o f0)
          else match sp_value f0 ws i with Some v0 => json_same v v0 | None => false end
      end) listed.

  (* what a fresh Project sees in one workspace *)
  Record wobs := { wo_ws : path; wo_listed : list str; wo_reported : option (list str) }.

  Definition cinv_b (o : cop) (f0 f : fs) (ws : list wobs) : bool :=
    others_same (affected o f0) f0 f
    && (is_removal o || data_once o f0 f)
    && forallb (fun w => listed_ok f (wo_ws w) (wo_listed w) (wo_reported w)) ws
    && forallb (fun w => no_forgery o f0 f (wo_ws w) (wo_listed w)) ws.

  (* the model's recovery observation *)
  Definition observe (f : fs) (wss : list path) : list wobs :=
    map (fun ws => {| wo_ws := ws; wo_listed := job_dirs f ws; wo_reported := check_report frepr f ws |}) wss.

  Definition CInv (o : cop) (wss : list path) (f0 f : fs) : Prop := cinv_b o f0 f (observe f wss) = true.

  (* a successful return means the operation is complete ("never a silent partial success") *)
  Definition all_payload_at (f0 f : fs) (s d : path) : bool :=
    forallb (fun e =>
      match strip s (fst e), snd e with
      | Some r, File c => negb (payload_rel r) || holds_file f d r c
      | _, _ => true
      end) f0.

  Definition post_ok (o : cop) (f0 f : fs) : bool :=
    match o with
    | KInit ws sp _ =>
        validates frepr f ws (calc_id frepr sp) && all_payload_at f0 f (src_dir o) (src_dir o)
    | KRekey ws i nsp =>
        let ni := calc_id frepr nsp in
        validates frepr f ws ni && all_payload_at f0 f (ws ++ [i]) (ws ++ [ni])
        && (str_eqb i ni || negb (exists_ f (ws ++ [i])))
    | KMove ws i dws =>
        let d := dst_dir o f0 in
        validates frepr f dws (last d []) && all_payload_at f0 f (ws ++ [i]) d
        && (path_eqb (ws ++ [i]) d || negb (exists_ f (ws ++ [i])))
    | KClone ws i dws =>
        let d := dst_dir o f0 in
        validates frepr f dws (last d []) && all_payload_at f0 f (ws ++ [i]) d
        && all_payload_at f0 f (ws ++ [i]) (ws ++ [i])
    | KRemove ws i => negb (exists_ f (ws ++ [i]))
    | KClear ws i =>
        negb (exists_ f0 (ws ++ [i])) ||
        forallb (fun e =>
          match strip (ws ++ [i]) (fst e) with
          | Some (n :: _) => str_eqb n SPF || str_eqb n DOCF
          | _ => true
          end) f
    end.

End CINV.

(* ------------------------------------------------------------------ actor scripts of C12 *)
(* iteration constructs: `for job in project` / `for job in project.find_jobs()` (the same calls), and
   `for key, group in project.groupby(key): for job in group` (the state points of all jobs are read first, the
   jobs that have the key come sorted by its value) *)
Inductive ikind := IAll | IFind | IGroup (key : str).
(* the loop body: job.doc[k] = v, or job.doc() (collected) *)
Inductive ibody := BSet (k : str) (v : json) | BRead.

Definition obj_get (k : str) (v : json) : option json :=
  match v with
  | JObj kvs => (fix go (l : list (str * json)) : option json :=
                   match l with [] => None | (k', x) :: l' => if str_eqb k k' then Some x else go l' end) kvs
  | _ => None
  end.

Definition key_le (a b : json) : bool :=
  match a, b with JInt x, JInt y => Z.leb x y | _, _ => true end.

(* stable insertion sort by key value *)
Fixpoint ins_key (x : str * json) (l : list (str * json)) : list (str * json) :=
  match l with
  | [] => [x]
  | y :: l' => if key_le (snd y) (snd x) then y :: ins_key x l' else x :: l
  end.
Definition sort_key (l : list (str * json)) : list (str * json) := fold_left (fun acc x => ins_key x acc) l [].

Inductive act :=
| AProject                                   (* signac.Project(root)                               *)
| AInit (sp : json)                          (* project.open_job(sp).init()                        *)
| ADocSet (sp : json) (k : str) (v : json)   (* project.open_job(sp).doc[k] = v                    *)
| ADocRead (sp : json)                       (* project.open_job(sp).doc()                         *)
| ALen                                       (* len(project)                                       *)
| APDocSet (k : str) (v : json)              (* project.doc[k] = v                                 *)
| APDocRead                                  (* project.doc()                                      *)
| AEach (ik : ikind) (b : ibody)             (* an iteration construct with a document operation in its body       *)
| AWithInit (outer inner : json)             (* with project.open_job(outer): project.open_job(inner).init()        *)
| ARmWs.                                     (* outside the property's alphabet: os.rmdir(workspace), errors ignored *)

Inductive aobs := OUnit | ODoc (j : json) | ONum (n : nat) | ODocs (l : list json).

(* the project document lives next to the workspace directory *)
(* "signac_project_document.json" *)
Definition PDOCF : str := [115;105;103;110;97;99;95;112;114;111;106;101;99;116;95;100;111;99;117;109;101;110;116;46;106;115;111;110]%N.

Definition doc_set (d : json) (k : str) (v : json) : json :=
  match d with JObj kvs => JObj (aset k v kvs) | _ => d end.

Section ACTORS.
  Variable frepr : fl -> str.
  Variable atomic : bool.
  Variable tag : str.
  Variable ws : path.

  Definition docfile_of (sp : json) : path := ws ++ [calc_id frepr sp; DOCF].
  Definition pdocfile : path := parent ws ++ [PDOCF].

  Definition act_prog {A} (a : act) (k : aobs -> prog A) : prog A :=
    match a with
    | AProject => project_open ws (fun r => match r with inl _ => k OUnit | inr e => Raise e end)
    | AInit sp => job_init frepr atomic tag ws sp false (fun r => match r with inl _ => k OUnit | inr e => Raise e end)
    | ADocSet sp key v =>
        doc_access frepr atomic tag ws sp (fun r =>
          match r with
          | inr e => Raise e
          | inl _ =>
              doc_load (docfile_of sp) (fun rd =>
                match rd with
                | inr e => Raise e
                | inl d => doc_store frepr tag (docfile_of sp) (doc_set d key v)
                             (fun rs => match rs with inl _ => k OUnit | inr e => Raise e end)
                end)
          end)
    | ADocRead sp =>
        doc_access frepr atomic tag ws sp (fun r =>
          match r with
          | inr e => Raise e
          | inl _ => doc_load (docfile_of sp) (fun rd => match rd with inl d => k (ODoc d) | inr e => Raise e end)
          end)
    | ALen => project_len ws (fun r => match r with inl n => k (ONum n) | inr e => Raise e end)
    (* Project.document: no directory is created or probed; load (a missing file is {}), then save *)
    | APDocSet key v =>
        doc_load pdocfile (fun rd =>
          match rd with
          | inr e => Raise e
          | inl d => doc_store frepr tag pdocfile (doc_set d key v)
                       (fun rs => match rs with inl _ => k OUnit | inr e => Raise e end)
          end)
    | APDocRead => doc_load pdocfile (fun rd => match rd with inl d => k (ODoc d) | inr e => Raise e end)
    | AEach ik body =>
        Do (CListdir ws) (fun rl =>
          match rl with
          | FOk (RNames names) =>
              let ids := filter id_match names in
              (* the loop over the jobs, in the given order: the handles come from the listing, so the
                 document is accessed without init() *)
              let each :=
                (fix each (l : list str) (acc : list json) {struct l} : prog A :=
                   match l with
                   | [] => match body with BRead => k (ODocs (rev acc)) | BSet _ _ => k OUnit end
                   | i :: l' =>
                       let file := ws ++ [i; DOCF] in
                       doc_load file (fun rd =>
                         match rd with
                         | inr e => Raise e
                         | inl d =>
                             match body with
                             | BRead => each l' (d :: acc)
                             | BSet key v =>
                                 doc_store frepr tag file (doc_set d key v)
                                   (fun rs => match rs with inl _ => each l' acc | inr e => Raise e end)
                             end
                         end)
                   end) in
              match ik with
              | IAll | IFind => each ids []
              | IGroup key =>
                  (* the index: every state point is read, in listing order *)
                  (fix sps (l : list str) (acc : list (str * json)) {struct l} : prog A :=
                     match l with
                     | [] => each (map fst (sort_key (rev acc))) []
                     | i :: l' =>
                         Do (CRead (ws ++ [i; SPF])) (fun r =>
                           match r with
                           | FOk (RData d) =>
                               match c_json d with
                               | Some v => match obj_get key v with
                                           | Some x => sps l' ((i, x) :: acc)
                                           | None => sps l' acc
                                           end
                               | None => Raise (PExn EJobsCorrupted)
                               end
                           | FOk _ => Raise (PExn EOther)
                           | FErr _ => Raise (PExn EJobsCorrupted)
                           end)
                     end) ids []
              end
          | FOk _ => Raise (PExn EOther)
          | FErr _ => Raise (PExn EOther)
          end)
    | AWithInit outer inner =>
        (* Job.open(): init() of the entered job (fast path: the directory exists), chdir; then the body *)
        doc_access frepr atomic tag ws outer (fun r =>
          match r with
          | inr e => Raise e
          | inl _ => job_init frepr atomic tag ws inner false (fun r1 => match r1 with inl _ => k OUnit | inr e => Raise e end)
          end)
    | ARmWs => Do (CRmdir ws) (fun _ => k OUnit)
    end.

  Fixpoint actor_prog (acts : list act) (acc : list aobs) : prog (list aobs) :=
    match acts with
    | [] => Ret (rev acc)
    | a :: rest => act_prog a (fun o => actor_prog rest (o :: acc))
    end.
End ACTORS.

(* ------------------------------------------------------------------ valid workspaces *)
(* The pre-states the theorems speak about: a well-formed tree (unique keys, every entry sits in a
   directory), the workspaces of the scenario are directories of equal depth, and every listed job
   directory validates. *)
Definition WInv (frepr : fl -> str) (wss : list path) (f0 : fs) : Prop :=
  NoDup (map fst f0) /\ ~ In [] (map fst f0) /\
  (forall p, get f0 p <> None -> get f0 (parent p) = Some Dir) /\
  (forall a b, In a wss -> In b wss -> length a = length b) /\
  (forall ws, In ws wss -> get f0 ws = Some Dir /\
                           forall i, In i (job_dirs f0 ws) ->
                             validates frepr f0 ws i = true /\ sp_value f0 ws i <> Some JNull).

(* the workspaces an operation works in *)
Definition op_wss (o : cop) : list path :=
  match o with
  | KInit ws _ _ | KRekey ws _ _ | KRemove ws _ | KClear ws _ => [ws]
  | KMove ws _ dws | KClone ws _ dws => [ws; dws]
  end.
