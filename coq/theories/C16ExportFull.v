(* C16ExportFull.v — every destination that export_paths accepts is dst_safe: export_to_directory
   writes only beneath its target and leaves everything else (e.g. the source project) unchanged. *)
From Coq Require Import String Ascii.
From SV Require Import Base Json MD5 Canon Export CorrC16 C16Paths C16Frame C16Zip C16Schema C16Analyse C16Proofs.
Local Open Scope N_scope.
Local Opaque S.

(* ------------------------------------------------------------------ joinw / split on clean components *)
Lemma joinw_cons2 : forall sep x y (r : list str), joinw sep (x :: y :: r) = x ++ sep ++ joinw sep (y :: r).
Proof. reflexivity. Qed.

Lemma comp_ok_slashfree : forall c, comp_ok c -> forallb (fun x => negb (x =? 47)) c = true.
Proof. intros c [_ [_ H]]. exact H. Qed.

Lemma split_joinw : forall r, r <> [] -> Forall comp_ok r -> split 47 (joinw slash r) = r.
Proof.
  induction r as [|x r IH]; intros Hn H; [congruence|]. inversion H; subst.
  destruct r as [|y r].
  - simpl. apply split_single. apply comp_ok_slashfree. assumption.
  - rewrite joinw_cons2. unfold slash at 1. cbn [app]. rewrite split_app_sep.
    rewrite (split_single 47 x (comp_ok_slashfree x H2)). rewrite IH; [reflexivity|discriminate|assumption].
Qed.

Lemma joinw_snoc : forall cs c, cs <> [] -> joinw slash (cs ++ [c]) = joinw slash cs ++ slash ++ c.
Proof.
  induction cs as [|x cs IH]; intros c Hn; [congruence|]. destruct cs as [|y cs].
  - reflexivity.
  - change ((x :: y :: cs) ++ [c]) with (x :: (y :: cs) ++ [c]).
    change ((y :: cs) ++ [c]) with (y :: cs ++ [c]). rewrite joinw_cons2.
    change (y :: cs ++ [c]) with ((y :: cs) ++ [c]). rewrite IH by discriminate.
    rewrite joinw_cons2. rewrite <- !app_assoc. reflexivity.
Qed.

Lemma K_clean : forall cs, Forall comp_ok cs -> K cs = cs.
Proof.
  induction cs as [|c cs IH]; intro H; [reflexivity|]. inversion H; subst. simpl.
  destruct H2 as [Hk _]. rewrite Hk, IH by assumption. reflexivity.
Qed.

Lemma no_dotdot_clean : forall cs, Forall comp_ok cs -> no_dotdot cs = true.
Proof.
  induction cs as [|c cs IH]; intro H; [reflexivity|]. inversion H; subst. unfold no_dotdot in *. simpl.
  destruct H2 as [_ [Hd _]].
  assert (E : str_eqb dotdot c = false).
  { destruct (str_eqb dotdot c) eqn:E; auto. apply str_eqb_eq in E. subst c. rewrite str_eqb_refl in Hd. discriminate. }
  rewrite E. simpl. apply IH. assumption.
Qed.

Lemma resolve_clean : forall cs, Forall comp_ok cs -> resolve_comps [] cs = Some cs.
Proof. intros cs H. rewrite (resolve_no_dotdot cs [] (no_dotdot_clean cs H)). simpl. rewrite K_clean by assumption. reflexivity. Qed.

Lemma joinw_head : forall x r, comp_ok x -> starts_slash (joinw slash (x :: r)) = false /\ is_empty (joinw slash (x :: r)) = false.
Proof.
  intros x r H. pose proof (comp_ok_noslash x H) as Hs. pose proof (comp_ok_nonempty x H) as Hn.
  destruct x as [|c x]; [congruence|]. destruct r; simpl in *; auto.
Qed.

(* ------------------------------------------------------------------ normpath on / to clean components *)
Lemma norm_comps_clean : forall cs acc, Forall comp_ok cs -> norm_comps false cs acc = rev acc ++ cs.
Proof.
  induction cs as [|c cs IH]; intros acc H; simpl; [rewrite app_nil_r; reflexivity|]. inversion H; subst.
  destruct H2 as [Hk [Hd _]]. unfold keepc in Hk. apply negb_true_iff in Hk. rewrite Hk, Hd. simpl.
  rewrite IH by assumption. simpl. rewrite <- app_assoc. reflexivity.
Qed.

Lemma count_lead_zero : forall s, starts_slash s = false -> count_lead_slash s = 0%nat.
Proof. intros [|c s] H; simpl in *; [reflexivity|]. rewrite H. reflexivity. Qed.

Lemma normpath_noslash : forall s, s <> [] -> starts_slash s = false ->
  normpath s = match joinw slash (norm_comps false (split 47 s) []) with [] => dot | p => p end.
Proof.
  intros s Hn Hs. unfold normpath. destruct s as [|c s]; [congruence|].
  rewrite (count_lead_zero _ Hs). cbn [repeat app Nat.eqb negb].
  destruct (joinw slash (norm_comps false (split 47 (c :: s)) [])); reflexivity.
Qed.

Lemma normpath_clean : forall cs, cs <> [] -> Forall comp_ok cs -> normpath (joinw slash cs) = joinw slash cs.
Proof.
  intros cs Hn H. destruct cs as [|x r]; [congruence|]. inversion H; subst.
  destruct (joinw_head x r H2) as [Hs He].
  rewrite normpath_noslash; [|intro E; rewrite E in He; discriminate|exact Hs].
  rewrite split_joinw by (auto; discriminate). rewrite norm_comps_clean by assumption. simpl rev. cbn [app].
  destruct (joinw slash (x :: r)); [discriminate|reflexivity].
Qed.

(* the stack of norm_comps: clean components on top of a block of '..' *)
Lemma norm_comps_shape : forall cs c_rev k,
  Forall (fun c => forallb (fun x => negb (x =? 47)) c = true) cs -> Forall comp_ok c_rev ->
  exists k' c', norm_comps false cs (c_rev ++ repeat dotdot k) = repeat dotdot k' ++ c' /\ Forall comp_ok c'.
Proof.
  induction cs as [|c cs IH]; intros c_rev k Hs Hc.
  - simpl. exists k, (rev c_rev). rewrite rev_app_distr. split.
    + f_equal. clear. induction k; simpl; auto. rewrite IHk. clear. induction k; simpl; auto. rewrite <- IHk. reflexivity.
    + apply Forall_rev. exact Hc.
  - inversion Hs; subst. simpl.
    destruct (is_empty c || str_eqb c dot) eqn:Ek; [apply IH; assumption|].
    destruct (str_eqb c dotdot) eqn:Ed; simpl.
    + apply str_eqb_eq in Ed. subst c. destruct c_rev as [|t c_rev'].
      * simpl. destruct k as [|k].
        -- simpl. apply (IH [] 1%nat); auto.
        -- cbn [repeat app]. rewrite str_eqb_refl. apply (IH [] (Datatypes.S (Datatypes.S k))); auto.
      * cbn [app]. inversion Hc; subst. destruct H3 as [_ [Ht _]]. rewrite Ht. apply IH; auto.
    + apply (IH (c :: c_rev) k); auto. constructor; auto. split; [unfold keepc; rewrite Ek; reflexivity|split; assumption].
Qed.

Lemma normpath_shape : forall d, d <> [] -> leaves_target (normpath d) = false ->
  normpath d = dot \/ exists r, r <> [] /\ Forall comp_ok r /\ normpath d = joinw slash r.
Proof.
  intros d Hn Hl. destruct (starts_slash d) eqn:Hs.
  - (* an absolute path stays absolute *)
    exfalso. unfold normpath in Hl. destruct d as [|c d]; [congruence|]. simpl in Hs.
    simpl count_lead_slash in Hl. rewrite Hs in Hl.
    destruct (count_lead_slash d) as [|[|m]]; simpl in Hl; unfold leaves_target in Hl; simpl in Hl; discriminate.
  - rewrite (normpath_noslash d Hn Hs) in *.
    destruct (norm_comps_shape (split 47 d) [] 0%nat (split_no_sep_in 47 d) (Forall_nil _)) as [k' [c' [E Hc']]].
    simpl in E. rewrite E in *. destruct k' as [|k'].
    + simpl in *. destruct c' as [|x r]; [left; reflexivity|]. right. exists (x :: r). repeat split; auto; [discriminate|].
      inversion Hc'; subst. destruct (joinw_head x r H1) as [_ He]. destruct (joinw slash (x :: r)); [discriminate|reflexivity].
    + exfalso. simpl repeat in Hl. cbn [app] in Hl.
      destruct (repeat dotdot k' ++ c') as [|y t] eqn:Et.
      * simpl in Hl. unfold leaves_target in Hl. simpl in Hl. discriminate.
      * rewrite joinw_cons2 in Hl. unfold leaves_target in Hl.
        assert (Hsw : startswith (dotdot ++ slash ++ joinw slash (y :: t)) (dotdot ++ slash) = true).
        { unfold startswith. apply str_prefix_spec. exists (joinw slash (y :: t)). rewrite <- app_assoc. reflexivity. }
        assert (Hne : dotdot ++ slash ++ joinw slash (y :: t) <> []) by discriminate.
        destruct (dotdot ++ slash ++ joinw slash (y :: t)) eqn:Ep; [congruence|]. rewrite Hsw in Hl.
        rewrite !orb_true_r in Hl. discriminate.
Qed.

(* ------------------------------------------------------------------ dirname of a joined clean path *)
Lemma drop_to_slash_app : forall x y, forallb (fun c => negb (c =? 47)) x = true -> drop_to_slash (x ++ 47 :: y) = 47 :: y.
Proof.
  induction x as [|c x IH]; intros y H; simpl; [reflexivity|]. apply andb_true_iff in H. destruct H as [Hc Hx].
  unfold is_slash. apply negb_true_iff in Hc. rewrite Hc. apply IH. exact Hx.
Qed.

Lemma forallb_rev : forall A (p : A -> bool) l, forallb p (rev l) = forallb p l.
Proof.
  induction l as [|x l IH]; simpl; auto. rewrite forallb_app, IH. simpl. rewrite andb_true_r. apply andb_comm.
Qed.

Lemma joinw_last_char : forall cs, cs <> [] -> Forall comp_ok cs ->
  exists c r, rev (joinw slash cs) = c :: r /\ is_slash c = false.
Proof.
  intros cs Hn H. destruct (exists_last Hn) as [cs' [l ->]].
  apply Forall_app in H. destruct H as [_ Hl]. inversion Hl; subst.
  assert (El : exists c r, rev l = c :: r /\ is_slash c = false).
  { pose proof (comp_ok_nonempty l H1) as Hne. pose proof (comp_ok_slashfree l H1) as Hsf.
    rewrite <- forallb_rev in Hsf. destruct (rev l) as [|c r] eqn:E.
    - exfalso. apply Hne. rewrite <- (rev_involutive l), E. reflexivity.
    - exists c, r. split; auto. simpl in Hsf. apply andb_true_iff in Hsf. destruct Hsf as [Hc _].
      unfold is_slash. apply negb_true_iff in Hc. exact Hc. }
  destruct El as [c [r [Er Hc]]].
  destruct cs' as [|x cs'].
  - simpl. eauto.
  - rewrite joinw_snoc by discriminate. rewrite !rev_app_distr, Er. simpl. eauto.
Qed.

Lemma dirname_joinw : forall cs c, cs <> [] -> Forall comp_ok cs -> comp_ok c ->
  dirname (joinw slash (cs ++ [c])) = joinw slash cs.
Proof.
  intros cs c Hn H Hc. rewrite joinw_snoc by exact Hn. set (A := joinw slash cs).
  unfold dirname. unfold slash. rewrite !rev_app_distr. simpl rev. cbn [app]. rewrite <- app_assoc. cbn [app].
  rewrite drop_to_slash_app by (rewrite forallb_rev; apply comp_ok_slashfree; exact Hc).
  simpl rev. rewrite rev_involutive.
  destruct (joinw_last_char cs Hn H) as [x [r [Er Hx]]]. fold A in Er.
  assert (Hns : forallb is_slash (A ++ [47]) = false).
  { rewrite <- forallb_rev, rev_app_distr, Er. simpl. rewrite Hx. reflexivity. }
  assert (Hne : is_empty (A ++ [47]) = false) by (destruct A; reflexivity).
  rewrite Hne, Hns. simpl negb. cbn [andb].
  unfold rstrip_slash. rewrite rev_app_distr. simpl rev. cbn [app]. simpl lstrip_slash.
  rewrite Er. simpl. rewrite Hx. rewrite <- Er. apply rev_involutive.
Qed.

(* ------------------------------------------------------------------ clean destinations are safe *)
Lemma TARGET_split : split 47 TARGET_STR = TARGET. Proof. vm_compute. reflexivity. Qed.
Lemma TARGET_joinw : TARGET_STR = joinw slash TARGET. Proof. vm_compute. reflexivity. Qed.
Lemma TARGET_ok : Forall comp_ok TARGET.
Proof. repeat constructor; vm_compute; reflexivity. Qed.

Lemma in_lex_prefixes : forall cs pre x, In x (lex_prefixes pre cs) -> exists a b, cs = a ++ b /\ x = pre ++ a.
Proof.
  induction cs as [|c cs IH]; simpl; intros pre x H; [tauto|]. destruct H as [<-|H].
  - exists [c], cs. split; reflexivity.
  - destruct (IH _ _ H) as [a [b [-> ->]]]. exists (c :: a), b. split; [reflexivity|]. rewrite <- app_assoc. reflexivity.
Qed.

Lemma in_zone_prefix : forall a b r, TARGET ++ r = a ++ b -> in_zone a = true.
Proof.
  intros a b r E. unfold in_zone.
  assert (H : is_prefix a (TARGET ++ r) = true) by (rewrite E; apply is_prefix_app).
  destruct (prefix_of_app_cases _ _ _ H) as [H1|H1]; rewrite H1; [apply orb_true_r|reflexivity].
Qed.

Lemma full_of_clean : forall r, r <> [] -> Forall comp_ok r ->
  pjoin2 TARGET_STR (joinw slash r) = joinw slash (TARGET ++ r).
Proof.
  intros r Hn H. destruct r as [|x r]; [congruence|]. inversion H; subst.
  destruct (joinw_head x r H2) as [Hs _]. unfold pjoin2. rewrite Hs.
  replace (is_empty TARGET_STR || ends_slash TARGET_STR) with false by (vm_compute; reflexivity).
  rewrite TARGET_joinw. unfold TARGET.
  change ([S "t"; S "e"; S "exp"] ++ x :: r) with (([S "t"; S "e"] ++ [S "exp"]) ++ x :: r).
  rewrite <- app_assoc. cbn [app].
  (* joinw over the concatenation *)
  reflexivity.
Qed.

Theorem clean_dst_safe : forall r, r <> [] -> Forall comp_ok r -> dst_safe (joinw slash r) = true.
Proof.
  intros r Hn H. unfold dst_safe. rewrite (full_of_clean r Hn H).
  assert (HL : Forall comp_ok (TARGET ++ r)) by (apply Forall_app; split; [apply TARGET_ok|exact H]).
  assert (HLn : TARGET ++ r <> []) by (unfold TARGET; discriminate).
  rewrite split_joinw by assumption.
  change (filter (fun c : str => negb (is_empty c || str_eqb c dot)) (TARGET ++ r)) with (K (TARGET ++ r)).
  rewrite (K_clean _ HL).
  assert (Hhead : starts_slash (joinw slash (TARGET ++ r)) = false).
  { unfold TARGET. cbn [app]. apply joinw_head. inversion HL; assumption. }
  rewrite Hhead. cbn [negb andb].
  rewrite (normpath_clean _ HLn HL).
  (* the parent *)
  destruct (exists_last Hn) as [r' [c Er]]. subst r.
  apply Forall_app in H. destruct H as [Hr' Hc]. inversion Hc; subst.
  assert (HL' : Forall comp_ok (TARGET ++ r')) by (apply Forall_app; split; [apply TARGET_ok|exact Hr']).
  assert (HLn' : TARGET ++ r' <> []) by (unfold TARGET; discriminate).
  rewrite app_assoc. rewrite (dirname_joinw (TARGET ++ r') c HLn' HL' H1).
  assert (Hhead' : starts_slash (joinw slash (TARGET ++ r')) = false).
  { unfold TARGET. cbn [app]. apply joinw_head. inversion HL'; assumption. }
  unfold resolve. rewrite Hhead'. simpl rev. rewrite split_joinw by assumption. rewrite (resolve_clean _ HL').
  assert (Hz1 : in_zone (TARGET ++ r') = true) by (unfold in_zone; rewrite is_prefix_app; reflexivity).
  rewrite Hz1. cbn [andb]. rewrite <- app_assoc.
  apply andb_true_iff. split.
  - apply forallb_forall. intros cs Hcs. destruct (in_lex_prefixes _ _ _ Hcs) as [a [b [E ->]]]. cbn [app].
    assert (Ha : Forall comp_ok a). { rewrite E in HL. apply Forall_app in HL. tauto. }
    rewrite (resolve_clean a Ha). eapply in_zone_prefix. exact E.
  - rewrite (resolve_clean _ HL). apply is_prefix_app.
Qed.

Lemma special_dst_safe : dst_safe [] = true /\ dst_safe dot = true.
Proof. vm_compute. split; reflexivity. Qed.

(* ------------------------------------------------------------------ whatever export accepts is safe *)
Theorem accepted_dst_safe : forall o jobs p ds,
  export_paths o jobs p = ROk ds -> forallb dst_safe (List.map norm_dst ds) = true.
Proof.
  intros o jobs p ds H. destruct (export_paths_inv _ _ _ _ H) as [_ [Hl _]].
  apply forallb_forall. intros n Hn. apply in_map_iff in Hn. destruct Hn as [d [<- Hd]].
  assert (Hln : leaves_target (norm_dst d) = false).
  { apply (existsb_false _ _ _ Hl). apply in_map. exact Hd. }
  unfold norm_dst in *. destruct d as [|c d]; [apply special_dst_safe|]. cbn [is_empty] in *.
  destruct (normpath_shape (c :: d) ltac:(discriminate) Hln) as [E|[r [Hr [Hok E]]]]; rewrite E.
  - apply special_dst_safe.
  - apply clean_dst_safe; assumption.
Qed.

(* FULL export containment: for every path specification, every project and every initial file system
   f (which may contain the source project), export_to_directory changes nothing outside its target -
   the target's missing parent directories are created, that is all. *)
Theorem export_contained_full : forall o jobs p ds f,
  export_paths o jobs p = ROk ds ->
  export_frame f (p_val (fold_partial2 (export_dir_step (o_rel o)) (combine jobs (List.map norm_dst ds)) f)).
Proof.
  intros o jobs p ds f H. apply export_dir_contained.
  pose proof (accepted_dst_safe _ _ _ _ H) as Hs. rewrite forallb_forall in Hs.
  apply forallb_forall. intros [j n] Hin. simpl. apply Hs. eapply in_combine_r. exact Hin.
Qed.

Corollary export_src_unchanged_full : forall o jobs p ds f q n,
  export_paths o jobs p = ROk ds ->
  is_prefix TARGET q = false -> fs_get q f = Some n ->
  fs_get q (p_val (fold_partial2 (export_dir_step (o_rel o)) (combine jobs (List.map norm_dst ds)) f)) = Some n.
Proof.
  intros o jobs p ds f q n H Hq Hn. destruct (export_contained_full o jobs p ds f H q Hq) as [E|[_ E]]; congruence.
Qed.
