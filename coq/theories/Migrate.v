(* Migrate.v — schema migration (signac/migration/__init__.py, v0_to_v1.py, v1_to_v2.py) on the
   tree of Discover.v.  The configuration loaders, _get_config_schema_version, the version gate of
   Project.__init__ and _raise_if_older_schema live in Discover.v (discovery uses them too).

   apply_migrations = _collect_migrations interleaved with the steps: after EACH migration step
   the destination loader re-reads the configuration and the new version is written (never before
   the step).  Any exception inside a step becomes RuntimeError("Failed to apply migration").
   The lock file .SIGNAC_PROJECT_MIGRATION_LOCK is created first and unlinked last; it is not part
   of the model's states (the correspondence compares the state after the call). *)
From SV Require Import Base Json Discover.

Definition s_None : str := [78; 111; 110; 101]%N.   (* "None" *)
Definition s_doc : str :=
  [115; 105; 103; 110; 97; 99; 95; 112; 114; 111; 106; 101; 99; 116; 95; 100; 111; 99; 117; 109; 101; 110; 116; 46; 106; 115; 111; 110]%N.
  (* "signac_project_document.json" *)
Definition s_name_key : str :=
  [115; 105; 103; 110; 97; 99; 95; 112; 114; 111; 106; 101; 99; 116; 95; 110; 97; 109; 101]%N.
  (* "signac_project_name" *)
Definition s_hist_old : str :=
  [46; 115; 105; 103; 110; 97; 99; 95; 115; 104; 101; 108; 108; 95; 104; 105; 115; 116; 111; 114; 121]%N.
  (* ".signac_shell_history" *)
Definition s_hist_new : str := [115; 104; 101; 108; 108; 95; 104; 105; 115; 116; 111; 114; 121]%N.
  (* "shell_history" *)
Definition s_cache_old : str :=
  [46; 115; 105; 103; 110; 97; 99; 95; 115; 112; 95; 99; 97; 99; 104; 101; 46; 106; 115; 111; 110; 46; 103; 122]%N.
  (* ".signac_sp_cache.json.gz" *)
Definition s_cache_new : str :=
  [115; 116; 97; 116; 101; 112; 111; 105; 110; 116; 95; 99; 97; 99; 104; 101; 46; 106; 115; 111; 110; 46; 103; 122]%N.
  (* "statepoint_cache.json.gz" *)

(* ------------------------------------------------------------------ file system steps *)
Definition nonempty (s : str) : bool := negb (str_eqb s []).

(* physical parent directory and entry name of a path, last component NOT followed (lstat) *)
Definition os_lresolve (root : node) (cwd p : str) : option (list str * str) :=
  match p with
  | [] => None
  | _ =>
    match rev (filter nonempty (split_sl (os_full cwd p))) with
    | [] => None
    | last :: rinit =>
        if str_eqb last s_dot || str_eqb last s_dotdot then None
        else match walk FUEL root [] (rev rinit) with
             | Some ph => match get root ph with Some (Dir _) => Some (ph, last) | _ => None end
             | None => None
             end
    end
  end.

Fixpoint is_prefix (a b : list str) : bool :=
  match a, b with
  | [], _ => true
  | x :: a', y :: b' => str_eqb x y && is_prefix a' b'
  | _ :: _, [] => false
  end.

(* os.replace(src, dst): POSIX rename *)
Definition fs_replace (root : node) (cwd src dst : str) : result unit * node :=
  match os_lresolve root cwd src, os_lresolve root cwd dst with
  | Some (sp, sn), Some (dp, dn) =>
      let s := sp ++ [sn] in
      let d := dp ++ [dn] in
      match get root s with
      | None => (Err EOSError, root)                                  (* ENOENT *)
      | Some x =>
          if list_eqb str_eqb s d then (Ok tt, root)
          else if is_prefix s d then (Err EOSError, root)              (* EINVAL *)
          else
            let ok := (Ok tt, upd d (Some x) (upd s None root)) in
            match x, get root d with
            | _, None => ok
            | Dir _, Some (Dir []) => ok
            | Dir _, Some _ => (Err EOSError, root)                    (* ENOTEMPTY / ENOTDIR *)
            | _, Some (Dir _) => (Err EOSError, root)                  (* EISDIR *)
            | _, Some _ => ok
            end
      end
  | _, _ => (Err EOSError, root)
  end.

(* os.mkdir *)
Definition fs_mkdir (root : node) (cwd p : str) : result unit * node :=
  match os_lresolve root cwd p with
  | Some (ph, n) =>
      match get root (ph ++ [n]) with
      | Some _ => (Err EOSError, root)                                 (* EEXIST *)
      | None => (Ok tt, upd (ph ++ [n]) (Some (Dir [])) root)
      end
  | None => (Err EOSError, root)
  end.

(* write data to the file named p (open(p, 'wb'): follows links, creates the entry) *)
Definition fs_write (root : node) (cwd p : str) (d : fdata) : result unit * node :=
  match os_resolve root cwd p with
  | Some ph =>
      match get root ph with
      | Some (File _) => (Ok tt, upd ph (Some (File d)) root)
      | _ => (Err EOSError, root)
      end
  | None =>
      match os_lresolve root cwd p with
      | Some (ph, n) =>
          match get root (ph ++ [n]) with
          | None => (Ok tt, upd (ph ++ [n]) (Some (File d)) root)
          | Some _ => (Err EOSError, root)                             (* dangling link etc. *)
          end
      | None => (Err EOSError, root)
      end
  end.

(* BufferedJSONAttrDict(filename=fn, write_concern=True)[key] = value *)
Definition doc_set (root : node) (cwd fn key : str) (v : json) : result unit * node :=
  match os_stat root cwd fn with
  | None => fs_write root cwd fn (FJson (JObj [(key, v)]))
  | Some (File (FJson (JObj kvs))) => fs_write root cwd fn (FJson (JObj (aset key v kvs)))
  | Some _ => (Err EOther, root)
  end.

(* ------------------------------------------------------------------ the v1 -> v2 step *)
Definition seq (r : result unit * node) (k : node -> result unit * node) : result unit * node :=
  match r with
  | (Ok _, root') => k root'
  | (Err e, root') => (Err e, root')
  end.

Definition move_if_file (cwd rdir old new : str) (root : node) : result unit * node :=
  let src := path_join rdir old in
  if os_isfile root cwd src
  then fs_replace root cwd src (path_join rdir (path_join s_dotsignac new))
  else (Ok tt, root).

(* step 1 of _migrate_v1_to_v2: the custom workspace directory.  Since the repair of F17
   (fix: commit 8637b58) the move is skipped when the configured directory does not exist
   (a project that never initialised a job). *)
Definition move_workspace (cwd rdir : str) (c : cfgrec) (root : node) : result unit * node :=
  let w := match cws c with Some w => w | None => s_workspace end in   (* configspec default *)
  (* since the repair of known finding C20/2: os.path.normpath(workspace_dir) is compared, so that
     "./workspace" and "workspace/" are the default and not a custom directory colliding with itself *)
  if str_eqb (normpath w) s_workspace then (Ok tt, root)
  else
    let cur := path_join rdir w in
    let new := path_join rdir s_workspace in
    if os_exists root cwd new then (Err ERuntimeError, root)
    else if os_exists root cwd cur then fs_replace root cwd cur new else (Ok tt, root).

Definition migrate_v1_to_v2 (root : node) (cwd rdir : str) : result unit * node :=
  match load_v1 root cwd rdir with
  | None => (Err ERuntimeError, root)
  | Some c =>
      seq (move_workspace cwd rdir c root) (fun r1 =>
      seq (match cproj c with
           | Some name =>
               if str_eqb name s_None then (Ok tt, r1)
               else doc_set r1 cwd (path_join rdir s_doc) s_name_key (JStr name)
           | None => (Err EKeyError, r1)
           end) (fun r2 =>
      (* del cfg["workspace_dir"]; del cfg["project"]; cfg.write() *)
      seq (fs_write r2 cwd (path_join rdir s_rc) (FCfg {| cv := cv c; cproj := None; cws := None |})) (fun r3 =>
      let v2fn := cfgfn cwd rdir in
      seq (fs_mkdir r3 cwd (dirname v2fn)) (fun r4 =>
      seq (fs_replace r4 cwd (path_join rdir s_rc) v2fn) (fun r5 =>
      seq (move_if_file cwd rdir s_hist_old s_hist_new r5) (fun r6 =>
      move_if_file cwd rdir s_cache_old s_cache_new r6))))))
  end.

(* ------------------------------------------------------------------ apply_migrations *)
Definition loader_fn (v : Z) (rdir : str) : str :=
  if Z.eqb v 1 then path_join rdir s_rc else path_join (path_join rdir s_dotsignac) s_config.

(* config = _CONFIG_LOADERS[destination](root); config["schema_version"] = destination; write *)
Definition bump (dest : Z) (cwd rdir : str) (root : node) : result unit * node :=
  match loader dest root cwd rdir with
  | None => (Err ERuntimeError, root)
  | Some c => fs_write root cwd (loader_fn dest rdir) (FCfg {| cv := Some dest; cproj := cproj c; cws := cws c |})
  end.

Definition wrap (r : result unit * node) : result unit * node :=
  match r with (Err _, root') => (Err ERuntimeError, root') | ok => ok end.

Fixpoint mig_loop (fuel : nat) (root : node) (cwd rdir : str) (guess : Z) : result unit * node :=
  match fuel with
  | O => (Err EOther, root)
  | S f =>
      match get_version root cwd rdir guess with
      | None => (Err ERuntimeError, root)
      | Some v =>
          if Z.ltb v SCHEMA then
            if Z.eqb v 0 then
              (* (0, 1): the null migration, then the bump *)
              seq (bump 1 cwd rdir root) (fun r1 => mig_loop f r1 cwd rdir 1)
            else if Z.eqb v 1 then
              seq (wrap (migrate_v1_to_v2 root cwd rdir)) (fun r1 =>
              seq (bump 2 cwd rdir r1) (fun r2 => mig_loop f r2 cwd rdir 2))
            else (Err ERuntimeError, root)       (* does not know how to migrate *)
          else (Ok tt, root)
      end
  end.

Definition apply_migrations (root : node) (cwd rdir : str) : result unit * node :=
  match get_version root cwd rdir SCHEMA with
  | None => (Err ERuntimeError, root)
  | Some cur =>
      if Z.ltb SCHEMA cur then (Err ERuntimeError, root)
      else mig_loop 4 root cwd rdir cur
  end.
