(* MD5.v — executable RFC 1321 MD5 over byte lists (as N), hex digest as code points. *)
From SV Require Import Base.
Local Open Scope N_scope.

Definition mask32 : N := 4294967295.
Definition add32 (a b : N) : N := N.land (a + b) mask32.
Definition rotl32 (x c : N) : N :=
  N.land (N.lor (N.shiftl x c) (N.shiftr x (32 - c))) mask32.
Definition not32 (x : N) : N := N.lxor x mask32.

Definition Ktab : list N :=
 [3614090360; 3905402710; 606105819; 3250441966; 4118548399; 1200080426; 2821735955; 4249261313;
  1770035416; 2336552879; 4294925233; 2304563134; 1804603682; 4254626195; 2792965006; 1236535329;
  4129170786; 3225465664; 643717713; 3921069994; 3593408605; 38016083; 3634488961; 3889429448;
  568446438; 3275163606; 4107603335; 1163531501; 2850285829; 4243563512; 1735328473; 2368359562;
  4294588738; 2272392833; 1839030562; 4259657740; 2763975236; 1272893353; 4139469664; 3200236656;
  681279174; 3936430074; 3572445317; 76029189; 3654602809; 3873151461; 530742520; 3299628645;
  4096336452; 1126891415; 2878612391; 4237533241; 1700485571; 2399980690; 4293915773; 2240044497;
  1873313359; 4264355552; 2734768916; 1309151649; 4149444226; 3174756917; 718787259; 3951481745].

Definition Stab : list N :=
 [7; 12; 17; 22; 7; 12; 17; 22; 7; 12; 17; 22; 7; 12; 17; 22;
  5; 9; 14; 20; 5; 9; 14; 20; 5; 9; 14; 20; 5; 9; 14; 20;
  4; 11; 16; 23; 4; 11; 16; 23; 4; 11; 16; 23; 4; 11; 16; 23;
  6; 10; 15; 21; 6; 10; 15; 21; 6; 10; 15; 21; 6; 10; 15; 21].

Definition nthN (l : list N) (i : N) : N := nth (N.to_nat i) l 0.

(* little-endian word from 4 bytes *)
Fixpoint words_of_bytes (bs : list N) : list N :=
  match bs with
  | b0 :: b1 :: b2 :: b3 :: r =>
      (b0 + N.shiftl b1 8 + N.shiftl b2 16 + N.shiftl b3 24) :: words_of_bytes r
  | _ => []
  end.

Definition bytes_of_word (w : N) : list N :=
  [N.land w 255; N.land (N.shiftr w 8) 255; N.land (N.shiftr w 16) 255; N.land (N.shiftr w 24) 255].

Definition le64 (n : N) : list N :=
  bytes_of_word (N.land n mask32) ++ bytes_of_word (N.land (N.shiftr n 32) mask32).

Definition pad (msg : list N) : list N :=
  let len := N.of_nat (length msg) in
  let k := (119 - (len mod 64)) mod 64 in   (* zeros so that len+1+k = 56 mod 64 *)
  msg ++ [128] ++ repeat 0 (N.to_nat k) ++ le64 (len * 8).

Definition round_step (M : list N) (st : N * N * N * N) (i : N) : N * N * N * N :=
  let '(a, b, c, d) := st in
  let '(f, g) :=
    if i <? 16 then (N.lor (N.land b c) (N.land (not32 b) d), i)
    else if i <? 32 then (N.lor (N.land d b) (N.land (not32 d) c), (5 * i + 1) mod 16)
    else if i <? 48 then (N.lxor (N.lxor b c) d, (3 * i + 5) mod 16)
    else (N.lxor c (N.lor b (not32 d)), (7 * i) mod 16) in
  let f' := add32 (add32 (add32 f a) (nthN Ktab i)) (nthN M g) in
  (d, add32 b (rotl32 f' (nthN Stab i)), b, c).

Definition iota64 : list N :=
  [0;1;2;3;4;5;6;7;8;9;10;11;12;13;14;15;16;17;18;19;20;21;22;23;24;25;26;27;28;29;30;31;
   32;33;34;35;36;37;38;39;40;41;42;43;44;45;46;47;48;49;50;51;52;53;54;55;56;57;58;59;60;61;62;63].

Definition process_block (st : N * N * N * N) (M : list N) : N * N * N * N :=
  let '(a0, b0, c0, d0) := st in
  let '(a, b, c, d) := fold_left (round_step M) iota64 st in
  (add32 a0 a, add32 b0 b, add32 c0 c, add32 d0 d).

Fixpoint chunks16 (fuel : nat) (ws : list N) : list (list N) :=
  match fuel with
  | O => []
  | S fuel' =>
      match ws with
      | [] => []
      | _ => firstn 16 ws :: chunks16 fuel' (skipn 16 ws)
      end
  end.

Definition md5_state (msg : list N) : N * N * N * N :=
  let ws := words_of_bytes (pad msg) in
  fold_left process_block (chunks16 (length ws) ws) (1732584193, 4023233417, 2562383102, 271733878).

Definition md5 (msg : list N) : list N :=
  let '(a, b, c, d) := md5_state msg in
  bytes_of_word a ++ bytes_of_word b ++ bytes_of_word c ++ bytes_of_word d.

Definition hexdigit (n : N) : N := if n <? 10 then 48 + n else 87 + n.   (* '0'.. / 'a'.. *)
Definition hex_of_bytes (bs : list N) : str :=
  flat_map (fun b => [hexdigit (N.shiftr b 4); hexdigit (N.land b 15)]) bs.

Definition md5_hex (msg : list N) : str := hex_of_bytes (md5 msg).

(* RFC 1321 test suite *)
Example md5_empty : md5_hex [] = [100;52;49;100;56;99;100;57;56;102;48;48;98;50;48;52;101;57;56;48;48;57;57;56;101;99;102;56;52;50;55;101].
Proof. vm_compute. reflexivity. Qed.
Example md5_a : md5_hex [97] = [48;99;99;49;55;53;98;57;99;48;102;49;98;54;97;56;51;49;99;51;57;57;101;50;54;57;55;55;50;54;54;49].
Proof. vm_compute. reflexivity. Qed.
Example md5_abc : md5_hex [97;98;99] = [57;48;48;49;53;48;57;56;51;99;100;50;52;102;98;48;100;54;57;54;51;102;55;100;50;56;101;49;55;102;55;50].
Proof. vm_compute. reflexivity. Qed.

(* shape: always 32 lowercase hex digits *)
Definition lower_hex (c : N) : bool := ((48 <=? c) && (c <=? 57)) || ((97 <=? c) && (c <=? 102)).

Lemma hexdigit_lower : forall n, n < 16 -> lower_hex (hexdigit n) = true.
Proof.
  intros n H. unfold lower_hex, hexdigit.
  destruct (n <? 10) eqn:E.
  - apply N.ltb_lt in E. apply orb_true_iff. left. apply andb_true_iff. split; apply N.leb_le; lia.
  - apply N.ltb_ge in E. apply orb_true_iff. right. apply andb_true_iff. split; apply N.leb_le; lia.
Qed.

Lemma land_255_lt : forall x, N.land x 255 < 256.
Proof.
  intro x. change 255 with (N.ones 8). rewrite N.land_ones. apply N.mod_lt. discriminate.
Qed.

Lemma bytes_of_word_small : forall w, Forall (fun b => b < 256) (bytes_of_word w).
Proof. intro w. unfold bytes_of_word. repeat constructor; apply land_255_lt. Qed.

Lemma hex_of_bytes_length : forall bs, length (hex_of_bytes bs) = (2 * length bs)%nat.
Proof. induction bs as [|b bs IH]; simpl; auto. rewrite IH. lia. Qed.

Lemma hex_of_bytes_lower : forall bs, Forall (fun b => b < 256) bs ->
  forallb lower_hex (hex_of_bytes bs) = true.
Proof.
  induction bs as [|b bs IH]; intro H; [reflexivity|].
  change (hex_of_bytes (b :: bs)) with (hexdigit (N.shiftr b 4) :: hexdigit (N.land b 15) :: hex_of_bytes bs).
  cbn [forallb].
  inversion H; subst. rewrite IH by auto.
  assert (H1 : N.shiftr b 4 < 16).
  { rewrite N.shiftr_div_pow2. change (2 ^ 4) with 16.
    apply N.div_lt_upper_bound; [discriminate|]. lia. }
  assert (H4 : N.land b 15 < 16).
  { change 15 with (N.ones 4). rewrite N.land_ones. apply N.mod_lt. discriminate. }
  rewrite (hexdigit_lower _ H1), (hexdigit_lower _ H4). reflexivity.
Qed.

Lemma md5_length : forall msg, length (md5 msg) = 16%nat.
Proof. intro msg. unfold md5. destruct (md5_state msg) as [[[a b] c] d]. reflexivity. Qed.

Lemma md5_bytes_small : forall msg, Forall (fun b => b < 256) (md5 msg).
Proof.
  intro msg. unfold md5. destruct (md5_state msg) as [[[a b] c] d].
  repeat (apply Forall_app; split); apply bytes_of_word_small.
Qed.

Theorem md5_hex_shape : forall msg,
  length (md5_hex msg) = 32%nat /\ forallb lower_hex (md5_hex msg) = true.
Proof.
  intro msg. unfold md5_hex. split.
  - rewrite hex_of_bytes_length, md5_length. reflexivity.
  - apply hex_of_bytes_lower, md5_bytes_small.
Qed.
