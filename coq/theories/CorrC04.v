(* CorrC04.v — observational form of C04 (re-keying, moving and cloning carry all data and never clobber).

   A case is a structured input (old state point, payload, how the handle was obtained, which copies of
   it exist, the route by which the state point changes, what sits at the destination) from which the
   scenario script [script_C04] is DERIVED HERE; the harness executes the same script on the real signac
   and records one observation per operation.
   [mismatch_C04]: the model (Ws.v) run on the script does not reproduce the observations.
   [violation_C04]: the property, as a specification-level oracle on the implementation's observations
   (it never runs the model's programs; the expected new state point is the one-line meaning of the
   route), is false.  [known_C04] classifies violating cases into the known defect classes. *)
From SV Require Import Base Json MD5 Canon FS Ws CorrC02.

Inductive prov := PInit | PUninit | PSpFresh | PIdCached | PIdFresh.
Inductive dest := DAbsent | DInit | DHandle | DEmptyDir.
Inductive route :=
| REdit (p : list pstep) (a : eact) | RAssign (sp : json) | RUpdate (u : json) (ov : bool) | RMove | RClone
| RMoveEdit (p : list pstep) (a : eact)    (* move to the other project, then change the state point through the SAME handle *)
| RCopyMove (p : list pstep) (a : eact).   (* move THROUGH THE FIRST SHALLOW COPY, then change the state point through the handle
                                              that was left behind (it now denotes a job of the old project that does not exist) *)

Record payload := mkPay { p_doc : json; p_files : list (path * list N) }.

Record input_C04 := mkIn4 {
  i_old : json;          (* state point of the source job                                            *)
  i_pay : payload;       (* its document and files                                                   *)
  i_prov : prov;         (* the handle the operation goes through: the one that initialised the job,
                            a never-initialised one, a second open_job(sp), open_job(id) with the id
                            in the session cache, open_job(id) in a fresh session                    *)
  i_access : bool;       (* job.statepoint is accessed before the copies are made                    *)
  i_shallow : nat;       (* number of copy.copy handles (0..2; the second is a copy of the first)    *)
  i_deep : bool;         (* a copy.deepcopy handle                                                   *)
  i_pickle : bool;       (* a pickle round-trip handle                                               *)
  i_route : route;
  i_dest : dest;         (* what sits at the destination id                                          *)
  i_dpay : payload;      (* payload of an initialised destination                                    *)
  i_pre : bool           (* id / path / cached_statepoint (or repr) of the handle and of its shallow copies
                            are read BEFORE the operation too (anything memoised by a read must follow)  *)
}.

Record case_C04 := mkCase4 { c4_ftab : list (fl * str); c4_in : input_C04; c4_outs : list oval }.

Definition PA : path := [[65%N]].
Definition PB : path := [[66%N]].

Definition is_uninit (p : prov) : bool := match p with PUninit => true | _ => false end.
Definition rekey_route (r : route) : bool := match r with RMove | RClone | RMoveEdit _ _ | RCopyMove _ _ => false | _ => true end.
Definition copymove_route (r : route) : bool := match r with RCopyMove _ _ => true | _ => false end.

(* ------------------------------------------------------------------ specification-level meaning *)
(* update_statepoint without overwrite: a key that exists with a different (Python !=) value *)
Definition spec_new (r : route) (old : json) : option json :=
  match r with
  | REdit p a => edit_sp p a old
  | RAssign sp => Some sp
  | RUpdate u true => Some (dict_update old u)
  | RUpdate u false =>
      if update_conflict old u then None
      else match old, u with
           | JObj kvs, JObj us =>   (* existing keys keep their value; new keys are added *)
               Some (JObj (fold_left (fun acc kv => if has_key (fst kv) acc then acc else acc ++ [kv]) us kvs))
           | _, _ => Some old
           end
  | RMove | RClone | RCopyMove _ _ => Some old
  | RMoveEdit p a => edit_sp p a old
  end.

Section Script.
  Variable frepr : fl -> str.

  Definition pay_ops (h : nat) (p : payload) : list (nat * op) :=
    (match p_doc p with JObj [] => [] | d => [(0, ODocReset h d)] end)
    ++ map (fun f => (0, OWriteFile h (fst f) (snd f))) (p_files p).

  Definition obs_ops (k : nat) (x : option nat) : list (nat * op) :=
    match x with
    | Some h => [(10 + 3 * k, OIdPath h); (11 + 3 * k, OSp h); (12 + 3 * k, OCached h)]
    | None => []
    end.
  Definition pre_ops (k : nat) (x : option nat) : list (nat * op) :=
    match x with
    | Some h => [(80 + 2 * k, OIdPath h); (81 + 2 * k, OCached h)]
    | None => []
    end.
  Definition doc_ops (k : nat) (x : option nat) : list (nat * op) :=
    match x with Some h => [(50 + k, ODoc h)] | None => [] end.
  Definition init_ops (x : option nat) : list (nat * op) :=
    match x with Some h => [(0, OInit h false)] | None => [] end.

  (* does the specification expect the clone to succeed (then the new handle is observed) *)
  Definition clone_expected (i : input_C04) : bool :=
    match i_route i, i_dest i with
    | RClone, (DAbsent | DHandle) => negb (is_uninit (i_prov i))
    | _, _ => false
    end.

  Record roles := mkRoles { r_main : nat; r_c1 : option nat; r_c2 : option nat; r_dp : option nat;
                            r_pk : option nat; r_cl : option nat; r_sa : nat; r_sb : nat;
                            r_tw : option nat }.   (* a second, INDEPENDENT by-id handle of the same job in the same session *)

  Definition new_sp (i : input_C04) : json :=
    match spec_new (i_route i) (i_old i) with Some v => v | None => i_old i end.

  (* does the handle own a _StatePointDict before the operation *)
  (* (init, statepoint access, and - since fix 0894ce6 - being pickled or shallow-copied instantiate it) *)
  Definition has_cell (i : input_C04) : bool :=
    match i_prov i with PInit => true | _ => i_access i || i_pickle i || Nat.ltb 0 (i_shallow i) end.

  (* what SyncedDict._update is applied to, and with what *)
  Definition merge_args (i : input_C04) : option (json * json) :=
    match i_route i with
    | RAssign sp => Some (if has_cell i then i_old i else JObj [], sp)
    | RUpdate u ov => if negb ov && update_conflict (i_old i) u then None else Some (i_old i, dict_update (i_old i) u)
    | _ => None
    end.

  (* tag 3: _update keeps values that compare == in Python (1 / 1.0 / True) and ignores None over a container *)
  Definition class_drop (i : input_C04) : bool :=
    match merge_args i with
    | Some (ex, nw) =>
        negb (json_same (snd (upd_root ex nw)) nw) &&
        match i_route i with
        | RUpdate u false => match spec_new (i_route i) (i_old i) with
                             | Some v => negb (json_same (snd (upd_root ex nw)) v) | None => false end
        | _ => true
        end
    | None => false
    end.

  (* After a re-key the new id is opened BY ID on the Project object of the operating handle and the new handle's
     statepoint() / cached_statepoint are read (tags 43-45): a handle obtained by id is served from the Project's
     id -> state point cache, which the setter / the re-initialisation fill.  (The harness mutates the mapping it handed
     to the setter / update_statepoint in place right after the call - the model cannot alias.)  The probe is scripted
     only where a job is expected under that id: the source is initialised, the route's meaning is defined, and the input
     is not in the class of open finding 3 (there the job stays where it was, and nothing can be opened). *)
  Definition byid_expected (i : input_C04) : bool :=
    rekey_route (i_route i) && negb (is_uninit (i_prov i)) && negb (class_drop i) &&
    match spec_new (i_route i) (i_old i) with Some _ => true | None => false end.

  (* the state point of the job that sits at the destination: for the routes that MOVE first it is the job the move
     collides with (same state point, other project), otherwise the job at the new state point *)
  Definition dest_sp (i : input_C04) : json :=
    match i_route i with RMoveEdit _ _ | RCopyMove _ _ => i_old i | _ => new_sp i end.

  Definition script_C04 (i : input_C04) : list (nat * op) * roles :=
    let old := i_old i in
    let nsp := new_sp i in
    let dsp := dest_sp i in
    let sd := if rekey_route (i_route i) then 0 else 1 in
    let dws := (if rekey_route (i_route i) then PA else PB) ++ [WS] in
    (* 1. source job *)
    let o1 := [(0, ONewSession PA); (0, ONewSession PB); (5, OOpenSp 0 old)]
              ++ (if is_uninit (i_prov i) then [] else (0, OInit 0 false) :: pay_ops 0 (i_pay i)) in
    (* 2. destination *)
    let '(o2, nh) :=
      match i_dest i with
      | DAbsent => ([], 1)
      | DInit => ((0, OOpenSp sd dsp) :: (0, OInit 1 false) :: pay_ops 1 (i_dpay i), 2)
      | DHandle => ([(0, OOpenSp sd dsp)], 2)
      | DEmptyDir => ([(0, OPlantDir (dws ++ [calc_id frepr dsp]))], 1)
      end in
    (* 3. the handle the operation goes through *)
    let oid := calc_id frepr old in
    (* a handle obtained by id gets a twin: the same open_job(id=...) once more on the same Project object (both are
       served from - or will read through - the same entry of the Project's state point cache) *)
    let '(o3, hm, tw, nh, ns, sid) :=
      match i_prov i with
      | PInit | PUninit => ([], 0, None, nh, 2, 0)
      | PSpFresh => ([(0, OOpenSp 0 old)], nh, None, S nh, 2, 0)
      | PIdCached => ([(0, OOpenId 0 oid); (0, OOpenId 0 oid)], nh, Some (S nh), S (S nh), 2, 0)
      | PIdFresh => ([(0, ONewSession PA); (0, OOpenId 2 oid); (0, OOpenId 2 oid)], nh, Some (S nh), S (S nh), 3, 2)
      end in
    let o4 := if i_access i then [(0, OSp hm)] else [] in
    (* 5. copies: independent ones first (pickling a handle that has a shallow copy recurses) *)
    let '(o5a, dp, nh, ns) := if i_deep i then ([(0, ODeepCopy hm)], Some nh, S nh, S ns) else ([], None, nh, ns) in
    let '(o5b, pk, nh, ns) := if i_pickle i then ([(0, OPickle hm)], Some nh, S nh, S ns) else ([], None, nh, ns) in
    let '(o5c, c1, c2, nh) :=
      match i_shallow i with
      | 0 => ([], None, None, nh)
      | 1 => ([(0, OCopy hm)], Some nh, None, S nh)
      | _ => ([(0, OCopy hm); (0, OCopy nh)], Some nh, Some (S nh), S (S nh))
      end in
    let o6 := if i_pre i then pre_ops 0 (Some hm) ++ pre_ops 1 c1 ++ pre_ops 2 c2 else [] in
    let main :=
      match i_route i with
      | REdit p a => OEdit hm p a
      | RAssign sp => OAssign hm sp
      | RUpdate u ov => OUpdateSp hm u ov
      | RMove | RMoveEdit _ _ => OMove hm 1
      | RCopyMove _ _ => OMove (match c1 with Some c => c | None => hm end) 1
      | RClone => OClone 1 hm
      end in
    let follow := match i_route i, c1 with
                  | RMoveEdit p a, _ => [(4, OEdit hm p a)]
                  | RCopyMove p a, Some _ => [(4, OEdit hm p a)]
                  | _, _ => []
                  end in
    let cl := if clone_expected i then Some nh else None in
    let o9 := obs_ops 0 (Some hm) ++ obs_ops 1 c1 ++ obs_ops 2 c2 ++ obs_ops 3 dp ++ obs_ops 4 pk ++ obs_ops 5 cl
              ++ obs_ops 6 tw in
    (* ... and at the very end the old id is opened once more on that Project object *)
    let o14 := match tw with Some _ => [(42, OOpenId sid oid)] | None => [] end in
    (* ... and, after a clone, bytes are appended through the CLONE's entry of the last payload file (which may be a
       symbolic link in the source; links are outside the FS model: the model sees the file read through the link) *)
    let o15 := match cl, rev (p_files (i_pay i)) with
               | Some c, (rel, b) :: _ => [(72, OWriteFile c rel (b ++ [33%N])); (73, OTree)]
               | _, _ => []
               end in
    let o10 := [(0, ONewSession PA); (40, OIds ns); (0, ONewSession PB); (41, OIds (S ns))] in
    (* documents: of the handle, of the clone, and (for re-key routes, where they must follow) of the shallow copies *)
    (* (after a move through a copy the handle left behind denotes a job that does not exist: reading its document
        would create it, so only the mover's document is read) *)
    let o11 := (match i_route i, c1 with RCopyMove _ _, Some _ => doc_ops 1 c1 | _, _ => doc_ops 0 (Some hm) end)
               ++ (if rekey_route (i_route i) then doc_ops 1 c1 ++ doc_ops 2 c2 else [])
               ++ doc_ops 5 cl in
    let o16 := if byid_expected i then [(43, OOpenId sid (calc_id frepr nsp)); (44, OSp nh); (45, OCached nh)] else [] in
    let o13 := init_ops dp ++ init_ops pk in
    (o1 ++ o2 ++ o3 ++ o4 ++ o5a ++ o5b ++ o5c ++ o6 ++ [(1, OTree); (2, main)] ++ follow ++ [(3, OTree)] ++ o9 ++ o10 ++ o11
        ++ [(60, OTree)] ++ o13 ++ [(70, OTree)] ++ o15 ++ o16 ++ o14,
     mkRoles hm c1 c2 dp pk cl ns (S ns) tw).

  (* ------------------------------------------------------------------ reading the observations *)
  Fixpoint out_at (tag : nat) (sc : list (nat * op)) (outs : list oval) : option oval :=
    match sc, outs with
    | (t, _) :: sc', o :: outs' => if Nat.eqb t tag then Some o else out_at tag sc' outs'
    | _, _ => None
    end.

  (* the tree observed at [tag]; VTreeSame refers to the previous snapshot *)
  Fixpoint tree_at (tag : nat) (prev : fs) (sc : list (nat * op)) (outs : list oval) : fs :=
    match sc, outs with
    | (t, _) :: sc', o :: outs' =>
        let cur := match o with VTree x => x | _ => prev end in
        if Nat.eqb t tag then cur else tree_at tag cur sc' outs'
    | _, _ => prev
    end.

  Definition rel_tree (p : path) (t : fs) : fs :=
    flat_map (fun e => match strip p (fst e) with Some (n :: r) => [(n :: r, snd e)] | _ => [] end) t.

  Definition none_under (p : path) (t : fs) : bool := negb (existsb (fun e => under p (fst e)) t).

  Definition isdir_t (t : fs) (p : path) : bool := match get t p with Some Dir => true | _ => false end.

  Record mask := mkMask { m_cached : bool; m_shallow : bool }.

  Definition is_exn (o : option oval) (e : exn) : bool :=
    match o with Some (VExn x) => exn_eqb x e | _ => false end.
  Definition is_unit (o : option oval) : bool := match o with Some VUnit => true | _ => false end.
  Definition is_json (o : option oval) (v : json) : bool :=
    match o with Some (VJson x) => json_same x v | _ => false end.
  Definition is_idpath (o : option oval) (i : str) (p : path) : bool :=
    match o with Some (VIdPath j q) => str_eqb i j && path_eqb p q | _ => false end.

  Definition holds_mask (m : mask) (i : input_C04) (outs : list oval) : bool :=
    let '(sc, ro) := script_C04 i in
    let at_ t := out_at t sc outs in
    let pre := tree_at 1 [] sc outs in
    let post := tree_at 3 [] sc outs in
    let post2 := tree_at 60 [] sc outs in
    let final := tree_at 70 [] sc outs in
    let old := i_old i in
    let oid := calc_id frepr old in
    let doc := p_doc (i_pay i) in
    let aws := PA ++ [WS] in
    let bws := PB ++ [WS] in
    let src := aws ++ [oid] in
    let unchanged := tree_same_except [] pre post in
    let uninit := is_uninit (i_prov i) in
    let has k := match k with 1 => match r_c1 ro with Some _ => true | None => false end
                          | 2 => match r_c2 ro with Some _ => true | None => false end
                          | 3 => match r_dp ro with Some _ => true | None => false end
                          | 4 => match r_pk ro with Some _ => true | None => false end
                          | 5 => match r_cl ro with Some _ => true | None => false end
                          | 6 => match r_tw ro with Some _ => true | None => false end
                          | _ => true end in
    (* handle k shows job (i', p', sp') *)
    let shows (k : nat) (cached : bool) (i' : str) (p' : path) (sp' : json) :=
      negb (has k) ||
      (is_idpath (at_ (10 + 3 * k)) i' p' && is_json (at_ (11 + 3 * k)) sp'
       && (negb cached || is_json (at_ (12 + 3 * k)) sp')) in
    let doc_is (k : nat) := negb (has k) || is_json (at_ (50 + k)) doc in
    let follower (k : nat) (i' : str) (p' : path) (sp' : json) (with_doc : bool) :=
      (m_shallow m && negb (Nat.eqb k 0)) ||
      (shows k (negb (m_cached m)) i' p' sp' && (negb with_doc || doc_is k)) in
    (* a deep copy of a handle that was opened by id and never looked at its state point is a lazy
       reference: once the job has moved away it can only fail to load, never show a wrong value *)
    let lazy_dp := match i_prov i with PIdFresh => negb (i_access i) | _ => false end in
    let json_or_exn (o : option oval) (v : json) :=
      match o with Some (VJson x) => json_same x v | Some (VExn _) => true | _ => false end in
    let independent (k : nat) :=
      if lazy_dp && Nat.eqb k 3 then
        negb (has k) || (is_idpath (at_ (10 + 3 * k)) oid src && json_or_exn (at_ (11 + 3 * k)) old
                         && json_or_exn (at_ (12 + 3 * k)) old)
      else shows k true oid src old in
    let ids_ok :=
      match at_ 40, at_ 41 with
      | Some (VStrs la), Some (VStrs lb) =>
          strs_sameset la (tree_ids post aws) && strs_sameset lb (tree_ids post bws)
      | _, _ => false
      end in
    (* the independent copies are still usable: init() re-creates (or finds) the old job, touching nothing else *)
    let indep_usable :=
      tree_same_except [src] post2 final &&
      (negb (has 3 || has 4) || (lazy_dp && negb (has 4)) ||
       (isdir_t final src && match file_json final (src ++ [SPF]) with Some v => json_same v old | None => false end)) in
    (* before the operation the handle and its shallow copies describe the old job *)
    let pre_shows (k : nat) :=
      negb (has k) || (is_idpath (at_ (80 + 2 * k)) oid src && is_json (at_ (81 + 2 * k)) old) in
    let pre_ok := negb (i_pre i) || (pre_shows 0 && pre_shows 1 && pre_shows 2) in
    (* the twin is an independent handle: it need not follow, but whatever state point it (or a new open_job(id=old id)
       on its Project) shows must hash to the id it shows; it may also fail to load once the job has moved away *)
    let hashes_or_exn (o : option oval) :=
      match o with Some (VJson x) => str_eqb (calc_id frepr x) oid | Some (VExn _) => true | _ => false end in
    let twin_ok :=
      negb (has 6) ||
      (is_idpath (at_ 28) oid src && hashes_or_exn (at_ 29) && hashes_or_exn (at_ 30)
       && match at_ 42 with
          | Some (VStr x) => str_eqb x oid
          | Some (VExn EKeyError) => negb (isdir_t final src)
          | _ => false
          end) in
    (* the clone is INDEPENDENT of the source: writing through an entry of the clone changes nothing outside the clone *)
    let clone_indep :=
      match r_cl ro, rev (p_files (i_pay i)) with
      | Some _, _ :: _ => tree_same_except [bws ++ [oid]] final (tree_at 73 [] sc outs)
      | _, _ => true
      end in
    (* a handle opened by id on the operating handle's Project after the re-key describes the new job *)
    let byid_ok (nid : str) (nsp : json) :=
      negb (byid_expected i) ||
      (match at_ 43 with Some (VStr x) => str_eqb x nid | _ => false end && is_json (at_ 44) nsp && is_json (at_ 45) nsp) in
    let common := pre_ok && twin_ok && clone_indep && ids_ok && independent 3 && independent 4 && indep_usable
                  && (uninit || tree_same_except (if m_shallow m then [src] else []) post post2) in
    match i_route i with
    | RMove =>
        let dst := bws ++ [oid] in
        if uninit then is_exn (at_ 2) ERuntimeError && unchanged && common
        else match i_dest i with
             | DInit => is_exn (at_ 2) EDestinationExists && unchanged && common
             | _ =>
                 is_unit (at_ 2) && none_under src post && isdir_t post dst
                 && tree_same_except [] (rel_tree src pre) (rel_tree dst post)
                 && tree_same_except [src; dst] pre post
                 && shows 0 true oid dst old && doc_is 0 && common
             end
    | RMoveEdit p a =>
        (* move, then a re-key through the moved handle: the job must end up in B under the new id with everything *)
        match edit_sp p a old with
        | None => false
        | Some nsp =>
            let nid := calc_id frepr nsp in
            let dst := bws ++ [nid] in
            if uninit then is_exn (at_ 2) ERuntimeError && unchanged && common
            else match i_dest i with
                 | DAbsent =>
                     is_unit (at_ 2) && is_unit (at_ 4) && negb (str_eqb nid oid)
                     && none_under src post && none_under (bws ++ [oid]) post && isdir_t post dst
                     && tree_same_except [[SPF]] (rel_tree src pre) (rel_tree dst post)
                     && match file_json post (dst ++ [SPF]) with Some v => json_same v nsp | None => false end
                     && tree_same_except [src; dst] pre post
                     && shows 0 true nid dst nsp && doc_is 0 && common
                 | DInit =>
                     (* the move is REJECTED (the id is initialised in B): nothing happened, so the later edit is an
                        ordinary re-key inside A - the job reappears there under the new id with everything, the handle
                        and every shallow copy follow, the job in B is untouched *)
                     let dsta := aws ++ [nid] in
                     is_exn (at_ 2) EDestinationExists && is_unit (at_ 4) && negb (str_eqb nid oid)
                     && none_under src post && isdir_t post dsta
                     && tree_same_except [[SPF]] (rel_tree src pre) (rel_tree dsta post)
                     && match file_json post (dsta ++ [SPF]) with Some v => json_same v nsp | None => false end
                     && tree_same_except [src; dsta] pre post
                     && follower 0 nid dsta nsp true && follower 1 nid dsta nsp false && follower 2 nid dsta nsp false
                     && common
                 | _ => true
                 end
        end
    | RCopyMove p a =>
        (* move through the first shallow copy, then an edit through the handle left behind: the moved job stays in B
           under its id with everything, the mover keeps describing it; nothing else appears in either project.  (What
           the handles left behind show is not claimed; the edit may also fail.) *)
        let dst := bws ++ [oid] in
        let kmv := match r_c1 ro with Some _ => 1 | None => 0 end in
        if uninit then is_exn (at_ 2) ERuntimeError && unchanged && common
        else match i_dest i with
             | DAbsent =>
                 is_unit (at_ 2) && none_under src post && isdir_t post dst
                 && tree_same_except [] (rel_tree src pre) (rel_tree dst post)
                 && tree_same_except [src; dst] pre post
                 && shows kmv true oid dst old && doc_is kmv && common
             | _ => true
             end
    | RClone =>
        let dst := bws ++ [oid] in
        if uninit then is_exn (at_ 2) EValueError && unchanged && common
        else match i_dest i with
             | DInit | DEmptyDir => is_exn (at_ 2) EDestinationExists && unchanged && common
             | _ =>
                 match at_ 2 with Some (VStr x) => str_eqb x oid | _ => false end
                 && isdir_t post dst
                 && tree_same_except [] (rel_tree src pre) (rel_tree dst post)
                 && tree_same_except [dst] pre post
                 && shows 0 true oid src old && doc_is 0
                 && shows 5 true oid dst old && doc_is 5 && common
             end
    | _ =>
        match spec_new (i_route i) old with
        | None =>
            (* update_statepoint without overwrite on a differing key: KeyError, no effect *)
            is_exn (at_ 2) EKeyError && unchanged && shows 0 false oid src old && common
        | Some nsp =>
            let nid := calc_id frepr nsp in
            let dst := aws ++ [nid] in
            if str_eqb nid oid then
              is_unit (at_ 2) && unchanged && shows 0 false oid src nsp && byid_ok oid nsp && common
            else if uninit then
              (* nothing on disk to carry: the handles simply follow *)
              is_unit (at_ 2) && unchanged
              && follower 0 nid dst nsp false && follower 1 nid dst nsp false && follower 2 nid dst nsp false && common
            else
              match i_dest i with
              (* conflict: both jobs untouched on disk AND the handle still shows the old job (fix 5e72814) *)
              | DInit => is_exn (at_ 2) EDestinationExists && unchanged && shows 0 true oid src old && common
              | _ =>
                  is_unit (at_ 2) && none_under src post && isdir_t post dst
                  && tree_same_except [[SPF]] (rel_tree src pre) (rel_tree dst post)
                  && match file_json post (dst ++ [SPF]) with Some v => json_same v nsp | None => false end
                  && tree_same_except [src; dst] pre post
                  && follower 0 nid dst nsp true && follower 1 nid dst nsp true && follower 2 nid dst nsp true
                  && byid_ok nid nsp && common
              end
        end
    end.

  Definition holds_in (i : input_C04) (outs : list oval) : bool := holds_mask (mkMask false false) i outs.

  (* ------------------------------------------------------------------ known defect classes (over the input) *)
  (* tag 3 on the rollback path (fix 5e72814 restores the in-memory data with the same _update): merging the
     file's old state point back into the rejected data keeps values that compare == *)
  Definition class_drop_rollback (i : input_C04) : bool :=
    match i_dest i, spec_new (i_route i) (i_old i) with
    | DInit, Some nsp =>
        rekey_route (i_route i) && negb (is_uninit (i_prov i)) &&
        let mem := match merge_args i with Some (ex, nw) => snd (upd_root ex nw) | None => nsp end in
        negb (json_same (snd (upd_root mem (i_old i))) (i_old i))
    | _, _ => false
    end.

  (* tags 1 (stale cached_statepoint), 2 (copy.copy before the state point was accessed) and 4 (root saved in the
     middle of _update) were repaired in /repo (fix: aa8b5a9, 0894ce6, 3806f72) and are no longer classified. *)
  Definition known_tag (i : input_C04) (outs : list oval) : nat :=
    if holds_in i outs then 0
    else if class_drop i || class_drop_rollback i then 3
    else 0.
End Script.

Definition fr4 (c : case_C04) : fl -> str := ftab_lookup (c4_ftab c).

Definition mismatch_C04 (c : case_C04) : bool :=
  negb (run_cmp (fr4 c) w0 0 [] (map snd (fst (script_C04 (fr4 c) (c4_in c)))) (c4_outs c)).

Definition holds_C04 (c : case_C04) : bool := holds_in (fr4 c) (c4_in c) (c4_outs c).
Definition violation_C04 (c : case_C04) : bool := negb (holds_C04 c).

Definition mismatches_C04 (cs : list case_C04) : list N := indices_where mismatch_C04 cs.
Definition violations_C04 (cs : list case_C04) : list N := indices_where violation_C04 cs.

Fixpoint known_aux (cs : list case_C04) (idx : N) : list N :=
  match cs with
  | [] => []
  | c :: cs' =>
      match known_tag (fr4 c) (c4_in c) (c4_outs c) with
      | O => known_aux cs' (N.succ idx)
      | t => (idx * 100 + N.of_nat t)%N :: known_aux cs' (N.succ idx)
      end
  end.
Definition known_C04 (cs : list case_C04) : list N := known_aux cs 0%N.
