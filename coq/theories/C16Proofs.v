(* C16Proofs.v — lemmas behind props/C16.v *)
From Coq Require Import String Ascii.
From SV Require Import Base Json MD5 Canon Export CorrC16 C16Paths C16Frame C16Schema C16Analyse.
Local Open Scope N_scope.

(* ================================================================== small list facts *)
Lemma forallb_map : forall A B (f : A -> B) (p : B -> bool) l,
  forallb p (List.map f l) = forallb (fun a => p (f a)) l.
Proof. induction l as [|x l IH]; simpl; auto. rewrite IH. reflexivity. Qed.

Lemma pairwise_map : forall A B (f : A -> B) (r : B -> B -> bool) l,
  pairwise r (List.map f l) = pairwise (fun a b => r (f a) (f b)) l.
Proof.
  induction l as [|x l IH]; simpl; auto. rewrite IH. f_equal.
  rewrite forallb_map. reflexivity.
Qed.

Lemma str_mem_false : forall x l, str_mem x l = false -> forall y, In y l -> str_eqb x y = false.
Proof.
  induction l as [|z l IH]; simpl; intros H y Hy; [tauto|].
  apply orb_false_iff in H. destruct H as [H1 H2]. destruct Hy as [<-|Hy]; auto.
Qed.

Lemma existsb_false : forall A (p : A -> bool) l, existsb p l = false -> forall y, In y l -> p y = false.
Proof.
  induction l as [|z l IH]; simpl; intros H y Hy; [tauto|].
  apply orb_false_iff in H. destruct H as [H1 H2]. destruct Hy as [<-|Hy]; auto.
Qed.

(* pairwise property from "the images under f are pairwise different" *)
Lemma pairwise_of_nodup : forall (f : str -> str) (Q : str -> str -> bool) l,
  has_dup (List.map f l) = false ->
  (forall a b, In a l -> In b l -> f a <> f b -> Q a b = true) ->
  pairwise Q l = true.
Proof.
  intros f Q l. induction l as [|x l IH]; simpl; intros Hd HQ; auto.
  apply orb_false_iff in Hd. destruct Hd as [Hd1 Hd2].
  rewrite IH; auto. rewrite andb_true_r. apply forallb_forall. intros y Hy. apply HQ; auto.
  intro E. pose proof (str_mem_false _ _ Hd1 (f y) (in_map f _ _ Hy)) as H.
  rewrite E, str_eqb_refl in H. discriminate.
Qed.

(* ================================================================== accepted paths are unique and
   leaf/node consistent (after the repairs: no exclusion of input classes; what remains is the
   export root, see accepted_root_refuted) *)
Lemma export_paths_inv : forall o jobs p ds,
  export_paths o jobs p = ROk ds ->
  path_function o jobs p = ROk ds
  /\ existsb leaves_target (List.map norm_dst ds) = false
  /\ has_dup (List.map norm_dst ds) = false
  /\ check_dirs (List.map norm_dst ds) = true
  /\ (Nat.leb 2 (List.length (List.map norm_dst ds))
      && existsb (fun n => is_empty n || str_eqb n dot) (List.map norm_dst ds)) = false.
Proof.
  intros o jobs p ds H. unfold export_paths in H.
  destruct (path_function o jobs p) as [ds'| |]; cbn [rbind] in H; try discriminate.
  destruct (existsb leaves_target (List.map norm_dst ds')) eqn:E1; [discriminate|].
  destruct (has_dup (List.map norm_dst ds')) eqn:E2; [discriminate|].
  match type of H with (if ?c then _ else _) = _ => destruct c eqn:E4 end; [discriminate|].
  destruct (check_dirs (List.map norm_dst ds')) eqn:E3; [|discriminate]. inversion H; subst. auto.
Qed.

Lemma nonroot_loc : forall d, is_root d = false -> loc_of d = split 47 (norm_dst d).
Proof.
  intros d H. unfold is_root, loc_of in *. unfold norm_dst.
  destruct d as [|c d]; [vm_compute in H; discriminate|]. cbn [is_empty].
  destruct (str_eqb (normpath (c :: d)) dot); [discriminate|reflexivity].
Qed.

Lemma check_dirs_no_node : forall ns a b, check_dirs ns = true -> In a ns -> In b ns ->
  ~ In a (str_prefixes_from [] (split 47 b)).
Proof.
  intros ns a b H Ha Hb Hin. unfold check_dirs in H. apply negb_true_iff in H.
  pose proof (existsb_false _ _ _ H a Ha) as Hf. simpl in Hf.
  assert (Hm : In a (path_nodes ns)).
  { unfold path_nodes. apply in_flat_map. exists b. split; auto. }
  apply str_mem_In in Hm. congruence.
Qed.

Lemma proper_prefix_is_node : forall a b, a <> b -> is_prefix (split 47 a) (split 47 b) = true ->
  In a (str_prefixes_from [] (split 47 b)).
Proof.
  intros a b Hne Hp. apply is_prefix_spec in Hp. destruct Hp as [rest Hb].
  assert (Hrest : rest <> []).
  { intro E. subst rest. rewrite app_nil_r in Hb. apply Hne. symmetry. eapply split_inj. exact Hb. }
  rewrite Hb. rewrite <- (join_split 47 a) at 1.
  apply (in_str_prefixes (split 47 a) rest []); auto. apply split_nonempty.
Qed.

Lemma accepted_paths_consistent_nonroot : forall o jobs p ds,
  export_paths o jobs p = ROk ds ->
  (forall d, In d ds -> is_root d = false) ->
  locs_unique ds = true /\ locs_prefix_free ds = true.
Proof.
  intros o jobs p ds H Hroot.
  destruct (export_paths_inv _ _ _ _ H) as [_ [_ [Hdup [Hchk _]]]].
  unfold locs_unique, locs_prefix_free. rewrite !pairwise_map.
  assert (Hcore : forall a b, In a ds -> In b ds -> norm_dst a <> norm_dst b ->
            is_prefix (loc_of a) (loc_of b) = false).
  { intros a b Ha Hb Hne. rewrite (nonroot_loc a (Hroot a Ha)), (nonroot_loc b (Hroot b Hb)).
    destruct (is_prefix (split 47 (norm_dst a)) (split 47 (norm_dst b))) eqn:E; auto.
    exfalso. eapply (check_dirs_no_node (List.map norm_dst ds) (norm_dst a) (norm_dst b) Hchk).
    - apply in_map. exact Ha.
    - apply in_map. exact Hb.
    - apply proper_prefix_is_node; auto. }
  split.
  - apply (pairwise_of_nodup norm_dst); auto. intros a b Ha Hb Hne.
    destruct (fpath_eqb (loc_of a) (loc_of b)) eqn:E; auto.
    apply fpath_eqb_eq in E. pose proof (Hcore a b Ha Hb Hne) as Hc. rewrite E, is_prefix_refl in Hc. discriminate.
  - apply (pairwise_of_nodup norm_dst); auto. intros a b Ha Hb Hne.
    rewrite (Hcore a b Ha Hb Hne), (Hcore b a Hb Ha (fun E => Hne (eq_sym E))). apply orb_true_r.
Qed.

(* a single job is always consistent, whatever its path *)
Lemma single_path_consistent : forall d, locs_unique [d] = true /\ locs_prefix_free [d] = true.
Proof. intro d. split; reflexivity. Qed.

Lemma normpath_nonempty : forall s, is_empty (normpath s) = false.
Proof.
  intro s. unfold normpath. destruct s as [|c s]; [reflexivity|].
  match goal with |- is_empty (match ?p with [] => _ | _ :: _ => _ end) = false => destruct p; reflexivity end.
Qed.

(* a path is the export root exactly if its normalised form is '' or '.' (the test of 3224fe9) *)
Lemma is_root_norm : forall d, is_root d = (is_empty (norm_dst d) || str_eqb (norm_dst d) dot).
Proof.
  intro d. unfold is_root, loc_of, norm_dst. destruct d as [|c d]; [reflexivity|]. cbn [is_empty].
  rewrite normpath_nonempty. cbn [orb].
  destruct (str_eqb (normpath (c :: d)) dot) eqn:E; [reflexivity|].
  pose proof (split_nonempty 47 (normpath (c :: d))) as Hn. destruct (split 47 (normpath (c :: d))); [congruence|reflexivity].
Qed.

(* FULL: whatever export accepts is unique and leaf/node consistent *)
Theorem accepted_paths_consistent : forall o jobs p ds,
  export_paths o jobs p = ROk ds -> locs_unique ds = true /\ locs_prefix_free ds = true.
Proof.
  intros o jobs p ds H.
  destruct (export_paths_inv _ _ _ _ H) as [_ [_ [_ [_ Hroot]]]].
  destruct ds as [|d [|d' t]]; [split; reflexivity|apply single_path_consistent|].
  apply (accepted_paths_consistent_nonroot _ _ _ _ H). intros x Hx.
  rewrite map_length in Hroot. cbn [List.length Nat.leb andb] in Hroot.
  rewrite is_root_norm. apply (existsb_false _ _ _ Hroot (norm_dst x)). apply in_map. exact Hx.
Qed.

(* ================================================================== agreement with the model gives
   the source / uniqueness / leaf-node clauses of the oracle *)
Lemma export_model_ok : forall o jobs k p,
  eo_exn (export_model o jobs k p) = None -> eo_ood (export_model o jobs k p) = false ->
  exists ds, export_paths o jobs p = ROk ds /\ eo_map (export_model o jobs k p) = ds.
Proof.
  intros o jobs k p He Ho. unfold export_model in *.
  destruct (export_paths o jobs p) as [ds| |]; simpl in *; try discriminate.
  exists ds. split; auto. destruct k; reflexivity.
Qed.

Lemma list_eqb_str_eq : forall a b, list_eqb str_eqb a b = true -> a = b.
Proof. intros a b H. apply (list_eqb_eq _ str_eqb str_eqb_eq). exact H. Qed.

Lemma model_holds_paths : forall c,
  mismatch_C16 c = false ->
  h_src c = true /\ h_unique c = true /\ h_leafnode c = true.
Proof.
  intros c Hm. unfold mismatch_C16 in Hm. apply orb_false_iff in Hm. destruct Hm as [Hm _].
  unfold mismatch_export in Hm.
  repeat (apply orb_false_iff in Hm; destruct Hm as [Hm ?]).
  rename H into Hart, H0 into Hmap, H1 into Hexn, H2 into Hout, H3 into Hsrc.
  apply negb_false_iff in Hsrc, Hexn.
  split; [exact Hsrc|].
  unfold h_unique, h_leafnode.
  destruct (x_exn c) eqn:Ex; simpl; [auto|].
  simpl in Hmap. apply negb_false_iff in Hmap. apply list_eqb_str_eq in Hmap.
  unfold opt_exn_eqb in Hexn. destruct (eo_exn (run_export c)) eqn:Ee; [discriminate|].
  destruct (export_model_ok _ _ _ _ Ee Hm) as [ds [Hds Hmapd]].
  fold (run_export c) in Hmapd. rewrite Hmapd in Hmap. subst ds.
  apply (accepted_paths_consistent _ _ _ _ Hds).
Qed.

(* ================================================================== refutations: concrete witnesses *)
Definition q (s : string) : str := S s.
Definition sp_a (v : json) : json := JObj [(q "a", v)].
Definition mkjob (id : string) (sp : json) (spfile : string) (extra : fs) : job :=
  {| j_id := q id; j_sp := sp; j_files := ([FN_SP], Some (q spfile)) :: extra |}.

Definition j_a1 := mkjob "42b7b4f2921788ea14dac5566e6f06d0" (sp_a (JInt 1)) "{""a"": 1}" [([q "f.txt"], Some (q "one"))].
Definition j_a1s := mkjob "44550aefb0b85d9db968d11e4fdfa6bc" (sp_a (JStr (q "1"))) "{""a"": ""1""}" [([q "f.txt"], Some (q "str"))].
Definition j_a10 := mkjob "798cc71deef8c6835483eb116d0ce9bd" (sp_a (JInt 10)) "{""a"": 10}" [([q "f.txt"], Some (q "ten"))].
Definition j_a100 := mkjob "cc5934b8835f37e84d5739f45e315fad" (sp_a (JInt 100)) "{""a"": 100}" [([q "f.txt"], Some (q "hun"))].
Definition j_a2 := mkjob "9f8a8e5ba8c70c774d410a9107e2a32b" (sp_a (JInt 2)) "{""a"": 2}" [([q "f.txt"], Some (q "two"))].
Definition j_up := mkjob "36a2387d55e1779c0d212256c1d657cd" (sp_a (JStr (q "../../zz"))) "{""a"": ""../../zz""}" [].

Definition orc (js : list job) : oracle :=
  {| o_asc := true; o_frepr := []; o_text := [];
     o_parse := List.map (fun j => (match fs_get [FN_SP] (j_files j) with Some (Some c) => c | _ => [] end, j_sp j)) js;
     o_rel := false; o_origin := [] |}.

(* the ids used above are the real ones: the model recomputes them *)
Lemma witness_ids :
  List.map (fun j => job_id_of (orc []) (j_sp j)) [j_a1; j_a1s; j_a10; j_a100; j_a2; j_up]
  = List.map j_id [j_a1; j_a1s; j_a10; j_a100; j_a2; j_up].
Proof. vm_compute. reflexivity. Qed.

(* ---- the former counterexamples, now on the repaired model *)
(* F7 repaired: {'a': 1} and {'a': '1'} with path=None are refused before anything is written *)
Definition f7_jobs := [j_a1; j_a1s].
Lemma f7_repaired :
  export_paths (orc f7_jobs) f7_jobs PNone = RExn ERuntimeError
  /\ (let e := export_model (orc f7_jobs) f7_jobs KDir PNone in
      eo_exn e = Some ERuntimeError /\ art_empty (eo_art e) = true)
  /\ (let e := export_model (orc f7_jobs) f7_jobs KZip PNone in
      eo_exn e = Some ERuntimeError /\ art_empty (eo_art e) = true).
Proof. vm_compute. repeat split. Qed.

(* F15 repaired: the leaf/node check rejects both orders *)
Lemma f15_repaired :
  check_dirs [q "a"; q "a/b"] = false /\ check_dirs [q "a/b"; q "a"] = false
  /\ check_dirs [q "a/c"; q "a/b"] = true.
Proof. vm_compute. repeat split. Qed.

(* F6 repaired: the zip round trip of a = 1, 10, 100 is exact *)
Definition f6_jobs := [j_a1; j_a10; j_a100].
Lemma f6_repaired :
  let o := orc f6_jobs in
  let e := export_model o f6_jobs KZip PNone in
  eo_exn e = None /\ eo_map e = [q "a/1"; q "a/10"; q "a/100"]
  /\ (let i := import_model o SchNone (eo_art e) (dst_init []) in
      io_exn i = None /\ fs_eqb (io_dst i) (expected_dst [] f6_jobs) = true).
Proof. vm_compute. repeat split. Qed.

(* ... and the former overwrite scenario leaves the existing job alone *)
Definition f6o_jobs := [j_a2; j_a10].
Definition f6o_spec := PCall [(j_id j_a2, ROk (q "4")); (j_id j_a10, ROk (j_id j_a1))].
Lemma f6_overwrite_repaired :
  let o := orc (j_a1 :: f6o_jobs) in
  let e := export_model o f6o_jobs KZip f6o_spec in
  eo_exn e = None
  /\ (let i := import_model o SchNone (eo_art e) (dst_init [j_a1]) in
      io_exn i = None /\ pre_untouched [j_a1] (io_dst i) = true
      /\ fs_eqb (io_dst i) (expected_dst [j_a1] f6o_jobs) = true).
Proof. vm_compute. repeat split. Qed.

(* F18 repaired: a single job survives the zip and the tar round trip *)
Lemma f18_repaired :
  let o := orc [j_a1] in
  (let e := export_model o [j_a1] KZip PNone in
   eo_exn e = None /\ eo_map e = [[]]
   /\ let i := import_model o SchNone (eo_art e) (dst_init []) in
      io_exn i = None /\ fs_eqb (io_dst i) (expected_dst [] [j_a1]) = true)
  /\ (let e := export_model o [j_a1] KTar PNone in
      eo_exn e = None
      /\ let i := import_model o SchNone (eo_art e) (dst_init []) in
         io_exn i = None /\ fs_eqb (io_dst i) (expected_dst [] [j_a1]) = true).
Proof. vm_compute. repeat split. Qed.

(* F19 repaired: a value containing '..' is refused before anything is written *)
Lemma f19_repaired :
  let js := [j_up; j_a2] in
  let e := export_model (orc js) js KDir PNone in
  eo_exn e = Some ERuntimeError /\ art_empty (eo_art e) = true.
Proof. vm_compute. repeat split. Qed.

(* ---- F20' repaired (3224fe9, 54a5f4b) *)
(* the target itself next to another job is refused before anything is written ('.' and '' alike);
   a single job may still be exported to the target itself *)
Definition root_jobs := [j_a1; j_a2].
Definition root_spec := PCall [(j_id j_a1, ROk (q ".")); (j_id j_a2, ROk (q "r1"))].
Lemma root_repaired :
  let o := orc root_jobs in
  export_paths o root_jobs root_spec = RExn ERuntimeError
  /\ export_paths o root_jobs (PCall [(j_id j_a1, ROk (q "r1")); (j_id j_a2, ROk [])]) = RExn ERuntimeError
  /\ (forall k, In k [KDir; KZip; KTar] ->
        let e := export_model o root_jobs k root_spec in eo_exn e = Some ERuntimeError /\ art_empty (eo_art e) = true)
  /\ (forall k, In k [KDir; KZip; KTar] ->
        let o1 := orc [j_a1] in
        let e := export_model o1 [j_a1] k (PCall [(j_id j_a1, ROk (q "a/../"))]) in
        eo_exn e = None /\ eo_map e = [q "a/../"]
        /\ let i := import_model o1 SchNone (eo_art e) (dst_init []) in
           io_exn i = None /\ fs_eqb (io_dst i) (expected_dst [] [j_a1]) = true).
Proof.
  split; [vm_compute; reflexivity|]. split; [vm_compute; reflexivity|]. split.
  - intros k Hk. destruct Hk as [<-|[<-|[<-|[]]]]; vm_compute; split; reflexivity.
  - intros k Hk. destruct Hk as [<-|[<-|[<-|[]]]]; vm_compute; repeat split.
Qed.

(* the copy goes to the normalised path: 'a/x/../y' next to 'a/x' is an exact round trip for every
   target kind, and the mapping still shows the paths as written *)
Definition lex_spec := PCall [(j_id j_a1, ROk (q "a/x/../y")); (j_id j_a2, ROk (q "a/x"))].
Lemma lex_repaired :
  forall k, In k [KDir; KZip; KTar] ->
  let o := orc root_jobs in
  let e := export_model o root_jobs k lex_spec in
  eo_exn e = None /\ eo_map e = [q "a/x/../y"; q "a/x"]
  /\ let i := import_model o SchNone (eo_art e) (dst_init []) in
     io_exn i = None /\ fs_eqb (io_dst i) (expected_dst [] root_jobs) = true.
Proof. intros k Hk. destruct Hk as [<-|[<-|[<-|[]]]]; vm_compute; repeat split. Qed.

(* a relative one-component directory target and a job whose path is the target itself:
   _mkdir_p('') raises before anything is created (original behaviour; allowed by C16) *)
Lemma rel_target_example :
  let o := {| o_asc := true; o_frepr := []; o_text := []; o_parse := o_parse (orc [j_a1]); o_rel := true; o_origin := [] |} in
  (let e := export_model o [j_a1] KDir PNone in eo_exn e = Some EOSError /\ art_empty (eo_art e) = true)
  /\ (let e := export_model o root_jobs KDir PNone in eo_exn e = None /\ eo_map e = [q "a/1"; q "a/2"]).
Proof. vm_compute. repeat split. Qed.

(* ================================================================== non-vacuity of the hypotheses *)
Lemma dst_safe_examples :
  dst_safe (q "a/1") = true /\ dst_safe (q "k/p/a/x y") = true /\ dst_safe (q "../zz") = false /\ dst_safe (q "a/../..") = false.
Proof. vm_compute. repeat split. Qed.

Definition ex_items : list item :=
  [ {| it_lit := q "a/"; it_key := q "a"; it_ty := TyInt; it_val := JInt (-10); it_text := q "-10" |};
    {| it_lit := q "/b/"; it_key := q "b"; it_ty := TyStr; it_val := JStr (q "x_1"); it_text := q "x_1" |};
    {| it_lit := q "/c/"; it_key := q "c"; it_ty := TyBool; it_val := JBool true; it_text := q "True" |} ].

Lemma ex_items_ok : items_ok (orc []) true ex_items.
Proof.
  unfold ex_items. constructor; [apply (vt_int _ (-10)%Z)|left; reflexivity|].
  constructor; [apply vt_str; [discriminate|reflexivity]|right; eexists; reflexivity|].
  constructor; [apply (vt_bool _ true)|right; eexists; reflexivity|]. constructor.
Qed.

Lemma schema_example :
  schema_text ex_items = q "a/{a:int}/b/{b:str}/c/{c:bool}"
  /\ schema_compile (q "a/{a:int}/b/{b:str}/c/{c:bool}") = ROk (fields_of ex_items)
  /\ parse_path (fields_of ex_items) (q "a/-10/b/x_1/c/True") = ROk (Some (sp_of ex_items))
  /\ parse_path (fields_of ex_items) (q "a/-10/b/x 1/c/True") = ROk None.
Proof. vm_compute. repeat split. Qed.

Definition ex_roots : list (str * json) := [(q "a/1", j_sp j_a1); (q "a/2", j_sp j_a2)].
Lemma mapping_example :
  let o := orc [j_a1; j_a2] in
  let e := export_model o [j_a1; j_a2] KZip PNone in
  match eo_art e with
  | AZip ms =>
      let names := ssort true (sdedup (List.map dirname (List.map fst ms))) in
      names = [q "a/1"; q "a/2"]
      /\ analyse o (arch_schema_fn o SchNone (zip_read_sp o ms)) (fun name skip => existsb (zip_under name) skip) false names (dst_init [])
         = ROk (expected_maps o ex_roots names)
      /\ fs_eqb (io_dst (import_model o SchNone (eo_art e) (dst_init []))) (expected_dst [] [j_a1; j_a2]) = true
  | _ => False
  end.
Proof. vm_compute. repeat split. Qed.

(* ================================================================== archive targets: the writers of
   the model cannot fail, so an export that raised has written no member, and nothing is ever
   created outside the target *)
Lemma fold_partial_total : forall A B (step : A -> B -> res A) l a0,
  (forall a x, exists a', step a x = ROk a') ->
  p_exn (fold_partial step l a0) = None /\ p_ood (fold_partial step l a0) = false.
Proof.
  intros A B step l a0 Htot. unfold fold_partial, fold_partial2.
  set (acc0 := {| p_exn := None; p_ood := false; p_val := a0 |}).
  assert (H : p_exn acc0 = None /\ p_ood acc0 = false) by (split; reflexivity).
  clearbody acc0. revert acc0 H. induction l as [|x l IH]; simpl; intros acc H; auto.
  apply IH. destruct H as [H1 H2]. rewrite H1, H2.
  destruct (Htot (p_val acc) x) as [a' ->]. simpl. split; reflexivity.
Qed.

Lemma export_archive_raise_clean : forall o jobs k p,
  k <> KDir -> eo_exn (export_model o jobs k p) <> None -> art_empty (eo_art (export_model o jobs k p)) = true.
Proof.
  intros o jobs k p Hk He. unfold export_model in *.
  destruct (export_paths o jobs p) as [ds| |]; simpl in *.
  - exfalso. apply He. destruct k; [congruence| |]; simpl.
    + apply (fold_partial_total _ _ (export_zip_step (o_asc o))). intros a [j d]. eexists. reflexivity.
    + apply (fold_partial_total _ _ export_tar_step). intros a [j d]. eexists. reflexivity.
  - destruct k; [congruence|reflexivity|reflexivity].
  - congruence.
Qed.

Lemma ssort_length : forall asc l, List.length (ssort asc l) = List.length l.
Proof.
  intros asc l. induction l as [|x l IH]; simpl; auto. rewrite <- IH.
  generalize (ssort asc l). intro s. induction s as [|y s IHs]; simpl; auto.
  destruct (if asc then str_leb x y else str_leb y x); simpl; auto.
Qed.

Lemma art_eqb_empty_archive : forall a b,
  (match a with ADir _ => False | _ => True end) ->
  art_eqb a b = true -> art_empty a = true -> art_empty b = true.
Proof.
  intros a b Hk He Ha. destruct a as [f|ms|ms], b as [g|ms'|ms']; simpl in *; try discriminate; try tauto.
  - destruct ms; [|discriminate]. destruct ms'; [reflexivity|discriminate].
  - destruct ms; [|discriminate]. destruct ms'; [reflexivity|discriminate].
Qed.

Lemma export_model_art_kind : forall o jobs k p,
  match k, eo_art (export_model o jobs k p) with
  | KDir, ADir _ | KZip, AZip _ | KTar, ATar _ => True
  | _, _ => False
  end.
Proof.
  intros o jobs k p. unfold export_model. destruct (export_paths o jobs p); destruct k; simpl; auto.
Qed.

(* for zip / tar targets, agreement with the model also gives "raised => nothing written" and
   "nothing created outside the target" *)
Lemma model_holds_archive : forall c,
  mismatch_C16 c = false -> c_kind c <> KDir ->
  h_raise_clean c = true /\ h_export_contained c = true.
Proof.
  intros c Hm Hk. unfold mismatch_C16 in Hm. apply orb_false_iff in Hm. destruct Hm as [Hm _].
  unfold mismatch_export in Hm.
  repeat (apply orb_false_iff in Hm; destruct Hm as [Hm ?]).
  rename H into Hart, H0 into Hmap, H1 into Hexn, H2 into Hout, H3 into Hsrc.
  apply negb_false_iff in Hart, Hexn, Hout.
  assert (Hkind : match eo_art (run_export c) with ADir _ => False | _ => True end).
  { pose proof (export_model_art_kind (c_oracle c) (c_jobs c) (c_kind c) (c_path c)) as Hkind.
    unfold run_export. destruct (c_kind c); [congruence| |];
      destruct (eo_art (export_model (c_oracle c) (c_jobs c) _ (c_path c))); tauto. }
  split.
  - unfold h_raise_clean. destruct (x_exn c) as [e|] eqn:Ex; [simpl|reflexivity].
    eapply art_eqb_empty_archive; [|exact Hart|].
    + exact Hkind.
    + apply export_archive_raise_clean; auto. unfold opt_exn_eqb in Hexn.
      fold (run_export c). destruct (eo_exn (run_export c)); [discriminate|discriminate].
  - unfold h_export_contained.
    assert (Hmo : model_outside c = []).
    { unfold model_outside. destruct (eo_art (run_export c)); [tauto|reflexivity|reflexivity]. }
    rewrite Hmo in Hout. apply list_eqb_str_eq in Hout.
    pose proof (ssort_length true (x_outside c)) as Hl. rewrite <- Hout in Hl. simpl in Hl.
    destruct (x_outside c); [reflexivity|discriminate].
Qed.

(* _convert_bool, exactly as the code spells it: case-insensitive true/false, 1/0, otherwise bool(text) *)
Lemma conv_bool_spellings :
  List.map conv_bool [q "True"; q "true"; q "TRUE"; q "tRuE"; q "1"; q "yes"; q "no"; q "f"; q "00"]
  = [true; true; true; true; true; true; true; true; true]
  /\ List.map conv_bool [q "False"; q "false"; q "FALSE"; q "fAlSe"; q "0"] = [false; false; false; false; false].
Proof. vm_compute. split; reflexivity. Qed.

(* F21 repaired (a52f9e0): empty directories at several depths - next to files, below a directory with
   files, a directory that only contains an empty directory, a chain - survive the zip round trip,
   for both listing orders, together with a second job; likewise through tar and a directory *)
Definition j_e1 := mkjob "42b7b4f2921788ea14dac5566e6f06d0" (sp_a (JInt 1)) "{""a"": 1}"
  [([q "emptydir"], None); ([q "sub"], None); ([q "sub"; q "g.bin"], Some (q "g")); ([q "sub"; q "e2"], None);
   ([q "only"], None); ([q "only"; q "inner"], None);
   ([q "d1"], None); ([q "d1"; q "d2"], None); ([q "d1"; q "d2"; q "d3"], None)].
Definition j_e2 := mkjob "9f8a8e5ba8c70c774d410a9107e2a32b" (sp_a (JInt 2)) "{""a"": 2}" [([q "emptydir"], None)].
Definition f21_jobs := [j_e1; j_e2].
Definition orc_desc (js : list job) : oracle :=
  {| o_asc := false; o_frepr := []; o_text := []; o_parse := o_parse (orc js); o_rel := false; o_origin := [] |}.

Lemma f21_repaired :
  (forall k, In k [KZip; KTar; KDir] ->
     let o := orc f21_jobs in
     let e := export_model o f21_jobs k PNone in
     eo_exn e = None
     /\ (let i := import_model o SchNone (eo_art e) (dst_init []) in
         io_exn i = None /\ fs_eqb (io_dst i) (expected_dst [] f21_jobs) = true))
  /\ (let o := orc_desc f21_jobs in
      let e := export_model o f21_jobs KZip PNone in
      eo_exn e = None
      /\ (let i := import_model o SchNone (eo_art e) (dst_init []) in
          io_exn i = None /\ fs_eqb (io_dst i) (expected_dst [] f21_jobs) = true))
  /\ (* a single job, exported to the archive root, that holds nothing but nested empty directories *)
     (let j := mkjob "42b7b4f2921788ea14dac5566e6f06d0" (sp_a (JInt 1)) "{""a"": 1}" [([q "only"], None); ([q "only"; q "inner"], None)] in
      let o := orc [j] in
      let e := export_model o [j] KZip PNone in
      eo_art e = AZip [(FN_SP, q "{""a"": 1}"); (q "only/inner/", [])]
      /\ (let i := import_model o SchNone (eo_art e) (dst_init []) in
          io_exn i = None /\ fs_eqb (io_dst i) (expected_dst [] [j]) = true)).
Proof.
  split; [|split].
  - intros k Hk. destruct Hk as [<-|[<-|[<-|[]]]]; vm_compute; repeat split.
  - vm_compute. repeat split.
  - vm_compute. repeat split.
Qed.

(* everything below a recognised job directory belongs to that job, at any depth: a job that holds a
   nested signac project (state point files three levels down) and a bare x/y/signac_statepoint.json
   makes an exact round trip through directory, zip and tar; nothing below it becomes a job of its own
   (the tar analyser adds every skipped directory to its skip set, so the skip is transitive) *)
Definition inner_sp (k : Z) : json := JObj [(q "inner", JInt k)].
Definition j_nest := mkjob "42b7b4f2921788ea14dac5566e6f06d0" (sp_a (JInt 1)) "{""a"": 1}"
  [([q "x"], None); ([q "x"; q "y"], None); ([q "x"; q "y"; FN_SP], Some (q "{""inner"": 7}"));
   ([q "analysis"], None); ([q "analysis"; q "workspace"], None);
   ([q "analysis"; q "workspace"; q "0000000000000000000000000000abc0"], None);
   ([q "analysis"; q "workspace"; q "0000000000000000000000000000abc0"; FN_SP], Some (q "{""inner"": 8}"));
   ([q "analysis"; q "workspace"; q "0000000000000000000000000000abc0"; q "out.txt"], Some (q "o"))].
Definition orc_nest : oracle :=
  {| o_asc := true; o_frepr := []; o_text := [];
     o_parse := [(q "{""a"": 1}", sp_a (JInt 1)); (q "{""a"": 2}", sp_a (JInt 2));
                 (q "{""inner"": 7}", inner_sp 7); (q "{""inner"": 8}", inner_sp 8)];
     o_rel := false; o_origin := [] |}.
Lemma nested_project_example :
  forall k, In k [KDir; KZip; KTar] ->
  let e := export_model orc_nest [j_nest; j_a2] k PNone in
  eo_exn e = None
  /\ let i := import_model orc_nest SchNone (eo_art e) (dst_init []) in
     io_exn i = None /\ fs_eqb (io_dst i) (expected_dst [] [j_nest; j_a2]) = true
     /\ List.length (fs_children WS (io_dst i)) = 2%nat.
Proof. intros k Hk. destruct Hk as [<-|[<-|[<-|[]]]]; vm_compute; repeat split. Qed.
