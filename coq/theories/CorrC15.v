(* CorrC15.v — oracle of C15 (sync options are honoured: dry-run writes nothing, deep, exclude,
   selection, parallel), evaluated on what the implementation did. *)
From SV Require Import Base Json Canon Sync SyncObs CorrC13 CorrC14.

Section O15.
  Variable frepr : fl -> str.

  (* dry_run: nothing changes anywhere, and the call ends like the real run does *)
  Definition dry_ok (c : scase) : bool :=
    let i := c_in c in
    let o := c_obs c in
    negb (o_dry_run (i_opts i))
    || (proj_eqb frepr (i_dst i) (ob_dst o) && proj_eqb frepr (i_src i) (ob_src o) && ob_rest_ok o
        && match c_ref c with
           | Some r => exn_opt_eqb (ob_exn o) (ob_exn r)
           | None => false
           end).

  (* deep: content decides what a conflict is, at job level and at project level *)
  Definition deep_ok (i : sinput) (o : sobs) : bool :=
    negb (o_deep (i_opts i)) || o_dry_run (i_opts i) || files_ok_with frepr true i o.

  (* files whose name matches a user exclude pattern are never created or modified *)
  Definition excl_unchanged (i : sinput) (before after : dir) : bool :=
    forallb (fun e =>
               negb (o_exclude (i_opts i) (last_name (fst e)))
               (* a job's OWN state point and document (workspace path [id; name]) make up the job *)
               || (Nat.eqb (length (fst e)) 2 && (str_eqb (last_name (fst e)) FN_SP || str_eqb (last_name (fst e)) FN_DOC))
               || match lookup_path (fst e) (Dir before), lookup_path (fst e) (Dir after) with
                  | Some (File c _), Some (File c' _) => content_eqb frepr c c'
                  | Some (File _ _), _ | _, Some (File _ _) => false
                  | _, _ => true
                  end) (flat before ++ flat after).
  Definition exclude_ok (i : sinput) (o : sobs) : bool := excl_unchanged i (p_ws (i_dst i)) (p_ws (ob_dst o)).

  (* jobs outside the selection are never created or modified *)
  Definition selection_ok (i : sinput) (o : sobs) : bool :=
    match i_entry i, o_selection (i_opts i) with
    | E_project, Some ids =>
        forallb (fun id => str_mem id ids
                           || node_eqb frepr (alookup id (p_ws (i_dst i))) (alookup id (p_ws (ob_dst o))))
                (map fst (p_ws (i_dst i)) ++ map fst (p_ws (ob_dst o)))
    | _, _ => true
    end.

  (* parallel: same destination tree as the sequential run *)
  Definition parallel_ok (c : scase) : bool :=
    let i := c_in c in
    negb (i_parallel i) || o_dry_run (i_opts i)
    || match c_ref c with
       | Some r =>
           if is_none (ob_exn r)
           then is_none (ob_exn (c_obs c)) && proj_eqb frepr (ob_dst r) (ob_dst (c_obs c))
           else negb (is_none (ob_exn (c_obs c)))
       | None => false
       end.

  Definition holds_C15 (c : scase) : bool :=
    dry_ok c && deep_ok (c_in c) (c_obs c) && exclude_ok (c_in c) (c_obs c)
    && selection_ok (c_in c) (c_obs c) && parallel_ok c.
End O15.

(* no open known finding for C15: every defect found (tags 1-9) is repaired in /repo *)

Definition case_C15 := case_sync.
Definition mismatch_C15 (c : case_C15) : bool := mismatch_case c.
(* a dry run changes no file: not its bytes (dry_ok) and not its permission bits (SyncObs.perm_row) *)
Definition violation_C15 (c : case_C15) : bool := negb (holds_C15 (cs_frepr c) (cs_case c) && perm_dry_ok c).
Definition mismatches_C15 (cs : list case_C15) : list N := indices_where mismatch_C15 cs.
Definition violations_C15 (cs : list case_C15) : list N := indices_where violation_C15 cs.
